(* Proofs about Model/Pchip.v at the real-number instance (C20; reused by C22).
   Lemmas are stated for an explicit end-slope limiter (limit_endpoint_src = the source today,
   limit_endpoint_fixed = after the proposed fix of F-11, limit_endpoint_ref = SciPy-style reference),
   never for the switchable alias [limit_endpoint]; Properties/C20.v instantiates them. *)
From Coq Require Import Reals Lra Lia ZArith List Bool Psatz.
From EV Require Import Base.Arith Model.Pchip.
Import ListNotations.
Open Scope R_scope.

(* ======================= part 1 ======================= *)
Notation ar := R_arith.
Notation piece := (Pchip.piece R).
Definition p00 : piece := (0, 0, 0, 0).

(* ---------- strictly increasing knots -------------------------------------------------- *)
Fixpoint incr (xs : list R) : Prop :=
  match xs with
  | x0 :: ((x1 :: _) as t) => x0 < x1 /\ incr t
  | _ => True
  end.

Lemma incr_iff xs : strictly_increasing ar xs = true <-> incr xs.
Proof.
  induction xs as [|x0 [|x1 t] IH]; cbn; try tauto.
  rewrite andb_true_iff, Rltb_true. cbn in IH. tauto.
Qed.

Lemma incr_tl x xs : incr (x :: xs) -> incr xs.
Proof. destruct xs; cbn; tauto. Qed.

Lemma incr_head_le x0 xs i : incr (x0 :: xs) -> (i < length (x0 :: xs))%nat -> x0 <= nth i (x0 :: xs) 0.
Proof.
  revert x0 i. induction xs as [|x1 t IH]; intros x0 i H Hi.
  - cbn in Hi. assert (i = 0%nat) by lia. subst. cbn. lra.
  - destruct i; [cbn; lra|]. destruct H as [H01 H]. change (x0 <= nth i (x1 :: t) 0).
    specialize (IH x1 i H). cbn [length] in *. assert (x1 <= nth i (x1 :: t) 0) by (apply IH; lia). lra.
Qed.

Lemma incr_nth_lt xs i : incr xs -> (S i < length xs)%nat -> nth i xs 0 < nth (S i) xs 0.
Proof.
  revert i. induction xs as [|x0 [|x1 t] IH]; intros i H Hi; cbn in Hi; try lia.
  destruct i.
  - destruct H as [H _]. exact H.
  - destruct H as [_ H]. change (nth i (x1 :: t) 0 < nth (S i) (x1 :: t) 0). apply IH; auto. cbn; lia.
Qed.

(* ---------- list structure of the model ------------------------------------------------- *)
Lemma diffs_length xs : length (diffs ar xs) = pred (length xs).
Proof. induction xs as [|x0 [|x1 t] IH]; cbn in *; auto. Qed.

Lemma diffs_nth xs i : (S i < length xs)%nat -> nth i (diffs ar xs) 0 = nth (S i) xs 0 - nth i xs 0.
Proof.
  revert i. induction xs as [|x0 [|x1 t] IH]; intros i Hi; cbn in Hi; try lia.
  destruct i; [reflexivity|]. change (nth i (diffs ar (x1 :: t)) 0 = nth (S i) (x1 :: t) 0 - nth i (x1 :: t) 0).
  apply IH. cbn; lia.
Qed.

Lemma map2_length (f : R -> R -> R) (l1 l2 : list R) : length (map2 f l1 l2) = Nat.min (length l1) (length l2).
Proof. revert l2; induction l1; destruct l2; cbn; auto. Qed.

Lemma map2_nth (f : R -> R -> R) (l1 l2 : list R) i : (i < length l1)%nat -> (i < length l2)%nat ->
  nth i (map2 f l1 l2) 0 = f (nth i l1 0) (nth i l2 0).
Proof.
  revert l2 i; induction l1; destruct l2; intros i H1 H2; cbn in *; try lia.
  destruct i; auto. apply IHl1; lia.
Qed.

Lemma secants_length ys hs : length ys = S (length hs) -> length (secants ar ys hs) = length hs.
Proof. intros H. unfold secants. rewrite map2_length, diffs_length, H. cbn. lia. Qed.

Lemma secants_nth xs ys i : length ys = length xs -> (S i < length xs)%nat ->
  nth i (secants ar ys (diffs ar xs)) 0 = (nth (S i) ys 0 - nth i ys 0) / (nth (S i) xs 0 - nth i xs 0).
Proof.
  intros HL Hi. unfold secants. rewrite map2_nth by (rewrite diffs_length; lia).
  rewrite !diffs_nth by lia. reflexivity.
Qed.

Lemma coeffs_length ys hs ss dd : length ys = S (length hs) -> length ss = length hs ->
  length dd = S (length hs) -> length (coeffs ar ys hs ss dd) = length hs.
Proof.
  revert ys ss dd. induction hs as [|h hs IH]; intros ys ss dd Hy Hs Hd.
  - destruct ys as [|? [|]], ss, dd as [|? [|]]; cbn in *; try lia; reflexivity.
  - destruct ys as [|y0 ys]; [cbn in Hy; lia|]. destruct ss as [|s ss]; [cbn in Hs; lia|].
    destruct dd as [|d0 [|d1 dd]]; cbn in Hd; try lia.
    cbn [coeffs length]. f_equal. apply IH; cbn in *; lia.
Qed.

Lemma coeffs_nth ys hs ss dd i : (i < length hs)%nat -> length ys = S (length hs) ->
  length ss = length hs -> length dd = S (length hs) ->
  nth i (coeffs ar ys hs ss dd) p00 =
  coeff ar (nth i ys 0) (nth i hs 0) (nth i ss 0) (nth i dd 0) (nth (S i) dd 0).
Proof.
  revert ys ss dd i. induction hs as [|h hs IH]; intros ys ss dd i Hi Hy Hs Hd; [cbn in Hi; lia|].
  destruct ys as [|y0 ys]; [cbn in Hy; lia|]. destruct ss as [|s ss]; [cbn in Hs; lia|].
  destruct dd as [|d0 [|d1 dd]]; cbn in Hd; try lia.
  cbn [coeffs]. destruct i; [reflexivity|].
  cbn [nth]. change (nth i (coeffs ar ys hs ss (d1 :: dd)) p00 =
     coeff ar (nth i ys 0) (nth i hs 0) (nth i ss 0) (nth i (d1 :: dd) 0) (nth (S i) (d1 :: dd) 0)).
  apply IH; cbn in *; lia.
Qed.

(* ---------- piece selection -------------------------------------------------------------- *)
(* eval_pieces uses piece i exactly when x_i <= q < x_{i+1}; first piece left, last piece right *)
Lemma eval_pieces_select xs (ps : list piece) q i : incr xs -> length xs = S (length ps) ->
  (i < length ps)%nat ->
  (i = 0%nat \/ nth i xs 0 <= q) -> (S i = length ps \/ q < nth (S i) xs 0) ->
  eval_pieces ar xs ps q = horner ar (nth i ps p00) (q - nth i xs 0).
Proof.
  revert ps i. induction xs as [|x0 xs IH]; intros ps i Hinc HL Hi Hlo Hhi; [cbn in HL; lia|].
  destruct ps as [|p ps]; [cbn in Hi; lia|].
  destruct xs as [|x1 xs'].
  - cbn in HL. lia.
  - destruct ps as [|p1 ps'].
    + cbn in Hi. assert (i = 0%nat) by lia. subst. reflexivity.
    + cbn [eval_pieces]. change (a_leb ar x1 q) with (Rleb x1 q).
      destruct (Rleb x1 q) eqn:E.
      * apply Rleb_true in E. destruct i.
        { destruct Hhi as [Hhi|Hhi]; [cbn in Hhi; lia| cbn in Hhi; lra]. }
        change (eval_pieces ar (x1 :: xs') (p1 :: ps') q = horner ar (nth i (p1 :: ps') p00) (q - nth i (x1 :: xs') 0)).
        apply IH.
        -- eapply incr_tl; eauto.
        -- cbn in *; lia.
        -- cbn in *; lia.
        -- destruct Hlo as [Hlo|Hlo]; [lia|]. destruct i; [left; auto| right; exact Hlo].
        -- destruct Hhi as [Hhi|Hhi]; [left; cbn in *; lia| right; exact Hhi].
      * apply Rleb_false in E. destruct i; [reflexivity|].
        exfalso. destruct Hlo as [Hlo|Hlo]; [lia|].
        assert (x1 <= nth i (x1 :: xs') 0).
        { apply incr_head_le; [eapply incr_tl; eauto| cbn in *; lia]. }
        change (nth i (x1 :: xs') 0 <= q) in Hlo. lra.
Qed.

Lemma evalD_pieces_select xs (ps : list piece) q i : incr xs -> length xs = S (length ps) ->
  (i < length ps)%nat ->
  (i = 0%nat \/ nth i xs 0 <= q) -> (S i = length ps \/ q < nth (S i) xs 0) ->
  evalD_pieces ar xs ps q = hornerD ar (nth i ps p00) (q - nth i xs 0).
Proof.
  revert ps i. induction xs as [|x0 xs IH]; intros ps i Hinc HL Hi Hlo Hhi; [cbn in HL; lia|].
  destruct ps as [|p ps]; [cbn in Hi; lia|].
  destruct xs as [|x1 xs'].
  - cbn in HL. lia.
  - destruct ps as [|p1 ps'].
    + cbn in Hi. assert (i = 0%nat) by lia. subst. reflexivity.
    + cbn [evalD_pieces]. change (a_leb ar x1 q) with (Rleb x1 q).
      destruct (Rleb x1 q) eqn:E.
      * apply Rleb_true in E. destruct i.
        { destruct Hhi as [Hhi|Hhi]; [cbn in Hhi; lia| cbn in Hhi; lra]. }
        change (evalD_pieces ar (x1 :: xs') (p1 :: ps') q = hornerD ar (nth i (p1 :: ps') p00) (q - nth i (x1 :: xs') 0)).
        apply IH.
        -- eapply incr_tl; eauto.
        -- cbn in *; lia.
        -- cbn in *; lia.
        -- destruct Hlo as [Hlo|Hlo]; [lia|]. destruct i; [left; auto| right; exact Hlo].
        -- destruct Hhi as [Hhi|Hhi]; [left; cbn in *; lia| right; exact Hhi].
      * apply Rleb_false in E. destruct i; [reflexivity|].
        exfalso. destruct Hlo as [Hlo|Hlo]; [lia|].
        assert (x1 <= nth i (x1 :: xs') 0).
        { apply incr_head_le; [eapply incr_tl; eauto| cbn in *; lia]. }
        change (nth i (x1 :: xs') 0 <= q) in Hlo. lra.
Qed.

(* ======================= part 2 ======================= *)
Ltac unf := unfold horner, hornerD, coeff, c0, c1, c2, c3, c6; cbn [a_add a_sub a_mul a_div a_ofZ R_arith].

Lemma horner_coeff_0 y0 h s d0 d1 : horner ar (coeff ar y0 h s d0 d1) 0 = y0.
Proof. unf. ring. Qed.

Lemma horner_coeff_h y0 y1 h d0 d1 : h <> 0 ->
  horner ar (coeff ar y0 h ((y1 - y0) / h) d0 d1) h = y1.
Proof. intros. unf. field. auto. Qed.

Lemma hornerD_coeff_0 y0 h s d0 d1 : hornerD ar (coeff ar y0 h s d0 d1) 0 = d0.
Proof. unf. ring. Qed.

Lemma hornerD_coeff_h y0 h s d0 d1 : h <> 0 -> hornerD ar (coeff ar y0 h s d0 d1) h = d1.
Proof. intros. unf. field. auto. Qed.

Lemma horner_derivable (p : piece) t : derivable_pt_lim (horner ar p) t (hornerD ar p t).
Proof.
  destruct p as [[[p0 p1] p2] p3]. unf.
  replace (p1 + t * (2 * p2 + 3 * p3 * t)) with
    (0 + (1 * (p1 + t * (p2 + t * p3)) + t * (0 + (1 * (p2 + t * p3) + t * (0 + (1 * p3 + t * 0)))))) by ring.
  apply (derivable_pt_lim_plus (fun _ => p0) (fun t => t * (p1 + t * (p2 + t * p3)))).
  - apply derivable_pt_lim_const.
  - apply (derivable_pt_lim_mult (fun t => t) (fun t => p1 + t * (p2 + t * p3))).
    + apply derivable_pt_lim_id.
    + apply (derivable_pt_lim_plus (fun _ => p1) (fun t => t * (p2 + t * p3))).
      * apply derivable_pt_lim_const.
      * apply (derivable_pt_lim_mult (fun t => t) (fun t => p2 + t * p3)).
        -- apply derivable_pt_lim_id.
        -- apply (derivable_pt_lim_plus (fun _ => p2) (fun t => t * p3)).
           ++ apply derivable_pt_lim_const.
           ++ apply (derivable_pt_lim_mult (fun t => t) (fun _ => p3)).
              ** apply derivable_pt_lim_id.
              ** apply derivable_pt_lim_const.
Qed.

(* Simpson's rule is exact for cubics: increments of the piece are averages of its derivative *)
Lemma horner_simpson (p : piece) t1 t2 :
  horner ar p t2 - horner ar p t1 =
  (t2 - t1) / 6 * (hornerD ar p t1 + 4 * hornerD ar p ((t1 + t2) / 2) + hornerD ar p t2).
Proof. destruct p as [[[p0 p1] p2] p3]. unf. field. Qed.

(* Fritsch-Carlson box: the slope d has the sign of the secant s and |d| <= 3|s| (d = 0 if s = 0) *)
Definition in_box (d s : R) : Prop := 0 <= d <= 3 * s \/ 3 * s <= d <= 0.

Lemma in_box_0 s : in_box 0 s.
Proof. unfold in_box. destruct (Rle_dec 0 s); [left|right]; lra. Qed.

Lemma in_box_same d0 d1 s : in_box d0 s -> in_box d1 s ->
  (0 <= d0 <= 3 * s /\ 0 <= d1 <= 3 * s) \/ (3 * s <= d0 <= 0 /\ 3 * s <= d1 <= 0).
Proof. unfold in_box. intros [A|A] [B|B]; [left; lra| left; lra | left; lra | right; lra]. Qed.

Lemma neg_mult a b : a <= 0 -> b <= 0 -> 0 <= a * b.
Proof. intros. replace (a * b) with ((- a) * (- b)) by ring. apply Rmult_le_pos; lra. Qed.

(* closed-form convex-combination identity for the derivative of a Hermite piece *)
Lemma hornerD_identity y0 h s d0 d1 t : h <> 0 ->
  9 * (h * h) * (s * hornerD ar (coeff ar y0 h s d0 d1) t) =
    (3 * s - d0) * (3 * s - d1) * (6 * (t * (h - t)))
  + d0 * (3 * s - d1) * (3 * ((h - t) * (h - t)))
  + (3 * s - d0) * d1 * (3 * (t * t))
  + d0 * d1 * (3 * ((h - 2 * t) * (h - 2 * t))).
Proof. intros. unf. field. auto. Qed.

Lemma hornerD_sign y0 h s d0 d1 t : 0 < h -> in_box d0 s -> in_box d1 s -> 0 <= t <= h ->
  0 <= s * hornerD ar (coeff ar y0 h s d0 d1) t.
Proof.
  intros Hh B0 B1 Ht.
  assert (E := hornerD_identity y0 h s d0 d1 t (Rgt_not_eq _ _ Hh)).
  set (D := s * hornerD ar (coeff ar y0 h s d0 d1) t) in *.
  assert (Q1 : 0 <= 6 * (t * (h - t))) by (apply Rmult_le_pos; [lra| apply Rmult_le_pos; lra]).
  assert (Q2 : 0 <= 3 * ((h - t) * (h - t))) by (apply Rmult_le_pos; [lra| apply Rle_0_sqr]).
  assert (Q3 : 0 <= 3 * (t * t)) by (apply Rmult_le_pos; [lra| apply Rle_0_sqr]).
  assert (Q4 : 0 <= 3 * ((h - 2 * t) * (h - 2 * t))) by (apply Rmult_le_pos; [lra| apply Rle_0_sqr]).
  destruct (in_box_same _ _ _ B0 B1) as [[[A1 A2] [A3 A4]]|[[A1 A2] [A3 A4]]].
  1: assert (P1 : 0 <= (3 * s - d0) * (3 * s - d1)) by (apply Rmult_le_pos; lra).
  1: assert (P2 : 0 <= d0 * (3 * s - d1)) by (apply Rmult_le_pos; lra).
  1: assert (P3 : 0 <= (3 * s - d0) * d1) by (apply Rmult_le_pos; lra).
  1: assert (P4 : 0 <= d0 * d1) by (apply Rmult_le_pos; lra).
  2: assert (P1 : 0 <= (3 * s - d0) * (3 * s - d1)) by (apply neg_mult; lra).
  2: assert (P2 : 0 <= d0 * (3 * s - d1)) by (apply neg_mult; lra).
  2: assert (P3 : 0 <= (3 * s - d0) * d1) by (apply neg_mult; lra).
  2: assert (P4 : 0 <= d0 * d1) by (apply neg_mult; lra).
  all: clear A1 A2 A3 A4.
  all: assert (H9 : 0 <= 9 * (h * h) * D)
    by (rewrite E; repeat apply Rplus_le_le_0_compat; apply Rmult_le_pos; assumption).
  all: assert (Hp : 0 < 9 * (h * h)) by (apply Rmult_lt_0_compat; [lra| apply Rmult_lt_0_compat; lra]).
  all: clear E; destruct (Rle_dec 0 D); auto; exfalso; assert (D < 0) by lra;
       assert (9 * (h * h) * D < 0) by (rewrite <- (Rmult_0_r (9 * (h * h))); apply Rmult_lt_compat_l; lra); lra.
Qed.

Lemma piece_monotone y0 h s d0 d1 t1 t2 : 0 < h -> in_box d0 s -> in_box d1 s ->
  0 <= t1 -> t1 <= t2 -> t2 <= h ->
  0 <= s * (horner ar (coeff ar y0 h s d0 d1) t2 - horner ar (coeff ar y0 h s d0 d1) t1).
Proof.
  intros Hh B0 B1 H1 H12 H2. rewrite horner_simpson.
  set (p := coeff ar y0 h s d0 d1).
  assert (A1 : 0 <= s * hornerD ar p t1) by (apply hornerD_sign; auto; lra).
  assert (A2 : 0 <= s * hornerD ar p ((t1 + t2) / 2)) by (apply hornerD_sign; auto; lra).
  assert (A3 : 0 <= s * hornerD ar p t2) by (apply hornerD_sign; auto; lra).
  replace (s * ((t2 - t1) / 6 * (hornerD ar p t1 + 4 * hornerD ar p ((t1 + t2) / 2) + hornerD ar p t2)))
    with ((t2 - t1) / 6 * (s * hornerD ar p t1 + 4 * (s * hornerD ar p ((t1 + t2) / 2)) + s * hornerD ar p t2)) by ring.
  apply Rmult_le_pos; lra.
Qed.

Lemma piece_between y0 y1 h d0 d1 t : 0 < h ->
  in_box d0 ((y1 - y0) / h) -> in_box d1 ((y1 - y0) / h) -> 0 <= t <= h ->
  Rmin y0 y1 <= horner ar (coeff ar y0 h ((y1 - y0) / h) d0 d1) t <= Rmax y0 y1.
Proof.
  intros Hh B0 B1 Ht. set (s := (y1 - y0) / h) in *. set (p := coeff ar y0 h s d0 d1).
  assert (L := piece_monotone y0 h s d0 d1 0 t Hh B0 B1 (Rle_refl 0) (proj1 Ht) (proj2 Ht)).
  assert (U := piece_monotone y0 h s d0 d1 t h Hh B0 B1 (proj1 Ht) (proj2 Ht) (Rle_refl h)).
  fold p in L, U. unfold p at 2 in L. rewrite horner_coeff_0 in L.
  unfold p at 1 in U. unfold s at 2 in U. rewrite horner_coeff_h in U by lra.
  assert (Hs : y1 - y0 = s * h) by (unfold s; field; lra).
  unfold Rmin, Rmax. destruct (Rle_dec y0 y1) as [Hy|Hy].
  - destruct (Req_dec s 0) as [Z|Z].
    + assert (y1 = y0) by (rewrite Z in Hs; lra). subst y1.
      unfold in_box in B0, B1. rewrite Z in B0, B1.
      assert (d0 = 0) by lra. assert (d1 = 0) by lra. subst d0 d1.
      unfold p. unf. rewrite Z. split; right; field; lra.
    + assert (0 < s) by (destruct (Rlt_dec 0 s); auto; exfalso; nra). split; nra.
  - assert (s < 0) by (destruct (Rlt_dec s 0); auto; exfalso; nra). split; nra.
Qed.

(* ======================= part 3 ======================= *)
Ltac unfs := unfold whm, endpoint_slope, interior_slope, limit_endpoint_src, limit_endpoint_ref,
  limit_endpoint_fixed, a_neqb, a_sign, c0, c1, c2, c3;
  cbn [a_add a_sub a_mul a_div a_ofZ a_ltb a_leb a_eqb a_abs R_arith].

Lemma in_box_opp d s : in_box (- d) (- s) <-> in_box d s.
Proof. unfold in_box. lra. Qed.

(* the two ways of writing the sign tests agree over R *)
Ltac rl := repeat match goal with |- context [Rltb ?a ?b] =>
  first [ rewrite (proj2 (Rltb_true a b)) by nra | rewrite (proj2 (Rltb_false a b)) by nra ] end.
Lemma sign_mul_pos a b : Rltb 0 (a_sign ar a * a_sign ar b) = Rltb 0 (a * b).
Proof.
  unfold a_sign, c0, c1. cbn [a_sub a_ltb a_ofZ R_arith].
  destruct (Rtotal_order a 0) as [A|[A|A]], (Rtotal_order b 0) as [B|[B|B]]; try subst a; try subst b;
    rewrite ?Rmult_0_l, ?Rmult_0_r; rl; reflexivity.
Qed.
Lemma sign_mul_neg a b : Rltb (a_sign ar a * a_sign ar b) 0 = Rltb (a * b) 0.
Proof.
  unfold a_sign, c0, c1. cbn [a_sub a_ltb a_ofZ R_arith].
  destruct (Rtotal_order a 0) as [A|[A|A]], (Rtotal_order b 0) as [B|[B|B]]; try subst a; try subst b;
    rewrite ?Rmult_0_l, ?Rmult_0_r; rl; reflexivity.
Qed.
Lemma same_sign_mask_v2_R dl dr : same_sign_mask_v2 ar dl dr = Rltb 0 (dl * dr).
Proof. apply sign_mul_pos. Qed.
Lemma opp_sign_mask_v2_R sl sr : opp_sign_mask_v2 ar sl sr = Rltb (sl * sr) 0.
Proof. apply sign_mul_neg. Qed.
(* robust to the switch of the aliases in Model/Pchip.v *)
Lemma same_sign_mask_R dl dr : same_sign_mask ar dl dr = Rltb 0 (dl * dr).
Proof. first [reflexivity | apply sign_mul_pos]. Qed.
Lemma opp_sign_mask_R sl sr : opp_sign_mask ar sl sr = Rltb (sl * sr) 0.
Proof. first [reflexivity | apply sign_mul_neg]. Qed.

(* ---------- interior slope (weighted harmonic mean) ------------------------------------ *)
Lemma whm_opp dl dr hl hr : dl <> 0 -> dr <> 0 ->
  (hl + 2 * hr) * dr + (2 * hl + hr) * dl <> 0 ->
  whm ar (- dl) (- dr) hl hr = - whm ar dl dr hl hr.
Proof.
  intros. unfs. field. repeat split; auto. lra.
Qed.

Lemma whm_box_pos dl dr hl hr : 0 < hl -> 0 < hr -> 0 < dl -> 0 < dr ->
  in_box (whm ar dl dr hl hr) dl /\ in_box (whm ar dl dr hl hr) dr.
Proof.
  intros Hl Hr Dl Dr. unfs.
  set (wl := hl + 2 * hr). set (wr := 2 * hl + hr).
  assert (0 < wl) by (unfold wl; lra). assert (0 < wr) by (unfold wr; lra).
  assert (A1 : 0 < wl / dl) by (apply Rdiv_lt_0_compat; lra).
  assert (A2 : 0 < wr / dr) by (apply Rdiv_lt_0_compat; lra).
  set (D := wl / dl + wr / dr). assert (HD : 0 < D) by (unfold D; lra).
  set (w := (wl + wr) / D).
  assert (Hw : w * D = wl + wr) by (unfold w; field; lra).
  assert (Hw0 : 0 < w) by (unfold w; apply Rdiv_lt_0_compat; lra).
  assert (E1 : dl * D = wl + dl * (wr / dr)) by (unfold D; field; lra).
  assert (E2 : dr * D = dr * (wl / dl) + wr) by (unfold D; field; lra).
  assert (0 < dl * (wr / dr)) by (apply Rmult_lt_0_compat; lra).
  assert (0 < dr * (wl / dl)) by (apply Rmult_lt_0_compat; lra).
  assert (wr <= 2 * wl) by (unfold wl, wr; lra). assert (wl <= 2 * wr) by (unfold wl, wr; lra).
  assert (B1 : (3 * dl - w) * D >= 0) by lra.
  assert (B2 : (3 * dr - w) * D >= 0) by lra.
  assert (w <= 3 * dl) by (destruct (Rle_dec w (3 * dl)); auto; exfalso; assert (3 * dl - w < 0) by lra; nra).
  assert (w <= 3 * dr) by (destruct (Rle_dec w (3 * dr)); auto; exfalso; assert (3 * dr - w < 0) by lra; nra).
  unfold in_box. split; left; lra.
Qed.

Lemma interior_slope_box dl dr hl hr : 0 < hl -> 0 < hr ->
  in_box (interior_slope ar dl dr hl hr) dl /\ in_box (interior_slope ar dl dr hl hr) dr.
Proof.
  intros Hl Hr. unfold interior_slope. rewrite same_sign_mask_R.
  destruct (Rltb 0 (dl * dr)) eqn:E.
  - apply Rltb_true in E. destruct (Rlt_dec 0 dl) as [P|P].
    + assert (0 < dr) by nra. apply whm_box_pos; auto.
    + assert (dl <> 0) by (intro Z; rewrite Z, Rmult_0_l in E; lra).
      assert (dl < 0) by lra. assert (dr < 0) by nra.
      destruct (whm_box_pos (- dl) (- dr) hl hr) as [A B]; try lra.
      assert (Q1 : 0 < (hl + 2 * hr) * - dr) by (apply Rmult_lt_0_compat; lra).
      assert (Q2 : 0 < (2 * hl + hr) * - dl) by (apply Rmult_lt_0_compat; lra).
      rewrite whm_opp in A, B; try lra.
      split; apply in_box_opp; assumption.
  - split; apply in_box_0.
Qed.

(* ---------- sign comparison ------------------------------------------------------------- *)
Definition same_sign (a b : R) : Prop := (0 < a /\ 0 < b) \/ (a < 0 /\ b < 0) \/ (a = 0 /\ b = 0).

Lemma sign_neqb_false a b : a_neqb ar (a_sign ar a) (a_sign ar b) = false <-> same_sign a b.
Proof.
  unfs. unfold same_sign. rewrite negb_false_iff, Reqb_true.
  destruct (Rltb 0 a) eqn:A1; destruct (Rltb a 0) eqn:A2; destruct (Rltb 0 b) eqn:B1; destruct (Rltb b 0) eqn:B2;
  rewrite ?Rltb_true, ?Rltb_false in *; split; intros; lra.
Qed.

Lemma sign_neqb_true a b : a_neqb ar (a_sign ar a) (a_sign ar b) = true <-> ~ same_sign a b.
Proof. rewrite <- sign_neqb_false. destruct (a_neqb ar (a_sign ar a) (a_sign ar b)); split; intros; congruence. Qed.

(* ---------- end slopes ------------------------------------------------------------------- *)
Lemma endpoint_slope_eq sl sr hl hr : 0 < hl -> 0 < hr ->
  endpoint_slope ar sl sr hl hr * (hl + hr) = (2 * hl + hr) * sl - hl * sr.
Proof. intros. unfs. field. lra. Qed.

Lemma Rabs_cases x : (0 <= x /\ Rabs x = x) \/ (x < 0 /\ Rabs x = - x).
Proof. destruct (Rle_dec 0 x); [left; split; auto; apply Rabs_right; lra| right; split; [lra| apply Rabs_left; lra]]. Qed.

Lemma ref_end_box sl sr hl hr : 0 < hl -> 0 < hr ->
  in_box (limit_endpoint_ref ar (endpoint_slope ar sl sr hl hr) sl sr) sl.
Proof.
  intros Hl Hr. assert (E := endpoint_slope_eq sl sr hl hr Hl Hr).
  set (d := endpoint_slope ar sl sr hl hr) in *. unfold limit_endpoint_ref.
  destruct (a_neqb ar (a_sign ar d) (a_sign ar sl)) eqn:S1; [apply in_box_0|].
  apply sign_neqb_false in S1.
  destruct (a_neqb ar (a_sign ar sl) (a_sign ar sr)) eqn:S2.
  - cbn [andb a_ltb a_mul a_abs R_arith]. change (c3 ar) with 3.
    destruct (Rltb (3 * Rabs sl) (Rabs d)) eqn:C.
    + unfold in_box. destruct (Rle_dec 0 sl); [left|right]; lra.
    + apply Rltb_false in C. unfold in_box, same_sign in *.
      destruct (Rabs_cases sl) as [[? Q]|[? Q]], (Rabs_cases d) as [[? Q']|[? Q']]; rewrite Q, Q' in C; lra.
  - cbn [andb]. apply sign_neqb_false in S2. unfold in_box, same_sign in *.
    destruct S1 as [[? ?]|[[? ?]|[? ?]]]; destruct S2 as [[? ?]|[[? ?]|[? ?]]]; try lra.
    + left. split; [lra|]. assert (d * (hl + hr) <= 3 * sl * (hl + hr)) by nra.
      apply Rmult_le_reg_r with (hl + hr); lra.
    + right. split; [|lra]. assert (3 * sl * (hl + hr) <= d * (hl + hr)) by nra.
      apply Rmult_le_reg_r with (hl + hr); lra.
Qed.

(* the limiter of the source agrees with the reference unless the end secant is flat while
   the next one is not; the fixed limiter always agrees *)
Lemma src_limit_eq_ref sl sr hl hr : 0 < hl -> 0 < hr -> (sl <> 0 \/ sr = 0) ->
  limit_endpoint_src ar (endpoint_slope ar sl sr hl hr) sl sr =
  limit_endpoint_ref ar (endpoint_slope ar sl sr hl hr) sl sr.
Proof.
  intros Hl Hr Hc. assert (E := endpoint_slope_eq sl sr hl hr Hl Hr).
  assert (Hpos : 0 < hl + hr) by lra.
  set (d := endpoint_slope ar sl sr hl hr) in *. unfold limit_endpoint_src, limit_endpoint_ref. rewrite opp_sign_mask_R.
  cbn [a_ltb a_mul a_abs R_arith]. change (c3 ar) with 3. change (c0 ar) with 0.
  destruct (a_neqb ar (a_sign ar d) (a_sign ar sl)) eqn:S1.
  - apply sign_neqb_true in S1. unfold same_sign in S1.
    destruct (Rltb (d * sl) 0) eqn:M1.
    + rewrite Rabs_R0. destruct (Rltb (sl * sr) 0); cbn [andb]; auto.
      destruct (Rltb (3 * Rabs sl) 0) eqn:C; auto. apply Rltb_true in C. pose proof (Rabs_pos sl). lra.
    + apply Rltb_false in M1.
      (* d*sl >= 0 and signs differ: one of them is 0 *)
      assert (Z : d = 0 \/ sl = 0).
      { destruct (Req_dec d 0); auto. destruct (Req_dec sl 0); auto. exfalso. apply S1.
        destruct (Rlt_dec 0 d), (Rlt_dec 0 sl); [left; lra| | |right; left; lra].
        - assert (sl < 0) by lra. nra.
        - assert (d < 0) by lra. nra. }
      destruct Z as [Z|Z].
      * rewrite Z, Rabs_R0. destruct (Rltb (sl * sr) 0); cbn [andb]; auto.
        destruct (Rltb (3 * Rabs sl) 0) eqn:C; auto. apply Rltb_true in C. pose proof (Rabs_pos sl). lra.
      * (* sl = 0: then sr = 0 by the side condition, hence d = 0 *)
        destruct Hc as [Hc|Hc]; [contradiction|]. subst sl sr.
        assert (d = 0) by (apply Rmult_eq_reg_r with (hl + hr); lra).
        exfalso. apply S1. right; right; split; auto.
  - apply sign_neqb_false in S1.
    assert (M1 : Rltb (d * sl) 0 = false).
    { apply Rltb_false. destruct S1 as [[? ?]|[[? ?]|[? ?]]]; nra. }
    rewrite M1.
    destruct (Rltb (sl * sr) 0) eqn:M2.
    + apply Rltb_true in M2.
      assert (S2 : a_neqb ar (a_sign ar sl) (a_sign ar sr) = true).
      { apply sign_neqb_true. unfold same_sign. intros [[? ?]|[[? ?]|[? ?]]]; nra. }
      rewrite S2. reflexivity.
    + apply Rltb_false in M2. cbn [andb].
      destruct (a_neqb ar (a_sign ar sl) (a_sign ar sr)) eqn:S2; cbn [andb]; auto.
      destruct (Rltb (3 * Rabs sl) (Rabs d)) eqn:C; auto. exfalso.
      apply Rltb_true in C. apply sign_neqb_true in S2.
      (* signs of sl, sr differ but sl*sr >= 0: one of them is 0 *)
      unfold same_sign in *.
      destruct (Req_dec sl 0) as [Zl|Zl].
      * destruct S1 as [[? ?]|[[? ?]|[Hd0 Hs0]]]; try lra; rewrite Hd0, Hs0, !Rabs_R0 in C; lra.
      * assert (sr = 0).
        { destruct (Req_dec sr 0); auto. exfalso. apply S2.
          destruct (Rlt_dec 0 sl), (Rlt_dec 0 sr); [left; lra| | |right; left; lra].
          - assert (sr < 0) by lra. nra.
          - assert (sl < 0) by lra. nra. }
        subst sr. rewrite Rmult_0_r, Rminus_0_r in E.
        destruct (Rabs_cases sl) as [[? Q]|[? Q]], (Rabs_cases d) as [[? Q']|[? Q']]; rewrite Q, Q' in C.
        -- assert (d * (hl + hr) <= 2 * sl * (hl + hr)) by nra. nra.
        -- destruct S1 as [[? ?]|[[? ?]|[? ?]]]; lra.
        -- destruct S1 as [[? ?]|[[? ?]|[? ?]]]; lra.
        -- assert (2 * sl * (hl + hr) <= d * (hl + hr)) by nra. nra.
Qed.

Lemma fixed_limit_eq_ref sl sr hl hr : 0 < hl -> 0 < hr ->
  limit_endpoint_fixed ar (endpoint_slope ar sl sr hl hr) sl sr =
  limit_endpoint_ref ar (endpoint_slope ar sl sr hl hr) sl sr.
Proof.
  intros Hl Hr. assert (E := endpoint_slope_eq sl sr hl hr Hl Hr).
  assert (Hpos : 0 < hl + hr) by lra.
  set (d := endpoint_slope ar sl sr hl hr) in *. unfold limit_endpoint_fixed, limit_endpoint_ref. rewrite opp_sign_mask_R.
  cbn [a_ltb a_mul a_abs R_arith]. change (c3 ar) with 3. change (c0 ar) with 0.
  destruct (a_neqb ar (a_sign ar d) (a_sign ar sl)) eqn:S1.
  - rewrite Rabs_R0. destruct (Rltb (sl * sr) 0); cbn [andb]; auto.
    destruct (Rltb (3 * Rabs sl) 0) eqn:C; auto. apply Rltb_true in C. pose proof (Rabs_pos sl). lra.
  - apply sign_neqb_false in S1.
    destruct (Rltb (sl * sr) 0) eqn:M2.
    + apply Rltb_true in M2.
      assert (S2 : a_neqb ar (a_sign ar sl) (a_sign ar sr) = true).
      { apply sign_neqb_true. unfold same_sign. intros [[? ?]|[[? ?]|[? ?]]]; nra. }
      rewrite S2. reflexivity.
    + apply Rltb_false in M2. cbn [andb].
      destruct (a_neqb ar (a_sign ar sl) (a_sign ar sr)) eqn:S2; cbn [andb]; auto.
      destruct (Rltb (3 * Rabs sl) (Rabs d)) eqn:C; auto. exfalso.
      apply Rltb_true in C. apply sign_neqb_true in S2.
      unfold same_sign in *.
      destruct (Req_dec sl 0) as [Zl|Zl].
      * destruct S1 as [[? ?]|[[? ?]|[Hd0 Hs0]]]; try lra; rewrite Hd0, Hs0, !Rabs_R0 in C; lra.
      * assert (sr = 0).
        { destruct (Req_dec sr 0); auto. exfalso. apply S2.
          destruct (Rlt_dec 0 sl), (Rlt_dec 0 sr); [left; lra| | |right; left; lra].
          - assert (sr < 0) by lra. nra.
          - assert (sl < 0) by lra. nra. }
        subst sr. rewrite Rmult_0_r, Rminus_0_r in E.
        destruct (Rabs_cases sl) as [[? Q]|[? Q]], (Rabs_cases d) as [[? Q']|[? Q']]; rewrite Q, Q' in C.
        -- assert (d * (hl + hr) <= 2 * sl * (hl + hr)) by nra. nra.
        -- destruct S1 as [[? ?]|[[? ?]|[? ?]]]; lra.
        -- destruct S1 as [[? ?]|[[? ?]|[? ?]]]; lra.
        -- assert (2 * sl * (hl + hr) <= d * (hl + hr)) by nra. nra.
Qed.

(* ======================= part 4 ======================= *)
Definition allpos (hs : list R) : Prop := forall i, (i < length hs)%nat -> 0 < nth i hs 0.

Lemma diffs_pos xs : incr xs -> allpos (diffs ar xs).
Proof.
  intros H i Hi. rewrite diffs_length in Hi. rewrite diffs_nth by lia.
  assert (nth i xs 0 < nth (S i) xs 0) by (apply incr_nth_lt; auto; lia). lra.
Qed.

(* ---------- structure of the derivative vector ------------------------------------------- *)
Lemma interior_length (hs ss : list R) : length ss = length hs ->
  length (interior ar hs ss) = pred (length hs).
Proof.
  revert ss. induction hs as [|h0 [|h1 hs] IH]; intros ss HL.
  - destruct ss; reflexivity.
  - destruct ss as [|? [|? ?]]; reflexivity.
  - destruct ss as [|s0 [|s1 ss]]; cbn in HL; try lia.
    change (interior ar (h0 :: h1 :: hs) (s0 :: s1 :: ss)) with
      (interior_slope ar s0 s1 h0 h1 :: interior ar (h1 :: hs) (s1 :: ss)).
    cbn [length pred]. rewrite (IH (s1 :: ss)) by (cbn; lia). reflexivity.
Qed.

Lemma interior_nth (hs ss : list R) i : length ss = length hs -> (S i < length hs)%nat ->
  nth i (interior ar hs ss) 0 =
  interior_slope ar (nth i ss 0) (nth (S i) ss 0) (nth i hs 0) (nth (S i) hs 0).
Proof.
  revert ss i. induction hs as [|h0 [|h1 hs] IH]; intros ss i HL Hi; cbn in Hi; try lia.
  destruct ss as [|s0 [|s1 ss]]; cbn in HL; try lia.
  change (interior ar (h0 :: h1 :: hs) (s0 :: s1 :: ss)) with
      (interior_slope ar s0 s1 h0 h1 :: interior ar (h1 :: hs) (s1 :: ss)).
  destruct i; [reflexivity|].
  change (nth i (interior ar (h1 :: hs) (s1 :: ss)) 0 =
    interior_slope ar (nth i (s1 :: ss) 0) (nth (S i) (s1 :: ss) 0) (nth i (h1 :: hs) 0) (nth (S i) (h1 :: hs) 0)).
  apply IH; cbn; lia.
Qed.

Lemma end_slope_nth lim (hs ss : list R) : length ss = length hs -> (2 <= length hs)%nat ->
  end_slope ar lim hs ss =
  lim (endpoint_slope ar (nth 0 ss 0) (nth 1 ss 0) (nth 0 hs 0) (nth 1 hs 0)) (nth 0 ss 0) (nth 1 ss 0).
Proof.
  intros HL H2. destruct hs as [|h0 [|h1 hs]]; cbn in H2; try lia.
  destruct ss as [|s0 [|s1 ss]]; cbn in HL; try lia. reflexivity.
Qed.

Lemma end_slope_rev lim (hs ss : list R) : length ss = length hs -> (2 <= length hs)%nat ->
  let m := length hs in
  end_slope ar lim (rev hs) (rev ss) =
  lim (endpoint_slope ar (nth (m - 1) ss 0) (nth (m - 2) ss 0) (nth (m - 1) hs 0) (nth (m - 2) hs 0))
      (nth (m - 1) ss 0) (nth (m - 2) ss 0).
Proof.
  intros HL H2 m. rewrite end_slope_nth by (rewrite !rev_length; lia).
  rewrite !rev_nth by lia. rewrite HL. fold m.
  replace (m - 1)%nat with (m - 1)%nat by lia.
  replace (m - 2)%nat with (m - 2)%nat by lia. reflexivity.
Qed.

Lemma derivs_length lim (hs ss : list R) : length ss = length hs -> (1 <= length hs)%nat ->
  length (derivs_with ar lim hs ss) = S (length hs).
Proof.
  intros HL H1. unfold derivs_with. destruct ss as [|s0 [|s1 ss]].
  - cbn in HL; lia.
  - cbn in *. lia.
  - cbn [length]. rewrite app_length, interior_length by auto. cbn in *. lia.
Qed.

Lemma derivs_one lim h s : derivs_with ar lim [h] [s] = [s; s].
Proof. reflexivity. Qed.

Lemma derivs_nth_first lim (hs ss : list R) : length ss = length hs -> (2 <= length hs)%nat ->
  nth 0 (derivs_with ar lim hs ss) 0 = end_slope ar lim hs ss.
Proof.
  intros HL H2. unfold derivs_with. destruct ss as [|s0 [|s1 ss]]; cbn in HL; try lia; reflexivity.
Qed.

Lemma derivs_nth_last lim (hs ss : list R) : length ss = length hs -> (2 <= length hs)%nat ->
  nth (length hs) (derivs_with ar lim hs ss) 0 = end_slope ar lim (rev hs) (rev ss).
Proof.
  intros HL H2. unfold derivs_with. destruct ss as [|s0 [|s1 ss]]; try (cbn in HL; lia).
  assert (IL := interior_length hs (s0 :: s1 :: ss) HL).
  set (I := interior ar hs (s0 :: s1 :: ss)) in *.
  assert (E : length hs = S (length I)) by lia. rewrite E at 1. cbn [nth].
  rewrite app_nth2 by lia. rewrite Nat.sub_diag. reflexivity.
Qed.

Lemma derivs_nth_interior lim (hs ss : list R) k : length ss = length hs ->
  (1 <= k)%nat -> (k < length hs)%nat ->
  nth k (derivs_with ar lim hs ss) 0 =
  interior_slope ar (nth (k - 1) ss 0) (nth k ss 0) (nth (k - 1) hs 0) (nth k hs 0).
Proof.
  intros HL H1 Hk. unfold derivs_with. destruct ss as [|s0 [|s1 ss]]; try (cbn in HL; lia).
  assert (IL := interior_length hs (s0 :: s1 :: ss) HL).
  destruct k as [|k]; [lia|]. cbn [nth].
  rewrite app_nth1 by lia.
  rewrite interior_nth by (auto; lia). replace (S k - 1)%nat with k by lia. reflexivity.
Qed.

Lemma derivs_with_ext lim1 lim2 (hs ss : list R) :
  end_slope ar lim1 hs ss = end_slope ar lim2 hs ss ->
  end_slope ar lim1 (rev hs) (rev ss) = end_slope ar lim2 (rev hs) (rev ss) ->
  derivs_with ar lim1 hs ss = derivs_with ar lim2 hs ss.
Proof. intros E1 E2. unfold derivs_with. destruct ss as [|s0 [|s1 ss]]; auto. rewrite E1, E2. reflexivity. Qed.

(* ---------- Fritsch-Carlson box ----------------------------------------------------------- *)
Definition boxed (ss dd : list R) : Prop :=
  forall i, (i < length ss)%nat -> in_box (nth i dd 0) (nth i ss 0) /\ in_box (nth (S i) dd 0) (nth i ss 0).

Lemma in_box_refl s : in_box s s.
Proof. unfold in_box. destruct (Rle_dec 0 s); [left|right]; lra. Qed.

(* interior knots: any limiter *)
Lemma interior_knots_boxed lim (hs ss : list R) k : allpos hs -> length ss = length hs ->
  (1 <= k)%nat -> (k < length hs)%nat ->
  in_box (nth k (derivs_with ar lim hs ss) 0) (nth (k - 1) ss 0) /\
  in_box (nth k (derivs_with ar lim hs ss) 0) (nth k ss 0).
Proof.
  intros Hp HL H1 Hk. rewrite derivs_nth_interior by auto.
  apply interior_slope_box; apply Hp; lia.
Qed.

Lemma boxed_gen lim (hs ss : list R) : allpos hs -> length ss = length hs -> (1 <= length hs)%nat ->
  ((2 <= length hs)%nat -> in_box (end_slope ar lim hs ss) (nth 0 ss 0)) ->
  ((2 <= length hs)%nat -> in_box (end_slope ar lim (rev hs) (rev ss)) (nth (length hs - 1) ss 0)) ->
  boxed ss (derivs_with ar lim hs ss).
Proof.
  intros Hp HL H1 E0 E1 i Hi. rewrite HL in Hi.
  destruct (Nat.eq_dec (length hs) 1) as [One|Many].
  - destruct hs as [|h [|]]; cbn in One; try lia. destruct ss as [|s [|]]; cbn in HL; try lia.
    assert (i = 0%nat) by (cbn in Hi; lia). subst. cbn. split; apply in_box_refl.
  - assert (H2 : (2 <= length hs)%nat) by lia. split.
    + destruct i.
      * rewrite derivs_nth_first by auto. auto.
      * apply (interior_knots_boxed lim hs ss (S i)); auto; lia.
    + destruct (Nat.eq_dec (S i) (length hs)) as [L|L].
      * rewrite L, derivs_nth_last by auto. replace i with (length hs - 1)%nat by lia. auto.
      * replace i with (S i - 1)%nat at 2 by lia. apply (interior_knots_boxed lim hs ss (S i)); auto; lia.
Qed.

Lemma ref_boxed (hs ss : list R) : allpos hs -> length ss = length hs -> (1 <= length hs)%nat ->
  boxed ss (ref_derivs ar hs ss).
Proof.
  intros Hp HL H1. apply boxed_gen; auto; intros H2.
  - rewrite end_slope_nth by auto. apply ref_end_box; apply Hp; lia.
  - rewrite end_slope_rev by auto. apply ref_end_box; apply Hp; lia.
Qed.

(* the fixed limiter gives the reference slopes; the source's limiter does when no end interval is
   flat next to a non-flat one *)
Lemma fixed_derivs_eq_ref (hs ss : list R) : allpos hs -> length ss = length hs ->
  derivs_with ar (limit_endpoint_fixed ar) hs ss = ref_derivs ar hs ss.
Proof.
  intros Hp HL. unfold ref_derivs.
  destruct (le_lt_dec 2 (length hs)) as [H2|H2].
  - apply derivs_with_ext.
    + rewrite !end_slope_nth by auto. apply fixed_limit_eq_ref; apply Hp; lia.
    + rewrite !end_slope_rev by auto. apply fixed_limit_eq_ref; apply Hp; lia.
  - destruct hs as [|h [|]]; cbn in H2; try lia; destruct ss as [|s [|]]; cbn in HL; try lia; reflexivity.
Qed.

Definition ends_regular (ss : list R) : Prop :=
  let m := length ss in
  (nth 0 ss 0 <> 0 \/ nth 1 ss 0 = 0) /\ (nth (m - 1) ss 0 <> 0 \/ nth (m - 2) ss 0 = 0).

Lemma src_derivs_eq_ref (hs ss : list R) : allpos hs -> length ss = length hs -> ends_regular ss ->
  derivs_with ar (limit_endpoint_src ar) hs ss = ref_derivs ar hs ss.
Proof.
  intros Hp HL [R0 R1]. unfold ref_derivs. rewrite HL in R1.
  destruct (le_lt_dec 2 (length hs)) as [H2|H2].
  - apply derivs_with_ext.
    + rewrite !end_slope_nth by auto. apply src_limit_eq_ref; auto; apply Hp; lia.
    + rewrite !end_slope_rev by auto. apply src_limit_eq_ref; auto; apply Hp; lia.
  - destruct hs as [|h [|]]; cbn in H2; try lia; destruct ss as [|s [|]]; cbn in HL; try lia; reflexivity.
Qed.

(* ======================= part 5 ======================= *)
(* the interpolant with an arbitrary limiter / the piece of interval i *)
Definition evalL lim (xs ys : list R) (q : R) : R := eval_pieces ar xs (pchip_coeffs_with ar lim xs ys) q.
Definition evalDL lim (xs ys : list R) (q : R) : R := evalD_pieces ar xs (pchip_coeffs_with ar lim xs ys) q.
Definition slopesL lim (xs ys : list R) : list R :=
  derivs_with ar lim (diffs ar xs) (secants ar ys (diffs ar xs)).
Definition secant_i (xs ys : list R) i : R :=
  (nth (S i) ys 0 - nth i ys 0) / (nth (S i) xs 0 - nth i xs 0).
Definition piece_i lim (xs ys : list R) i : piece :=
  coeff ar (nth i ys 0) (nth (S i) xs 0 - nth i xs 0) (secant_i xs ys i)
        (nth i (slopesL lim xs ys) 0) (nth (S i) (slopesL lim xs ys) 0).

Section Gen.
Variable lim : R -> R -> R -> R.
Variables xs ys : list R.
Hypothesis Hinc : incr xs.
Hypothesis HL : length ys = length xs.
Hypothesis H2 : (2 <= length xs)%nat.

Let hs := diffs ar xs.
Let ss := secants ar ys hs.
Let dd := derivs_with ar lim hs ss.
Let ps := pchip_coeffs_with ar lim xs ys.

Lemma g_len_hs : length hs = pred (length xs). Proof. apply diffs_length. Qed.
Lemma g_len_ss : length ss = length hs.
Proof. apply secants_length. rewrite g_len_hs. lia. Qed.
Lemma g_len_dd : length dd = S (length hs).
Proof. apply derivs_length; [apply g_len_ss| rewrite g_len_hs; lia]. Qed.
Lemma g_len_ps : length ps = length hs.
Proof. apply coeffs_length; [rewrite g_len_hs; lia| apply g_len_ss| apply g_len_dd]. Qed.

Lemma g_piece i : (S i < length xs)%nat -> nth i ps p00 = piece_i lim xs ys i.
Proof.
  intros Hi. unfold ps, pchip_coeffs_with. fold hs ss dd.
  rewrite coeffs_nth; [| rewrite g_len_hs; lia | rewrite g_len_hs; lia | apply g_len_ss | apply g_len_dd].
  unfold piece_i, secant_i, slopesL. fold hs ss dd. unfold hs at 1. rewrite diffs_nth by lia.
  unfold ss at 1, hs at 1. rewrite secants_nth by (auto; lia). reflexivity.
Qed.

(* piecewise representation, half-open intervals, end pieces extended *)
Lemma g_select q i : (S i < length xs)%nat ->
  (i = 0%nat \/ nth i xs 0 <= q) -> (S (S i) = length xs \/ q < nth (S i) xs 0) ->
  evalL lim xs ys q = horner ar (piece_i lim xs ys i) (q - nth i xs 0) /\
  evalDL lim xs ys q = hornerD ar (piece_i lim xs ys i) (q - nth i xs 0).
Proof.
  intros Hi Hlo Hhi. rewrite <- g_piece by auto. unfold evalL, evalDL. fold ps.
  assert (Lp := g_len_ps). assert (Lh := g_len_hs).
  assert (Hhi' : S i = length ps \/ q < nth (S i) xs 0) by (destruct Hhi; [left; lia| right; auto]).
  split; [apply eval_pieces_select | apply evalD_pieces_select]; auto; lia.
Qed.

(* exact at the knots *)
Lemma g_interpolates i : (i < length xs)%nat -> evalL lim xs ys (nth i xs 0) = nth i ys 0.
Proof.
  intros Hi. destruct (Nat.eq_dec (S i) (length xs)) as [Last|NL].
  - destruct i as [|j]; [lia|].
    destruct (g_select (nth (S j) xs 0) j) as [E _]; [lia| | left; lia |].
    + destruct j; [left; auto| right]. apply Rlt_le, incr_nth_lt; auto; lia.
    + rewrite E. unfold piece_i, secant_i. apply horner_coeff_h.
      assert (nth j xs 0 < nth (S j) xs 0) by (apply incr_nth_lt; auto; lia). lra.
  - destruct (g_select (nth i xs 0) i) as [E _]; [lia| right; lra | |].
    + right. apply incr_nth_lt; auto; lia.
    + rewrite E, Rminus_diag_eq by reflexivity. apply horner_coeff_0.
Qed.

(* closed interval i: the interpolant is piece i (also at the right end) *)
Lemma g_closed q i : (S i < length xs)%nat -> nth i xs 0 <= q <= nth (S i) xs 0 ->
  evalL lim xs ys q = horner ar (piece_i lim xs ys i) (q - nth i xs 0).
Proof.
  intros Hi [Hlo Hhi]. destruct (Rle_lt_or_eq_dec _ _ Hhi) as [Lt|Eq].
  - apply g_select; auto.
  - rewrite Eq, g_interpolates by lia. unfold piece_i, secant_i. symmetry. apply horner_coeff_h.
    assert (nth i xs 0 < nth (S i) xs 0) by (apply incr_nth_lt; auto; lia). lra.
Qed.

(* C1 at interior knots: both adjacent cubics have value y_k and derivative d_k at x_k *)
Lemma g_C1 k : (1 <= k)%nat -> (S k < length xs)%nat ->
  let h := nth k xs 0 - nth (k - 1) xs 0 in
  horner ar (piece_i lim xs ys (k - 1)) h = nth k ys 0 /\
  horner ar (piece_i lim xs ys k) 0 = nth k ys 0 /\
  hornerD ar (piece_i lim xs ys (k - 1)) h = nth k (slopesL lim xs ys) 0 /\
  hornerD ar (piece_i lim xs ys k) 0 = nth k (slopesL lim xs ys) 0.
Proof.
  intros H1 Hk. destruct k as [|j]; [lia|]. replace (S j - 1)%nat with j by lia. intros h.
  assert (nth j xs 0 < nth (S j) xs 0) by (apply incr_nth_lt; auto; lia).
  unfold piece_i, secant_i, h. repeat split.
  - apply horner_coeff_h. lra.
  - apply horner_coeff_0.
  - apply hornerD_coeff_h. lra.
  - apply hornerD_coeff_0.
Qed.

(* shape preservation on interval i, given the Fritsch-Carlson box on that interval *)
Lemma g_shape i : (S i < length xs)%nat ->
  in_box (nth i (slopesL lim xs ys) 0) (secant_i xs ys i) ->
  in_box (nth (S i) (slopesL lim xs ys) 0) (secant_i xs ys i) ->
  (forall q, nth i xs 0 <= q <= nth (S i) xs 0 ->
     Rmin (nth i ys 0) (nth (S i) ys 0) <= evalL lim xs ys q <= Rmax (nth i ys 0) (nth (S i) ys 0)) /\
  (forall q1 q2, nth i xs 0 <= q1 -> q1 <= q2 -> q2 <= nth (S i) xs 0 ->
     0 <= secant_i xs ys i * (evalL lim xs ys q2 - evalL lim xs ys q1)).
Proof.
  intros Hi B0 B1.
  assert (Hh : nth i xs 0 < nth (S i) xs 0) by (apply incr_nth_lt; auto; lia).
  split.
  - intros q Hq. rewrite (g_closed q i) by auto. unfold piece_i, secant_i in *.
    apply piece_between; auto; lra.
  - intros q1 q2 A B C. rewrite (g_closed q1 i), (g_closed q2 i) by (auto; lra).
    unfold piece_i. apply piece_monotone; auto; lra.
Qed.

Lemma g_slopes_secants i : (S i < length xs)%nat -> nth i ss 0 = secant_i xs ys i.
Proof. intros. unfold ss, hs. rewrite secants_nth by (auto; lia). reflexivity. Qed.

Lemma g_boxed_shape : boxed ss dd -> forall i, (S i < length xs)%nat ->
  (forall q, nth i xs 0 <= q <= nth (S i) xs 0 ->
     Rmin (nth i ys 0) (nth (S i) ys 0) <= evalL lim xs ys q <= Rmax (nth i ys 0) (nth (S i) ys 0)) /\
  (forall q1 q2, nth i xs 0 <= q1 -> q1 <= q2 -> q2 <= nth (S i) xs 0 ->
     0 <= secant_i xs ys i * (evalL lim xs ys q2 - evalL lim xs ys q1)).
Proof.
  intros B i Hi. assert (Lh := g_len_hs). assert (Ls := g_len_ss).
  destruct (B i) as [B0 B1]; [lia|]. rewrite g_slopes_secants in B0, B1 by auto.
  apply g_shape; auto.
Qed.
End Gen.

(* ---------- the reference evaluates the same cubic ------------------------------------------ *)
Lemma hermite_basis_horner y0 y1 x0 x1 d0 d1 q : x0 < x1 ->
  hermite_basis ar y0 y1 (x1 - x0) d0 d1 ((q - x0) / (x1 - x0)) =
  horner ar (coeff ar y0 (x1 - x0) ((y1 - y0) / (x1 - x0)) d0 d1) (q - x0).
Proof. intros. unfold hermite_basis. unf. field. lra. Qed.

Lemma ref_eval_pieces_eq xs : forall ys dd q, incr xs -> length ys = length xs -> length dd = length xs ->
  (2 <= length xs)%nat ->
  ref_eval_pieces ar xs ys dd q =
  eval_pieces ar xs (coeffs ar ys (diffs ar xs) (secants ar ys (diffs ar xs)) dd) q.
Proof.
  induction xs as [|x0 xs IH]; intros ys dd q Hinc Ly Ld H2; [cbn in H2; lia|].
  destruct xs as [|x1 xs]; [cbn in H2; lia|].
  destruct ys as [|y0 [|y1 ys]]; cbn in Ly; try lia.
  destruct dd as [|d0 [|d1 dd]]; cbn in Ld; try lia.
  destruct Hinc as [H01 Hinc].
  destruct xs as [|x2 xs].
  - cbn [ref_eval_pieces diffs secants map2 coeffs eval_pieces].
    cbn [a_sub a_div R_arith]. apply hermite_basis_horner; auto.
  - destruct ys as [|y2 ys]; [cbn in Ly; lia|]. destruct dd as [|d2 dd]; [cbn in Ld; lia|].
    change (ref_eval_pieces ar (x0 :: x1 :: x2 :: xs) (y0 :: y1 :: y2 :: ys) (d0 :: d1 :: d2 :: dd) q)
      with (if Rleb x1 q then ref_eval_pieces ar (x1 :: x2 :: xs) (y1 :: y2 :: ys) (d1 :: d2 :: dd) q
            else hermite_basis ar y0 y1 (x1 - x0) d0 d1 ((q - x0) / (x1 - x0))).
    change (diffs ar (x0 :: x1 :: x2 :: xs)) with ((x1 - x0) :: diffs ar (x1 :: x2 :: xs)).
    change (secants ar (y0 :: y1 :: y2 :: ys) ((x1 - x0) :: diffs ar (x1 :: x2 :: xs)))
      with ((y1 - y0) / (x1 - x0) :: secants ar (y1 :: y2 :: ys) (diffs ar (x1 :: x2 :: xs))).
    cbn [coeffs].
    change (diffs ar (x1 :: x2 :: xs)) with ((x2 - x1) :: diffs ar (x2 :: xs)) at 1.
    change (secants ar (y1 :: y2 :: ys) (diffs ar (x1 :: x2 :: xs)))
      with ((y2 - y1) / (x2 - x1) :: secants ar (y2 :: ys) (diffs ar (x2 :: xs))) at 1.
    cbn [coeffs eval_pieces]. change (a_leb ar x1 q) with (Rleb x1 q).
    destruct (Rleb x1 q).
    + rewrite IH; auto; cbn in *; try lia.
    + apply hermite_basis_horner; auto.
Qed.

(* ======================= part 6 ======================= *)
(* ---------- validation ---------------------------------------------------------------------- *)
Lemma init_spec (xs ys : list R) :
  (length ys = length xs /\ (2 <= length xs)%nat /\ incr xs) <->
  exists ps, pchip_init ar xs ys = Ok ps.
Proof.
  unfold pchip_init. split.
  - intros (HL & H2 & Hi). rewrite HL, Nat.eqb_refl. cbn [negb].
    destruct (Nat.ltb (length xs) 2) eqn:E; [apply Nat.ltb_lt in E; lia|].
    rewrite (proj2 (incr_iff xs) Hi). cbn [negb]. eauto.
  - intros [ps H]. destruct (Nat.eqb (length xs) (length ys)) eqn:E1; cbn [negb] in H; [|discriminate].
    destruct (Nat.ltb (length xs) 2) eqn:E2; [discriminate|].
    destruct (strictly_increasing ar xs) eqn:E3; cbn [negb] in H; [|discriminate].
    apply Nat.eqb_eq in E1. apply Nat.ltb_ge in E2. apply incr_iff in E3. auto.
Qed.

Lemma call_spec (xs ys qs : list R) : length ys = length xs -> (2 <= length xs)%nat -> incr xs ->
  pchip_call ar xs ys qs = Ok (map (pchip_eval ar xs ys) qs).
Proof.
  intros HL H2 Hi. unfold pchip_call, pchip_init. rewrite HL, Nat.eqb_refl. cbn [negb].
  destruct (Nat.ltb (length xs) 2) eqn:E; [apply Nat.ltb_lt in E; lia|].
  rewrite (proj2 (incr_iff xs) Hi). reflexivity.
Qed.

(* ---------- instances ------------------------------------------------------------------------ *)
Notation Lsrc := (limit_endpoint_src ar).
Notation Lfix := (limit_endpoint_fixed ar).
Notation Lref := (limit_endpoint_ref ar).

Section Inst.
Variables xs ys : list R.
Hypothesis Hinc : incr xs.
Hypothesis HL : length ys = length xs.
Hypothesis H2 : (2 <= length xs)%nat.
Let hs := diffs ar xs.
Let ss := secants ar ys hs.

Lemma i_pos : allpos hs. Proof. apply diffs_pos; auto. Qed.
Lemma i_len_ss : length ss = length hs. Proof. apply g_len_ss; auto. Qed.
Lemma i_len_hs : (1 <= length hs)%nat. Proof. unfold hs. rewrite diffs_length. lia. Qed.

(* reference: exact at knots, boxed slopes, shape preserving, equals Hermite-basis evaluation *)
Lemma ref_eval_is_evalL q : ref_eval ar xs ys q = evalL Lref xs ys q.
Proof.
  unfold ref_eval, evalL, pchip_coeffs_with, ref_derivs. apply ref_eval_pieces_eq; auto.
  fold hs ss. rewrite derivs_length; [| apply i_len_ss | apply i_len_hs ]. unfold hs. rewrite diffs_length. lia.
Qed.

Lemma ref_slopes_boxed : boxed ss (slopesL Lref xs ys).
Proof. apply ref_boxed; [apply i_pos | apply i_len_ss | apply i_len_hs]. Qed.

Lemma fixed_slopes_eq_ref : slopesL Lfix xs ys = slopesL Lref xs ys.
Proof. apply fixed_derivs_eq_ref; [apply i_pos | apply i_len_ss]. Qed.

Lemma src_slopes_eq_ref : ends_regular ss -> slopesL Lsrc xs ys = slopesL Lref xs ys.
Proof. apply src_derivs_eq_ref; [apply i_pos | apply i_len_ss]. Qed.

Lemma evalL_ext l1 l2 q : slopesL l1 xs ys = slopesL l2 xs ys -> evalL l1 xs ys q = evalL l2 xs ys q.
Proof. unfold evalL, pchip_coeffs_with, slopesL. intros ->. reflexivity. Qed.
End Inst.

(* ---------- the flat-end witness (finding F-11) --------------------------------------------- *)
Ltac rdec :=
  repeat match goal with
  | |- context [Rltb ?a ?b] =>
      first [ rewrite (proj2 (Rltb_true a b)) by lra | rewrite (proj2 (Rltb_false a b)) by lra ]
  | |- context [Rleb ?a ?b] =>
      first [ rewrite (proj2 (Rleb_true a b)) by lra | rewrite (proj2 (Rleb_false a b)) by lra ]
  end.

Definition wx : list R := [0; 1; 2; 3].
Definition wy : list R := [1; 1; 3; 4].

Lemma witness_src_value : evalL Lsrc wx wy (1 / 4) = 55 / 64.
Proof.
  unfold evalL, wx, wy, pchip_coeffs_with, derivs_with.
  cbn [diffs secants map2 a_sub a_div R_arith rev app interior end_slope coeffs eval_pieces].
  change (a_leb ar) with Rleb. rdec.
  unfold horner, coeff, limit_endpoint_src, interior_slope. rewrite ?same_sign_mask_R, ?opp_sign_mask_R.
  unfold endpoint_slope, whm, c0, c1, c2, c3.
  cbn [a_add a_sub a_mul a_div a_ofZ a_ltb a_leb a_abs R_arith].
  rdec. cbn [andb]. lra.
Qed.

Lemma witness_valid : incr wx /\ length wy = length wx /\ (2 <= length wx)%nat.
Proof. unfold wx, wy. cbn. repeat split; try lra; lia. Qed.

Lemma witness_ref_value : ref_eval ar wx wy (1 / 4) = 1.
Proof.
  destruct witness_valid as (A & B & C).
  destruct (g_boxed_shape Lref wx wy A B C (ref_slopes_boxed wx wy A B C) 0%nat) as [S _]; [cbn; lia|].
  specialize (S (1 / 4)). rewrite <- ref_eval_is_evalL in S by auto.
  cbn [nth wx wy] in S. unfold Rmin, Rmax in S. destruct (Rle_dec 1 1); lra.
Qed.

(* ======================= part 7 ======================= *)
Definition shape_on (f : R -> R) (xs ys : list R) (i : nat) : Prop :=
  (forall q, nth i xs 0 <= q <= nth (S i) xs 0 ->
     Rmin (nth i ys 0) (nth (S i) ys 0) <= f q <= Rmax (nth i ys 0) (nth (S i) ys 0)) /\
  (forall q1 q2, nth i xs 0 <= q1 -> q1 <= q2 -> q2 <= nth (S i) xs 0 ->
     0 <= secant_i xs ys i * (f q2 - f q1)).

(* ---- source limiter ---- *)
Lemma src_interior_slopes_boxed (xs ys : list R) k :
  incr xs -> length ys = length xs -> (1 <= k)%nat -> (S k < length xs)%nat ->
  in_box (nth k (slopesL Lsrc xs ys) 0) (secant_i xs ys (k - 1)) /\
  in_box (nth k (slopesL Lsrc xs ys) 0) (secant_i xs ys k).
Proof.
  intros Hi HL H1 Hk. assert (H2 : (2 <= length xs)%nat) by lia.
  rewrite <- !(g_slopes_secants xs ys HL) by lia.
  apply interior_knots_boxed; auto.
  - apply diffs_pos; auto.
  - apply g_len_ss; auto.
  - rewrite diffs_length. lia.
Qed.

Lemma src_shape_partial (xs ys : list R) :
  incr xs -> length ys = length xs -> (2 <= length xs)%nat ->
  ends_regular (secants ar ys (diffs ar xs)) ->
  forall i, (S i < length xs)%nat -> shape_on (evalL Lsrc xs ys) xs ys i.
Proof.
  intros Hi HL H2 Er. apply (g_boxed_shape Lsrc xs ys Hi HL H2).
  change (boxed (secants ar ys (diffs ar xs)) (slopesL Lsrc xs ys)).
  rewrite src_slopes_eq_ref by auto. apply ref_slopes_boxed; auto.
Qed.

Lemma src_shape_inner (xs ys : list R) :
  incr xs -> length ys = length xs -> (2 <= length xs)%nat ->
  forall i, (1 <= i)%nat -> (S (S i) < length xs)%nat -> shape_on (evalL Lsrc xs ys) xs ys i.
Proof.
  intros Hi HL H2 i H1 Hk.
  destruct (src_interior_slopes_boxed xs ys i Hi HL H1) as [_ B0]; [lia|].
  destruct (src_interior_slopes_boxed xs ys (S i) Hi HL) as [B1 _]; [lia|lia|].
  replace (S i - 1)%nat with i in B1 by lia.
  apply (g_shape Lsrc xs ys Hi HL H2 i); auto; lia.
Qed.

Lemma src_is_reference_partial (xs ys : list R) q :
  incr xs -> length ys = length xs -> (2 <= length xs)%nat ->
  ends_regular (secants ar ys (diffs ar xs)) ->
  evalL Lsrc xs ys q = ref_eval ar xs ys q.
Proof.
  intros Hi HL H2 Er. rewrite ref_eval_is_evalL by auto.
  apply (evalL_ext xs ys Lsrc Lref q). apply src_slopes_eq_ref; auto.
Qed.

Lemma ref_shape (xs ys : list R) :
  incr xs -> length ys = length xs -> (2 <= length xs)%nat ->
  (forall i, (i < length xs)%nat -> ref_eval ar xs ys (nth i xs 0) = nth i ys 0) /\
  forall i, (S i < length xs)%nat -> shape_on (ref_eval ar xs ys) xs ys i.
Proof.
  intros Hi HL H2. split.
  - intros i Hlt. rewrite ref_eval_is_evalL by auto. apply g_interpolates; auto.
  - intros i Hlt.
    destruct (g_boxed_shape Lref xs ys Hi HL H2 (ref_slopes_boxed xs ys Hi HL H2) i Hlt) as [A B].
    split.
    + intros q Hq. rewrite ref_eval_is_evalL by auto. auto.
    + intros q1 q2 X Y Z. rewrite !ref_eval_is_evalL by auto. auto.
Qed.

Lemma premises_example :
  incr [0; 1; 3] /\ ends_regular (secants ar [1; 2; 4] (diffs ar [0; 1; 3])).
Proof.
  split; [cbn; lra|]. unfold ends_regular. cbn. split; left; lra.
Qed.

Lemma src_shape_refuted : exists (xs ys : list R) q,
  incr xs /\ length ys = length xs /\ (2 <= length xs)%nat /\
  nth 0 xs 0 <= q <= nth 1 xs 0 /\
  evalL Lsrc xs ys q < Rmin (nth 0 ys 0) (nth 1 ys 0).
Proof.
  exists wx, wy, (1 / 4). destruct witness_valid as (A & B & C).
  split; [exact A|]. split; [exact B|]. split; [exact C|]. split; [cbn; lra|].
  - rewrite witness_src_value.
    cbn. unfold Rmin. destruct (Rle_dec 1 1); lra.
Qed.

Lemma src_is_reference_refuted : exists (xs ys : list R) q,
  incr xs /\ length ys = length xs /\ (2 <= length xs)%nat /\
  evalL Lsrc xs ys q <> ref_eval ar xs ys q.
Proof.
  exists wx, wy, (1 / 4). destruct witness_valid as (A & B & C).
  split; [exact A|]. split; [exact B|]. split; [exact C|].
  rewrite witness_src_value, witness_ref_value. lra.
Qed.

(* ---- limiter of the proposed fix: everything unconditional ---- *)
Lemma fixed_slopes_boxed (xs ys : list R) :
  incr xs -> length ys = length xs -> (2 <= length xs)%nat ->
  forall i, (S i < length xs)%nat ->
  in_box (nth i (slopesL Lfix xs ys) 0) (secant_i xs ys i) /\
  in_box (nth (S i) (slopesL Lfix xs ys) 0) (secant_i xs ys i).
Proof.
  intros Hi HL H2 i Hlt. rewrite fixed_slopes_eq_ref by auto.
  rewrite <- (g_slopes_secants xs ys HL) by lia.
  apply (ref_slopes_boxed xs ys Hi HL H2). rewrite g_len_ss, diffs_length by auto. lia.
Qed.

Lemma fixed_shape (xs ys : list R) :
  incr xs -> length ys = length xs -> (2 <= length xs)%nat ->
  forall i, (S i < length xs)%nat -> shape_on (evalL Lfix xs ys) xs ys i.
Proof.
  intros Hi HL H2. apply (g_boxed_shape Lfix xs ys Hi HL H2).
  change (boxed (secants ar ys (diffs ar xs)) (slopesL Lfix xs ys)).
  rewrite fixed_slopes_eq_ref by auto. apply ref_slopes_boxed; auto.
Qed.

Lemma fixed_is_reference (xs ys : list R) q :
  incr xs -> length ys = length xs -> (2 <= length xs)%nat ->
  evalL Lfix xs ys q = ref_eval ar xs ys q.
Proof.
  intros Hi HL H2. rewrite ref_eval_is_evalL by auto.
  apply (evalL_ext xs ys Lfix Lref q). apply fixed_slopes_eq_ref; auto.
Qed.

Lemma witness_fixed_value : evalL Lfix wx wy (1 / 4) = 1.
Proof. destruct witness_valid as (A & B & C). rewrite fixed_is_reference by auto. apply witness_ref_value. Qed.

(* ======================= part 8: non-negative data ======================= *)
Lemma find_interval (xs : list R) q : incr xs -> (2 <= length xs)%nat ->
  nth 0 xs 0 <= q <= nth (length xs - 1) xs 0 ->
  exists i, (S i < length xs)%nat /\ nth i xs 0 <= q <= nth (S i) xs 0.
Proof.
  induction xs as [|x0 xs IH]; intros Hi H2 Hq; [cbn in H2; lia|].
  destruct xs as [|x1 xs]; [cbn in H2; lia|].
  destruct (Rle_dec q x1) as [Le|Gt].
  - exists 0%nat. split; [cbn; lia|]. cbn [nth] in *. lra.
  - destruct xs as [|x2 xs].
    + exfalso. cbn in Hq. lra.
    + destruct IH as (i & Hi1 & Hi2).
      * eapply incr_tl; eauto.
      * cbn; lia.
      * split; [cbn [nth]; lra|].
        replace (length (x1 :: x2 :: xs) - 1)%nat with (length (x2 :: xs)) by (cbn; lia).
        replace (length (x0 :: x1 :: x2 :: xs) - 1)%nat with (S (length (x2 :: xs))) in Hq by (cbn; lia).
        exact (proj2 Hq).
      * exists (S i). split; [cbn in *; lia|]. exact Hi2.
Qed.

Lemma Forall_nth_nonneg (ys : list R) i : Forall (fun v => 0 <= v) ys -> (i < length ys)%nat -> 0 <= nth i ys 0.
Proof. intros F Hi. rewrite Forall_forall in F. apply F. apply nth_In; auto. Qed.

(* non-negative data => non-negative interpolant on the whole knot range (from min <= P on each interval) *)
Lemma fixed_nonneg_inside (xs ys : list R) q :
  incr xs -> length ys = length xs -> (2 <= length xs)%nat ->
  Forall (fun v => 0 <= v) ys -> nth 0 xs 0 <= q <= nth (length xs - 1) xs 0 ->
  0 <= evalL Lfix xs ys q.
Proof.
  intros Hi HL H2 F Hq. destruct (find_interval xs q Hi H2 Hq) as (i & Hlt & Hin).
  destruct (fixed_shape xs ys Hi HL H2 i Hlt) as [S _]. specialize (S q Hin).
  assert (0 <= nth i ys 0) by (apply Forall_nth_nonneg; auto; lia).
  assert (0 <= nth (Datatypes.S i) ys 0) by (apply Forall_nth_nonneg; auto; lia).
  unfold Rmin in S. destruct (Rle_dec (nth i ys 0) (nth (Datatypes.S i) ys 0)); lra.
Qed.
