(* C31 — soundness of the declarative call check w.r.t. the operational binding model. *)
From Coq Require Import Bool List String Arith Lia.
From EV Require Import Model.PyBind.
Import ListNotations.
Open Scope nat_scope.

Lemma mem_In : forall x l, mem x l = true <-> In x l.
Proof.
  intros x l. unfold mem. rewrite existsb_exists. split.
  - intros [y [Hy He]]. apply String.eqb_eq in He. subst. exact Hy.
  - intros H. exists x. split; [exact H|apply String.eqb_refl].
Qed.

Lemma mem_false_notIn : forall x l, mem x l = false <-> ~ In x l.
Proof.
  intros x l. rewrite <- mem_In. destruct (mem x l); split; intros H; congruence.
Qed.

Lemma In_firstn : forall (x : string) n l, In x (firstn n l) -> In x l.
Proof.
  intros x n. induction n as [|n IH]; intros [|y l] H; cbn in H; try contradiction.
  destruct H as [->|H]; [left; reflexivity|right; apply IH; exact H].
Qed.

(* binding keywords that are pairwise distinct, not yet filled and known to the signature
   succeeds and fills exactly them *)
Lemma bind_kws_ok : forall s kws filled,
  nodupb kws = true ->
  (forall k, In k kws -> ~ In k filled /\ (In k (all_names s) \/ s_varkw s = true)) ->
  exists filled', bind_kws s filled kws = inl filled' /\
                  (forall x, In x filled \/ In x kws -> In x filled').
Proof.
  intros s kws. induction kws as [|k rest IH]; intros filled Hnd Hk.
  - exists filled. split; [reflexivity|]. intros x [H|[]]. exact H.
  - cbn [nodupb] in Hnd. apply andb_true_iff in Hnd as [Hk1 Hnd].
    apply negb_true_iff in Hk1. apply mem_false_notIn in Hk1.
    destruct (Hk k (or_introl eq_refl)) as [Hnf Hknown].
    cbn [bind_kws]. rewrite (proj2 (mem_false_notIn k filled) Hnf).
    assert (Hrest : forall k', In k' rest ->
              ~ In k' (k :: filled) /\ (In k' (all_names s) \/ s_varkw s = true)).
    { intros k' Hin. destruct (Hk k' (or_intror Hin)) as [H1 H2]. split; [|exact H2].
      intros [Heq|Hf]; [subst; contradiction|contradiction]. }
    destruct (IH (k :: filled) Hnd Hrest) as [f' [Hb Hf']].
    assert (Hgo : bind_kws s (k :: filled) rest = inl f' ->
                  (if mem k (all_names s) then bind_kws s (k :: filled) rest
                   else if s_varkw s then bind_kws s (k :: filled) rest else inr 3) = inl f').
    { intros E. destruct (mem k (all_names s)) eqn:Em; [exact E|].
      destruct Hknown as [Hin|Hv]; [apply mem_In in Hin; congruence|rewrite Hv; exact E]. }
    exists f'. split; [apply Hgo; exact Hb|].
    intros x [Hx|[Hx|Hx]].
    + apply Hf'. left. right. exact Hx.
    + subst. apply Hf'. left. left. reflexivity.
    + apply Hf'. right. exact Hx.
Qed.

Theorem call_ok_sound : forall s c, call_ok s c = true -> binds s c = BindOk.
Proof.
  intros s c H. unfold call_ok in H.
  apply andb_true_iff in H as [H H4]. apply andb_true_iff in H as [H H3].
  apply andb_true_iff in H as [H1 H2].
  unfold binds.
  assert (E1 : (List.length (s_pos s) <? c_npos c) && negb (s_varargs s) = false).
  { apply orb_true_iff in H1 as [Hle|Hv].
    - apply Nat.leb_le in Hle. apply andb_false_iff. left. apply Nat.ltb_ge. exact Hle.
    - rewrite Hv. apply andb_false_r. }
  rewrite E1.
  set (given := firstn (c_npos c) (names (s_pos s))) in *.
  destruct (bind_kws_ok s (c_kws c) given H2) as [filled [Hb Hf]].
  { intros k Hin. rewrite forallb_forall in H3. specialize (H3 k Hin).
    apply andb_true_iff in H3 as [Hn Hkn]. apply negb_true_iff in Hn. apply mem_false_notIn in Hn.
    split; [exact Hn|]. apply orb_true_iff in Hkn as [Hm|Hv]; [left; apply mem_In; exact Hm|right; exact Hv]. }
  rewrite Hb.
  assert (E4 : forallb (fun p : param => snd p || mem (fst p) filled) (s_pos s ++ s_kwonly s) = true).
  { rewrite forallb_forall in *. intros p Hp. specialize (H4 p Hp).
    apply orb_true_iff in H4 as [Hd|Hm]; [rewrite Hd; reflexivity|].
    apply orb_true_iff. right. apply mem_In. apply Hf. apply mem_In in Hm.
    apply in_app_or in Hm. exact Hm. }
  rewrite E4. reflexivity.
Qed.

Lemma all_calls_ok_sound : forall l, all_calls_ok l = true ->
  forall s c, In (s, c) l -> binds s c = BindOk.
Proof.
  intros l H s c Hin. unfold all_calls_ok in H. rewrite forallb_forall in H.
  apply call_ok_sound. exact (H (s, c) Hin).
Qed.

(* a required keyword-only parameter that is not passed makes the call fail (shape of F-01) *)
Lemma missing_required_kwonly : forall s c name,
  In (name, false) (s_kwonly s) -> ~ In name (names (s_pos s)) -> ~ In name (c_kws c) ->
  binds s c <> BindOk.
Proof.
  intros s c name Hreq Hnp Hnk. unfold binds.
  destruct ((List.length (s_pos s) <? c_npos c) && negb (s_varargs s)); [discriminate|].
  set (given := firstn (c_npos c) (names (s_pos s))).
  assert (Hgiven : ~ In name given).
  { intros Hin. apply Hnp. eapply In_firstn. exact Hin. }
  assert (Hinv : forall kws filled filled', ~ In name filled -> ~ In name kws ->
            bind_kws s filled kws = inl filled' -> ~ In name filled').
  { induction kws as [|k r IH]; intros filled filled' Hf Hk E.
    - cbn in E. inversion E. subst. exact Hf.
    - cbn [bind_kws] in E. destruct (mem k filled); [discriminate|].
      assert (Hf2 : ~ In name (k :: filled)).
      { intros [Heq|Hin]; [subst; apply Hk; left; reflexivity|contradiction]. }
      assert (Hk2 : ~ In name r) by (intros Hin; apply Hk; right; exact Hin).
      destruct (mem k (all_names s)); [exact (IH _ _ Hf2 Hk2 E)|].
      destruct (s_varkw s); [exact (IH _ _ Hf2 Hk2 E)|discriminate]. }
  destruct (bind_kws s given (c_kws c)) as [filled|e] eqn:E; [|discriminate].
  pose proof (Hinv _ _ _ Hgiven Hnk E) as Hnf.
  assert (Ef : forallb (fun p : param => snd p || mem (fst p) filled) (s_pos s ++ s_kwonly s) = false).
  { apply not_true_is_false. intros Ht. rewrite forallb_forall in Ht.
    specialize (Ht (name, false) (in_or_app _ _ _ (or_intror Hreq))). cbn in Ht.
    apply mem_In in Ht. contradiction. }
  rewrite Ef. discriminate.
Qed.

(* ---- versions ---------------------------------------------------------------------------- *)
Lemma ver_leb_refl : forall a, ver_leb a a = true.
Proof.
  induction a as [|x a IH]; [reflexivity|]. cbn. rewrite Nat.eqb_refl, IH.
  apply orb_true_iff. right. reflexivity.
Qed.

(* a specifier made of a single `>=` clause has no upper bound: it admits exactly the versions
   that are >= its bound *)
Lemma ge_spec_admits : forall w v, admits [(GE, w)] v = ver_leb w v.
Proof. intros. unfold admits, clause_admits. cbn. apply andb_true_r. Qed.

Lemma f01_shapes :
  let sig := MkSig [] [("default_aggregation_method", false); ("evaluation_times", true); ("tag_suffix", true)]%string
                   false false in
  call_ok sig (MkCall "fixed"%string 0 ["evaluation_times"; "default_aggregation_method"]%string) = true /\
  call_ok sig (MkCall "pre-fix"%string 0 ["evaluation_times"]%string) = false.
Proof. split; reflexivity. Qed.
