(* Proofs about Model/SvOps.v and the operator part of Model/SvState.v (C12):
   meaning of an operator representation, dense == sparse for every representation, operator algebra,
   SparseOperator.apply_to / expect on COO data with duplicates. *)
From Coq Require Import List Arith Bool Lia Ring.
From EV Require Import Model.SvBase Model.SvState Model.SvOps
  Proofs.SvBaseProofs Proofs.SvLindProofs Proofs.SvStateProofs.
Import ListNotations.

(* ---- lists --------------------------------------------------------------------------------------------- *)
Lemma set_nth_length {A} (l : list A) : forall i x, length (set_nth l i x) = length l.
Proof. induction l as [|h t IH]; intros [|i] x; simpl; try reflexivity. rewrite IH. reflexivity. Qed.

Lemma set_nth_nth {A} (l : list A) : forall i x q d, q < length l ->
  nth q (set_nth l i x) d = if q =? i then x else nth q l d.
Proof.
  induction l as [|h t IH]; intros i x q d Hq; [simpl in Hq; lia|].
  destruct i as [|i]; destruct q as [|q]; simpl; try reflexivity.
  apply IH. simpl in Hq. lia.
Qed.

Lemma nth_repeat_lt {A} (x d : A) : forall N q, q < N -> nth q (repeat x N) d = x.
Proof. induction N as [|N IH]; intros [|q] H; simpl; try lia; try reflexivity. apply IH. lia. Qed.

Section OpsProofs.
Variable o : Kops.
Hypothesis laws : Klaws o.
Add Ring Kr6 : (K_ring o laws).
Open Scope K_scope.
Notation zero := (k0 o).
Notation one := (k1 o).
Notation cj := (kconj o).
Notation L := (list o).
Notation qop := (list (nat * nat * o)).
Notation tensor := (list (qop * list nat)).

Lemma tab_ext n (f g : nat -> o) : (forall k, k < n -> f k = g k) -> tab n f = tab n g.
Proof. intros H. unfold tab. apply map_ext_in. intros k Hk. apply in_seq in Hk. apply H. lia. Qed.

Lemma ksum_cons {A} (a : A) (l : list A) (f : A -> o) : ksum (a :: l) f = f a + ksum l f.
Proof. reflexivity. Qed.

Lemma kprodl_kprod {A} (l : list A) (f : A -> o) : kprodl l f = kprod o l f.
Proof. reflexivity. Qed.

(* ---- 2x2 factors -------------------------------------------------------------------------------------- *)
Lemma m2_m2tab (f : nat -> nat -> o) a b : a < 2 -> b < 2 -> m2 (m2tab f) a b = f a b.
Proof. intros Ha Hb. destruct a as [|[|a]]; destruct b as [|[|b]]; try lia; reflexivity. Qed.

Lemma m2_eye2 a b : a < 2 -> b < 2 -> m2 (eye2 o) a b = if a =? b then one else zero.
Proof. intros Ha Hb. destruct a as [|[|a]]; destruct b as [|[|b]]; try lia; reflexivity. Qed.

Lemma m2_zero a b : m2 (@m2zero o) a b = zero.
Proof. destruct a as [|a]; destruct b as [|b]; reflexivity. Qed.

Lemma build_fold_entry (terms : qop) : forall (acc : M2 o) a b, a < 2 -> b < 2 ->
  m2 (fold_left (fun acc t => let '(x, y, c) := t in
                   m2tab (fun i j => m2 acc i j + m2 (basis_op o x y) i j * c)) terms acc) a b =
  m2 acc a b + qudit_entry o terms a b.
Proof.
  induction terms as [|[[x y] c] ts IH]; intros acc a b Ha Hb.
  - unfold qudit_entry. simpl. ring.
  - cbn [fold_left]. rewrite IH by assumption. rewrite m2_m2tab by assumption.
    unfold basis_op. rewrite m2_m2tab by assumption.
    change (qudit_entry o ((x, y, c) :: ts) a b) with (kif ((a =? x) && (b =? y)) c + qudit_entry o ts a b).
    destruct ((a =? x) && (b =? y)); simpl; ring.
Qed.

(* build_torch_operator_from_string: element [a][b] of the 2x2 factor is the sum of the coefficients of "ab" *)
Theorem build_qudit_op_entry (terms : qop) a b : a < 2 -> b < 2 ->
  m2 (build_qudit_op o terms) a b = qudit_entry o terms a b.
Proof.
  intros Ha Hb. unfold build_qudit_op. rewrite build_fold_entry by assumption. rewrite m2_zero. ring.
Qed.

(* ---- single_qubit_gates[target] = factor: the last assignment wins ------------------------------------ *)
Lemma targets_fold (f : M2 o) (targets : list nat) : forall (G : list (M2 o)),
  length (fold_left (fun g t => set_nth g t f) targets G) = length G /\
  forall q, q < length G ->
    nth q (fold_left (fun g t => set_nth g t f) targets G) m2zero =
    if existsb (Nat.eqb q) targets then f else nth q G m2zero.
Proof.
  induction targets as [|t ts IH]; intros G; [split; reflexivity|].
  cbn [fold_left existsb]. destruct (IH (set_nth G t f)) as [E1 E2]. rewrite set_nth_length in *. split; [exact E1|].
  intros q Hq. rewrite E2 by assumption. rewrite set_nth_nth by assumption.
  destruct (q =? t), (existsb (Nat.eqb q) ts); reflexivity.
Qed.

Lemma tensor_fold N (top : tensor) : forall (G : list (M2 o)) (e : nat -> M2 o),
  length G = N -> (forall q, q < N -> nth q G m2zero = e q) ->
  let G' := fold_left (fun gates ot => let f := build_qudit_op o (fst ot) in
                         fold_left (fun g t => set_nth g t f) (snd ot) gates) top G in
  length G' = N /\
  forall q, q < N -> nth q G' m2zero =
    fold_left (fun g ot => if existsb (Nat.eqb q) (snd ot) then build_qudit_op o (fst ot) else g) top (e q).
Proof.
  induction top as [|ot top IH]; intros G e HG He; [split; [exact HG | exact He]|].
  cbn [fold_left]. cbv zeta.
  destruct (targets_fold (build_qudit_op o (fst ot)) (snd ot) G) as [E1 E2].
  apply (IH _ (fun q => if existsb (Nat.eqb q) (snd ot) then build_qudit_op o (fst ot) else e q)).
  - rewrite E1. exact HG.
  - intros q Hq. rewrite E2 by lia. rewrite He by assumption. reflexivity.
Qed.

(* the gate list of one tensor term: N factors; factor q is the LAST (op, targets) pair with q among its
   targets (identity when no pair targets q) -- for every N and every nesting / repetition of targets *)
Theorem tensor_gates_spec N (top : tensor) :
  length (tensor_gates o N top) = N /\
  forall q, q < N -> nth q (tensor_gates o N top) m2zero = gate_at o top q.
Proof.
  unfold tensor_gates, gate_at.
  apply (tensor_fold N top (repeat (eye2 o) N) (fun _ => eye2 o)).
  - apply repeat_length.
  - intros q Hq. apply nth_repeat_lt. assumption.
Qed.

Lemma gate_fold_entry (top : tensor) q a b : a < 2 -> b < 2 -> forall (g : M2 o) (e : o), m2 g a b = e ->
  m2 (fold_left (fun g ot => if existsb (Nat.eqb q) (snd ot) then build_qudit_op o (fst ot) else g) top g) a b =
  fold_left (fun e ot => if existsb (Nat.eqb q) (snd ot) then qudit_entry o (fst ot) a b else e) top e.
Proof.
  intros Ha Hb. induction top as [|ot top IH]; intros g e H; [exact H|].
  cbn [fold_left]. apply IH. destruct (existsb (Nat.eqb q) (snd ot)); [apply build_qudit_op_entry; assumption | exact H].
Qed.

Theorem gate_at_entry (top : tensor) q a b : a < 2 -> b < 2 -> m2 (gate_at o top q) a b = site_entry o top q a b.
Proof. intros Ha Hb. unfold gate_at, site_entry. apply gate_fold_entry; try assumption. apply m2_eye2; assumption. Qed.

(* ---- matrices ------------------------------------------------------------------------------------------ *)
Lemma madd_entry (A B : mat o) i j : i < fst A -> j < fst A ->
  mget o (madd o A B) i j = mget o A i j + mget o B i j.
Proof. intros. unfold madd. rewrite mget_mtab by assumption. reflexivity. Qed.
Lemma mscale_entry s (A : mat o) i j : i < fst A -> j < fst A ->
  mget o (mscale o s A) i j = s * mget o A i j.
Proof. intros. unfold mscale. rewrite mget_mtab by assumption. reflexivity. Qed.
Lemma matmul_entry (A B : mat o) i j : i < fst A -> j < fst A ->
  mget o (matmul o A B) i j = ksumn (fst A) (fun k => mget o A i k * mget o B k j).
Proof. intros. unfold matmul. rewrite mget_mtab by assumption. reflexivity. Qed.
Lemma mapply_spec (A : mat o) (v : L) :
  length (mapply o A v) = fst A /\
  forall i, i < fst A -> get (mapply o A v) i = ksumn (fst A) (fun k => mget o A i k * get v k).
Proof. unfold mapply. split; [apply length_tab | intros; apply get_tab; assumption]. Qed.

(* reduce(torch.kron, gates) for EVERY list of factors (also the empty one: the 1x1 identity) *)
Lemma kron_all_elem (gates : list (M2 o)) :
  let N := length gates in
  fst (kron_all o gates) = 2 ^ N /\
  forall k k', k < 2 ^ N -> k' < 2 ^ N ->
    mget o (kron_all o gates) k k' = kprodl (seq 0 N) (fun q => m2 (nth q gates m2zero) (bit N q k) (bit N q k')).
Proof.
  destruct gates as [|g gs].
  - simpl. split; [reflexivity|]. intros k k' Hk Hk'. rewrite mget_mtab by assumption. reflexivity.
  - apply (kron_elem o laws (g :: gs)). discriminate.
Qed.

Lemma dense_fold N (ops : list (o * tensor)) : forall (acc : mat o), fst acc = 2 ^ N ->
  let R := fold_left (fun acc ct => madd o acc (mscale o (fst ct) (kron_all o (tensor_gates o N (snd ct))))) ops acc in
  fst R = 2 ^ N /\
  forall i j, i < 2 ^ N -> j < 2 ^ N ->
    mget o R i j = mget o acc i j + ksum ops (fun ct => fst ct * mget o (kron_all o (tensor_gates o N (snd ct))) i j).
Proof.
  induction ops as [|[c top] ops IH]; intros acc Hacc.
  - split; [exact Hacc|]. intros. simpl. ring.
  - cbn [fold_left fst snd]. cbv zeta.
    set (Kt := kron_all o (tensor_gates o N top)).
    assert (HK : fst Kt = 2 ^ N).
    { unfold Kt. rewrite (proj1 (kron_all_elem _)). rewrite (proj1 (tensor_gates_spec N top)). reflexivity. }
    destruct (IH (madd o acc (mscale o c Kt))) as [E1 E2]; [simpl; exact Hacc|].
    split; [exact E1|]. intros i j Hi Hj. rewrite E2 by assumption.
    rewrite madd_entry by (rewrite Hacc; assumption).
    rewrite mscale_entry by (rewrite HK; assumption).
    rewrite ksum_cons. cbn [fst snd]. fold Kt. ring.
Qed.

(* DenseOperator._from_operator_repr, entry by entry, for every N (also N = 0) and every representation *)
Theorem dense_from_repr_entry N (ops : list (o * tensor)) :
  fst (dense_from_repr o N ops) = 2 ^ N /\
  forall i j, i < 2 ^ N -> j < 2 ^ N -> mget o (dense_from_repr o N ops) i j = repr_entry o N ops i j.
Proof.
  unfold dense_from_repr.
  destruct (dense_fold N ops (mtab o (2 ^ N) (fun _ _ => zero)) eq_refl) as [E1 E2].
  split; [exact E1|]. intros i j Hi Hj. rewrite E2 by assumption. rewrite mget_mtab by assumption.
  unfold repr_entry. transitivity (ksum ops (fun ct => fst ct * mget o (kron_all o (tensor_gates o N (snd ct))) i j)); [ring|].
  apply ksum_ext. intros [c top] _. cbn [fst snd]. f_equal.
  destruct (tensor_gates_spec N top) as [HL HG].
  destruct (kron_all_elem (tensor_gates o N top)) as [_ HE]. cbv zeta in HE. rewrite HL in HE.
  rewrite HE by assumption. rewrite !kprodl_kprod. apply kprod_ext. intros q Hq. apply in_seq in Hq.
  rewrite HG by lia. apply gate_at_entry; apply bit_lt.
Qed.

(* ---- sparse == dense ------------------------------------------------------------------------------------ *)
Lemma coo_of_m2_dense (h : M2 o) a b : a < 2 -> b < 2 -> coo_dense o (coo_of_m2 o h) a b = m2 h a b.
Proof.
  intros Ha Hb. destruct h as [[[m00 m01] m10] m11].
  destruct a as [|[|a]]; destruct b as [|[|b]]; try lia; simpl; ring.
Qed.

Lemma sparse_kron_m2 (S : coo o) (h : M2 o) i j :
  coo_dense o (sparse_kron o S (coo_of_m2 o h)) i j =
  coo_dense o S (i / 2) (j / 2) * m2 h (i mod 2) (j mod 2).
Proof.
  pose proof (sparse_kron_dense o laws S (coo_of_m2 o h) i j) as E.
  unfold coo_of_m2 in E at 1 2. cbv beta iota in E.
  rewrite E.
  - rewrite coo_of_m2_dense by (apply Nat.mod_upper_bound; lia). reflexivity.
  - repeat constructor.
Qed.

Definition agree (n : nat) (S : coo o) (M : mat o) : Prop :=
  fst M = 2 ^ n /\ forall i j, i < 2 ^ n -> j < 2 ^ n -> coo_dense o S i j = mget o M i j.

Lemma agree_step n Sp M h : agree n Sp M -> agree (S n) (sparse_kron o Sp (coo_of_m2 o h)) (kron o M (of_m2 o h)).
Proof.
  intros [E G]. split.
  - unfold kron, mtab. simpl. rewrite E. lia.
  - intros i j Hi Hj. rewrite Nat.pow_succ_r' in Hi, Hj.
    rewrite sparse_kron_m2. rewrite kron_entry by (simpl; rewrite ?E; lia).
    change (fst (of_m2 o h)) with 2. rewrite of_m2_entry by (apply Nat.mod_upper_bound; lia).
    rewrite G by (apply Nat.div_lt_upper_bound; lia). reflexivity.
Qed.

Lemma agree_fold (gs : list (M2 o)) : forall n Sp M, agree n Sp M ->
  agree (n + length gs) (fold_left (fun acc h => sparse_kron o acc (coo_of_m2 o h)) gs Sp)
                        (fold_left (fun acc h => kron o acc (of_m2 o h)) gs M).
Proof.
  induction gs as [|h gs IH]; intros n Sp M H; cbn [fold_left length].
  - rewrite Nat.add_0_r. exact H.
  - replace (n + Datatypes.S (length gs))%nat with (Datatypes.S n + length gs)%nat by lia.
    apply IH. apply agree_step. exact H.
Qed.

(* reduce(sparse_kron, gates) == reduce(torch.kron, gates), every list of 2x2 factors *)
Theorem sparse_kron_all_dense (gates : list (M2 o)) i j : i < 2 ^ length gates -> j < 2 ^ length gates ->
  coo_dense o (sparse_kron_all o gates) i j = mget o (kron_all o gates) i j.
Proof.
  destruct gates as [|g gs]; intros Hi Hj.
  - simpl in Hi, Hj. assert (i = 0) by lia. assert (j = 0) by lia. subst.
    simpl kron_all. rewrite mget_mtab by lia. simpl. ring.
  - simpl sparse_kron_all. simpl kron_all.
    assert (H0 : agree 1 (coo_of_m2 o g) (of_m2 o g)).
    { split; [reflexivity|]. intros a b Ha Hb. change (2 ^ 1) with 2 in Ha, Hb.
      rewrite coo_of_m2_dense, of_m2_entry by assumption. reflexivity. }
    destruct (agree_fold gs 1 _ _ H0) as [_ G]. apply G; simpl length in Hi, Hj; exact Hi || exact Hj.
Qed.

Lemma coo_scale_dense s (A : coo o) i j : coo_dense o (coo_scale o s A) i j = s * coo_dense o A i j.
Proof.
  destruct A as [[r c] es]. simpl. rewrite ksum_map. rewrite <- (ksum_mul_l o laws).
  apply ksum_ext. intros [[a b] v] _. destruct ((a =? i) && (b =? j)); simpl; ring.
Qed.

Lemma sparse_fold N (ops : list (o * tensor)) i j : forall (acc : coo o),
  coo_dense o (fold_left (fun acc ct => sparse_add o acc (coo_scale o (fst ct) (sparse_kron_all o (tensor_gates o N (snd ct)))))
                         ops acc) i j =
  coo_dense o acc i j + ksum ops (fun ct => fst ct * coo_dense o (sparse_kron_all o (tensor_gates o N (snd ct))) i j).
Proof.
  induction ops as [|[c top] ops IH]; intros acc; cbn [fold_left].
  - simpl. ring.
  - rewrite IH. rewrite sparse_add_dense by exact laws. rewrite coo_scale_dense. rewrite ksum_cons. cbn [fst snd]. ring.
Qed.

Lemma sparse_fold_shape N (ops : list (o * tensor)) : forall (acc : coo o),
  fst (fold_left (fun acc ct => sparse_add o acc (coo_scale o (fst ct) (sparse_kron_all o (tensor_gates o N (snd ct)))))
                 ops acc) = fst acc.
Proof.
  induction ops as [|[c top] ops IH]; intros acc; cbn [fold_left]; [reflexivity|].
  rewrite IH. destruct acc as [[ra ca] ea].
  destruct (coo_scale o (fst (c, top)) (sparse_kron_all o (tensor_gates o N (snd (c, top))))) as [[rb cb] eb].
  reflexivity.
Qed.

(* SparseOperator._from_operator_repr == DenseOperator._from_operator_repr, every N and representation *)
Theorem sparse_dense_from_repr N (ops : list (o * tensor)) :
  fst (sparse_from_repr o N ops) = (2 ^ N, 2 ^ N) /\
  forall i j, i < 2 ^ N -> j < 2 ^ N ->
    coo_dense o (sparse_from_repr o N ops) i j = mget o (dense_from_repr o N ops) i j.
Proof.
  split; [unfold sparse_from_repr; rewrite sparse_fold_shape; reflexivity|].
  intros i j Hi Hj. unfold sparse_from_repr, dense_from_repr.
  rewrite sparse_fold.
  destruct (dense_fold N ops (mtab o (2 ^ N) (fun _ _ => zero)) eq_refl) as [_ E2].
  rewrite E2 by assumption. rewrite mget_mtab by assumption.
  assert (Z : coo_dense o (2 ^ N, 2 ^ N, []) i j = zero) by reflexivity. rewrite Z. f_equal.
  apply ksum_ext. intros [c top] _. cbn [fst snd]. f_equal.
  apply sparse_kron_all_dense; rewrite (proj1 (tensor_gates_spec N top)); assumption.
Qed.

(* ---- operator algebra ------------------------------------------------------------------------------------- *)
Lemma mapply_ext (A B : mat o) (v : L) : fst A = fst B ->
  (forall i j, i < fst A -> j < fst A -> mget o A i j = mget o B i j) -> mapply o A v = mapply o B v.
Proof.
  intros E H. unfold mapply. rewrite <- E. apply tab_ext. intros i Hi. apply ksumn_ext. intros k Hk.
  rewrite H by assumption. reflexivity.
Qed.

(* (A @ B) applied to v = A applied to (B applied to v) *)
Theorem mapply_matmul (A B : mat o) (v : L) : fst B = fst A ->
  mapply o (matmul o A B) v = mapply o A (mapply o B v).
Proof.
  intros E. unfold mapply at 1 2. change (fst (matmul o A B)) with (fst A). apply tab_ext. intros i Hi.
  unfold ksumn.
  transitivity (ksum (seq 0 (fst A)) (fun k => ksum (seq 0 (fst A)) (fun l => mget o A i l * mget o B l k * get v k))).
  { apply ksum_ext. intros k Hk. apply in_seq in Hk. rewrite matmul_entry by lia. unfold ksumn.
    rewrite <- (ksum_mul_r o laws). reflexivity. }
  rewrite (ksum_swap o laws). apply ksum_ext. intros l Hl. apply in_seq in Hl.
  rewrite (proj2 (mapply_spec B v)) by lia. rewrite E. unfold ksumn. rewrite <- (ksum_mul_l o laws).
  apply ksum_ext. intros k _. ring.
Qed.

Theorem mapply_madd (A B : mat o) (v : L) : fst B = fst A ->
  mapply o (madd o A B) v = vadd (mapply o A v) (mapply o B v).
Proof.
  intros E. unfold vadd. rewrite (proj1 (mapply_spec A v)). unfold mapply at 1.
  change (fst (madd o A B)) with (fst A). apply tab_ext. intros i Hi.
  rewrite (proj2 (mapply_spec A v)), (proj2 (mapply_spec B v)) by lia. rewrite E.
  rewrite <- (ksumn_add o laws). apply ksumn_ext. intros k Hk. rewrite madd_entry by assumption. ring.
Qed.

Theorem mapply_mscale s (A : mat o) (v : L) : mapply o (mscale o s A) v = vscale s (mapply o A v).
Proof.
  unfold vscale. rewrite (proj1 (mapply_spec A v)). unfold mapply at 1.
  change (fst (mscale o s A)) with (fst A). apply tab_ext. intros i Hi.
  rewrite (proj2 (mapply_spec A v)) by lia. unfold ksumn. rewrite <- (ksum_mul_l o laws).
  apply ksum_ext. intros k Hk. apply in_seq in Hk. rewrite mscale_entry by lia. ring.
Qed.

Lemma vdot_add_r (v x y : L) : length v <= length x -> vdot o v (vadd x y) = vdot o v x + vdot o v y.
Proof.
  intros H. unfold vdot. rewrite <- (ksumn_add o laws). apply ksumn_ext. intros k Hk.
  rewrite (proj2 (vadd_spec o x y)) by lia. ring.
Qed.
Lemma vdot_scale_r s (v x : L) : length v <= length x -> vdot o v (vscale s x) = s * vdot o v x.
Proof.
  intros H. unfold vdot, ksumn. rewrite <- (ksum_mul_l o laws). apply ksum_ext. intros k Hk. apply in_seq in Hk.
  rewrite (proj2 (vscale_spec o s x)) by lia. ring.
Qed.

(* the expectation value is linear in the operator *)
Theorem mexpect_linear s (A B : mat o) (v : L) : fst B = fst A -> length v <= fst A ->
  mexpect o (madd o A B) v = mexpect o A v + mexpect o B v /\
  mexpect o (mscale o s A) v = s * mexpect o A v.
Proof.
  intros E H. unfold mexpect. rewrite mapply_madd by assumption. rewrite mapply_mscale. split.
  - apply vdot_add_r. rewrite (proj1 (mapply_spec A v)). assumption.
  - apply vdot_scale_r. rewrite (proj1 (mapply_spec A v)). assumption.
Qed.

(* ---- SparseOperator.apply_to / expect on COO entries with duplicates --------------------------------------- *)
Theorem coo_apply_dense (S : coo o) (v : L) : (let '(r, _, _) := S in length v <= r) ->
  coo_apply o S v = mapply o (coo_to_mat o S) v.
Proof.
  destruct S as [[r c] es]. intros Hv. unfold coo_apply, mapply, coo_to_mat.
  change (fst (mtab o r (fun i j => coo_dense o (r, c, es) i j))) with r. apply tab_ext. intros i Hi.
  transitivity (ksumn r (fun k => ksum es (fun e => let '(a, b, x) := e in
                                             kif (a =? i) (kif (k =? b) (x * get v k))))).
  2:{ apply ksumn_ext. intros k Hk. rewrite mget_mtab by assumption. unfold coo_dense.
      rewrite <- (ksum_mul_r o laws). apply ksum_ext. intros [[a b] x] _.
      rewrite (Nat.eqb_sym k b). destruct (a =? i), (b =? k); simpl; ring. }
  unfold ksumn. rewrite (ksum_swap o laws). apply ksum_ext. intros [[a b] x] _.
  destruct (a =? i); unfold kif at 1.
  - change (ksum (seq 0 r) (fun a0 : nat => kif true (kif (a0 =? b) (x * get v a0))))
      with (ksumn r (fun k => kif (k =? b) (x * get v k))).
    destruct (Nat.lt_ge_cases b r) as [Hb|Hb].
    + rewrite (ksumn_single o laws r b (fun k => x * get v k)) by assumption. reflexivity.
    + rewrite (get_overflow o v b) by lia. unfold ksumn.
      rewrite (ksum_ext o _ _ (fun _ => zero)); [rewrite (ksum_zero o laws); ring|].
      intros k Hk. apply in_seq in Hk. destruct (Nat.eqb_spec k b); [lia | reflexivity].
  - change (ksum (seq 0 r) (fun a0 : nat => kif false (kif (a0 =? b) (x * get v a0))))
      with (ksum (seq 0 r) (fun _ : nat => zero)).
    rewrite (ksum_zero o laws). reflexivity.
Qed.

Lemma coo_to_mat_entry (S : coo o) i j : (let '(r, _, _) := S in i < r /\ j < r) ->
  mget o (coo_to_mat o S) i j = coo_dense o S i j.
Proof. destruct S as [[r c] es]. intros [Hi Hj]. unfold coo_to_mat. rewrite mget_mtab by assumption. reflexivity. Qed.

(* SparseOperator.apply_to / expect == DenseOperator.apply_to / expect for every representation and every state *)
Theorem sparse_dense_apply N (ops : list (o * tensor)) (v : L) : length v <= 2 ^ N ->
  coo_apply o (sparse_from_repr o N ops) v = mapply o (dense_from_repr o N ops) v /\
  coo_expect o (sparse_from_repr o N ops) v = mexpect o (dense_from_repr o N ops) v.
Proof.
  intros Hv. destruct (sparse_dense_from_repr N ops) as [Hs Ha]. destruct (dense_from_repr_entry N ops) as [Hd _].
  assert (E : coo_apply o (sparse_from_repr o N ops) v = mapply o (dense_from_repr o N ops) v).
  { remember (sparse_from_repr o N ops) as S. destruct S as [[r c] es]. simpl in Hs. inversion Hs; subst r c.
    rewrite coo_apply_dense by exact Hv. apply mapply_ext.
    - rewrite Hd. reflexivity.
    - change (fst (coo_to_mat o (2 ^ N, 2 ^ N, es))) with (2 ^ N). intros i j Hi Hj.
      rewrite coo_to_mat_entry by (split; assumption). apply Ha; assumption. }
  split; [exact E|]. unfold coo_expect, mexpect. rewrite E. reflexivity.
Qed.

End OpsProofs.
