(* The operator EvolveDensityMatrix.apply hands to krylov_exp (Model.SvLindRun.dm_op = -i*dt*(L @ x)):
   trace-free and Hermiticity preserving, every N, every jump list (C16). *)
From Coq Require Import List Arith Bool Lia Ring.
From EV Require Import Model.SvBase Model.SvHam Model.SvLindRun Proofs.SvBaseProofs Proofs.SvHamProofs
  Proofs.SvLindProofs Proofs.LindbladAlg Proofs.LindbladCode.
Import ListNotations.

Section Step.
Variable o : Kops.
Hypothesis laws : Klaws o.
Add Ring KrLS : (K_ring o laws).
Open Scope K_scope.
Notation cj := (kconj o).

Lemma dm_op_entry cpu N dt omega delta phinz cosphi sinphi U Ls (dm : list o) r c :
  length omega = N -> length dm = (2 ^ N * 2 ^ N)%nat -> r < 2 ^ N -> c < 2 ^ N ->
  get (dm_op o cpu N dt omega delta phinz cosphi sinphi U Ls dm) (r * 2 ^ N + c) =
  dm_coef o dt * get (lind_matmul o cpu N omega delta phinz cosphi sinphi U Ls dm) (r * 2 ^ N + c).
Proof.
  intros Lo Ld Hr Hc. unfold dm_op.
  apply (proj2 (vscale_spec o _ _)).
  rewrite (proj1 (lind_apply_general o laws cpu N omega delta phinz cosphi sinphi U Ls dm Lo Ld)).
  apply rc_lt; assumption.
Qed.

Theorem dm_op_trace_free cpu N dt omega delta phinz cosphi sinphi U Ls (dm : list o) :
  length omega = N -> length dm = (2 ^ N * 2 ^ N)%nat ->
  (forall n, cj (get omega n) = get omega n) -> (forall n, cj (get delta n) = get delta n) ->
  (forall n, cj (get cosphi n) = get cosphi n) -> (forall n, cj (get sinphi n) = get sinphi n) ->
  (forall i j, cj (getU o U i j) = getU o U i j) ->
  (forall a b, a < 2 ^ N -> b < 2 ^ N -> rho_of o (2 ^ N) dm a b = cj (rho_of o (2 ^ N) dm b a)) ->
  ksumn (2 ^ N) (fun r => get (dm_op o cpu N dt omega delta phinz cosphi sinphi U Ls dm) (r * 2 ^ N + r)) = k0 o.
Proof.
  intros Lo Ld Ho Hd Hcs Hsn HU Hh.
  rewrite (ksumn_ext o _ _ (fun r => dm_coef o dt *
             get (lind_matmul o cpu N omega delta phinz cosphi sinphi U Ls dm) (r * 2 ^ N + r))).
  - unfold ksumn. rewrite (ksum_mul_l o laws).
    change (ksum (seq 0 (2 ^ N)) (fun r => get (lind_matmul o cpu N omega delta phinz cosphi sinphi U Ls dm) (r * 2 ^ N + r)))
      with (ksumn (2 ^ N) (fun r => get (lind_matmul o cpu N omega delta phinz cosphi sinphi U Ls dm) (r * 2 ^ N + r))).
    rewrite (lind_matmul_trace_free o laws cpu N omega delta phinz cosphi sinphi U Ls dm Lo Ld Ho Hd Hcs Hsn HU Hh).
    ring.
  - intros r Hr. apply dm_op_entry; assumption.
Qed.

Theorem dm_op_hermitian cpu N dt omega delta phinz cosphi sinphi U Ls (dm : list o) :
  length omega = N -> length dm = (2 ^ N * 2 ^ N)%nat -> cj dt = dt ->
  (forall a b, a < 2 ^ N -> b < 2 ^ N -> rho_of o (2 ^ N) dm a b = cj (rho_of o (2 ^ N) dm b a)) ->
  forall r c, r < 2 ^ N -> c < 2 ^ N ->
    get (dm_op o cpu N dt omega delta phinz cosphi sinphi U Ls dm) (r * 2 ^ N + c) =
    cj (get (dm_op o cpu N dt omega delta phinz cosphi sinphi U Ls dm) (c * 2 ^ N + r)).
Proof.
  intros Lo Ld Hdt Hh r c Hr Hc.
  rewrite !dm_op_entry by assumption.
  rewrite (lind_matmul_antihermitian o laws cpu N omega delta phinz cosphi sinphi U Ls dm Lo Ld Hh r c Hr Hc).
  unfold dm_coef. rewrite !(conj_mul o laws), (conj_opp o laws), (conj_I o laws), Hdt. ring.
Qed.

End Step.
