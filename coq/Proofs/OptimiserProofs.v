(* Proofs about Model/Optimiser.v: the optimiser returns a permutation that is no worse than the
   original order, for every behaviour of the RCM / randperm oracles that returns permutations. *)
From Coq Require Import ZArith List Bool Arith Lia.
From EV Require Import Base.Arith Model.Permutations Model.Optimiser Proofs.PermutationsProofs.
Import ListNotations.
Set Implicit Arguments.
Open Scope Z_scope.

(* ---------- max_list / matrix_bandwidth ---------- *)
Lemma fold_max_spec : forall l x, let b := fold_left Z.max l x in
  x <= b /\ (forall y, In y l -> y <= b) /\ (b = x \/ In b l).
Proof.
  induction l; simpl; intros x.
  - split. lia. split. tauto. auto.
  - destruct (IHl (Z.max x a)) as [H1 [H2 H3]]. split. lia. split.
    + intros y [Hy|Hy]. subst. lia. auto.
    + destruct H3 as [H3|H3]; auto. rewrite H3. destruct (Z.max_spec x a) as [[_ E]|[_ E]]; rewrite E; auto.
Qed.

Lemma max_list_spec : forall l b, max_list l = Ok b -> (forall y, In y l -> y <= b) /\ In b l.
Proof.
  destruct l; simpl; intros b H. discriminate. inversion H; subst.
  destruct (fold_max_spec l z) as [H1 [H2 H3]]. split.
  - intros y [Hy|Hy]. subst; auto. auto.
  - destruct H3; auto.
Qed.

Lemma max_list_ok : forall l, l <> [] -> exists b, max_list l = Ok b.
Proof. destruct l; intros; [congruence|]. simpl. eauto. Qed.

Lemma max_list_inv_nonempty : forall l b, max_list l = Ok b -> l <> [].
Proof. destruct l; simpl; intros; congruence. Qed.

Lemma In_combine_seq : forall A (l : list A) s i x,
  In (i, x) (combine (seq s (length l)) l) <-> (s <= i)%nat /\ nth_error l (i - s) = Some x.
Proof.
  induction l; simpl; intros s i x.
  - split. tauto. intros [_ H]. destruct (i - s)%nat; discriminate.
  - rewrite IHl. split.
    + intros [H|[H1 H2]].
      * inversion H; subst. rewrite Nat.sub_diag. simpl. auto.
      * split. lia. replace (i - s)%nat with (S (i - S s)) by lia. simpl. auto.
    + intros [H1 H2]. destruct (Nat.eq_dec i s).
      * subst. rewrite Nat.sub_diag in H2. simpl in H2. inversion H2. auto.
      * right. split. lia. replace (i - s)%nat with (S (i - S s)) in H2 by lia. simpl in H2. auto.
Qed.

Definition wdist (x : Z) (i j : nat) : Z := Z.abs (x * (Z.of_nat j - Z.of_nat i)).

Lemma In_weighted : forall (m : matrix) w,
  In w (weighted m) <->
  exists i j row x, nth_error m i = Some row /\ nth_error row j = Some x /\ w = wdist x i j.
Proof.
  intros. unfold weighted. rewrite in_concat. split.
  - intros [l [Hl Hw]]. apply in_map_iff in Hl. destruct Hl as [[i row] [E Hin]]. subst l.
    apply In_combine_seq in Hin. destruct Hin as [_ Hi]. rewrite Nat.sub_0_r in Hi.
    unfold weighted_row in Hw. apply in_map_iff in Hw. destruct Hw as [[j x] [E Hin]].
    apply In_combine_seq in Hin. destruct Hin as [_ Hj]. rewrite Nat.sub_0_r in Hj.
    exists i, j, row, x. auto.
  - intros [i [j [row [x [Hi [Hj E]]]]]]. exists (weighted_row i row). split.
    + apply in_map_iff. exists (i, row). split; auto. apply In_combine_seq. rewrite Nat.sub_0_r.
      split; auto. lia.
    + unfold weighted_row. apply in_map_iff. exists (j, x). split; auto.
      apply In_combine_seq. rewrite Nat.sub_0_r. split; auto. lia.
Qed.

Lemma nth_error_entry : forall n (m : matrix) i j, wf n m -> (i < n)%nat -> (j < n)%nat ->
  exists row, nth_error m i = Some row /\ nth_error row j = Some (entry m i j).
Proof.
  intros n m i j [W1 W2] Hi Hj. exists (nth i m []). unfold entry.
  assert (In (nth i m []) m) by (apply nth_In; lia).
  rewrite Forall_forall in W2. specialize (W2 _ H).
  split; apply nth_error_nth'; lia.
Qed.

(* matrix_bandwidth m = max_{i,j} |m[i][j] * (j - i)| *)
Lemma matrix_bandwidth_spec : forall n (m : matrix), wf n m -> (1 <= n)%nat ->
  exists b, matrix_bandwidth m = Ok b /\ 0 <= b /\
    (forall i j, (i < n)%nat -> (j < n)%nat -> wdist (entry m i j) i j <= b) /\
    (exists i j, (i < n)%nat /\ (j < n)%nat /\ b = wdist (entry m i j) i j).
Proof.
  intros n m W Hn. unfold matrix_bandwidth.
  assert (In (wdist (entry m 0 0) 0 0) (weighted m)).
  { apply In_weighted. destruct (@nth_error_entry n m 0%nat 0%nat W) as [row [H1 H2]]; try lia.
    exists 0%nat, 0%nat, row, (entry m 0 0). auto. }
  destruct (max_list_ok (l := weighted m)) as [b E]. { intro E; rewrite E in H; inversion H. }
  exists b. split; auto. apply max_list_spec in E. destruct E as [E1 E2]. split; [|split].
  - specialize (E1 _ H). unfold wdist in E1. lia.
  - intros i j Hi Hj. apply E1. apply In_weighted.
    destruct (@nth_error_entry n m i j W) as [row [H1 H2]]; auto.
    exists i, j, row, (entry m i j). auto.
  - apply In_weighted in E2. destruct E2 as [i [j [row [x [Hi [Hj E]]]]]].
    pose proof W as [W1 W2].
    assert (i < n)%nat. { rewrite <- W1. apply nth_error_Some. congruence. }
    assert (In row m) by (eapply nth_error_In; eauto).
    rewrite Forall_forall in W2. specialize (W2 _ H1).
    assert (j < n)%nat. { rewrite <- W2. apply nth_error_Some. congruence. }
    exists i, j. split; auto. split; auto. subst b. f_equal. unfold entry.
    apply nth_error_nth with (d := []) in Hi. rewrite Hi.
    apply nth_error_nth with (d := 0) in Hj. auto.
Qed.

Lemma matrix_bandwidth_ok : forall n (m : matrix), wf n m -> (1 <= n)%nat ->
  exists b, matrix_bandwidth m = Ok b /\ 0 <= b.
Proof. intros. destruct (matrix_bandwidth_spec H H0) as [b [E [P _]]]. eauto. Qed.

(* signs do not matter *)
Lemma weighted_mabs : forall m, weighted (mabs m) = weighted m.
Proof.
  intros. unfold weighted, mabs. rewrite map_length.
  generalize 0%nat. induction m; simpl; intros s; auto. f_equal; auto.
  unfold weighted_row. rewrite map_length. generalize 0%nat. induction a; simpl; intros t; auto.
  f_equal; auto. rewrite !Z.abs_mul, Z.abs_involutive. reflexivity.
Qed.

Lemma matrix_bandwidth_mabs : forall m, matrix_bandwidth (mabs m) = matrix_bandwidth m.
Proof. intros. unfold matrix_bandwidth. rewrite weighted_mabs. reflexivity. Qed.

Lemma mabs_pm : forall m p, mabs (pm 0 m p) = pm 0 (mabs m) p.
Proof.
  intros. unfold mabs, pm, pl. rewrite !map_map. apply map_ext. intros i.
  rewrite map_map.
  change (@nil Z) with (map Z.abs []) at 2. rewrite map_nth.
  apply map_ext. intros j. change 0 with (Z.abs 0) at 2. rewrite map_nth. reflexivity.
Qed.

Lemma mabs_wf : forall n m, wf n m -> wf n (mabs m).
Proof.
  intros n m [W1 W2]. unfold mabs. split. rewrite map_length; auto.
  apply Forall_forall. intros r Hr. apply in_map_iff in Hr. destruct Hr as [x [E Hx]]. subst.
  rewrite map_length. rewrite Forall_forall in W2. auto.
Qed.

(* ---------- argmin ---------- *)
Lemma argmin_from_spec : forall C (key : C -> res Z) l best bk c k,
  argmin_from key best bk l = Ok (c, k) ->
  (c = best /\ k = bk \/ In c l /\ key c = Ok k) /\ k <= bk /\
  (forall c', In c' l -> exists k', key c' = Ok k' /\ k <= k').
Proof.
  induction l; simpl; intros best bk c k H.
  - inversion H; subst. split; auto. split. lia. tauto.
  - destruct (key a) eqn:E; simpl in H; try discriminate.
    destruct (v <? bk) eqn:L.
    + apply Z.ltb_lt in L. apply IHl in H. destruct H as [H1 [H2 H3]]. split; [|split].
      * right. destruct H1 as [[? ?]|[? ?]]; subst; auto.
      * lia.
      * intros c' [Hc|Hc]. subst. exists v. split; auto. auto.
    + apply Z.ltb_ge in L. apply IHl in H. destruct H as [H1 [H2 H3]]. split; [|split].
      * destruct H1 as [[? ?]|[? ?]]; subst; auto.
      * lia.
      * intros c' [Hc|Hc]. subst. exists v. split; auto. lia. auto.
Qed.

Lemma argmin_first_spec : forall C (key : C -> res Z) l c k,
  argmin_first key l = Ok (c, k) ->
  In c l /\ key c = Ok k /\ (forall c', In c' l -> exists k', key c' = Ok k' /\ k <= k').
Proof.
  destruct l; simpl; intros c0 k H. discriminate.
  destruct (key c) eqn:E; simpl in H; try discriminate.
  apply argmin_from_spec in H. destruct H as [H1 [H2 H3]]. split; [|split].
  - destruct H1 as [[? ?]|[? ?]]; subst; auto.
  - destruct H1 as [[? ?]|[? ?]]; subst; auto.
  - intros c' [Hc|Hc]. subst. exists v; split; auto. auto.
Qed.

Lemma argmin_from_ok : forall C (key : C -> res Z) l best bk,
  (forall c, In c l -> exists k, key c = Ok k) -> exists r, argmin_from key best bk l = Ok r.
Proof.
  induction l; simpl; intros best bk H. eauto.
  destruct (H a) as [k E]; auto. rewrite E. simpl. destruct (k <? bk); apply IHl; auto.
Qed.

Lemma argmin_first_ok : forall C (key : C -> res Z) l, l <> [] ->
  (forall c, In c l -> exists k, key c = Ok k) -> exists r, argmin_first key l = Ok r.
Proof.
  destruct l; intros Hn H. congruence. simpl. destruct (H c) as [k E]. simpl; auto. rewrite E. simpl.
  apply argmin_from_ok. intros; apply H; simpl; auto.
Qed.

Lemma best_pair_spec : forall l best, let b := best_pair best l in
  In b (best :: l) /\ forall r, In r (best :: l) -> snd b <= snd r.
Proof.
  induction l; simpl; intros best.
  - split; auto. intros r [H|[]]. subst. lia.
  - destruct (snd a <? snd best) eqn:L.
    + apply Z.ltb_lt in L. destruct (IHl a) as [H1 H2]. split.
      * simpl in H1. tauto.
      * intros r [H|[H|H]]; subst.
        -- specialize (H2 a (or_introl eq_refl)). lia.
        -- apply H2. simpl; auto.
        -- apply H2. simpl; auto.
    + apply Z.ltb_ge in L. destruct (IHl best) as [H1 H2]. split.
      * simpl in H1. tauto.
      * intros r [H|[H|H]]; subst.
        -- apply H2. simpl; auto.
        -- specialize (H2 best (or_introl eq_refl)). lia.
        -- apply H2. simpl; auto.
Qed.

Lemma list_nat_eqb_spec : forall a b, list_nat_eqb a b = true <-> a = b.
Proof.
  unfold list_nat_eqb. induction a; destruct b; simpl; split; intros H; try discriminate; auto.
  - apply andb_true_iff in H. destruct H as [H1 H2]. apply andb_true_iff in H2. destruct H2 as [H2 H3].
    apply Nat.eqb_eq in H2. subst. f_equal. apply IHa. rewrite H1, H3. auto.
  - inversion H; subst. assert (G := proj2 (IHa b) eq_refl). apply andb_true_iff in G.
    destruct G as [G1 G2]. rewrite G1, Nat.eqb_refl, G2. auto.
Qed.

(* ---------- the optimiser ---------- *)
Section OptProofs.
Variable rcm : matrix -> list nat.
Variable thresholds : list (Z * Z).
Variable n : nat.
(* the only thing assumed of SciPy's RCM: on an n x n matrix it returns a permutation of 0..n-1 *)
Hypothesis rcm_perm : forall m, wf n m -> is_perm n (rcm m).

Lemma truncate_wf : forall m t amp, wf n m -> wf n (truncate m t amp).
Proof.
  intros m t amp [W1 W2]. unfold truncate. split. rewrite map_length; auto.
  apply Forall_forall. intros r Hr. apply in_map_iff in Hr. destruct Hr as [x [E Hx]]. subst.
  rewrite map_length. rewrite Forall_forall in W2. auto.
Qed.

Lemma score_pm : forall m p, wf n m -> is_perm n p -> score m p = matrix_bandwidth (pm 0 m p).
Proof. intros. unfold score. rewrite (permute_matrix_ok 0 H (perm_lt H0)). reflexivity. Qed.

Lemma global_inv : forall m opt, wf n m -> minimize_bandwidth_global rcm thresholds m = Ok opt ->
  is_perm n opt.
Proof.
  intros m opt W H. unfold minimize_bandwidth_global in H.
  destruct (max_list (concat (mabs m))) eqn:E; simpl in H; try discriminate.
  destruct (argmin_first _ _) eqn:E2; simpl in H; try discriminate. inversion H; subst.
  destruct v0 as [c k]. apply argmin_first_spec in E2. destruct E2 as [Hin _].
  apply in_map_iff in Hin. destruct Hin as [t [Et _]]. simpl. subst c.
  unfold minimize_bandwidth_above_threshold. apply rcm_perm. apply truncate_wf; auto.
Qed.

Lemma global_ok : forall m, (1 <= n)%nat -> thresholds <> [] -> wf n m ->
  exists opt, minimize_bandwidth_global rcm thresholds m = Ok opt.
Proof.
  intros m Hn Ht W. unfold minimize_bandwidth_global.
  destruct (max_list_ok (l := concat (mabs m))) as [amp E].
  { pose proof (mabs_wf W) as [W1 W2]. destruct (mabs m) as [|r m']; simpl in *. lia.
    inversion W2; subst. destruct r; simpl in *. lia. discriminate. }
  rewrite E. simpl.
  destruct (@argmin_first_ok _ (score m)
     (map (fun t => minimize_bandwidth_above_threshold rcm m t amp) thresholds)) as [r Er].
  - destruct thresholds; simpl; congruence.
  - intros c Hc. apply in_map_iff in Hc. destruct Hc as [t [Et _]]. subst c.
    assert (P : is_perm n (minimize_bandwidth_above_threshold rcm m t amp)).
    { apply rcm_perm, truncate_wf; auto. }
    rewrite (score_pm W P). pose proof P as [P1 _].
    destruct (matrix_bandwidth_ok (pm_wf 0 m _ P1) Hn) as [b [Eb _]]. eauto.
  - rewrite Er. simpl. eauto.
Qed.

Section Start.
Variable M0 : matrix.
Hypothesis M0_wf : wf n M0.

(* invariant of the improvement loop: the working matrix is M0 permuted by the accumulated
   permutation and [bw] is its bandwidth *)
Definition Inv (m : matrix) (acc : list nat) (bw : Z) : Prop :=
  is_perm n acc /\ m = pm 0 M0 acc /\ matrix_bandwidth m = Ok bw.

Lemma Inv_wf : forall m acc bw, Inv m acc bw -> wf n m.
Proof. intros m acc bw [[P1 _] [E _]]. subst. apply pm_wf; auto. Qed.

Lemma impl_loop_spec : forall fuel m acc bw acc' bw', Inv m acc bw ->
  impl_loop rcm thresholds fuel m acc bw = Ok (acc', bw') ->
  Inv (pm 0 M0 acc') acc' bw' /\ bw' <= bw.
Proof.
  induction fuel; simpl; intros m acc bw acc' bw' HI H. discriminate.
  pose proof (Inv_wf HI) as W. pose proof HI as [Pa [Em Eb]].
  destruct (minimize_bandwidth_global rcm thresholds m) as [opt| |] eqn:G; simpl in H; try discriminate.
  pose proof (global_inv W G) as Po.
  rewrite (permute_matrix_ok 0 W (perm_lt Po)) in H. simpl in H.
  destruct (matrix_bandwidth (pm 0 m opt)) as [nb| |] eqn:B; simpl in H; try discriminate.
  destruct (bw <=? nb) eqn:L.
  - inversion H; subst acc' bw'. split. split; auto. split; auto. rewrite <- Em. auto. lia.
  - apply Z.leb_gt in L. unfold permute_vector in H. pose proof Pa as [Pa1 _].
    rewrite (permute_list_ok 0%nat) in H by (rewrite Pa1; apply (perm_lt Po)). simpl in H.
    apply IHfuel in H.
    + destruct H. split; auto. lia.
    + split. apply is_perm_compose; auto. split; auto.
      rewrite Em. apply (@pm_compose Z 0 n); auto. apply (perm_lt Po).
Qed.

(* the loop can only end normally or with the explicit NotImplementedError *)
Lemma impl_loop_errors : forall fuel m acc bw, (1 <= n)%nat -> thresholds <> [] -> Inv m acc bw ->
  (exists r, impl_loop rcm thresholds fuel m acc bw = Ok r) \/
  impl_loop rcm thresholds fuel m acc bw = Err E_NOT_CONVERGING.
Proof.
  induction fuel; simpl; intros m acc bw Hn Ht HI. auto.
  pose proof (Inv_wf HI) as W. pose proof HI as [Pa [Em Eb]].
  destruct (global_ok Hn Ht W) as [opt G]. rewrite G. simpl.
  pose proof (global_inv W G) as Po. pose proof Po as [Po1 _].
  rewrite (permute_matrix_ok 0 W (perm_lt Po)). simpl.
  destruct (matrix_bandwidth_ok (pm_wf 0 m opt Po1) Hn) as [nb [B _]]. rewrite B. simpl.
  destruct (bw <=? nb) eqn:L. eauto.
  unfold permute_vector. pose proof Pa as [Pa1 _].
  rewrite (permute_list_ok 0%nat) by (rewrite Pa1; apply (perm_lt Po)). simpl.
  apply IHfuel; auto.
  split. apply is_perm_compose; auto. split; auto.
  rewrite Em. apply (@pm_compose Z 0 n); auto. apply (perm_lt Po).
Qed.

(* termination bound: every accepted round lowers the (integer, non-negative) bandwidth, so
   [fuel] rounds suffice whenever the starting bandwidth is below [fuel] *)
Lemma impl_loop_terminates : forall fuel m acc bw, (1 <= n)%nat -> thresholds <> [] -> Inv m acc bw ->
  bw < Z.of_nat fuel -> exists r, impl_loop rcm thresholds fuel m acc bw = Ok r.
Proof.
  induction fuel; simpl; intros m acc bw Hn Ht HI Hb.
  - pose proof (Inv_wf HI) as W. destruct HI as [_ [_ Eb]].
    destruct (matrix_bandwidth_ok W Hn) as [b [E Hp]]. rewrite Eb in E. inversion E. lia.
  - pose proof (Inv_wf HI) as W. pose proof HI as [Pa [Em Eb]].
    destruct (global_ok Hn Ht W) as [opt G]. rewrite G. simpl.
    pose proof (global_inv W G) as Po. pose proof Po as [Po1 _].
    rewrite (permute_matrix_ok 0 W (perm_lt Po)). simpl.
    destruct (matrix_bandwidth_ok (pm_wf 0 m opt Po1) Hn) as [nb [B Hnb]]. rewrite B. simpl.
    destruct (bw <=? nb) eqn:L. eauto. apply Z.leb_gt in L.
    unfold permute_vector. pose proof Pa as [Pa1 _].
    rewrite (permute_list_ok 0%nat) by (rewrite Pa1; apply (perm_lt Po)). simpl.
    apply IHfuel; auto; [|lia].
    split. apply is_perm_compose; auto. split; auto.
    rewrite Em. apply (@pm_compose Z 0 n); auto. apply (perm_lt Po).
Qed.

Lemma impl_start : forall init, is_perm n init ->
  (if list_nat_eqb init (seq 0 (length M0)) then Ok M0 else permute_matrix M0 init)
  = Ok (pm 0 M0 init).
Proof.
  intros init P. destruct (list_nat_eqb init (seq 0 (length M0))) eqn:E.
  - apply list_nat_eqb_spec in E. subst init. destruct M0_wf as [W1 _]. rewrite W1.
    rewrite pm_id; auto.
  - apply (permute_matrix_ok 0 M0_wf (perm_lt P)).
Qed.

Lemma impl_spec : forall init acc bw, is_perm n init ->
  minimize_bandwidth_impl rcm thresholds M0 init = Ok (acc, bw) ->
  is_perm n acc /\ matrix_bandwidth (pm 0 M0 acc) = Ok bw /\
  exists b0, matrix_bandwidth (pm 0 M0 init) = Ok b0 /\ bw <= b0.
Proof.
  intros init acc bw P H. unfold minimize_bandwidth_impl in H. rewrite (impl_start P) in H. cbn [res_bind] in H.
  destruct (matrix_bandwidth (pm 0 M0 init)) as [b0| |] eqn:B; cbn [res_bind] in H; try discriminate.
  apply impl_loop_spec in H.
  - destruct H as [[Pa [_ Eb]] Hle]. split; auto. split; auto. exists b0. auto.
  - split; auto.
Qed.

Lemma impl_errors : forall init, (1 <= n)%nat -> thresholds <> [] -> is_perm n init ->
  (exists r, minimize_bandwidth_impl rcm thresholds M0 init = Ok r) \/
  minimize_bandwidth_impl rcm thresholds M0 init = Err E_NOT_CONVERGING.
Proof.
  intros init Hn Ht P. unfold minimize_bandwidth_impl. rewrite (impl_start P). cbn [res_bind].
  pose proof P as [P1 _].
  destruct (matrix_bandwidth_ok (pm_wf 0 M0 init P1) Hn) as [b0 [B _]]. rewrite B. cbn [res_bind].
  apply impl_loop_errors; auto. split; auto.
Qed.

Lemma impl_terminates : forall init b0, (1 <= n)%nat -> thresholds <> [] -> is_perm n init ->
  matrix_bandwidth (pm 0 M0 init) = Ok b0 -> b0 < 100 ->
  exists r, minimize_bandwidth_impl rcm thresholds M0 init = Ok r.
Proof.
  intros init b0 Hn Ht P B Hb. unfold minimize_bandwidth_impl. rewrite (impl_start P). cbn [res_bind].
  rewrite B. cbn [res_bind]. apply impl_loop_terminates; auto. split; auto.
Qed.
End Start.

(* ---------- minimize_bandwidth ---------- *)
Lemma score_mabs : forall m p, wf n m -> is_perm n p -> score (mabs m) p = score m p.
Proof.
  intros. rewrite (score_pm (mabs_wf H) H0), (score_pm H H0).
  rewrite <- mabs_pm. apply matrix_bandwidth_mabs.
Qed.

Theorem minimize_bandwidth_spec : forall input rnds p,
  wf n input -> Forall (is_perm n) rnds ->
  minimize_bandwidth rcm thresholds input rnds = Ok p ->
  is_symmetric input = true /\ is_perm n p /\
  exists b b0, score input p = Ok b /\ matrix_bandwidth input = Ok b0 /\ b <= b0 /\
    forall r, In r rnds -> exists br, score input r = Ok br /\ b <= br.
Proof.
  intros input rnds p W HR H. unfold minimize_bandwidth in H.
  destruct (is_symmetric input) eqn:S; cbn [negb] in H; try discriminate. split; auto.
  pose proof (mabs_wf W) as Wa. set (m := mabs input) in *.
  assert (Lm : length m = n) by (destruct Wa; auto). rewrite Lm in H. clear Lm.
  destruct (mapM _ _) as [rs| |] eqn:E; simpl in H; try discriminate.
  apply mapM_inv in E. inversion E as [|s0 r0 ss rs' E0 Es]; subst. clear E.
  destruct (matrix_bandwidth input) as [b0| |] eqn:B0; simpl in H; try discriminate.
  pose proof (best_pair_spec rs' r0) as [Hin Hmin]. simpl in Hin, Hmin.
  set (best := best_pair r0 rs') in *.
  destruct (snd best <=? b0) eqn:L; try discriminate. inversion H; subst p. clear H.
  (* every start is a permutation and every result satisfies impl_spec *)
  assert (ST : Forall (is_perm n) (seq 0 n :: rnds)). { constructor; auto. apply is_perm_seq. }
  assert (ALL : forall r, In r (r0 :: rs') -> is_perm n (fst r) /\
             matrix_bandwidth (pm 0 m (fst r)) = Ok (snd r)).
  { intros r Hr. assert (F2 : Forall2 (fun s y => minimize_bandwidth_impl rcm thresholds m s = Ok y)
                                  (seq 0 n :: rnds) (r0 :: rs')) by (constructor; auto).
    clear -F2 ST Hr Wa rcm_perm. induction F2. inversion Hr.
    inversion ST; subst. destruct Hr as [Hr|Hr]; auto. subst y. destruct r as [a bw].
    destruct (impl_spec Wa H2 H) as [A1 [A2 _]]. auto. }
  destruct (ALL best) as [Pb Bb]; auto. split; auto.
  exists (snd best), b0. split; [|split; [|split]]; auto.
  - rewrite <- (score_mabs W Pb). fold m. rewrite (score_pm Wa Pb). auto.
  - apply Z.leb_le; auto.
  - intros r Hr.
    (* the run started from r ends no worse than r, and best is no worse than that run *)
    assert (exists y, In y rs' /\ minimize_bandwidth_impl rcm thresholds m r = Ok y) as [y [Hy Ey]].
    { clear -Es Hr. induction Es. inversion Hr. destruct Hr as [Hr|Hr].
      subst. exists y; simpl; auto. destruct (IHEs Hr) as [y' [? ?]]. exists y'; simpl; auto. }
    assert (Pr : is_perm n r). { rewrite Forall_forall in HR. auto. }
    destruct y as [a bw]. destruct (impl_spec Wa Pr Ey) as [_ [_ [br [Br Hle]]]].
    exists br. split.
    + rewrite <- (score_mabs W Pr). fold m. rewrite (score_pm Wa Pr). auto.
    + specialize (Hmin (a, bw) (or_intror Hy)). simpl in Hmin. lia.
Qed.

(* no assertion and no index error can fire: the only possible exception is NotImplementedError *)
Theorem minimize_bandwidth_errors : forall input rnds,
  (1 <= n)%nat -> thresholds <> [] -> wf n input -> is_symmetric input = true ->
  Forall (is_perm n) rnds ->
  (exists p, minimize_bandwidth rcm thresholds input rnds = Ok p) \/
  minimize_bandwidth rcm thresholds input rnds = Err E_NOT_CONVERGING.
Proof.
  intros input rnds Hn Ht W S HR. unfold minimize_bandwidth. rewrite S. cbn [negb].
  pose proof (mabs_wf W) as Wa. set (m := mabs input) in *.
  assert (Lm : length m = n) by (destruct Wa; auto). rewrite Lm. clear Lm.
  assert (ST : Forall (is_perm n) (seq 0 n :: rnds)). { constructor; auto. apply is_perm_seq. }
  assert (MM : (exists rs, mapM (minimize_bandwidth_impl rcm thresholds m) (seq 0 n :: rnds) = Ok rs) \/
               mapM (minimize_bandwidth_impl rcm thresholds m) (seq 0 n :: rnds) = Err E_NOT_CONVERGING).
  { clear -ST Hn Ht Wa rcm_perm. induction ST. left; simpl; eauto.
    simpl. destruct (impl_errors Wa Hn Ht H) as [[r E]|E]; rewrite E; simpl; auto.
    destruct IHST as [[rs E2]|E2]; rewrite E2; simpl; eauto. }
  destruct MM as [[rs E]|E]; rewrite E; simpl; auto.
  pose proof E as E'. apply mapM_inv in E'. inversion E' as [|s0 r0 ss rs' E0 Es]; subst.
  destruct (matrix_bandwidth_ok W Hn) as [b0 [B0 _]]. rewrite B0. simpl.
  pose proof (best_pair_spec rs' r0) as [Hin Hmin]. simpl in Hmin.
  destruct r0 as [a0 bw0].
  destruct (impl_spec Wa (is_perm_seq n) E0) as [_ [_ [bi [Bi Hle]]]].
  rewrite (pm_id 0 Wa) in Bi. unfold m in Bi. rewrite matrix_bandwidth_mabs, B0 in Bi.
  inversion Bi; subst bi.
  specialize (Hmin (a0, bw0) (or_introl eq_refl)). simpl in Hmin.
  replace (snd (best_pair (a0, bw0) rs') <=? b0) with true. eauto.
  symmetry. apply Z.leb_le. lia.
Qed.

(* when every start has bandwidth below 100 the call returns *)
Theorem minimize_bandwidth_terminates : forall input rnds,
  (1 <= n)%nat -> thresholds <> [] -> wf n input -> is_symmetric input = true ->
  Forall (is_perm n) rnds ->
  (forall s, In s (seq 0 n :: rnds) -> exists b, score input s = Ok b /\ b < 100) ->
  exists p, minimize_bandwidth rcm thresholds input rnds = Ok p.
Proof.
  intros input rnds Hn Ht W S HR HB.
  destruct (minimize_bandwidth_errors Hn Ht W S HR) as [H|H]; auto. exfalso.
  unfold minimize_bandwidth in H. rewrite S in H. cbn [negb] in H.
  pose proof (mabs_wf W) as Wa. set (m := mabs input) in *.
  assert (Lm : length m = n) by (destruct Wa; auto). rewrite Lm in H. clear Lm.
  assert (ST : Forall (is_perm n) (seq 0 n :: rnds)). { constructor; auto. apply is_perm_seq. }
  assert (MM : exists rs, mapM (minimize_bandwidth_impl rcm thresholds m) (seq 0 n :: rnds) = Ok rs).
  { clear H. revert HB. generalize (seq 0 n :: rnds) ST. clear ST. induction 1; intros HB.
    simpl; eauto. simpl.
    destruct (HB x (or_introl eq_refl)) as [b [Eb Hb]].
    rewrite <- (score_mabs W H) in Eb. fold m in Eb. rewrite (score_pm Wa H) in Eb.
    destruct (impl_terminates Wa Hn Ht H Eb Hb) as [r E]. rewrite E. simpl.
    destruct IHST as [rs E2]. intros; apply HB; simpl; auto. rewrite E2. simpl. eauto. }
  destruct MM as [rs E]. rewrite E in H. simpl in H. destruct rs; try discriminate.
  destruct (matrix_bandwidth_ok W Hn) as [b0 [B0 _]]. rewrite B0 in H. simpl in H.
  destruct (_ <=? _); discriminate.
Qed.
End OptProofs.

(* the executable predicate used to judge the real optimiser's output is the theorem's conclusion *)
Lemma result_ok_spec : forall input p, result_ok input p = true <->
  is_perm (length input) p /\
  exists b b0, score input p = Ok b /\ matrix_bandwidth input = Ok b0 /\ b <= b0.
Proof.
  intros. unfold result_ok. rewrite andb_true_iff, is_permb_spec. split.
  - intros [H1 H2]. split; auto. destruct (score input p); try discriminate.
    destruct (matrix_bandwidth input); try discriminate. apply Z.leb_le in H2. eauto.
  - intros [H1 [b [b0 [E1 [E2 H]]]]]. split; auto. rewrite E1, E2. apply Z.leb_le; auto.
Qed.

(* the oracle premise is satisfiable (the identity is a legal RCM answer) *)
Lemma rcm_identity_ok : forall n m, wf n m -> is_perm n ((fun m : matrix => seq 0 (length m)) m).
Proof. intros n m [W _]. simpl. rewrite W. apply is_perm_seq. Qed.
