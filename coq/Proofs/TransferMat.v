(* Reusable lemmas about finite sums, row vectors and bond tensors over a commutative ring
   (formalism F3).  Everything is proved for an arbitrary [RingOps K] satisfying [ring_theory]. *)
From Coq Require Import List Arith Lia Ring Bool ZArith.
From EV Require Import Model.TransferMat.
Import ListNotations.

Section TMProofs.
Variable K : Type.
Variable Ko : RingOps K.
Hypothesis Kring : ring_theory (k0 Ko) (k1 Ko) (kadd Ko) (kmul Ko) (ksub Ko) (kopp Ko) (@eq K).
Add Ring KRing : Kring.
Local Notation "'zero'" := (k0 Ko).
Local Notation "'one'" := (k1 Ko).
Local Infix "[+]" := (kadd Ko) (at level 50, left associativity).
Local Infix "[*]" := (kmul Ko) (at level 40, left associativity).
Local Notation sumn := (sumn Ko).
Local Notation sumL := (sumL Ko).
Local Notation dotf := (dotf Ko).
Local Notation vscale := (vscale Ko).
Local Notation vstep := (vstep Ko).
Local Notation ampv := (ampv Ko).

(* ---- sums over ranges ---- *)
Lemma sumn_ext n f g : (forall i, i < n -> f i = g i) -> sumn n f = sumn n g.
Proof.
  induction n; simpl; intros H; [reflexivity|].
  rewrite IHn by (intros; apply H; lia). rewrite H by lia. reflexivity.
Qed.

Lemma sumn_zero n : sumn n (fun _ => zero) = zero.
Proof. induction n; simpl; [reflexivity|]. rewrite IHn. ring. Qed.

Lemma sumn_add n f g : sumn n (fun i => f i [+] g i) = sumn n f [+] sumn n g.
Proof. induction n; simpl; [ring|]. rewrite IHn. ring. Qed.

Lemma sumn_scale n c f : sumn n (fun i => c [*] f i) = c [*] sumn n f.
Proof. induction n; simpl; [ring|]. rewrite IHn. ring. Qed.

Lemma sumn_scale_r n c f : sumn n (fun i => f i [*] c) = sumn n f [*] c.
Proof. induction n; simpl; [ring|]. rewrite IHn. ring. Qed.

Lemma sumn_split n m f : sumn (n + m) f = sumn n f [+] sumn m (fun i => f (n + i)).
Proof.
  induction m; simpl.
  - rewrite Nat.add_0_r. ring.
  - rewrite Nat.add_succ_r. simpl. rewrite IHm. ring.
Qed.

Lemma sumn_swap n m (f : nat -> nat -> K) :
  sumn n (fun i => sumn m (fun j => f i j)) = sumn m (fun j => sumn n (fun i => f i j)).
Proof.
  induction n; simpl.
  - rewrite sumn_zero. reflexivity.
  - rewrite IHn. rewrite <- sumn_add. reflexivity.
Qed.

Lemma sumn_one f : sumn 1 f = f 0.
Proof. simpl. ring. Qed.

(* ---- sums over lists ---- *)
Lemma sumL_ext (A : Type) (l : list A) f g : (forall x, In x l -> f x = g x) -> sumL l f = sumL l g.
Proof.
  induction l; simpl; intros H; [reflexivity|].
  rewrite H by (left; reflexivity). rewrite IHl by (intros; apply H; right; assumption). reflexivity.
Qed.
Lemma sumL_app (A : Type) (l1 l2 : list A) f : sumL (l1 ++ l2) f = sumL l1 f [+] sumL l2 f.
Proof. induction l1; simpl; [ring|]. rewrite IHl1. ring. Qed.
Lemma sumL_map (A B : Type) (h : A -> B) (l : list A) f : sumL (map h l) f = sumL l (fun x => f (h x)).
Proof. induction l; simpl; [reflexivity|]. rewrite IHl. reflexivity. Qed.
Lemma sumL_zero (A : Type) (l : list A) : sumL l (fun _ => zero) = zero.
Proof. induction l; simpl; [reflexivity|]. rewrite IHl. ring. Qed.
Lemma sumL_add (A : Type) (l : list A) f g : sumL l (fun x => f x [+] g x) = sumL l f [+] sumL l g.
Proof. induction l; simpl; [ring|]. rewrite IHl. ring. Qed.
Lemma sumL_scale (A : Type) (l : list A) c f : sumL l (fun x => c [*] f x) = c [*] sumL l f.
Proof. induction l; simpl; [ring|]. rewrite IHl. ring. Qed.
Lemma sumL_scale_r (A : Type) (l : list A) c f : sumL l (fun x => f x [*] c) = sumL l f [*] c.
Proof. induction l; simpl; [ring|]. rewrite IHl. ring. Qed.
Lemma sumL_sumn_swap (A : Type) (l : list A) n (f : A -> nat -> K) :
  sumL l (fun x => sumn n (fun i => f x i)) = sumn n (fun i => sumL l (fun x => f x i)).
Proof.
  induction l; simpl.
  - rewrite sumn_zero. reflexivity.
  - rewrite IHl. rewrite <- sumn_add. reflexivity.
Qed.
Lemma sumL_flat_map (A B : Type) (h : A -> list B) (l : list A) f :
  sumL (flat_map h l) f = sumL l (fun x => sumL (h x) f).
Proof. induction l; simpl; [reflexivity|]. rewrite sumL_app, IHl. reflexivity. Qed.
Lemma sumL_seq n f : sumL (seq 0 n) f = sumn n f.
Proof.
  induction n; [reflexivity|].
  rewrite seq_S, sumL_app, IHn. simpl. ring.
Qed.

(* ---- dot products ---- *)
Lemma dotf_ext v : forall f g, (forall i, i < length v -> f i = g i) -> dotf v f = dotf v g.
Proof.
  induction v; simpl; intros f g H; [reflexivity|].
  rewrite H by lia. rewrite (IHv (fun l => f (S l)) (fun l => g (S l))); [reflexivity|].
  intros; apply H; lia.
Qed.

Lemma dotf_app a : forall b f, dotf (a ++ b) f = dotf a f [+] dotf b (fun l => f (length a + l)).
Proof.
  induction a; simpl; intros b f.
  - transitivity (zero [+] dotf b f); [ring|reflexivity].
  - rewrite IHa. ring.
Qed.

Lemma dotf_zero v : forall f, (forall i, i < length v -> f i = zero) -> dotf v f = zero.
Proof.
  induction v; simpl; intros f H; [reflexivity|].
  rewrite H by lia. rewrite IHv by (intros; apply H; lia). ring.
Qed.

Lemma dotf_scale_r v : forall c f, dotf v (fun l => c [*] f l) = c [*] dotf v f.
Proof. induction v; simpl; intros c f; [ring|]. rewrite IHv. ring. Qed.

Lemma dotf_vscale v : forall c f, dotf (vscale c v) f = c [*] dotf v f.
Proof. induction v; simpl; intros c f; [ring|]. rewrite IHv. ring. Qed.

Lemma dotf_add_r v : forall f g, dotf v (fun l => f l [+] g l) = dotf v f [+] dotf v g.
Proof. induction v; simpl; intros f g; [ring|]. rewrite IHv. ring. Qed.

Lemma dotf_sumn_r v : forall n (f : nat -> nat -> K),
  dotf v (fun l => sumn n (fun i => f l i)) = sumn n (fun i => dotf v (fun l => f l i)).
Proof.
  induction v; simpl; intros n f.
  - rewrite sumn_zero. reflexivity.
  - rewrite (IHv n (fun l i => f (S l) i)).
    rewrite (sumn_add n (fun i => a [*] f 0 i) (fun i => dotf v (fun l => f (S l) i))).
    rewrite sumn_scale. reflexivity.
Qed.

Lemma dotf_single x f : dotf [x] f = x [*] f 0.
Proof. simpl. ring. Qed.

(* dot product as a range sum *)
Lemma dotf_sumn v : forall f, dotf v f = sumn (length v) (fun l => nth l v zero [*] f l).
Proof.
  induction v; intros f; [reflexivity|].
  change (length (a :: v)) with (1 + length v). rewrite sumn_split. simpl.
  rewrite IHv. ring.
Qed.

(* ---- seq helpers ---- *)
Lemma seq_shift_map n m : seq n m = map (fun i => n + i) (seq 0 m).
Proof.
  revert n; induction m; intros n; simpl; [reflexivity|].
  rewrite Nat.add_0_r. f_equal. rewrite (IHm (S n)), (IHm 1), map_map.
  apply map_ext. intros; lia.
Qed.

Lemma length_vscale c v : length (vscale c v) = length v.
Proof. apply map_length. Qed.
Lemma length_vstep v (T : T3 K) s : length (vstep v T s) = dr T.
Proof. unfold TransferMat.vstep. rewrite map_length, seq_length. reflexivity. Qed.

(* ---- linearity of the amplitude in the boundary vector ---- *)
Lemma vstep_vscale c v (T : T3 K) s : vstep (vscale c v) T s = vscale c (vstep v T s).
Proof.
  unfold TransferMat.vstep, TransferMat.vscale. rewrite map_map. apply map_ext. intros r.
  apply dotf_vscale.
Qed.

Lemma ampv_vscale c : forall Ts v b, ampv (vscale c v) Ts b = option_map (fun x => c [*] x) (ampv v Ts b).
Proof.
  induction Ts as [|T Ts IH]; intros v b.
  - destruct b; simpl; [|reflexivity]. destruct v as [|x [|y v]]; reflexivity.
  - destruct b as [|s b]; simpl; [reflexivity|].
    rewrite length_vscale. destruct ((length v =? dl T) && (s <? dp T)); [|reflexivity].
    rewrite vstep_vscale. apply IH.
Qed.

End TMProofs.

(* ---- the execution instance is a commutative ring with involution ---- *)
Lemma gi_ring : ring_theory (k0 gi_ops) (k1 gi_ops) (kadd gi_ops) (kmul gi_ops) (ksub gi_ops) (kopp gi_ops) (@eq GI).
Proof.
  constructor; intros; unfold GI in *;
    repeat match goal with x : (Z * Z)%type |- _ => destruct x end;
    cbn [k0 k1 kadd kmul ksub kopp gi_ops fst snd]; f_equal; ring.
Qed.
Lemma gi_conj_add a b : kconj gi_ops (kadd gi_ops a b) = kadd gi_ops (kconj gi_ops a) (kconj gi_ops b).
Proof. destruct a, b; cbn [kconj kadd kmul gi_ops fst snd]; f_equal; ring. Qed.
Lemma gi_conj_mul a b : kconj gi_ops (kmul gi_ops a b) = kmul gi_ops (kconj gi_ops a) (kconj gi_ops b).
Proof. destruct a, b; cbn [kconj kadd kmul gi_ops fst snd]; f_equal; ring. Qed.
Lemma gi_conj_zero : kconj gi_ops (k0 gi_ops) = k0 gi_ops.
Proof. reflexivity. Qed.
