(* Physical ranges of the C13 observables over the complex numbers CK = R x R (Proofs/SvComplexInstance.v):
   occupations and correlations of a normalised state lie in [0,1], the energy variance is >= 0. *)
From Coq Require Import List Arith Bool Reals Lra Lia.
From EV Require Import Model.SvBase Model.SvHam Model.SvState Model.SvObs
  Proofs.SvBaseProofs Proofs.SvHamProofs Proofs.SvComplexInstance Proofs.SvObsProofs.
Import ListNotations.
Open Scope R_scope.

Lemma fst_nrm2 (x : CK) : 0 <= fst (@nrm2 CK x).
Proof. destruct x as [a b]. simpl. nra. Qed.

Lemma fst_kre (z : CK) : fst (@kre CK z) = fst z.
Proof. destruct z as [a b]. simpl. lra. Qed.

Lemma fst_kif_bounds b (x : CK) : 0 <= fst x -> 0 <= fst (@kif CK b x) <= fst x.
Proof. destruct b; simpl; lra. Qed.

Lemma fst_ksum_nonneg {A} (l : list A) (f : A -> CK) :
  (forall a, In a l -> 0 <= fst (f a)) -> 0 <= fst (@ksum CK A l f).
Proof.
  induction l as [|a l IH]; simpl; intros H; [lra|].
  pose proof (H a (or_introl eq_refl)). pose proof (IH (fun x Hx => H x (or_intror Hx))). lra.
Qed.

Lemma fst_ksum_le {A} (l : list A) (f g : A -> CK) :
  (forall a, In a l -> fst (f a) <= fst (g a)) -> fst (@ksum CK A l f) <= fst (@ksum CK A l g).
Proof.
  induction l as [|a l IH]; simpl; intros H; [lra|].
  pose proof (H a (or_introl eq_refl)). pose proof (IH (fun x Hx => H x (or_intror Hx))). lra.
Qed.

(* a sum of non-negative weights restricted by any predicate lies between 0 and the full sum *)
Lemma restricted_sum_bounds n (p : nat -> bool) (w : nat -> CK) :
  (forall k, (k < n)%nat -> 0 <= fst (w k)) ->
  0 <= fst (@ksumn CK n (fun k => @kif CK (p k) (w k))) <= fst (@ksumn CK n w).
Proof.
  intros Hw. unfold ksumn. split.
  - apply fst_ksum_nonneg. intros k Hk. apply in_seq in Hk. apply fst_kif_bounds. apply Hw; lia.
  - apply fst_ksum_le. intros k Hk. apply in_seq in Hk. apply fst_kif_bounds. apply Hw; lia.
Qed.

Theorem sv_occupation_range N (psi : list CK) i : length psi = (2 ^ N)%nat -> (i < N)%nat ->
  vdot CK psi psi = k1 CK ->
  0 <= fst (get (sv_occupation CK N psi) i) <= 1.
Proof.
  intros Hl Hi Hn. rewrite (sv_occupation_spec CK N psi i Hl Hi). unfold occ_def.
  pose proof (restricted_sum_bounds (2 ^ N) (fun k => bit N i k =? 1)%nat (fun k => nrm2 (get psi k))
                (fun k _ => fst_nrm2 _)) as B.
  unfold vdot in Hn. rewrite Hl in Hn. unfold nrm2 in B at 3. rewrite Hn in B. simpl in B. exact B.
Qed.

Theorem sv_correlation_range N (psi : list CK) i j : length psi = (2 ^ N)%nat -> (i < N)%nat -> (j < N)%nat ->
  vdot CK psi psi = k1 CK ->
  0 <= fst (get (sv_correlation CK N psi) (i * N + j)) <= 1.
Proof.
  intros Hl Hi Hj Hn. rewrite (sv_correlation_spec CK N psi i j Hl Hi Hj). unfold corr_def.
  pose proof (restricted_sum_bounds (2 ^ N) (fun k => (bit N i k =? 1) && (bit N j k =? 1))%nat
                (fun k => nrm2 (get psi k)) (fun k _ => fst_nrm2 _)) as B.
  unfold vdot in Hn. rewrite Hl in Hn. unfold nrm2 in B at 3. rewrite Hn in B. simpl in B. exact B.
Qed.

(* density matrices: non-negative diagonal with unit trace *)
Theorem dm_occupation_range N (rho : list CK) i : (i < N)%nat ->
  (forall k, (k < 2 ^ N)%nat -> 0 <= fst (get rho (k * 2 ^ N + k))) ->
  fst (trace CK (2 ^ N) rho) = 1 ->
  0 <= fst (get (dm_occupation CK N rho) i) <= 1.
Proof.
  intros Hi Hp Ht. rewrite (dm_occupation_spec CK N rho i Hi), fst_kre. unfold occ_def.
  pose proof (restricted_sum_bounds (2 ^ N) (fun k => bit N i k =? 1)%nat
                (fun k => get rho (k * 2 ^ N + k)) Hp) as B.
  unfold trace in Ht. rewrite Ht in B. exact B.
Qed.

Theorem dm_correlation_range N (rho : list CK) i j : (i < N)%nat -> (j < N)%nat ->
  (forall k, (k < 2 ^ N)%nat -> 0 <= fst (get rho (k * 2 ^ N + k))) ->
  fst (trace CK (2 ^ N) rho) = 1 ->
  0 <= fst (get (dm_correlation CK N rho) (i * N + j)) <= 1.
Proof.
  intros Hi Hj Hp Ht. rewrite (dm_correlation_spec CK N rho i j Hi Hj), fst_kre. unfold corr_def.
  pose proof (restricted_sum_bounds (2 ^ N) (fun k => (bit N i k =? 1) && (bit N j k =? 1))%nat
                (fun k => get rho (k * 2 ^ N + k)) Hp) as B.
  unfold trace in Ht. rewrite Ht in B. exact B.
Qed.

Theorem sv_variance_nonneg D (H : mfun CK) (psi : list CK) :
  hermitian CK D H -> length psi = D -> vdot CK psi psi = k1 CK ->
  0 <= fst (sv_variance CK D H psi).
Proof.
  intros Hh Hl Hn. rewrite (sv_variance_centered CK CK_laws D H Hh psi Hl Hn).
  unfold ksumn. apply fst_ksum_nonneg. intros k _. apply fst_nrm2.
Qed.

(* the premises are satisfiable: |psi> = |r g>, H = n_0 - n_1 restricted to the diagonal *)
Example ranges_premises_satisfiable :
  let psi : list CK := [(0, 0); (0, 0); (1, 0); (0, 0)] in
  let H : mfun CK := fun i j => if (i =? j)%nat then (INR i, 0) else (0, 0) in
  length psi = (2 ^ 2)%nat /\ vdot CK psi psi = k1 CK /\ hermitian CK 4 H.
Proof.
  simpl. split; [reflexivity|]. split.
  - unfold vdot, ksumn. simpl. f_equal; lra.
  - intros i j _ _. destruct (Nat.eqb_spec i j) as [->|E].
    + rewrite Nat.eqb_refl. simpl. f_equal. lra.
    + destruct (Nat.eqb_spec j i); [congruence|]. simpl. f_equal. lra.
Qed.
