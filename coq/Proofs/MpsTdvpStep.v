(* Proofs about the emu-mps stepping machine (Model/MpsMachine.v); see Properties/C02.v. *)
From Coq Require Import ZArith List Bool Lia.
From EV Require Import Base.Arith Gen.Brent Model.MpsMachine.
From EV Require Import Proofs.MpsStep Proofs.MpsPhase Proofs.MpsSweep Proofs.MpsTdvpComplete.
Import ListNotations.
Open Scope Z_scope.
Section P.
Variable A : Type.
Variable ar : Arith A.
Notation mstate := (mstate A).
Notation event := (event A).
Notation progress_l2r_mid := (@progress_l2r_mid A ar).
Notation progress_r2l_mid := (@progress_r2l_mid A ar).
Notation same_frame := (@same_frame A).
Notation pos := (@pos A).
Notation tdvp_like := (@tdvp_like A).
Notation l2r_block := (@l2r_block A ar).
Notation r2l_block := (@r2l_block A ar).
Notation hdt := (@hdt A ar). Notation nhdt := (@nhdt A ar). Notation dt_of := (@dt_of A ar).
Notation same_frame_refl := (@same_frame_refl A).
Notation same_frame_trans := (@same_frame_trans A).
Notation same_frame_dt := (@same_frame_dt A ar).
Notation l2r_phase := (@l2r_phase A ar).
Notation r2l_phase := (@r2l_phase A ar).
Notation progress_l2r_last := (@progress_l2r_last A ar).
Notation progress_r2l_last := (@progress_r2l_last A ar).
Notation iter_progress_app := (@iter_progress_app A ar).
Notation tdvp_like_frame := (@tdvp_like_frame A).
Notation mid_block := (@mid_block A ar).
Notation r2l_call := (@r2l_call A ar).
Notation before_complete := (@before_complete A ar).

Notation sweep_body := (@sweep_body A ar).
Notation sweep_prefix := (@sweep_prefix A ar).
Notation sweep_start := (@sweep_start A).

Ltac sp := cbn [m_kind m_N m_steps m_times m_sweep m_l2r m_tidx m_cur m_tgt m_nl m_nr m_oc m_thr m_gap m_rf
  m_prevE m_curE m_sweeps m_etol m_maxsw o_norm o_unif o_energy o_same m_ev
  emit set_sweep set_l2r set_tidx set_cur set_tgt set_nl set_nr set_oc set_thr set_gap set_rf set_prevE
  set_curE set_sweeps set_onorm set_ounif set_oenergy set_osame].
Ltac zt := repeat match goal with
  | |- context [(?a <? ?b)%Z] =>
      first [ replace (a <? b)%Z with true by (symmetry; apply Z.ltb_lt; lia)
            | replace (a <? b)%Z with false by (symmetry; apply Z.ltb_ge; lia) ]
  | |- context [(?a <=? ?b)%Z] =>
      first [ replace (a <=? b)%Z with true by (symmetry; apply Z.leb_le; lia)
            | replace (a <=? b)%Z with false by (symmetry; apply Z.leb_gt; lia) ]
  | |- context [(?a =? ?b)%Z] =>
      first [ replace (a =? b)%Z with true by (symmetry; apply Z.eqb_eq; lia)
            | replace (a =? b)%Z with false by (symmetry; apply Z.eqb_neq; lia) ]
  end.
Ltac step := sp; zt; cbn [negb andb orb res_bind].

Notation complete_events := (@complete_events A ar).
Notation tdvp_sweep_complete := (@tdvp_sweep_complete A ar).

(* ---- closed-form trace of one TDVP time step ------------------------------------------- *)
(* N = n + 3 sites, step index k, from time cur to time tgt *)
Definition kernel_l2r (dt : A) (i : Z) : list event :=
  [EvPair i (i + 1) (half ar dt) true; EvPushL A i; EvSingle (i + 1) (half ar (a_neg ar dt)); EvPopR A; EvSave A].
Definition kernel_r2l (dt : A) (i : Z) : list event :=
  [EvPushR A (i + 1); EvSingle i (half ar (a_neg ar dt)); EvPopL A; EvPair (i - 1) i (half ar dt) false].
Definition step_events (n : nat) (k : Z) (cur tgt : A) (same : bool) (next : option A) : list event :=
  let dt := a_sub ar tgt cur in
  flat_map (kernel_l2r dt) (zup 0 (S n)) ++
  [EvPair (Z.of_nat n + 1) (Z.of_nat n + 2) dt false; EvSave A] ++
  flat_map (fun i => kernel_r2l dt i ++ [EvSave A]) (zdown (Z.of_nat n + 1) n) ++
  kernel_r2l dt 1 ++ complete_events k tgt same next ++ [EvSave A].

Fixpoint run_events (n : nat) (k : Z) (cur : A) (ts : list A) (same : list bool) : list event :=
  match ts, same with
  | tgt :: ts', sm :: same' => step_events n k cur tgt sm (hd_error ts') ++ run_events n (k + 1) tgt ts' same'
  | _, _ => []
  end.

Definition step_start (s : mstate) (n : nat) (k : Z) (cur tgt : A) (rest : list A) (same : list bool) : Prop :=
  m_kind s = TDVP /\ m_N s = Z.of_nat n + 3 /\ sweep_start s /\ m_tidx s = k /\ 0 <= k /\
  m_steps s = k + 1 + Z.of_nat (length rest) /\ m_cur s = cur /\ m_tgt s = tgt /\
  skipn (Z.to_nat (k + 2)) (m_times s) = rest /\ o_same s = same.

Lemma app_cong {T} (a a' b b' : list T) : a = a' -> b = b' -> a ++ b = a' ++ b'.
Proof. intros -> ->. reflexivity. Qed.

Lemma nthZ_skipn {T} (l : list T) (i : Z) : 0 <= i -> nthZ l i = hd_error (skipn (Z.to_nat i) l).
Proof.
  intros Hi. unfold nthZ. replace (i <? 0) with false by (symmetry; apply Z.ltb_ge; lia).
  generalize (Z.to_nat i). intros m. revert l. induction m as [|m IH]; intros [|x l]; cbn; auto.
Qed.

Lemma skipn_S_tl {T} (l : list T) (m : nat) x r : skipn m l = x :: r -> skipn (S m) l = r.
Proof.
  revert l. induction m as [|m IH]; intros [|y l] H; cbn in *; try discriminate.
  - injection H as _ ->. reflexivity.
  - apply IH. exact H.
Qed.

Lemma tdvp_step (s : mstate) (n : nat) (k : Z) (cur tgt : A) (rest : list A) (sm : bool) (same : list bool) :
  step_start s n k cur tgt rest (sm :: same) ->
  exists s', iter_progress ar (S n + 1 + n + 1) s = Ok s' /\
    m_ev s' = rev (step_events n k cur tgt sm (hd_error rest)) ++ m_ev s /\
    match rest with
    | t :: rest' => step_start s' n (k + 1) tgt t rest' same
    | [] => is_finished s' = true
    end.
Proof.
  intros (Hk & HN & HS & Ht & Hk0 & Hsteps & Hcur & Htgt & Hskip & Hsame).
  assert (HT : tdvp_like s) by (unfold tdvp_like; rewrite Hk; repeat split; [discriminate|lia|lia]).
  destruct (sweep_body s n HT HN HS) as (s1 & H1 & F1 & P1 & E1).
  rewrite iter_progress_app, H1. cbn [res_bind iter_progress].
  assert (HT1 := tdvp_like_frame _ _ F1 HT).
  assert (HN1 : m_N s1 = m_N s) by (destruct F1 as (_ & H & _); exact H).
  rewrite (progress_r2l_last s1 HT1) by (rewrite HN1; exact P1).
  destruct F1 as (Fk & FN & Fst & Fti & Ftx & Fcur & Ftg & _ & _ & _ & _ & _ & _ & _ & _ & _ & _ & _ & Fsame).
  destruct P1 as (Psw & Pl & Pnl & Pnr & Poc).
  set (s2 := before_complete s1).
  destruct (tdvp_sweep_complete s2 sm same (hd_error rest)) as (s3 & H3 & Q).
  { unfold s2, MpsStep.before_complete. sp. congruence. }
  { unfold s2, MpsStep.before_complete. sp. lia. }
  { unfold s2, MpsStep.before_complete. sp. congruence. }
  { unfold s2, MpsStep.before_complete. sp. rewrite Fst, Fti, Ftx, Ht, Hsteps. intros Hlt.
    rewrite nthZ_skipn by lia. rewrite Hskip. destruct rest as [|t rest']; cbn [length] in Hlt; [lia|].
    exists t. split; reflexivity. }
  { unfold s2, MpsStep.before_complete. sp. rewrite Fst, Ftx, Ht, Hsteps. intros Hge.
    destruct rest as [|t rest']; cbn [length] in Hge; [reflexivity|lia]. }
  rewrite H3. cbn [res_bind].
  destruct Q as (Qk & QN & Qst & Qti & Qtx & Qcur & Qtg & Qsw & Ql & Qoc & Qb & Qsame & Qev).
  eexists; split; [reflexivity|]. sp. split.
  - rewrite Qev. unfold s2, MpsStep.before_complete. sp. rewrite E1.
    transitivity (rev (sweep_prefix s n ++ r2l_block s1 1 ++
                       complete_events (m_tidx s1) (m_tgt s1) sm (hd_error rest) ++ [EvSave A]) ++ m_ev s).
    { rewrite !rev_app_distr. unfold MpsStep.r2l_block, MpsStep.hdt, MpsStep.nhdt, MpsStep.dt_of. cbn [rev app].
      replace (1 + 1) with 2 by lia. replace (1 - 1) with 0 by lia.
      rewrite <- !app_assoc. cbn [app]. reflexivity. }
    f_equal. f_equal. subst cur tgt k.
    unfold step_events, MpsSweep.sweep_prefix. rewrite <- !app_assoc.
    apply app_cong; [apply flat_map_ext; intros i; reflexivity|].
    apply app_cong; [unfold MpsStep.mid_block, MpsStep.dt_of; rewrite HN; f_equal; f_equal; lia|].
    apply app_cong; [apply flat_map_ext; intros i; reflexivity|].
    unfold MpsStep.r2l_block, kernel_r2l, MpsStep.hdt, MpsStep.nhdt, MpsStep.dt_of. rewrite Ftx, Ftg, Fcur. reflexivity.
  - destruct rest as [|t rest'].
    + unfold is_finished. sp. rewrite Qst, Qtx. unfold s2, MpsStep.before_complete. sp.
      rewrite Fst, Ftx, Ht, Hsteps. cbn [length]. apply Z.leb_le. lia.
    + cbn [hd_error] in *. destruct Qb as (Qnl & Qnr).
      unfold step_start, MpsSweep.sweep_start, MpsStep.pos. sp.
      repeat split; try congruence; try lia.
      * rewrite QN. change (m_N s2) with (m_N s1). rewrite FN. exact HN.
      * rewrite Qsw. reflexivity.
      * rewrite Qoc. reflexivity.
      * rewrite Qtx. change (m_tidx s2) with (m_tidx s1). rewrite Ftx, Ht. reflexivity.
      * rewrite Qst. change (m_steps s2) with (m_steps s1). rewrite Fst, Hsteps. cbn [length]. lia.
      * rewrite Qcur. change (m_tgt s2) with (m_tgt s1). rewrite Ftg, Htgt. reflexivity.
      * rewrite Qti. change (m_times s2) with (m_times s1). rewrite Fti. replace (k + 1 + 2) with (k + 3) by lia.
        replace (Z.to_nat (k + 3)) with (S (Z.to_nat (k + 2))) by lia.
        eapply skipn_S_tl. exact Hskip.
Qed.
End P.
