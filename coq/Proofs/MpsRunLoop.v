(* MPSBackend._run is `while not impl.is_finished(): impl.progress()`.  The whole-run theorems are stated
   with iter_progress (a fixed number of calls); this file transfers them to the fuelled loop [run]:
   progress() on a finished machine is the identity, so any iteration count that ends in a finished state
   gives the result of the loop, for every larger fuel as well. *)
From Coq Require Import ZArith List Bool Lia.
From EV Require Import Base.Arith Gen.Brent Model.MpsMachine Proofs.MpsStep Proofs.MpsPhase.
Import ListNotations.
Open Scope Z_scope.

Section P.
Variable A : Type.
Variable ar : Arith A.
Notation mstate := (mstate A).

Lemma progress_finished (s : mstate) : is_finished s = true -> progress ar s = Ok s.
Proof.
  intros H. unfold progress. destruct (m_kind s); unfold progress_tdvp, progress_dmrg; rewrite H; reflexivity.
Qed.

Lemma iter_finished (n : nat) (s : mstate) : is_finished s = true -> iter_progress ar n s = Ok s.
Proof.
  induction n as [|n IH]; intros H; [reflexivity|]. cbn [iter_progress]. rewrite (progress_finished s H).
  cbn [res_bind]. apply IH. exact H.
Qed.

Lemma run_finished (n : nat) (s : mstate) : is_finished s = true -> run ar n s = Ok s.
Proof. intros H. destruct n; cbn [run]; rewrite H; reflexivity. Qed.

Theorem run_of_iter : forall (n : nat) (s sf : mstate),
  iter_progress ar n s = Ok sf -> is_finished sf = true -> run ar n s = Ok sf.
Proof.
  induction n as [|n IH]; intros s sf Hi Hf.
  - cbn [iter_progress] in Hi. injection Hi as ->. apply run_finished. exact Hf.
  - cbn [run]. destruct (is_finished s) eqn:E.
    + rewrite (iter_finished (S n) s E) in Hi. exact Hi.
    + cbn [iter_progress] in Hi. destruct (progress ar s) as [s1| |]; cbn [res_bind] in *; try discriminate.
      apply IH; assumption.
Qed.

(* more fuel changes nothing *)
Theorem run_more_fuel : forall (n k : nat) (s sf : mstate),
  run ar n s = Ok sf -> run ar (n + k) s = Ok sf.
Proof.
  induction n as [|n IH]; intros k s sf H.
  - cbn [run] in H. destruct (is_finished s) eqn:E; [|discriminate].
    injection H as <-. apply run_finished. exact E.
  - cbn [run Nat.add] in *. destruct (is_finished s); [exact H|].
    destruct (progress ar s) as [s1| |]; cbn [res_bind] in *; try discriminate. apply IH. exact H.
Qed.

(* the loop stops in a finished state *)
Theorem run_result_finished : forall (n : nat) (s sf : mstate), run ar n s = Ok sf -> is_finished sf = true.
Proof.
  induction n as [|n IH]; intros s sf H; cbn [run] in H.
  - destruct (is_finished s) eqn:E; [|discriminate]. injection H as <-. exact E.
  - destruct (is_finished s) eqn:E; [injection H as <-; exact E|].
    destruct (progress ar s) as [s1| |]; cbn [res_bind] in *; try discriminate. eapply IH. exact H.
Qed.

(* conversely the loop's result is the result of that many calls *)
Theorem run_is_iter : forall (n : nat) (s sf : mstate), run ar n s = Ok sf -> iter_progress ar n s = Ok sf.
Proof.
  induction n as [|n IH]; intros s sf H; cbn [run] in H.
  - destruct (is_finished s) eqn:E; [|discriminate]. exact H.
  - destruct (is_finished s) eqn:E.
    + injection H as <-. apply iter_finished. exact E.
    + cbn [iter_progress]. destruct (progress ar s) as [s1| |]; cbn [res_bind] in *; try discriminate.
      apply IH. exact H.
Qed.

Lemma iter_extend (n k : nat) (s sf : mstate) :
  iter_progress ar n s = Ok sf -> is_finished sf = true -> iter_progress ar (n + k) s = Ok sf.
Proof.
  intros H Hf. rewrite (@iter_progress_app A ar), H. cbn [res_bind]. apply iter_finished. exact Hf.
Qed.

(* a finished iteration count gives the loop's result for every fuel at least that large *)
Corollary run_of_iter_fuel (n fuel : nat) (s sf : mstate) :
  iter_progress ar n s = Ok sf -> is_finished sf = true -> (n <= fuel)%nat -> run ar fuel s = Ok sf.
Proof.
  intros H Hf Hle. replace fuel with (n + (fuel - n))%nat by lia. apply run_more_fuel. apply run_of_iter; assumption.
Qed.
End P.
