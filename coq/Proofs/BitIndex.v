(* Bit-level toolkit for indices of an N-qubit register (qubit 0 = most significant bit), on top of
   Model/SvBase.v (bit, setbit, same_except) and the bitstring theorems of Proofs/SvStateProofs.v.
   Used by C25 (dark atoms) and C29 (phase symmetries). *)
From Coq Require Import List Arith Bool Lia.
From EV Require Import Model.SvBase Model.SvState Proofs.SvBaseProofs Proofs.SvStateProofs.
Import ListNotations.

Definition bits_of (N k : nat) : list nat := map (fun i => bit N i k) (seq 0 N).
Definition of_bits (s : list nat) : nat := bits_to_index s.
Definition binary (s : list nat) : Prop := Forall (fun b => b < 2) s.

Lemma length_bits_of N k : length (bits_of N k) = N.
Proof. unfold bits_of. rewrite map_length, seq_length. reflexivity. Qed.

Lemma nth_map_seq {A} (f : nat -> A) n i d : i < n -> nth i (map f (seq 0 n)) d = f i.
Proof.
  intros. rewrite (nth_indep _ d (f 0)) by (rewrite map_length, seq_length; lia).
  rewrite (map_nth f), seq_nth by lia. reflexivity.
Qed.

Lemma nth_bits_of N k i : i < N -> nth i (bits_of N k) 0 = bit N i k.
Proof. intros Hi. unfold bits_of. apply (nth_map_seq (fun i => bit N i k)). assumption. Qed.

Lemma binary_bits_of N k : binary (bits_of N k).
Proof. unfold binary, bits_of. apply Forall_forall. intros x Hx. apply in_map_iff in Hx. destruct Hx as [i [<- _]]. apply bit_lt. Qed.

Lemma of_bits_lt s : binary s -> of_bits s < 2 ^ length s.
Proof.
  intros H. pose proof (index_of_bitstring s H) as E.
  destruct (Nat.lt_ge_cases (of_bits s) (2 ^ length s)) as [L|L]; [assumption|].
  unfold of_bits in *. rewrite (index_to_bits_rejects _ _ L) in E. discriminate.
Qed.

Lemma bit_of_bits s q : binary s -> q < length s -> bit (length s) q (of_bits s) = nth q s 0.
Proof.
  intros H Hq. pose proof (index_of_bitstring s H) as E. pose proof (of_bits_lt s H) as L.
  destruct (bitstring_of_index (length s) (of_bits s) L) as [s' [E' [_ [_ B]]]].
  unfold of_bits in *. rewrite E in E'. injection E' as <-. symmetry. apply B. assumption.
Qed.

Lemma index_ext N k k' : k < 2 ^ N -> k' < 2 ^ N -> (forall i, i < N -> bit N i k = bit N i k') -> k = k'.
Proof.
  intros Hk Hk' H.
  destruct (bitstring_of_index N k Hk) as [s [_ [Ls [Es Bs]]]].
  destruct (bitstring_of_index N k' Hk') as [s' [_ [Ls' [Es' Bs']]]].
  assert (s = s').
  { apply (nth_ext s s' 0 0); [congruence|]. intros i Hi. rewrite Ls in Hi. rewrite Bs, Bs' by assumption. apply H; assumption. }
  subst s'. congruence.
Qed.

Lemma of_bits_bits_of N k : k < 2 ^ N -> of_bits (bits_of N k) = k.
Proof.
  intros Hk. pose proof (of_bits_lt _ (binary_bits_of N k)) as L. rewrite length_bits_of in L.
  apply (index_ext N); try assumption. intros i Hi.
  pose proof (bit_of_bits _ i (binary_bits_of N k)) as B. rewrite length_bits_of in B.
  rewrite B by assumption. apply nth_bits_of; assumption.
Qed.

(* ---- bits at positions other than n depend only on the two outer coordinates of the view (2^n, 2, rest) *)
Lemma bit_hi N n i k : i < n -> n < N -> bit N i k = (co0 2 (qrest N n) k / 2 ^ (n - i - 1)) mod 2.
Proof.
  intros Hi Hn. unfold bit, co0, qrest.
  rewrite Nat.div_div by (try apply Nat.pow_nonzero; try (pose proof (pow2_pos (N - n - 1)); lia); lia).
  f_equal. f_equal.
  replace (N - i - 1) with (1 + (N - n - 1) + (n - i - 1)) by lia.
  rewrite !Nat.pow_add_r. simpl (2 ^ 1). lia.
Qed.

Lemma bit_lo N n i k : n < i -> i < N -> bit N i k = (co2 (qrest N n) k / qrest N i) mod 2.
Proof.
  intros Hn Hi. unfold bit, co2.
  set (R := qrest N i). set (r := qrest N n).
  assert (HR : 0 < R) by apply qrest_pos.
  assert (E : r = R * (2 * 2 ^ (i - n - 1))).
  { unfold r, R, qrest. replace (N - n - 1) with ((N - i - 1) + (1 + (i - n - 1))) by lia.
    rewrite !Nat.pow_add_r. simpl (2 ^ 1). lia. }
  assert (Hr : 0 < r) by apply qrest_pos.
  rewrite (Nat.div_mod k r) at 1 by lia.
  rewrite E at 1.
  replace (R * (2 * 2 ^ (i - n - 1)) * (k / r) + k mod r) with ((2 ^ (i - n - 1) * (k / r)) * 2 * R + k mod r) by lia.
  rewrite Nat.div_add_l by lia.
  rewrite Nat.add_comm, Nat.mod_add by lia. reflexivity.
Qed.

Lemma same_except_bits_fwd N n k k' i : n < N -> same_except N n k k' = true -> i < N -> i <> n ->
  bit N i k = bit N i k'.
Proof.
  intros Hn E Hi Hne. unfold same_except in E. apply andb_true_iff in E. destruct E as [E0 E2].
  apply Nat.eqb_eq in E0, E2.
  destruct (Nat.lt_ge_cases i n).
  - rewrite !(bit_hi N n i) by assumption. rewrite E0. reflexivity.
  - rewrite !(bit_lo N n i) by lia. rewrite E2. reflexivity.
Qed.

Lemma bit_setbit_other N n k b i : n < N -> b < 2 -> i < N -> i <> n -> bit N i (setbit N n k b) = bit N i k.
Proof.
  intros. symmetry. apply (same_except_bits_fwd N n); try assumption. apply same_except_setbit; assumption.
Qed.

Lemma same_except_bits N n k k' : n < N -> k < 2 ^ N -> k' < 2 ^ N ->
  (same_except N n k k' = true <-> forall i, i < N -> i <> n -> bit N i k = bit N i k').
Proof.
  intros Hn Hk Hk'. split.
  - intros E i Hi Hne. apply (same_except_bits_fwd N n); assumption.
  - intros H. apply same_except_iff.
    pose proof (bit_lt N n k') as Hb.
    apply (index_ext N); [assumption | apply setbit_lt; assumption |].
    intros i Hi. destruct (Nat.eq_dec i n) as [->|Hne].
    + rewrite bit_setbit by assumption. reflexivity.
    + rewrite bit_setbit_other by assumption. symmetry. apply H; assumption.
Qed.
