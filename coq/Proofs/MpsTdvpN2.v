(* The 2-site corner case of MPSBackendImpl.progress (qubit_count == 2): one pair evolution with the
   full dt per time step, no sweep.  Whole-run closed form, as in MpsTdvpRun.v for N >= 3. *)
From Coq Require Import ZArith List Bool Lia.
From EV Require Import Base.Arith Gen.Brent Model.MpsMachine.
From EV Require Import Proofs.MpsStep Proofs.MpsPhase Proofs.MpsSweep Proofs.MpsTdvpComplete Proofs.MpsTdvpStep
  Proofs.MpsTdvpRun Proofs.MpsTdvpTrace.
Import ListNotations.
Open Scope Z_scope.
Section P.
Variable A : Type.
Variable ar : Arith A.
Notation mstate := (mstate A).
Notation event := (event A).
Notation pos := (@pos A).
Notation complete_events := (@complete_events A ar).
Notation tdvp_sweep_complete := (@tdvp_sweep_complete A ar).
Notation init_events := (@init_events A ar).

Ltac sp := cbn [m_kind m_N m_steps m_times m_sweep m_l2r m_tidx m_cur m_tgt m_nl m_nr m_oc m_thr m_gap m_rf
  m_prevE m_curE m_sweeps m_etol m_maxsw o_norm o_unif o_energy o_same m_ev
  emit set_sweep set_l2r set_tidx set_cur set_tgt set_nl set_nr set_oc set_thr set_gap set_rf set_prevE
  set_curE set_sweeps set_onorm set_ounif set_oenergy set_osame].
Ltac zt := repeat match goal with
  | |- context [(?a <? ?b)%Z] =>
      first [ replace (a <? b)%Z with true by (symmetry; apply Z.ltb_lt; lia)
            | replace (a <? b)%Z with false by (symmetry; apply Z.ltb_ge; lia) ]
  | |- context [(?a <=? ?b)%Z] =>
      first [ replace (a <=? b)%Z with true by (symmetry; apply Z.leb_le; lia)
            | replace (a <=? b)%Z with false by (symmetry; apply Z.leb_gt; lia) ]
  | |- context [(?a =? ?b)%Z] =>
      first [ replace (a =? b)%Z with true by (symmetry; apply Z.eqb_eq; lia)
            | replace (a =? b)%Z with false by (symmetry; apply Z.eqb_neq; lia) ]
  end.
Ltac step := sp; zt; cbn [negb andb orb res_bind].

Definition step_events2 (k : Z) (cur tgt : A) (same : bool) (next : option A) : list event :=
  [EvPair 0 1 (a_sub ar tgt cur) false] ++ complete_events k tgt same next ++ [EvSave A].

Fixpoint run_events2 (k : Z) (cur : A) (ts : list A) (same : list bool) : list event :=
  match ts, same with
  | tgt :: ts', sm :: same' => step_events2 k cur tgt sm (hd_error ts') ++ run_events2 (k + 1) tgt ts' same'
  | _, _ => []
  end.

Definition step_start2 (s : mstate) (k : Z) (cur tgt : A) (rest : list A) (same : list bool) : Prop :=
  m_kind s = TDVP /\ m_N s = 2 /\ pos s 0 true 1 1 0 /\ m_tidx s = k /\ 0 <= k /\
  m_steps s = k + 1 + Z.of_nat (length rest) /\ m_cur s = cur /\ m_tgt s = tgt /\
  skipn (Z.to_nat (k + 2)) (m_times s) = rest /\ o_same s = same.

(* the state handed to sweep_complete *)
Definition after_pair2 (s : mstate) : mstate :=
  set_oc (emit s (EvPair 0 1 (a_sub ar (m_tgt s) (m_cur s)) false)) 0.

Lemma progress_n2 (s : mstate) :
  m_kind s = TDVP -> m_N s = 2 -> pos s 0 true 1 1 0 -> m_tidx s < m_steps s ->
  progress ar s =
    res_bind (sweep_complete ar (after_pair2 s)) (fun s => Ok (emit s (EvSave A))).
Proof.
  intros Hk HN (Hsw & Hl & Hnl & Hnr & Hoc) Hlt.
  unfold progress. rewrite Hk. unfold progress_tdvp, is_finished.
  rewrite HN, Hl, Hsw. zt. cbn [negb andb].
  unfold evolve_pair. rewrite Hnl, Hnr, Hoc. cbn [Z.leb Z.compare Z.eqb Z.add Pos.add negb andb orb res_bind].
  reflexivity.
Qed.

Lemma tdvp_step2 (s : mstate) (k : Z) (cur tgt : A) (rest : list A) (sm : bool) (same : list bool) :
  step_start2 s k cur tgt rest (sm :: same) ->
  exists s', progress ar s = Ok s' /\
    m_ev s' = rev (step_events2 k cur tgt sm (hd_error rest)) ++ m_ev s /\
    match rest with
    | t :: rest' => step_start2 s' (k + 1) tgt t rest' same
    | [] => is_finished s' = true
    end.
Proof.
  intros (Hk & HN & HP & Ht & Hk0 & Hsteps & Hcur & Htgt & Hskip & Hsame).
  rewrite (progress_n2 s Hk HN HP) by lia.
  destruct HP as (Hsw & Hl & Hnl & Hnr & Hoc).
  set (s2 := after_pair2 s).
  destruct (tdvp_sweep_complete s2 sm same (hd_error rest)) as (s3 & H3 & Q).
  { unfold s2, after_pair2. sp. exact Hk. }
  { unfold s2, after_pair2. sp. lia. }
  { unfold s2, after_pair2. sp. exact Hsame. }
  { unfold s2, after_pair2. sp. rewrite Ht, Hsteps. intros Hlt.
    rewrite nthZ_skipn by lia. rewrite Hskip. destruct rest as [|t rest']; cbn [length] in Hlt; [lia|].
    exists t. split; reflexivity. }
  { unfold s2, after_pair2. sp. rewrite Ht, Hsteps. intros Hge.
    destruct rest as [|t rest']; cbn [length] in Hge; [reflexivity|lia]. }
  rewrite H3. cbn [res_bind].
  destruct Q as (Qk & QN & Qst & Qti & Qtx & Qcur & Qtg & Qsw & Ql & Qoc & Qb & Qsame & Qev).
  eexists; split; [reflexivity|]. sp. split.
  - rewrite Qev. unfold s2, after_pair2. sp. rewrite Ht, Htgt, Hcur.
    unfold step_events2. rewrite !rev_app_distr. cbn [rev app]. rewrite <- !app_assoc. cbn [app]. reflexivity.
  - destruct rest as [|t rest'].
    + unfold is_finished. sp. rewrite Qst, Qtx. unfold s2, after_pair2. sp.
      rewrite Ht, Hsteps. cbn [length]. apply Z.leb_le. lia.
    + cbn [hd_error] in *. destruct Qb as (Qnl & Qnr).
      unfold step_start2, MpsStep.pos. sp.
      unfold s2, after_pair2 in *. cbn [m_kind m_N m_steps m_times m_sweep m_l2r m_tidx m_cur m_tgt m_nl m_nr m_oc
        m_ev o_same emit set_oc] in *.
      repeat split; try congruence; try lia.
      * rewrite Qst, Hsteps. cbn [length]. lia.
      * rewrite Qti. replace (k + 1 + 2) with (k + 3) by lia.
        replace (Z.to_nat (k + 3)) with (S (Z.to_nat (k + 2))) by lia.
        eapply skipn_S_tl. exact Hskip.
Qed.

Theorem tdvp_run2 : forall (rest : list A) (s : mstate) (k : Z) (cur tgt : A) (same : list bool),
  step_start2 s k cur tgt rest same -> (length (tgt :: rest) <= length same)%nat ->
  exists sf, iter_progress ar (length (tgt :: rest)) s = Ok sf /\
    is_finished sf = true /\
    m_ev sf = rev (run_events2 k cur (tgt :: rest) same) ++ m_ev s.
Proof.
  induction rest as [|t rest IH]; intros s k cur tgt same HS Hlen.
  - destruct same as [|sm same]; [cbn in Hlen; lia|].
    destruct (tdvp_step2 s k cur tgt [] sm same HS) as (s' & H1 & E1 & Hf).
    exists s'. cbn [length iter_progress]. rewrite H1. cbn [res_bind]. split; [reflexivity|]. split; [exact Hf|].
    rewrite E1. cbn [run_events2]. rewrite app_nil_r. reflexivity.
  - destruct same as [|sm same]; [cbn in Hlen; lia|].
    destruct (tdvp_step2 s k cur tgt (t :: rest) sm same HS) as (s' & H1 & E1 & HS').
    destruct (IH s' (k + 1) tgt t same HS') as (sf & H2 & Hf & E2); [cbn [length] in *; lia|].
    exists sf. change (length (tgt :: t :: rest)) with (S (length (t :: rest))).
    cbn [iter_progress]. rewrite H1. cbn [res_bind]. split; [exact H2|]. split; [exact Hf|].
    rewrite E2, E1. cbn [run_events2]. rewrite rev_app_distr, <- app_assoc. reflexivity.
Qed.

Lemma tdvp_init2 (t0 t1 : A) (rest : list A) (same : list bool) onorm ounif oenergy etol maxsw :
  exists s0,
    mk_initial ar TDVP 2 (1 + Z.of_nat (length rest)) (t0 :: t1 :: rest) etol maxsw
               onorm ounif oenergy same = Ok s0 /\
    step_start2 s0 0 (a_ofZ ar 0) t1 rest same /\ m_ev s0 = rev (init_events t1).
Proof.
  unfold mk_initial. cbn [nthZ Z.ltb Z.compare Z.to_nat nth_error].
  unfold query_U, init_baths. sp. cbn [Z.max Z.sub Z.add Z.opp Z.pos_sub Pos.pred_double Z.compare Pos.compare
    Pos.compare_cont Z.eqb Pos.eqb negb res_bind].
  eexists. split; [reflexivity|]. sp.
  unfold step_start2, MpsStep.pos, MpsTdvpRun.init_events. sp.
  cbn [rev app skipn Z.to_nat Z.add Pos.to_nat Pos.iter_op Nat.add].
  repeat split; try reflexivity; try lia.
Qed.

(* API level, N = 2: exactly one progress() call per interval, never fails, closed-form trace. *)
Theorem tdvp_whole_run2 (t0 t1 : A) (rest : list A) (same : list bool) onorm ounif oenergy etol maxsw :
  (length (t1 :: rest) <= length same)%nat ->
  exists s0 sf,
    mk_initial ar TDVP 2 (1 + Z.of_nat (length rest)) (t0 :: t1 :: rest) etol maxsw
               onorm ounif oenergy same = Ok s0 /\
    iter_progress ar (length (t1 :: rest)) s0 = Ok sf /\ is_finished sf = true /\
    m_ev sf = rev (init_events t1 ++ run_events2 0 (a_ofZ ar 0) (t1 :: rest) same).
Proof.
  intros Hlen.
  destruct (tdvp_init2 t0 t1 rest same onorm ounif oenergy etol maxsw) as (s0 & H0 & HS & E0).
  destruct (tdvp_run2 rest s0 0 (a_ofZ ar 0) t1 same HS Hlen) as (sf & H1 & Hf & E1).
  exists s0, sf. split; [exact H0|]. split; [exact H1|]. split; [exact Hf|].
  rewrite E1, E0, rev_app_distr. reflexivity.
Qed.

(* projections of the 2-site trace: fills, installed rows and kernel calls *)
Lemma step2_fills k cur tgt sm next : flat_map (@fill_of A) (step_events2 k cur tgt sm next) = [(k, tgt)].
Proof. unfold step_events2, MpsTdvpComplete.complete_events. destruct sm, next; reflexivity. Qed.
Lemma step2_updates k cur tgt sm next :
  flat_map (@update_of A) (step_events2 k cur tgt sm next) = match next with Some _ => [(k + 1, true)] | None => [] end.
Proof. unfold step_events2, MpsTdvpComplete.complete_events. destruct sm, next; reflexivity. Qed.
Lemma step2_kernels k cur tgt sm next :
  flat_map (@kernel_of A) (step_events2 k cur tgt sm next) = [(true, 0, a_sub ar tgt cur)].
Proof. unfold step_events2, MpsTdvpComplete.complete_events. destruct sm, next; reflexivity. Qed.

Lemma run2_fills : forall ts k cur same, (length ts <= length same)%nat ->
  flat_map (@fill_of A) (run_events2 k cur ts same) = expected_fills A k ts.
Proof.
  induction ts as [|t ts IH]; intros k cur same Hl; [reflexivity|].
  destruct same as [|sm same]; [cbn in Hl; lia|].
  cbn [run_events2 expected_fills]. rewrite flat_map_app, step2_fills, IH by (cbn in Hl; lia). reflexivity.
Qed.
Lemma run2_updates : forall ts k cur same, (length ts <= length same)%nat ->
  flat_map (@update_of A) (run_events2 k cur ts same) = expected_updates A k ts.
Proof.
  induction ts as [|t ts IH]; intros k cur same Hl; [reflexivity|].
  destruct same as [|sm same]; [cbn in Hl; lia|].
  cbn [run_events2]. rewrite flat_map_app, step2_updates, IH by (cbn in Hl; lia).
  destruct ts; reflexivity.
Qed.
(* the kernel calls of a whole 2-site run: one pair evolution over each interval, in order *)
Fixpoint expected_kernels2 (cur : A) (ts : list A) : list (bool * Z * A) :=
  match ts with [] => [] | t :: ts' => (true, 0, a_sub ar t cur) :: expected_kernels2 t ts' end.
Lemma run2_kernels : forall ts k cur same, (length ts <= length same)%nat ->
  flat_map (@kernel_of A) (run_events2 k cur ts same) = expected_kernels2 cur ts.
Proof.
  induction ts as [|t ts IH]; intros k cur same Hl; [reflexivity|].
  destruct same as [|sm same]; [cbn in Hl; lia|].
  cbn [run_events2 expected_kernels2]. rewrite flat_map_app, step2_kernels, IH by (cbn in Hl; lia). reflexivity.
Qed.

(* one-site runs are refused by the constructor (assert self.qubit_count >= 2) *)
Lemma mk_initial_rejects_small (k : kind) (N steps : Z) times etol maxsw onorm ounif oenergy same t1 :
  nthZ times 1 = Some t1 -> N < 2 ->
  mk_initial ar k N steps times etol maxsw onorm ounif oenergy same = Err 120.
Proof. intros Ht HN. unfold mk_initial. rewrite Ht. zt. reflexivity. Qed.
End P.
