(* Invariant proofs for the noisy (quantum-jump) emu-mps stepping machine; see Properties/C18.v. *)
From Coq Require Import ZArith List Bool Lia Reals Lra.
From EV Require Import Base.Arith Gen.Brent Model.BrentLoop Model.MpsMachine Proofs.BrentProofs.
From EV Require Import Proofs.NoisyInv Proofs.NoisyBranches.
Import ListNotations.
Open Scope Z_scope.

Ltac sp := cbn [m_kind m_N m_steps m_times m_sweep m_l2r m_tidx m_cur m_tgt m_nl m_nr m_oc m_thr m_gap m_rf
  m_prevE m_curE m_sweeps m_etol m_maxsw o_norm o_unif o_energy o_same m_ev
  emit set_sweep set_l2r set_tidx set_cur set_tgt set_nl set_nr set_oc set_thr set_gap set_rf set_prevE
  set_curE set_sweeps set_onorm set_ounif set_oenergy set_osame].

Lemma init_outcomes (a b fa fb eps : R) :
  match init ar a b fa fb eps with
  | Ok _ => True
  | Err m => (m = 16 /\ ~ (a <= b)%R) \/ m = 21
  | OutOfFuel => False
  end.
Proof.
  unfold init. cbn [a_leb a_ltb a_mul a_ofZ a_abs R_arith].
  destruct (Rleb a b) eqn:E1; [|left; split; [reflexivity| apply Rleb_false in E1; lra]].
  destruct (Rltb (fa * fb) (IZR 0)); [|right; reflexivity].
  destruct (Rltb (Rabs fa) (Rabs fb)); exact I.
Qed.

Lemma is_converged_same (r : st R) tol : exists c, is_converged ar r tol = Ok (r, c) /\ (c = true <-> converged r tol).
Proof. exact (is_converged_spec r tol). Qed.

Lemma noisy_sweep_complete_inv (s : ms) :
  wf s -> cpos s -> tinv s ->
  match sweep_complete_noisy ar s with
  | Ok s' => frame0 s s' /\ cpos s' /\ (is_finished s' = true \/ tinv s') /\ step_effect s s'
  | Err m => allowed_err m
  | OutOfFuel => False
  end.
Proof.
  intros Hwf Hc (Ht & (Hlo & Hhi) & Hrf).
  pose proof Hwf as (Hk & HN & Hlen & Hsort).
  pose proof Hc as (Csw & Coc & Cnl & Cnr).
  assert (Hstep : (tm s (m_tidx s) < tm s (m_tidx s + 1))%R) by (apply Hsort; lia).
  unfold sweep_complete_noisy, take_norm. sp.
  destruct (o_norm s) as [|n rest] eqn:En; cbn [res_bind]; [left; reflexivity|]. sp.
  unfold rfinv in Hrf. cbv zeta in Hrf.
  destruct (m_rf s) as [r1|] eqn:Erf.
  - (* a search is running: feed the ordinate back *)
    destruct Hrf as (r0 & x & HI0 & HL0 & HB0 & Hg0 & Htgt).
    destruct rest as [|n2 rest2]; cbn [res_bind]; [left; reflexivity|]. sp.
    set (gap := a_sub ar (a_mul ar n2 n2) (m_thr s)).
    destruct (round_spec r0 (fun _ => gap) HI0 HL0) as (r2 & x' & Hround & HI2 & Hbt & _ & Hends & _ & _).
    unfold round in Hround. rewrite Hg0 in Hround. cbn [res_bind] in Hround.
    rewrite Htgt.
    destruct (provide_ordinate ar r1 x gap) as [r2'| |] eqn:Ep; cbn [res_bind] in Hround; try discriminate.
    injection Hround as -> ->. cbn [lift_rf res_bind].
    destruct (is_converged_same r2 (a_ofZ ar 1)) as (c & Hic & Hcv). rewrite Hic. cbn [lift_rf res_bind].
    assert (Hx : (tm s (m_tidx s) <= x' <= tm s (m_tidx s + 1))%R) by (exact (pending_inside _ _ r0 r1 x' HI0 HL0 HB0 Hg0)).
    assert (HB2 : in_box (tm s (m_tidx s)) (tm s (m_tidx s + 1)) r2).
    { destruct HB0 as [Ha Hb]. unfold in_box.
      destruct Hends as [[E1 [E2 | E2]] | [E1 [E2 | E2]]]; rewrite E1, E2; lra. }
    destruct c.
    + (* converged: jump, back to the end of the step *)
      match goal with |- context [do_jump ar ?S] => set (sj := S) end.
      pose proof (do_jump_spec sj HN Csw) as Hj.
      destruct (do_jump ar sj) as [s3| |]; cbn [res_bind]; [|destruct Hj as [->| ->]; [left|right; right]; reflexivity|exact Hj].
      destruct Hj as (F3 & C3 & Rf3 & Cur3 & Tgt3 & Ti3 & new & Ev3 & Jn & Fn).
      destruct F3 as (Fk & FN & Fst & Fti & Fl & Fsw).
      rewrite Fti, Ti3. unfold sj at 1 2. sp.
      rewrite (tm_some s (m_tidx s + 1)) by lia. sp.
      split; [unfold frame0; sp; repeat split; assumption|].
      split; [unfold cpos in *; sp; exact C3|].
      split.
      * right. unfold tinv, rfinv. sp. rewrite Ti3, Fst, Cur3. unfold sj. sp.
        split; [lia|]. unfold tm in *. sp. rewrite Fti. split; [exact Hx| reflexivity].
      * unfold step_effect. sp. exists new.
        assert (Esj : m_ev sj = m_ev s) by reflexivity. assert (Csj : m_cur sj = x') by reflexivity.
        assert (Tsj : m_tidx sj = m_tidx s) by reflexivity.
        split; [rewrite Ev3, Esj; reflexivity|]. rewrite Jn, Csj.
        split; [constructor; [exact Hx| constructor]|]. left. split; [rewrite Ti3; exact Tsj| exact Fn].
    + (* not converged: next abscissa *)
      assert (HL2 : live r2) by (apply (converged_dead r2 (a_ofZ ar 1)); intro Hcc; apply Hcv in Hcc; discriminate).
      destruct (gna_spec r2 HI2 HL2) as (dx & bis & Hg2 & Hs2). rewrite Hg2. cbn [lift_rf res_bind]. sp.
      split; [unfold frame0; sp; repeat split; reflexivity|].
      split; [unfold cpos; sp; exact Hc|].
      split.
      * right. unfold tinv, rfinv. sp. unfold tm in *. sp. split; [lia|]. split; [exact Hx|].
        exists r2, (f_b r2 + dx)%R. split; [exact HI2|]. split; [exact HL2|]. split; [exact HB2|]. split; [exact Hg2| reflexivity].
      * unfold step_effect. sp. exists []. split; [reflexivity|]. split; [constructor|]. left. split; reflexivity.
  - (* no search running *)
    cbn [a_ltb a_ofZ a_sub a_mul R_arith].
    destruct (Rltb (n * n - m_thr s) (IZR 0)) eqn:Eg.
    + (* threshold crossed: start the search on [previous time, target time] *)
      pose proof (init_outcomes (m_cur s) (m_tgt s) (m_gap s) (n * n - m_thr s)%R (IZR 1)) as Hio.
      destruct (init ar (m_cur s) (m_tgt s) (m_gap s) (n * n - m_thr s)%R (IZR 1)) as [rf| m |] eqn:Ei;
        cbn [lift_rf res_bind]; [| |exact Hio].
      2:{ destruct Hio as [[-> Hn]| ->]; [exfalso; apply Hn; rewrite Hrf; lra| right; left; reflexivity]. }
      destruct (init_ok_inv _ _ _ _ _ _ Ei) as (Hle & Hsign).
      destruct (init_spec (m_cur s) (m_tgt s) (m_gap s) (n * n - m_thr s)%R (IZR 1) Hle Hsign ltac:(lra))
        as (rf' & Ei' & HIr & HLr & Hends & _).
      rewrite Ei in Ei'. injection Ei' as <-.
      destruct (gna_spec rf HIr HLr) as (dx & bis & Hg & Hs). rewrite Hg. cbn [lift_rf res_bind]. sp.
      split; [unfold frame0; sp; repeat split; reflexivity|].
      split; [unfold cpos; sp; exact Hc|].
      split.
      * right. unfold tinv, rfinv. sp. unfold tm in *. sp. rewrite Hrf. split; [lia|]. split; [lra|].
        exists rf, (f_b rf + dx)%R. split; [exact HIr|]. split; [exact HLr|].
        split; [unfold in_box; destruct Hends as [[-> ->]|[-> ->]]; rewrite ?Hrf; lra|]. split; [exact Hg| reflexivity].
      * unfold step_effect. sp. exists []. split; [reflexivity|]. split; [constructor|]. left. split; reflexivity.
    + (* still above the threshold: the time step completes *)
      match goal with |- context [timestep_complete ar ?S] => set (sa := S) end.
      assert (Hwa : wf sa) by (unfold wf, sa; sp; exact Hwf).
      assert (Hca : cpos sa) by (unfold cpos, sa; sp; exact Hc).
      assert (A1 : m_tidx sa = m_tidx s) by reflexivity.
      assert (A2 : m_cur sa = m_tgt s) by reflexivity.
      assert (A3 : m_times sa = m_times s) by reflexivity.
      assert (A4 : m_ev sa = m_ev s) by reflexivity.
      assert (A5 : m_steps sa = m_steps s) by reflexivity.
      assert (A6 : m_rf sa = None) by exact Erf.
      assert (A7 : forall k, tm sa k = tm s k) by (intros k; unfold tm; rewrite A3; reflexivity).
      assert (F0 : frame0 s sa) by (unfold frame0, sa; sp; repeat split; reflexivity).
      pose proof (noisy_timestep_complete sa Hwa Hca) as Hts.
      rewrite A1, A5, A2, A7 in Hts. specialize (Hts Ht A6 Hrf).
      clearbody sa.
      destruct (timestep_complete ar sa) as [s3| m |]; [| subst m; left; reflexivity|exact Hts].
      destruct Hts as (F3 & C3 & Rf3 & Cur3 & Ti3 & Fin3 & new & Ev3 & Jn & Fn).
      rewrite ?A1 in Ti3. rewrite ?A7, ?A1 in Fin3. rewrite ?A4 in Ev3. rewrite ?A1, ?A2 in Fn. rewrite ?A2 in Cur3.
      assert (Fti : m_times s3 = m_times s) by (destruct F3 as (_ & _ & _ & H & _); rewrite H; exact A3).
      assert (Fst : m_steps s3 = m_steps s) by (destruct F3 as (_ & _ & H & _); rewrite H; exact A5).
      split.
      { unfold frame0 in *. destruct F3 as (a & b & c & d & e & f). destruct F0 as (a' & b' & c' & d' & e' & f').
        repeat split; congruence. }
      split; [exact C3|]. split.
      * destruct Fin3 as [Hf|Htg]; [left; exact Hf|].
        destruct (Z.lt_ge_cases (m_tidx s + 1) (m_steps s)) as [Hlt|Hge];
          [|left; unfold is_finished; apply Z.leb_le; lia].
        right. unfold tinv, rfinv. rewrite Rf3, Ti3, Cur3, Fst, Htg.
        assert (T3 : forall k, tm s3 k = tm s k) by (intros k; unfold tm; rewrite Fti; reflexivity).
        rewrite !T3. replace (m_tidx s + 1 + 1) with (m_tidx s + 2) by lia.
        split; [lia|]. split; [|reflexivity]. rewrite Hrf.
        assert ((tm s (m_tidx s + 1) < tm s (m_tidx s + 1 + 1))%R) by (apply Hsort; lia).
        replace (m_tidx s + 1 + 1) with (m_tidx s + 2) in H by lia. lra.
      * unfold step_effect. exists new.
        split; [exact Ev3|]. rewrite Jn. split; [constructor|]. right. split; [exact Ti3|]. rewrite Fn, Hrf. reflexivity.
Qed.
