(* Proofs about the recording part of Model/TimeGrid.v at the R instance (C14), plus the
   binary64 witnesses of finding F-07. *)
From Coq Require Import ZArith List Bool Reals Lra Lia Sorted.
From EV Require Import Base.Arith Model.TimeGrid Proofs.TimeGridProofs.
Import ListNotations.
Open Scope R_scope.

Local Notation RA := R_arith.

Section Rec.
Variables tolb tol0 tolu : R.
Variable obs : list (option (list R)).
Variable dflt : option (list R).
Variables T tolp : R.
Hypothesis HT : 0 < T.

(* both time gates: the backend's _is_evaluation_time and pulser's Observable.__call__ *)
Definition gate (o : option (list R)) (t : R) : bool :=
  backend_gate RA tolb dflt o t && pulser_gate RA dflt tolp o t.

Definition step_rec (o : option (list R)) (t : R) (k : nat) (r : list (R * nat)) :=
  if gate o t then (t, k) :: r else r.

Lemma store_ok r t k : Forall (fun e => fst e < t) r -> store RA r t k = Ok ((t, k) :: r).
Proof.
  intros H. unfold store.
  assert (E : existsb (fun e => a_eqb RA (fst e) t) r = false).
  { apply not_true_is_false. intros C. apply existsb_exists in C. destruct C as (e & He & Hc).
    rewrite Forall_forall in H. specialize (H e He). simpl in Hc. apply Reqb_true in Hc. lra. }
  rewrite E. destruct r as [|[h k'] r']; [reflexivity|].
  inversion H; subst. simpl in H2. simpl. apply Rltb_true in H2. rewrite H2. reflexivity.
Qed.

Lemma apply_obs_ok t k : forall obs' recs,
  Forall (Forall (fun e => fst e < t)) recs ->
  apply_obs RA tolb dflt tolp t k obs' recs =
  Ok (map (fun p => step_rec (fst p) t k (snd p)) (combine obs' recs)).
Proof.
  induction obs' as [|o obs' IH]; intros recs H; [reflexivity|].
  destruct recs as [|r recs]; [reflexivity|]. inversion H; subst.
  simpl. rewrite (IH recs H3). unfold step_rec, gate.
  destruct (backend_gate RA tolb dflt o t && pulser_gate RA dflt tolp o t).
  - rewrite (store_ok r t k H2). reflexivity.
  - reflexivity.
Qed.

Lemma step_rec_bound o t k r t' :
  Forall (fun e => fst e < t) r -> t < t' -> Forall (fun e => fst e < t') (step_rec o t k r).
Proof.
  intros H Hl. unfold step_rec. destruct (gate o t).
  - constructor; [simpl; lra|]. eapply Forall_impl; [|exact H]. simpl. intros; lra.
  - eapply Forall_impl; [|exact H]. simpl. intros; lra.
Qed.

(* what one observable has recorded after the remaining grid points [suf] *)
Fixpoint spec_one (o : option (list R)) (step : nat) (suf : list R) (r : list (R * nat)) :=
  match suf with
  | [] => r
  | t1 :: s => spec_one o (S step) s (step_rec o (t1 / T) (S step) r)
  end.
Fixpoint spec_stat (step : nat) (suf : list R) (r : list (R * nat)) :=
  match suf with
  | [] => r
  | t1 :: s => spec_stat (S step) s ((t1 / T, S step) :: r)
  end.

Lemma combine_map_snd (f : option (list R) -> list (R * nat) -> list (R * nat)) :
  forall (l : list (option (list R))) recs, length recs = length l ->
  combine l (map (fun p => f (fst p) (snd p)) (combine l recs)) =
  map (fun p => (fst p, f (fst p) (snd p))) (combine l recs).
Proof.
  induction l as [|o l IH]; intros recs H; [reflexivity|].
  destruct recs as [|r recs]; [discriminate|]. simpl. f_equal. apply IH. simpl in H. lia.
Qed.

Lemma div_lt a b : a < b -> a / T < b / T.
Proof. intros. unfold Rdiv. apply Rmult_lt_compat_r; [apply Rinv_0_lt_compat; lra|lra]. Qed.

Lemma loop_ok rel : forall suf pre cur st,
  StronglySorted Rlt (cur :: suf) ->
  length (r_recs st) = length obs ->
  Forall (Forall (fun e => fst e <= cur / T)) (r_recs st) ->
  Forall (fun e => fst e <= cur / T) (r_stat st) ->
  (forall t, In t suf -> in_times RA (t / T) rel tolp = true) ->
  exists st',
    loop RA tolb (pre ++ cur :: suf) obs dflt T tolp rel (length suf) (length pre) cur st = Ok st' /\
    r_recs st' = map (fun p => spec_one (fst p) (length pre) suf (snd p)) (combine obs (r_recs st)) /\
    r_stat st' = spec_stat (length pre) suf (r_stat st).
Proof.
  induction suf as [|t1 suf IH]; intros pre cur st Hs Hlen Hr Hst Hin.
  - simpl. eexists. split; [reflexivity|]. split; [|reflexivity].
    clear - Hlen. revert Hlen. generalize (r_recs st). induction obs as [|o l IHl]; intros recs H.
    + destruct recs; [reflexivity|discriminate].
    + destruct recs; [discriminate|]. simpl. f_equal. apply IHl. simpl in H. lia.
  - simpl length. rewrite loop_S, nth_error_mid. simpl nth_error. cbv beta iota.
    inversion Hs as [|? ? Hs' Hall]; subst. inversion Hall as [|? ? Hlt Hall']; subst.
    assert (Hd : cur / T < t1 / T) by now apply div_lt.
    rewrite apply_obs_ok.
    2:{ eapply Forall_impl; [|exact Hr]. intros r Hr'. eapply Forall_impl; [|exact Hr']. simpl. intros; lra. }
    simpl res_bind. rewrite (Hin t1 (or_introl eq_refl)).
    rewrite store_ok.
    2:{ eapply Forall_impl; [|exact Hst]. simpl. intros; lra. }
    simpl res_bind.
    replace (pre ++ cur :: t1 :: suf) with ((pre ++ [cur]) ++ t1 :: suf) by (rewrite <- app_assoc; reflexivity).
    replace (S (length pre)) with (length (pre ++ [cur])) by (rewrite app_length; simpl; lia).
    edestruct (IH (pre ++ [cur]) t1) as (st' & E & E1 & E2); [exact Hs'| | | | |].
    5:{ exists st'. split; [exact E|]. split.
        - rewrite E1. simpl r_recs. rewrite (combine_map_snd (fun o r => step_rec o (t1 / T) (length (pre ++ [cur])) r)) by exact Hlen. rewrite map_map. simpl.
          replace (length (pre ++ [cur])) with (S (length pre)) by (rewrite app_length; simpl; lia).
          reflexivity.
        - rewrite E2. simpl r_stat.
          replace (length (pre ++ [cur])) with (S (length pre)) by (rewrite app_length; simpl; lia).
          reflexivity. }
    + simpl r_recs. rewrite map_length, combine_length, Hlen. lia.
    + simpl r_recs. apply Forall_forall. intros r Hrin. apply in_map_iff in Hrin.
      destruct Hrin as ([o r0] & <- & Hp). simpl. apply in_combine_r in Hp.
      rewrite Forall_forall in Hr. specialize (Hr _ Hp).
      unfold step_rec. destruct (gate o (t1 / T)).
      * constructor; [simpl; lra|]. eapply Forall_impl; [|exact Hr]. simpl; intros; lra.
      * eapply Forall_impl; [|exact Hr]. simpl; intros; lra.
    + simpl r_stat. constructor; [simpl; lra|]. eapply Forall_impl; [|exact Hst]. simpl; intros; lra.
    + intros t Ht. apply Hin. now right.
Qed.
End Rec.

Section Rec2.
Variables tolb tol0 tolu : R.
Variable dflt : option (list R).
Variables T tolp : R.

Lemma spec_one_In o : forall suf step r t k,
  In (t, k) (spec_one tolb dflt T tolp o step suf r) <->
  In (t, k) r \/
  exists i t1, nth_error suf i = Some t1 /\ t = t1 / T /\ k = (S step + i)%nat /\
               gate tolb dflt tolp o t = true.
Proof.
  induction suf as [|t1 s IH]; intros step r t k; simpl.
  - split; [auto|]. intros [H|(i & t1 & H & _)]; auto. destruct i; discriminate.
  - rewrite IH. unfold step_rec. split.
    + intros [H|(i & t2 & Hn & -> & -> & Hg)].
      * destruct (gate tolb dflt tolp o (t1 / T)) eqn:G; auto.
        destruct H as [H|H]; auto. inversion H; subst.
        right. exists 0%nat, t1. repeat split; auto; try lia.
      * right. exists (S i), t2. repeat split; auto; try lia.
    + intros [H|(i & t2 & Hn & -> & -> & Hg)].
      * left. destruct (gate tolb dflt tolp o (t1 / T)); auto. now right.
      * destruct i as [|i]; simpl in Hn.
        -- inversion Hn; subst. left. rewrite Hg. left. f_equal. lia.
        -- right. exists i, t2. repeat split; auto; try lia.
Qed.

Lemma spec_stat_In : forall suf step r t k,
  In (t, k) (spec_stat T step suf r) <->
  In (t, k) r \/ exists i t1, nth_error suf i = Some t1 /\ t = t1 / T /\ k = (S step + i)%nat.
Proof.
  induction suf as [|t1 s IH]; intros step r t k; simpl.
  - split; [auto|]. intros [H|(i & t1 & H & _)]; auto. destruct i; discriminate.
  - rewrite IH. split.
    + intros [[H|H]|(i & t2 & Hn & -> & ->)]; auto.
      * inversion H; subst. right. exists 0%nat, t1. repeat split; auto; try lia.
      * right. exists (S i), t2. repeat split; auto; try lia.
    + intros [H|(i & t2 & Hn & -> & ->)].
      * left. now right.
      * destruct i as [|i]; simpl in Hn.
        -- inversion Hn; subst. left. left. f_equal. lia.
        -- right. exists i, t2. repeat split; auto; try lia.
Qed.
End Rec2.

Fixpoint adjP (P : R -> R -> Prop) (l : list R) : Prop :=
  match l with
  | a :: t => match t with b :: _ => P a b /\ adjP P t | [] => True end
  | [] => True
  end.

Lemma adj_all_of_adjP (P : R -> R -> Prop) (p : R -> R -> bool) :
  (forall a b, P a b -> p a b = true) -> forall l, adjP P l -> adj_all p l = true.
Proof.
  intros H l. induction l as [|a t IH]; [reflexivity|]. destruct t as [|b t']; [reflexivity|].
  intros [H1 H2]. change (adj_all p (a :: b :: t')) with (p a b && adj_all p (b :: t')).
  rewrite (H _ _ H1), (IH H2). reflexivity.
Qed.

Lemma validate_ok tolu l : 0 < tolu ->
  (forall x, In x l -> 0 <= x <= 1) -> adjP (fun a b => a + tolu <= b) l ->
  validate_times RA tolu l = Ok tt.
Proof.
  intros Hu H01 Hadj. unfold validate_times.
  assert (E : existsb (fun x => a_ltb RA x (zero RA) || a_ltb RA (one RA) x) l = false).
  { apply not_true_is_false. intros C. apply existsb_exists in C. destruct C as (x & Hx & Hc).
    specialize (H01 x Hx). apply orb_true_iff in Hc. unfold zero, one in Hc. simpl in Hc.
    destruct Hc as [Hc|Hc]; apply Rltb_true in Hc; lra. }
  rewrite E.
  rewrite (adj_all_of_adjP (fun a b => a + tolu <= b)); [|  | exact Hadj].
  2:{ intros a b Hab. simpl. apply negb_true_iff. apply Rltb_false.
      rewrite Rabs_left1 by lra. lra. }
  simpl negb. cbv iota.
  rewrite (adj_all_of_adjP (fun a b => a + tolu <= b)); [reflexivity| |exact Hadj].
  intros a b Hab. simpl. apply Rltb_true. lra.
Qed.

Definition on_grid (tt : list R) (T : R) (t : R) (k : nat) : Prop :=
  exists tk, nth_error tt k = Some tk /\ t = tk / T.

(* A whole run on a separated grid: never raises, and every observable is recorded at grid
   index k iff both time gates accept t_k / T; statistics at every index >= 1. *)
Theorem run_recorded tolb tol0 tolu mps suf (obs : list (option (list R))) dflt :
  let tt := 0 :: suf in
  let T := last tt 0 in
  0 < T -> 0 <= tol0 -> 0 < tolu ->
  StronglySorted Rlt tt -> (forall t, In t tt -> 0 <= t <= T) ->
  adjP (fun a b => a + tolu <= b) (map (fun t => t / T) tt) ->
  exists st tolp,
    run RA R_floor tolb tol0 tolu mps tt (length tt - 1) obs dflt = Ok st /\
    0 <= tolp /\ tolp = (if (Int_part T =? 0)%Z then tol0 else 1 / 2 / IZR (Int_part T)) /\
    Forall2 (fun o r => forall t k, In (t, k) r <-> on_grid tt T t k /\ gate tolb dflt tolp o t = true)
            obs (r_recs st) /\
    (forall t k, In (t, k) (r_stat st) <-> on_grid tt T t k /\ (1 <= k)%nat).
Proof.
  intros tt T HT H0 Hu Hs Hb Hadj.
  set (tolp := if (Int_part T =? 0)%Z then tol0 else 1 / 2 / IZR (Int_part T)).
  assert (Htp : 0 <= tolp).
  { unfold tolp. destruct (Int_part T =? 0)%Z eqn:E; [exact H0|].
    destruct (base_Int_part T) as [B1 B2].
    assert (-1 < Int_part T)%Z by (apply lt_IZR; simpl; lra).
    assert (1 <= Int_part T)%Z by (apply Z.eqb_neq in E; lia).
    apply IZR_le in H1. simpl in H1.
    unfold Rdiv. apply Rmult_le_pos; [lra|]. apply Rlt_le, Rinv_0_lt_compat. lra. }
  assert (Hc : (if mps then zero RA else 0) = 0) by (destruct mps; reflexivity).
  assert (Hrel01 : forall x, In x (map (fun t => t / T) tt) -> 0 <= x <= 1).
  { intros x Hx. apply in_map_iff in Hx. destruct Hx as (t & <- & Ht). specialize (Hb t Ht).
    split.
    - unfold Rdiv. apply Rmult_le_pos; [lra|]. apply Rlt_le, Rinv_0_lt_compat; lra.
    - apply (Rmult_le_reg_r T); [lra|]. replace (t / T * T) with t by (field; lra). lra. }
  assert (Hstatgate : forall t, In t suf -> in_times RA (t / T) (map (fun t => t / T) tt) tolp = true).
  { intros t Ht. unfold in_times, in01. apply andb_true_iff. split.
    - destruct (Hrel01 (t / T)) as [A B]; [apply (in_map (fun t0 => t0 / T)); now right|].
      unfold zero, one. simpl. apply andb_true_iff. split; apply Rleb_true; lra.
    - apply existsb_exists. exists (t / T). split; [apply (in_map (fun t0 => t0 / T)); now right|].
      simpl. apply Rleb_true. rewrite Rminus_diag_eq by reflexivity. rewrite Rabs_R0. exact Htp. }
  subst tt. unfold run. cbv zeta. cbv beta iota.
  change (last (0 :: suf) (zero RA)) with T. rewrite Hc. unfold R_floor. cbv beta iota.
  unfold one, zero. cbn [a_div a_ofZ R_arith]. fold tolp.
  rewrite (validate_ok tolu _ Hu Hrel01 Hadj). simpl res_bind.
  rewrite apply_obs_ok by (apply Forall_forall; intros r Hr; apply in_map_iff in Hr;
                           destruct Hr as (? & <- & _); constructor).
  simpl res_bind.
  destruct (loop_ok tolb obs dflt T tolp HT (map (fun t => t / T) (0 :: suf)) suf [] 0
              (MkR (map (fun p => step_rec tolb dflt tolp (fst p) (0 / T) 0 (snd p))
                        (combine obs (map (fun _ => []) obs))) [] []))
    as (st & E & E1 & E2).
  - exact Hs.
  - simpl. rewrite map_length, combine_length, map_length. lia.
  - simpl. apply Forall_forall. intros r Hr. apply in_map_iff in Hr. destruct Hr as ([o r0] & <- & Hp).
    apply in_combine_r in Hp. apply in_map_iff in Hp. destruct Hp as (? & <- & _). simpl.
    unfold step_rec. destruct (gate tolb dflt tolp o (0 / T)); constructor; [simpl; lra|constructor].
  - constructor.
  - exact Hstatgate.
  - exists st, tolp. simpl app in E. simpl length in E.
    replace (length suf - 0)%nat with (length suf) by lia.
    split; [exact E|]. split; [exact Htp|]. split; [reflexivity|]. split.
    + rewrite E1. simpl r_recs. simpl length.
      clear E E1 E2. induction obs as [|o l IHl]; simpl; constructor; [|exact IHl].
      intros t k. rewrite spec_one_In. unfold step_rec, on_grid. split.
      * intros [H|(i & t1 & Hn & -> & -> & Hg)].
        -- destruct (gate tolb dflt tolp o (0 / T)) eqn:G; [|destruct H].
           destruct H as [H|[]]. inversion H; subst. split; [|exact G]. exists 0. split; reflexivity.
        -- split; [|exact Hg]. exists t1. split; [|reflexivity]. exact Hn.
      * intros [(tk & Hn & ->) Hg]. destruct k as [|k]; simpl in Hn.
        -- inversion Hn; subst. left. rewrite Hg. now left.
        -- right. exists k, tk. repeat split; auto.
    + intros t k. rewrite E2. simpl r_stat. simpl length. rewrite spec_stat_In. unfold on_grid. split.
      * intros [[]|(i & t1 & Hn & -> & ->)]. split; [|lia]. exists t1. split; [exact Hn|reflexivity].
      * intros [(tk & Hn & ->) Hk]. destruct k as [|k]; [lia|]. simpl in Hn.
        right. exists k, tk. repeat split; auto.
Qed.

(* ---- the gates ---------------------------------------------------------------------------- *)
Definition requested_of (dflt : option (list R)) (o : option (list R)) (t : R) : Prop :=
  match o with
  | Some ts => In t ts
  | None => match dflt with Some d => In t d | None => True end
  end.

Lemma in_times_self t ts tol : 0 <= tol -> 0 <= t <= 1 -> In t ts -> in_times RA t ts tol = true.
Proof.
  intros Htol Ht Hin. unfold in_times, in01, zero, one. simpl.
  apply andb_true_iff. split; [apply andb_true_iff; split; apply Rleb_true; lra|].
  apply existsb_exists. exists t. split; [exact Hin|]. apply Rleb_true.
  rewrite Rminus_diag_eq by reflexivity. rewrite Rabs_R0. exact Htol.
Qed.

Lemma in_times_elim t ts tol : in_times RA t ts tol = true ->
  0 <= t <= 1 /\ exists e, In e ts /\ Rabs (e - t) <= tol.
Proof.
  unfold in_times, in01, zero, one. simpl. intros H. apply andb_true_iff in H. destruct H as [H1 H2].
  apply andb_true_iff in H1. destruct H1 as [A B]. apply Rleb_true in A, B.
  apply existsb_exists in H2. destruct H2 as (e & He & Hc). apply Rleb_true in Hc.
  split; [simpl in *; lra|]. exists e. auto.
Qed.

Lemma in01_intro t : 0 <= t <= 1 -> in01 RA t = true.
Proof. intros. unfold in01, zero, one. simpl. apply andb_true_iff; split; apply Rleb_true; lra. Qed.

Lemma gate_complete tolb dflt tolp o t :
  0 <= tolb -> 0 <= tolp -> 0 <= t <= 1 -> requested_of dflt o t -> gate tolb dflt tolp o t = true.
Proof.
  intros Hb Hp Ht Hr. unfold gate, backend_gate, pulser_gate, is_evaluation_time.
  destruct o as [ts|]; simpl in Hr.
  - rewrite !in_times_self by assumption. reflexivity.
  - destruct dflt as [d|].
    + rewrite !in_times_self by assumption. reflexivity.
    + rewrite in01_intro by assumption. reflexivity.
Qed.

Lemma gate_sound tolb dflt tolp o t : gate tolb dflt tolp o t = true ->
  match o with
  | Some ts => exists e, In e ts /\ Rabs (e - t) <= tolp
  | None => match dflt with
            | Some d => exists e, In e d /\ Rabs (e - t) <= tolb
            | None => True
            end
  end.
Proof.
  unfold gate, backend_gate, pulser_gate, is_evaluation_time. intros H.
  apply andb_true_iff in H. destruct H as [H1 H2]. destruct o as [ts|].
  - apply in_times_elim in H2. tauto.
  - destruct dflt as [d|]; [|exact I]. simpl in H1. apply in_times_elim in H1. tauto.
Qed.

(* If the requested times of the observable are separated from the other grid times by more than
   both tolerances, the gates accept a grid time exactly when it is requested. *)
Theorem gate_exact tolb dflt tolp o t :
  0 <= tolb -> 0 <= tolp -> 0 <= t <= 1 ->
  (forall e, requested_of dflt o e -> Rabs (e - t) <= Rmax tolb tolp -> e = t) ->
  (gate tolb dflt tolp o t = true <-> requested_of dflt o t).
Proof.
  intros Hb Hp Ht Hsep. split; [|now apply gate_complete].
  intros H. apply gate_sound in H. destruct o as [ts|].
  - destruct H as (e & He & Hd). simpl. rewrite <- (Hsep e He); [exact He|].
    eapply Rle_trans; [exact Hd|apply Rmax_r].
  - destruct dflt as [d|]; [|exact I]. destruct H as (e & He & Hd). simpl.
    rewrite <- (Hsep e He); [exact He|]. eapply Rle_trans; [exact Hd|apply Rmax_l].
Qed.

(* The F-07 mechanism in exact arithmetic: an observable with own times is accepted at a default
   time d that is within pulser's tolerance of an own time e, although d is not requested. *)
Lemma gate_accepts_near_default tolb tolp ts d e (dl : list R) :
  0 <= tolb -> 0 <= d <= 1 -> In d dl -> In e ts -> Rabs (e - d) <= tolp ->
  gate tolb (Some dl) tolp (Some ts) d = true.
Proof.
  intros Hb Hd Hin He Hc. unfold gate, backend_gate, pulser_gate, is_evaluation_time.
  rewrite (in_times_self d dl tolb Hb Hd Hin), orb_true_r. simpl.
  unfold in_times. rewrite in01_intro by assumption. simpl.
  apply existsb_exists. exists e. split; [exact He|]. apply Rleb_true. exact Hc.
Qed.

Example gate_exact_premises_satisfiable :
  exists tolb tolp dflt o t, 0 <= tolb /\ 0 <= tolp /\ 0 <= t <= 1 /\
    (forall e, requested_of dflt o e -> Rabs (e - t) <= Rmax tolb tolp -> e = t) /\ requested_of dflt o t.
Proof.
  exists (1/10), (1/10), (Some [1]), (Some [1/2]), (1/2). repeat split; try lra.
  - intros e [<-|[]] _. reflexivity.
  - now left.
Qed.

(* ---- binary64 witnesses of finding F-07 ---------------------------------------------------- *)
Section FloatWitness.
Import PrimFloat.
Local Open Scope float_scope.
Definition w07_own := [0.5].
Definition w07_dflt := [0x1.0027525460aa6p-1; 1].   (* 0.5003, 1.0 *)

Definition recorded_times (r : res (rstate float)) (j : nat) : list float :=
  match r with Ok st => map fst (rev (nth j (r_recs st) [])) | _ => [] end.

Lemma f07_float :
  exists st,
    run_config float_arith float_floor w_tolb w_tol0 w_tolu false 1000 10
               [Some w07_own; None] (Some w07_dflt) = Ok st /\
    recorded_times (Ok st) 0 = [0.5; 0x1.0027525460aa6p-1] /\
    recorded_times (Ok st) 1 = [0x1.0027525460aa6p-1; 1].
Proof. eexists. split; [vm_compute; reflexivity|]. split; vm_compute; reflexivity. Qed.

(* default "Full": recorded at every grid time within 0.5/T of the own time *)
Lemma f07_full_float :
  exists st,
    run_config float_arith float_floor w_tolb w_tol0 w_tolu true 100 1 [Some w07_own] None = Ok st /\
    length (recorded_times (Ok st) 0) = 1%nat /\
    exists st2,
    run_config float_arith float_floor w_tolb w_tol0 w_tolu true 100 0.25 [Some w07_own] None = Ok st2 /\
    length (recorded_times (Ok st2) 0) = 3%nat.
Proof.
  eexists. split; [vm_compute; reflexivity|]. split; [vm_compute; reflexivity|].
  eexists. split; vm_compute; reflexivity.
Qed.
End FloatWitness.
