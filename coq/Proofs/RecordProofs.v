(* Proofs about the recording part of Model/TimeGrid.v at the R instance (C14), plus the
   binary64 witnesses of finding F-07. *)
From Coq Require Import ZArith List Bool Reals Lra Lia Sorted.
From EV Require Import Base.Arith Model.TimeGrid Proofs.TimeGridProofs.
Import ListNotations.
Open Scope R_scope.

Local Notation RA := R_arith.

Section Rec.
Variables tolb tol0 tolu : R.
Variable obs : list (option (list R)).
Variable dflt : option (list R).
Variables T tolp : R.
Hypothesis HT : 0 < T.

(* both time gates: the backend's _is_evaluation_time and pulser's Observable.__call__ *)
Definition gate (o : option (list R)) (t : R) : bool :=
  backend_gate RA tolb dflt o t && pulser_gate RA dflt tolp o t.

Definition step_rec (o : option (list R)) (t : R) (k : nat) (r : list (R * nat)) :=
  if gate o t then (t, k) :: r else r.

Lemma store_ok r t k : Forall (fun e => fst e < t) r -> store RA r t k = Ok ((t, k) :: r).
Proof.
  intros H. unfold store.
  assert (E : existsb (fun e => a_eqb RA (fst e) t) r = false).
  { apply not_true_is_false. intros C. apply existsb_exists in C. destruct C as (e & He & Hc).
    rewrite Forall_forall in H. specialize (H e He). simpl in Hc. apply Reqb_true in Hc. lra. }
  rewrite E. destruct r as [|[h k'] r']; [reflexivity|].
  inversion H; subst. simpl in H2. simpl. apply Rltb_true in H2. rewrite H2. reflexivity.
Qed.

Lemma apply_obs_ok t k : forall obs' recs,
  Forall (Forall (fun e => fst e < t)) recs ->
  apply_obs RA tolb dflt tolp t k obs' recs =
  Ok (map (fun p => step_rec (fst p) t k (snd p)) (combine obs' recs)).
Proof.
  induction obs' as [|o obs' IH]; intros recs H; [reflexivity|].
  destruct recs as [|r recs]; [reflexivity|]. inversion H; subst.
  simpl. rewrite (IH recs H3). unfold step_rec, gate.
  destruct (backend_gate RA tolb dflt o t && pulser_gate RA dflt tolp o t).
  - rewrite (store_ok r t k H2). reflexivity.
  - reflexivity.
Qed.

Lemma step_rec_bound o t k r t' :
  Forall (fun e => fst e < t) r -> t < t' -> Forall (fun e => fst e < t') (step_rec o t k r).
Proof.
  intros H Hl. unfold step_rec. destruct (gate o t).
  - constructor; [simpl; lra|]. eapply Forall_impl; [|exact H]. simpl. intros; lra.
  - eapply Forall_impl; [|exact H]. simpl. intros; lra.
Qed.

(* what one observable has recorded after the remaining grid points [suf] *)
Fixpoint spec_one (o : option (list R)) (step : nat) (suf : list R) (r : list (R * nat)) :=
  match suf with
  | [] => r
  | t1 :: s => spec_one o (S step) s (step_rec o (t1 / T) (S step) r)
  end.
Fixpoint spec_stat (step : nat) (suf : list R) (r : list (R * nat)) :=
  match suf with
  | [] => r
  | t1 :: s => spec_stat (S step) s ((t1 / T, S step) :: r)
  end.

Lemma combine_map_snd (f : option (list R) -> list (R * nat) -> list (R * nat)) :
  forall (l : list (option (list R))) recs, length recs = length l ->
  combine l (map (fun p => f (fst p) (snd p)) (combine l recs)) =
  map (fun p => (fst p, f (fst p) (snd p))) (combine l recs).
Proof.
  induction l as [|o l IH]; intros recs H; [reflexivity|].
  destruct recs as [|r recs]; [discriminate|]. simpl. f_equal. apply IH. simpl in H. lia.
Qed.

Lemma div_lt a b : a < b -> a / T < b / T.
Proof. intros. unfold Rdiv. apply Rmult_lt_compat_r; [apply Rinv_0_lt_compat; lra|lra]. Qed.

Lemma loop_ok rel : forall suf pre cur st,
  StronglySorted Rlt (cur :: suf) ->
  length (r_recs st) = length obs ->
  Forall (Forall (fun e => fst e <= cur / T)) (r_recs st) ->
  Forall (fun e => fst e <= cur / T) (r_stat st) ->
  (forall t, In t suf -> in_times RA (t / T) rel tolp = true) ->
  exists st',
    loop RA tolb (pre ++ cur :: suf) obs dflt T tolp rel (length suf) (length pre) cur st = Ok st' /\
    r_recs st' = map (fun p => spec_one (fst p) (length pre) suf (snd p)) (combine obs (r_recs st)) /\
    r_stat st' = spec_stat (length pre) suf (r_stat st).
Proof.
  induction suf as [|t1 suf IH]; intros pre cur st Hs Hlen Hr Hst Hin.
  - simpl. eexists. split; [reflexivity|]. split; [|reflexivity].
    clear - Hlen. revert Hlen. generalize (r_recs st). induction obs as [|o l IHl]; intros recs H.
    + destruct recs; [reflexivity|discriminate].
    + destruct recs; [discriminate|]. simpl. f_equal. apply IHl. simpl in H. lia.
  - simpl length. rewrite loop_S, nth_error_mid. simpl nth_error. cbv beta iota.
    inversion Hs as [|? ? Hs' Hall]; subst. inversion Hall as [|? ? Hlt Hall']; subst.
    assert (Hd : cur / T < t1 / T) by now apply div_lt.
    rewrite apply_obs_ok.
    2:{ eapply Forall_impl; [|exact Hr]. intros r Hr'. eapply Forall_impl; [|exact Hr']. simpl. intros; lra. }
    simpl res_bind. rewrite (Hin t1 (or_introl eq_refl)).
    rewrite store_ok.
    2:{ eapply Forall_impl; [|exact Hst]. simpl. intros; lra. }
    simpl res_bind.
    replace (pre ++ cur :: t1 :: suf) with ((pre ++ [cur]) ++ t1 :: suf) by (rewrite <- app_assoc; reflexivity).
    replace (S (length pre)) with (length (pre ++ [cur])) by (rewrite app_length; simpl; lia).
    edestruct (IH (pre ++ [cur]) t1) as (st' & E & E1 & E2); [exact Hs'| | | | |].
    5:{ exists st'. split; [exact E|]. split.
        - rewrite E1. simpl r_recs. rewrite (combine_map_snd (fun o r => step_rec o (t1 / T) (length (pre ++ [cur])) r)) by exact Hlen. rewrite map_map. simpl.
          replace (length (pre ++ [cur])) with (S (length pre)) by (rewrite app_length; simpl; lia).
          reflexivity.
        - rewrite E2. simpl r_stat.
          replace (length (pre ++ [cur])) with (S (length pre)) by (rewrite app_length; simpl; lia).
          reflexivity. }
    + simpl r_recs. rewrite map_length, combine_length, Hlen. lia.
    + simpl r_recs. apply Forall_forall. intros r Hrin. apply in_map_iff in Hrin.
      destruct Hrin as ([o r0] & <- & Hp). simpl. apply in_combine_r in Hp.
      rewrite Forall_forall in Hr. specialize (Hr _ Hp).
      unfold step_rec. destruct (gate o (t1 / T)).
      * constructor; [simpl; lra|]. eapply Forall_impl; [|exact Hr]. simpl; intros; lra.
      * eapply Forall_impl; [|exact Hr]. simpl; intros; lra.
    + simpl r_stat. constructor; [simpl; lra|]. eapply Forall_impl; [|exact Hst]. simpl; intros; lra.
    + intros t Ht. apply Hin. now right.
Qed.
End Rec.

Section Rec2.
Variables tolb tol0 tolu : R.
Variable dflt : option (list R).
Variables T tolp : R.

Lemma spec_one_In o : forall suf step r t k,
  In (t, k) (spec_one tolb dflt T tolp o step suf r) <->
  In (t, k) r \/
  exists i t1, nth_error suf i = Some t1 /\ t = t1 / T /\ k = (S step + i)%nat /\
               gate tolb dflt tolp o t = true.
Proof.
  induction suf as [|t1 s IH]; intros step r t k; simpl.
  - split; [auto|]. intros [H|(i & t1 & H & _)]; auto. destruct i; discriminate.
  - rewrite IH. unfold step_rec. split.
    + intros [H|(i & t2 & Hn & -> & -> & Hg)].
      * destruct (gate tolb dflt tolp o (t1 / T)) eqn:G; auto.
        destruct H as [H|H]; auto. inversion H; subst.
        right. exists 0%nat, t1. repeat split; auto; try lia.
      * right. exists (S i), t2. repeat split; auto; try lia.
    + intros [H|(i & t2 & Hn & -> & -> & Hg)].
      * left. destruct (gate tolb dflt tolp o (t1 / T)); auto. now right.
      * destruct i as [|i]; simpl in Hn.
        -- inversion Hn; subst. left. rewrite Hg. left. f_equal. lia.
        -- right. exists i, t2. repeat split; auto; try lia.
Qed.

Lemma spec_stat_In : forall suf step r t k,
  In (t, k) (spec_stat T step suf r) <->
  In (t, k) r \/ exists i t1, nth_error suf i = Some t1 /\ t = t1 / T /\ k = (S step + i)%nat.
Proof.
  induction suf as [|t1 s IH]; intros step r t k; simpl.
  - split; [auto|]. intros [H|(i & t1 & H & _)]; auto. destruct i; discriminate.
  - rewrite IH. split.
    + intros [[H|H]|(i & t2 & Hn & -> & ->)]; auto.
      * inversion H; subst. right. exists 0%nat, t1. repeat split; auto; try lia.
      * right. exists (S i), t2. repeat split; auto; try lia.
    + intros [H|(i & t2 & Hn & -> & ->)].
      * left. now right.
      * destruct i as [|i]; simpl in Hn.
        -- inversion Hn; subst. left. left. f_equal. lia.
        -- right. exists i, t2. repeat split; auto; try lia.
Qed.

Definition desc (r : list (R * nat)) : Prop := StronglySorted (fun a b => fst b < fst a) r.

Lemma spec_one_sorted o : 0 < T -> forall suf step r cur,
  StronglySorted Rlt (cur :: suf) -> desc r -> Forall (fun e => fst e <= cur / T) r ->
  desc (spec_one tolb dflt T tolp o step suf r).
Proof.
  intros HT. induction suf as [|t1 s IH]; intros step r cur HS D F; [exact D|].
  simpl. inversion HS as [|? ? S1 F1]; subst. inversion F1 as [|? ? Hlt _]; subst.
  assert (Hd : cur / T < t1 / T).
  { unfold Rdiv. apply Rmult_lt_compat_r; [apply Rinv_0_lt_compat; lra|lra]. }
  apply (IH (S step) _ t1 S1); unfold step_rec; destruct (gate tolb dflt tolp o (t1 / T)).
  - constructor; [exact D|]. eapply Forall_impl; [|exact F]. simpl. intros; lra.
  - exact D.
  - constructor; [simpl; lra|]. eapply Forall_impl; [|exact F]. simpl. intros; lra.
  - eapply Forall_impl; [|exact F]. simpl. intros; lra.
Qed.
End Rec2.

Lemma adj_all_of_adjP (P : R -> R -> Prop) (p : R -> R -> bool) :
  (forall a b, P a b -> p a b = true) -> forall l, adjP P l -> adj_all p l = true.
Proof.
  intros H l. induction l as [|a t IH]; [reflexivity|]. destruct t as [|b t']; [reflexivity|].
  intros [H1 H2]. change (adj_all p (a :: b :: t')) with (p a b && adj_all p (b :: t')).
  rewrite (H _ _ H1), (IH H2). reflexivity.
Qed.

Lemma validate_ok tolu l : 0 < tolu ->
  (forall x, In x l -> 0 <= x <= 1) -> adjP (fun a b => a + tolu <= b) l ->
  validate_times RA tolu l = Ok tt.
Proof.
  intros Hu H01 Hadj. unfold validate_times.
  assert (E : existsb (fun x => a_ltb RA x (zero RA) || a_ltb RA (one RA) x) l = false).
  { apply not_true_is_false. intros C. apply existsb_exists in C. destruct C as (x & Hx & Hc).
    specialize (H01 x Hx). apply orb_true_iff in Hc. unfold zero, one in Hc. simpl in Hc.
    destruct Hc as [Hc|Hc]; apply Rltb_true in Hc; lra. }
  rewrite E.
  rewrite (adj_all_of_adjP (fun a b => a + tolu <= b)); [|  | exact Hadj].
  2:{ intros a b Hab. simpl. apply negb_true_iff. apply Rltb_false.
      rewrite Rabs_left1 by lra. lra. }
  simpl negb. cbv iota.
  rewrite (adj_all_of_adjP (fun a b => a + tolu <= b)); [reflexivity| |exact Hadj].
  intros a b Hab. simpl. apply Rltb_true. lra.
Qed.

Definition on_grid (tt : list R) (T : R) (t : R) (k : nat) : Prop :=
  exists tk, nth_error tt k = Some tk /\ t = tk / T.

(* A whole run on a separated grid: never raises, and every observable is recorded at grid
   index k iff both time gates accept t_k / T; statistics at every index >= 1. *)
Theorem run_recorded tolb tol0 tolu mps suf (obs : list (option (list R))) dflt :
  let tt := 0 :: suf in
  let T := last tt 0 in
  0 < T -> 0 <= tol0 -> 0 < tolu ->
  StronglySorted Rlt tt -> (forall t, In t tt -> 0 <= t <= T) ->
  adjP (fun a b => a + tolu <= b) (map (fun t => t / T) tt) ->
  exists st tolp,
    run RA R_floor tolb tol0 tolu mps tt (length tt - 1) obs dflt = Ok st /\
    0 <= tolp /\ tolp = (if (Int_part T =? 0)%Z then tol0 else 1 / 2 / IZR (Int_part T)) /\
    Forall2 (fun o r => forall t k, In (t, k) r <-> on_grid tt T t k /\ gate tolb dflt tolp o t = true)
            obs (r_recs st) /\
    (forall t k, In (t, k) (r_stat st) <-> on_grid tt T t k /\ (1 <= k)%nat) /\
    Forall desc (r_recs st).
Proof.
  intros tt T HT H0 Hu Hs Hb Hadj.
  set (tolp := if (Int_part T =? 0)%Z then tol0 else 1 / 2 / IZR (Int_part T)).
  assert (Htp : 0 <= tolp).
  { unfold tolp. destruct (Int_part T =? 0)%Z eqn:E; [exact H0|].
    destruct (base_Int_part T) as [B1 B2].
    assert (-1 < Int_part T)%Z by (apply lt_IZR; simpl; lra).
    assert (1 <= Int_part T)%Z by (apply Z.eqb_neq in E; lia).
    apply IZR_le in H1. simpl in H1.
    unfold Rdiv. apply Rmult_le_pos; [lra|]. apply Rlt_le, Rinv_0_lt_compat. lra. }
  assert (Hc : (if mps then zero RA else 0) = 0) by (destruct mps; reflexivity).
  assert (Hrel01 : forall x, In x (map (fun t => t / T) tt) -> 0 <= x <= 1).
  { intros x Hx. apply in_map_iff in Hx. destruct Hx as (t & <- & Ht). specialize (Hb t Ht).
    split.
    - unfold Rdiv. apply Rmult_le_pos; [lra|]. apply Rlt_le, Rinv_0_lt_compat; lra.
    - apply (Rmult_le_reg_r T); [lra|]. replace (t / T * T) with t by (field; lra). lra. }
  assert (Hstatgate : forall t, In t suf -> in_times RA (t / T) (map (fun t => t / T) tt) tolp = true).
  { intros t Ht. unfold in_times, in01. apply andb_true_iff. split.
    - destruct (Hrel01 (t / T)) as [A B]; [apply (in_map (fun t0 => t0 / T)); now right|].
      unfold zero, one. simpl. apply andb_true_iff. split; apply Rleb_true; lra.
    - apply existsb_exists. exists (t / T). split; [apply (in_map (fun t0 => t0 / T)); now right|].
      simpl. apply Rleb_true. rewrite Rminus_diag_eq by reflexivity. rewrite Rabs_R0. exact Htp. }
  subst tt. unfold run. cbv zeta. cbv beta iota.
  change (last (0 :: suf) (zero RA)) with T. rewrite Hc. unfold R_floor. cbv beta iota.
  unfold one, zero. cbn [a_div a_ofZ R_arith]. fold tolp.
  rewrite (validate_ok tolu _ Hu Hrel01 Hadj). simpl res_bind.
  rewrite apply_obs_ok by (apply Forall_forall; intros r Hr; apply in_map_iff in Hr;
                           destruct Hr as (? & <- & _); constructor).
  simpl res_bind.
  destruct (loop_ok tolb obs dflt T tolp HT (map (fun t => t / T) (0 :: suf)) suf [] 0
              (MkR (map (fun p => step_rec tolb dflt tolp (fst p) (0 / T) 0 (snd p))
                        (combine obs (map (fun _ => []) obs))) [] []))
    as (st & E & E1 & E2).
  - exact Hs.
  - simpl. rewrite map_length, combine_length, map_length. lia.
  - simpl. apply Forall_forall. intros r Hr. apply in_map_iff in Hr. destruct Hr as ([o r0] & <- & Hp).
    apply in_combine_r in Hp. apply in_map_iff in Hp. destruct Hp as (? & <- & _). simpl.
    unfold step_rec. destruct (gate tolb dflt tolp o (0 / T)); constructor; [simpl; lra|constructor].
  - constructor.
  - exact Hstatgate.
  - assert (Hord : Forall desc (r_recs st)).
    { rewrite E1. simpl r_recs. apply Forall_forall. intros r Hr. apply in_map_iff in Hr.
      destruct Hr as ([o r0] & <- & Hp). simpl. apply in_combine_r in Hp. apply in_map_iff in Hp.
      destruct Hp as ([o' r1] & <- & Hp'). apply in_combine_r in Hp'. apply in_map_iff in Hp'.
      destruct Hp' as (? & <- & _). simpl.
      apply (spec_one_sorted tolb dflt T tolp o HT suf 0%nat _ 0 Hs); unfold step_rec;
        destruct (gate tolb dflt tolp o' (0 / T)).
      - constructor; constructor.
      - constructor.
      - constructor; [simpl; lra|constructor].
      - constructor. }
    exists st, tolp. simpl app in E. simpl length in E.
    replace (length suf - 0)%nat with (length suf) by lia.
    split; [exact E|]. split; [exact Htp|]. split; [reflexivity|]. split.
    + rewrite E1. simpl r_recs. simpl length.
      clear E E1 E2. induction obs as [|o l IHl]; simpl; constructor; [|exact IHl].
      intros t k. rewrite spec_one_In. unfold step_rec, on_grid. split.
      * intros [H|(i & t1 & Hn & -> & -> & Hg)].
        -- destruct (gate tolb dflt tolp o (0 / T)) eqn:G; [|destruct H].
           destruct H as [H|[]]. inversion H; subst. split; [|exact G]. exists 0. split; reflexivity.
        -- split; [|exact Hg]. exists t1. split; [|reflexivity]. exact Hn.
      * intros [(tk & Hn & ->) Hg]. destruct k as [|k]; simpl in Hn.
        -- inversion Hn; subst. left. rewrite Hg. now left.
        -- right. exists k, tk. repeat split; auto.
    + split; [|exact Hord]. intros t k. rewrite E2. simpl r_stat. simpl length. rewrite spec_stat_In. unfold on_grid. split.
      * intros [[]|(i & t1 & Hn & -> & ->)]. split; [|lia]. exists t1. split; [exact Hn|reflexivity].
      * intros [(tk & Hn & ->) Hk]. destruct k as [|k]; [lia|]. simpl in Hn.
        right. exists k, tk. repeat split; auto.
Qed.

(* ---- the gates ---------------------------------------------------------------------------- *)
Definition requested_of (dflt : option (list R)) (o : option (list R)) (t : R) : Prop :=
  match o with
  | Some ts => In t ts
  | None => match dflt with Some d => In t d | None => True end
  end.

Lemma in_times_self t ts tol : 0 <= tol -> 0 <= t <= 1 -> In t ts -> in_times RA t ts tol = true.
Proof.
  intros Htol Ht Hin. unfold in_times, in01, zero, one. simpl.
  apply andb_true_iff. split; [apply andb_true_iff; split; apply Rleb_true; lra|].
  apply existsb_exists. exists t. split; [exact Hin|]. apply Rleb_true.
  rewrite Rminus_diag_eq by reflexivity. rewrite Rabs_R0. exact Htol.
Qed.

Lemma in_times_elim t ts tol : in_times RA t ts tol = true ->
  0 <= t <= 1 /\ exists e, In e ts /\ Rabs (e - t) <= tol.
Proof.
  unfold in_times, in01, zero, one. simpl. intros H. apply andb_true_iff in H. destruct H as [H1 H2].
  apply andb_true_iff in H1. destruct H1 as [A B]. apply Rleb_true in A, B.
  apply existsb_exists in H2. destruct H2 as (e & He & Hc). apply Rleb_true in Hc.
  split; [simpl in *; lra|]. exists e. auto.
Qed.

Lemma in01_intro t : 0 <= t <= 1 -> in01 RA t = true.
Proof. intros. unfold in01, zero, one. simpl. apply andb_true_iff; split; apply Rleb_true; lra. Qed.


Lemma gate_complete tolb dflt tolp o t :
  0 <= tolb -> 0 <= tolp -> 0 <= t <= 1 -> requested_of dflt o t -> gate tolb dflt tolp o t = true.
Proof.
  intros Hb Hp Ht Hr. unfold gate, backend_gate, pulser_gate, is_evaluation_time.
  destruct o as [ts|]; simpl in Hr.
  - rewrite !in_times_self by assumption. reflexivity.
  - destruct dflt as [d|].
    + rewrite !in_times_self by assumption. reflexivity.
    + rewrite in01_intro by assumption. reflexivity.
Qed.

(* near a requested time: both gates accept *)
Lemma gate_near tolb dflt tolp o t e :
  0 <= t <= 1 -> requested_of dflt o e -> Rabs (e - t) <= tolb -> Rabs (e - t) <= tolp ->
  gate tolb dflt tolp o t = true.
Proof.
  intros Ht Hr Hb Hp.
  assert (X : forall ts tol, In e ts -> Rabs (e - t) <= tol -> in_times RA t ts tol = true).
  { intros ts tol Hin Hc. unfold in_times. rewrite in01_intro by assumption. simpl.
    apply existsb_exists. exists e. split; [exact Hin|]. apply Rleb_true. exact Hc. }
  unfold gate, backend_gate, pulser_gate, is_evaluation_time.
  destruct o as [ts|]; simpl in Hr.
  - rewrite !X by assumption. reflexivity.
  - destruct dflt as [d|].
    + rewrite !X by assumption. reflexivity.
    + rewrite in01_intro by assumption. reflexivity.
Qed.

(* After the F-07 fix: whatever the config default, an accepted time is within the BACKEND
   tolerance (1e-10) of a time requested for this very observable. *)
Lemma gate_sound tolb dflt tolp o t : gate tolb dflt tolp o t = true ->
  0 <= t <= 1 /\
  match o, dflt with
  | None, None => True
  | _, _ => exists e, requested_of dflt o e /\ Rabs (e - t) <= tolb
  end.
Proof.
  unfold gate, backend_gate, pulser_gate, is_evaluation_time. intros H.
  apply andb_true_iff in H. destruct H as [H1 H2]. destruct o as [ts|].
  - apply in_times_elim in H1. destruct H1 as (A & e & He & Hc). split; [exact A|].
    destruct dflt; exists e; auto.
  - destruct dflt as [d|].
    + apply in_times_elim in H1. destruct H1 as (A & e & He & Hc). split; [exact A|]. exists e; auto.
    + split; [|exact I]. unfold in01, zero, one in H1. simpl in H1. apply andb_true_iff in H1.
      destruct H1 as [A B]. apply Rleb_true in A, B. lra.
Qed.

(* If the requested times of the observable are separated from the other grid times by more than
   the backend tolerance, the gates accept a grid time exactly when it is requested. *)
Theorem gate_exact tolb dflt tolp o t :
  0 <= tolb -> 0 <= tolp -> 0 <= t <= 1 ->
  (forall e, requested_of dflt o e -> Rabs (e - t) <= tolb -> e = t) ->
  (gate tolb dflt tolp o t = true <-> requested_of dflt o t).
Proof.
  intros Hb Hp Ht Hsep. split; [|now apply gate_complete].
  intros H. apply gate_sound in H. destruct H as [_ H]. destruct o as [ts|].
  - assert (X : exists e, requested_of dflt (Some ts) e /\ Rabs (e - t) <= tolb) by (destruct dflt; exact H).
    destruct X as (e & He & Hd). rewrite <- (Hsep e He Hd). exact He.
  - destruct dflt as [d|]; [|exact I]. destruct H as (e & He & Hd). rewrite <- (Hsep e He Hd). exact He.
Qed.

Example gate_exact_premises_satisfiable :
  exists tolb tolp dflt o t, 0 <= tolb /\ 0 <= tolp /\ 0 <= t <= 1 /\
    (forall e, requested_of dflt o e -> Rabs (e - t) <= tolb -> e = t) /\ requested_of dflt o t.
Proof.
  exists (1/10), (1/10), (Some [1]), (Some [1/2]), (1/2). repeat split; try lra.
  - intros e [<-|[]] _. reflexivity.
  - now left.
Qed.

(* ---- adapter + backend: the separation premise is DERIVED from the grid theorem -------------- *)
Definition tolp_of (tol0 dur : R) : R :=
  if (Int_part dur =? 0)%Z then tol0 else 1 / 2 / IZR (Int_part dur).

Theorem run_config_recorded tolb tol0 tolu mps dur dt (obs : list (option (list R))) dflt :
  0 < dur -> 0 < dt -> 0 < tolu < 1 -> 0 <= tol0 ->
  (forall t, requested_by obs dflt t -> 0 <= t <= 1) ->
  (dflt = None -> Forall (fun o => o <> None) obs) ->
  exists g st,
    get_target_times RA R_floor tolu dur dt obs dflt = Ok g /\
    run_config RA R_floor tolb tol0 tolu mps dur dt obs dflt = Ok st /\
    0 <= tolp_of tol0 dur /\
    Forall2 (fun o r => forall t k, In (t, k) r <->
                          on_grid g dur t k /\ gate tolb dflt (tolp_of tol0 dur) o t = true)
            obs (r_recs st) /\
    (forall t k, In (t, k) (r_stat st) <-> on_grid g dur t k /\ (1 <= k)%nat) /\
    Forall desc (r_recs st) /\
    rev (r_steps st) = intervals g.
Proof.
  intros Hdur Hdt Hu H0 Hreq Hfull.
  destruct (grid_spec tolu dur dt obs dflt Hdur Hdt Hu Hreq Hfull)
    as (g & Eg & Gs & Gh & Gl & Gadj & Gsub & _).
  destruct g as [|g0 suf]; [discriminate|]. simpl in Gh. inversion Gh; subst g0.
  destruct (run_recorded tolb tol0 tolu mps suf obs dflt) as (st & tolp & Er & Htp & Etp & HF & HS & HO).
  - rewrite Gl. exact Hdur.
  - exact H0.
  - apply Hu.
  - exact Gs.
  - rewrite Gl. intros t Ht. apply Gsub, Ht.
  - rewrite Gl. exact Gadj.
  - rewrite Gl in *. fold (tolp_of tol0 dur) in Etp. subst tolp.
    exists (0 :: suf), st. split; [exact Eg|]. split.
    + unfold run_config. rewrite Eg. simpl res_bind. exact Er.
    + split; [exact Htp|]. split; [exact HF|]. split; [exact HS|]. split; [exact HO|].
      apply (run_steps tolb tol0 tolu mps (0 :: suf) obs dflt st eq_refl Er).
Qed.

Lemma Forall2_impl_In (A B : Type) (P Q : A -> B -> Prop) : forall l1 l2,
  Forall2 P l1 l2 -> (forall a b, In a l1 -> P a b -> Q a b) -> Forall2 Q l1 l2.
Proof.
  induction 1; intros H1; constructor.
  - apply H1; [now left|assumption].
  - apply IHForall2. intros a b Ha. apply H1. now right.
Qed.

Lemma sorted_NoDup (l : list R) : StronglySorted Rlt l -> NoDup l.
Proof.
  induction 1; constructor; auto. intros Hin. rewrite Forall_forall in H0. specialize (H0 _ Hin). lra.
Qed.

Lemma adjP_pairwise dur tau l : 0 < dur -> 0 <= tau ->
  adjP (fun a b => a + tau <= b) (map (fun t => t / dur) l) ->
  forall x y, In x l -> In y l -> x <> y -> tau <= Rabs (x / dur - y / dur).
Proof.
  intros Hdur Htau H.
  assert (S : StronglySorted (fun a b => a / dur + tau <= b / dur) l).
  { apply Sorted_StronglySorted; [intros x y z; lra|].
    induction l as [|a r IH]; [constructor|]. destruct r as [|b r'].
    - constructor; constructor.
    - simpl in H. destruct H as [H1 H2]. constructor; [apply IH; exact H2|]. constructor. exact H1. }
  clear H. induction S as [|a l S IH F]; intros x y Hx Hy Hne; [destruct Hx|].
  rewrite Forall_forall in F.
  destruct Hx as [<-|Hx]; destruct Hy as [<-|Hy].
  - congruence.
  - specialize (F y Hy). rewrite Rabs_left1 by lra. lra.
  - specialize (F x Hx). rewrite Rabs_right by lra. lra.
  - now apply IH.
Qed.

(* Recorded exactly at the requested times, once: if distinct candidate points (multiples of dt,
   requested times, the duration) are never closer than 2*tolb (relative) unless they are
   closer than the merge tolerance tolu, then for every observable
   - every stored pair (t, k) sits on the grid (computed after k steps, t = g_k / T) and t is
     within tolu of a time requested for this observable;
   - every requested time e has a stored pair within tolu, and it is the only stored pair within
     tolb of e. *)
Theorem recorded_exactly_requested tolb tol0 tolu mps dur dt (obs : list (option (list R))) dflt :
  0 < dur -> 0 < dt -> 0 < tolu < 1 -> 0 <= tol0 ->
  tolu <= tolb -> tolu <= tolp_of tol0 dur ->
  (forall t, requested_by obs dflt t -> 0 <= t <= 1) ->
  (dflt = None -> Forall (fun o => o <> None) obs) ->
  (forall x y, is_candidate dur dt obs dflt x -> is_candidate dur dt obs dflt y ->
     Rabs (x / dur - y / dur) <= 2 * tolb -> Rabs (x / dur - y / dur) < tolu) ->
  exists g st,
    get_target_times RA R_floor tolu dur dt obs dflt = Ok g /\
    run_config RA R_floor tolb tol0 tolu mps dur dt obs dflt = Ok st /\
    Forall2 (fun o r =>
      (forall t k, In (t, k) r ->
         on_grid g dur t k /\ exists e, requested_of dflt o e /\ Rabs (e - t) < tolu) /\
      (forall e, requested_of dflt o e ->
         exists t k, In (t, k) r /\ Rabs (e - t) < tolu /\
           forall t' k', In (t', k') r -> Rabs (e - t') <= tolb -> t' = t /\ k' = k))
      obs (r_recs st) /\
    Forall desc (r_recs st).
Proof.
  intros Hdur Hdt Hu H0 Hub Hup Hreq Hfull Hsep.
  destruct (grid_spec tolu dur dt obs dflt Hdur Hdt Hu Hreq Hfull)
    as (g & Eg & Gs & Gh & Gl & Gadj & Gsub & Gcov).
  destruct (run_config_recorded tolb tol0 tolu mps dur dt obs dflt Hdur Hdt Hu H0 Hreq Hfull)
    as (g' & st & Eg' & Er & Htp & HF & _ & HO & _).
  rewrite Eg in Eg'. inversion Eg'; subst g'. clear Eg'.
  exists g, st. split; [exact Eg|]. split; [exact Er|]. split; [|exact HO].
  assert (Hb : 0 <= tolb) by lra.
  assert (Hdd : forall e, e * dur / dur = e) by (intros; field; lra).
  assert (Hcand : forall o e, In o obs -> requested_of dflt o e -> is_candidate dur dt obs dflt (e * dur)).
  { intros o e Ho He. right; right. exists e. split; [|reflexivity]. exists o. split; [exact Ho|].
    destruct o as [ts|]; [exact He|]. destruct dflt as [d|]; [exact He|].
    specialize (Hfull eq_refl). rewrite Forall_forall in Hfull. specialize (Hfull _ Ho). congruence. }
  assert (Hgrid01 : forall y, In y g -> 0 <= y / dur <= 1).
  { intros y Hy. destruct (Gsub y Hy) as [_ B]. split.
    - unfold Rdiv. apply Rmult_le_pos; [lra|]. apply Rlt_le, Rinv_0_lt_compat; lra.
    - apply (Rmult_le_reg_r dur); [lra|]. replace (y / dur * dur) with y by (field; lra). lra. }
  eapply Forall2_impl_In; [exact HF|]. intros o r Ho Hr. split.
  - (* soundness *)
    intros t k Hin. apply Hr in Hin. destruct Hin as [Hg Hgate]. split; [exact Hg|].
    destruct Hg as (y & Hn & ->). apply nth_error_In in Hn.
    apply gate_sound in Hgate. destruct Hgate as [_ Hgate].
    assert (X : exists e, requested_of dflt o e /\ Rabs (e - y / dur) <= tolb).
    { destruct o as [ts|]; [destruct dflt; exact Hgate|]. destruct dflt as [d|]; [exact Hgate|].
      specialize (Hfull eq_refl). rewrite Forall_forall in Hfull. specialize (Hfull _ Ho). congruence. }
    destruct X as (e & He & Hd). exists e. split; [exact He|].
    rewrite <- (Hdd e). apply Hsep; [now apply (Hcand o)|apply Gsub, Hn|]. rewrite Hdd. lra.
  - (* completeness and uniqueness *)
    intros e He. pose proof (Hcand o e Ho He) as Hc.
    destruct (Gcov _ Hc) as (y & Hy & Hcl). rewrite Hdd in Hcl.
    destruct (In_nth_error _ _ Hy) as (k & Hk).
    exists (y / dur), k. split; [|split; [exact Hcl|]].
    + apply Hr. split; [exists y; auto|].
      apply (gate_near tolb dflt _ o (y / dur) e); [now apply Hgrid01|exact He|lra|lra].
    + intros t' k' Hin Hd. apply Hr in Hin. destruct Hin as [(y' & Hk' & ->) _].
      assert (Hy' : In y' g) by (eapply nth_error_In; exact Hk').
      assert (E : y' = y).
      { destruct (Req_dec y' y) as [E|Hne]; [exact E|exfalso].
        pose proof (adjP_pairwise dur tolu g Hdur (Rlt_le _ _ (proj1 Hu)) Gadj y' y Hy' Hy Hne) as Hp.
        assert (Rabs (y' / dur - y / dur) < tolu); [|lra].
        apply Hsep; [apply Gsub, Hy'|apply Gsub, Hy|].
        replace (y' / dur - y / dur) with ((e - y / dur) - (e - y' / dur)) by lra.
        eapply Rle_trans; [apply Rabs_triang|]. rewrite Rabs_Ropp. lra. }
      subst y'. split; [reflexivity|].
      apply (proj1 (NoDup_nth_error g) (sorted_NoDup g Gs)); [|congruence].
      apply nth_error_Some. congruence.
Qed.

Example recorded_exactly_requested_premises_satisfiable :
  exists tolb tol0 tolu dur dt (obs : list (option (list R))) dflt,
    0 < dur /\ 0 < dt /\ 0 < tolu < 1 /\ 0 <= tol0 /\ tolu <= tolb /\ tolu <= tolp_of tol0 dur /\
    (forall t, requested_by obs dflt t -> 0 <= t <= 1) /\
    (dflt = None -> Forall (fun o => o <> None) obs) /\
    (forall x y, is_candidate dur dt obs dflt x -> is_candidate dur dt obs dflt y ->
       Rabs (x / dur - y / dur) <= 2 * tolb -> Rabs (x / dur - y / dur) < tolu).
Proof.
  exists (1/100), (1/1000), (1/1000), 10, 5, [Some [1/2]], (Some [1]).
  assert (EI : Int_part 10 = 10%Z).
  { destruct (base_Int_part 10) as [A B].
    assert (9 < Int_part 10 < 11)%Z; [|lia]. split; apply lt_IZR; simpl; lra. }
  assert (EI2 : Int_part (10 / 5) = 2%Z).
  { replace (10 / 5) with 2 by lra. destruct (base_Int_part 2) as [A B].
    assert (1 < Int_part 2 < 3)%Z; [|lia]. split; apply lt_IZR; simpl; lra. }
  assert (Hreq : forall t, requested_by [Some [1/2]] (Some [1]) t -> t = 1/2).
  { intros t (o & [<-|[]] & Hm). simpl in Hm. destruct Hm as [<-|[]]. reflexivity. }
  assert (Hc : forall x, is_candidate 10 5 [Some [1/2]] (Some [1]) x -> x = 0 \/ x = 5 \/ x = 10).
  { intros x [->|[(i & Hi & ->)|(t & Ht & ->)]].
    - auto.
    - rewrite EI2 in Hi. assert (i = 0 \/ i = 1 \/ i = 2)%Z by lia.
      destruct H as [->|[->| ->]]; simpl; [left|right; left|right; right]; lra.
    - rewrite (Hreq t Ht). right; left. lra. }
  repeat split; try lra.
  - unfold tolp_of. rewrite EI. simpl. lra.
  - rewrite (Hreq t H). lra.
  - rewrite (Hreq t H). lra.
  - discriminate.
  - intros x y Hx Hy. apply Hc in Hx, Hy.
    destruct Hx as [->|[->| ->]]; destruct Hy as [->|[->| ->]]; unfold Rabs;
      repeat destruct Rcase_abs; lra.
Qed.

(* ---- binary64: the former witnesses of finding F-07 now pass (regressions) ------------------ *)
Section FloatWitness.
Import PrimFloat.
Local Open Scope float_scope.
Definition w07_own := [0.5].
Definition w07_dflt := [0x1.0027525460aa6p-1; 1].   (* 0.5003, 1.0 *)

Definition recorded_times (r : res (rstate float)) (j : nat) : list float :=
  match r with Ok st => map fst (rev (nth j (r_recs st) [])) | _ => [] end.

Lemma f07_witness_float :
  forall mps, exists st,
    run_config float_arith float_floor w_tolb w_tol0 w_tolu mps 1000 10
               [Some w07_own; None] (Some w07_dflt) = Ok st /\
    recorded_times (Ok st) 0 = w07_own /\
    recorded_times (Ok st) 1 = w07_dflt.
Proof.
  intros [|]; eexists; (split; [vm_compute; reflexivity|split; vm_compute; reflexivity]).
Qed.

(* default "Full": the observable with own times [0.5] is recorded once, whatever dt *)
Lemma f07_full_witness_float :
  exists st st2,
    run_config float_arith float_floor w_tolb w_tol0 w_tolu true 100 1 [Some w07_own] None = Ok st /\
    recorded_times (Ok st) 0 = w07_own /\
    run_config float_arith float_floor w_tolb w_tol0 w_tolu true 100 0.25 [Some w07_own] None = Ok st2 /\
    recorded_times (Ok st2) 0 = w07_own.
Proof.
  eexists. eexists. split; [vm_compute; reflexivity|]. split; [vm_compute; reflexivity|].
  split; vm_compute; reflexivity.
Qed.

(* open known finding recorded-within-gate-tolerance: own time 0.5+5e-11, dt multiple 0.5 *)
Definition w_gate_q := 0x1.000000006df38p-1.   (* 0.50000000005 *)

Lemma gate_tolerance_witness_float :
  forall mps, exists st,
    run_config float_arith float_floor w_tolb w_tol0 w_tolu mps 100 10 [Some [w_gate_q]] (Some [1]) = Ok st /\
    recorded_times (Ok st) 0 = [0.5; w_gate_q].
Proof.
  intros [|]; eexists; (split; vm_compute; reflexivity).
Qed.
End FloatWitness.
