(* C30: the sparse derivative operators of emu_sv/time_evolution.py (Model/SvGrad.v) ARE the partial
   derivatives of the Hamiltonian of Model/SvHam.v (which is linear in Omega, delta, U and in e = exp(i phi)),
   for every register size N, over any commutative ring with involution.  Plus the rearrangement used by
   EvolveStateVector.backward (tensordot(Vg.conj(), dH @ (dS.mT @ Vs)) = tr(dH . Vs^T dS conj(Vg))). *)
From Coq Require Import List Arith Bool Lia Ring.
From EV Require Import Model.SvBase Model.SvHam Model.SvGrad Proofs.SvBaseProofs Proofs.SvHamProofs.
Import ListNotations.

Section GradProofs.
Variable o : Kops.
Hypothesis laws : Klaws o.
Add Ring Kr3 : (K_ring o laws).
Open Scope K_scope.
Notation zero := (k0 o).
Notation one := (k1 o).
Notation cj := (kconj o).
Notation L := (list o).

(* ---- what each operator does, entry by entry -------------------------------------------------------- *)
Lemma apply_omega_complex_spec N i alpha (vec : L) :
  length (apply_omega_complex o (qrest N i) alpha vec) = length vec /\
  forall k, k < length vec ->
    get (apply_omega_complex o (qrest N i) alpha vec) k =
    site_apply o N i (hop o alpha (cj alpha) zero) (get vec) k.
Proof.
  unfold apply_omega_complex. split.
  - rewrite !(index_add1_len o). unfold zeros. apply length_tab.
  - intros k Hk.
    assert (Lz : length (@zeros o (length vec)) = length vec) by (unfold zeros; apply length_tab).
    rewrite (index_add1_one o laws) by (rewrite (index_add1_len o), Lz; assumption).
    rewrite (index_add1_one o laws) by (rewrite Lz; assumption).
    rewrite get_zeros.
    unfold site_apply, hop, setbit. rewrite bit_co1.
    pose proof (co1_lt 2 (qrest N i) k ltac:(lia)) as Hb.
    destruct (co1 2 (qrest N i) k) as [|[|b]]; [| |lia]; cbn [m2 Nat.eqb kif]; ring.
Qed.

Lemma apply_omega_real_spec N i alpha (vec : L) :
  length (apply_omega_real o (qrest N i) alpha vec) = length vec /\
  forall k, k < length vec ->
    get (apply_omega_real o (qrest N i) alpha vec) k =
    site_apply o N i (hop o alpha alpha zero) (get vec) k.
Proof.
  unfold apply_omega_real.
  assert (Lz : length (@zeros o (length vec)) = length vec) by (unfold zeros; apply length_tab).
  split.
  - rewrite (index_add1_len o). exact Lz.
  - intros k Hk. rewrite (index_add1_flip o laws) by (rewrite Lz; assumption). rewrite get_zeros.
    unfold site_apply, hop, setbit. rewrite bit_co1.
    pose proof (co1_lt 2 (qrest N i) k ltac:(lia)) as Hb.
    destruct (co1 2 (qrest N i) k) as [|[|b]]; [| |lia]; cbn [m2 Nat.sub]; ring.
Qed.

Lemma dhd_omega_spec N i (phinz : bool) e (vec : L) k : k < length vec ->
  get (dhd_omega o N i phinz e vec) k =
  site_apply o N i (hop o (khalf o * e) (if phinz then cj (khalf o * e) else khalf o * e) zero) (get vec) k.
Proof.
  intros Hk. unfold dhd_omega. destruct phinz.
  - apply apply_omega_complex_spec. assumption.
  - apply apply_omega_real_spec. assumption.
Qed.

Lemma dhd_phi_spec N i omega ep (vec : L) k : k < length vec ->
  get (dhd_phi o N i omega ep vec) k =
  site_apply o N i (hop o (khalf o * (omega * ep)) (cj (khalf o * (omega * ep))) zero) (get vec) k.
Proof. intros Hk. unfold dhd_phi. apply apply_omega_complex_spec. assumption. Qed.

Lemma dhd_delta_spec N i (vec : L) k : k < length vec ->
  get (dhd_delta o N i vec) k = kif (bit N i k =? 1) (- get vec k).
Proof.
  intros Hk. unfold dhd_delta. rewrite get_tab by assumption. rewrite bit_co1.
  pose proof (co1_lt 2 (qrest N i) k ltac:(lia)) as Hb.
  destruct (co1 2 (qrest N i) k) as [|[|b]]; [| |lia]; cbn [Nat.eqb kif]; ring.
Qed.

Lemma dhd_U_spec N i j (vec : L) k : i < j -> j < N -> k < length vec ->
  get (dhd_U o N i j vec) k = kif ((bit N i k =? 1) && (bit N j k =? 1)) (get vec k).
Proof.
  intros Hij HjN Hk. unfold dhd_U. rewrite get_tab by assumption.
  assert (E1 : (2 ^ (j - i - 1) * (2 * 2 ^ (N - j - 1)))%nat = qrest N i).
  { rewrite (qrest_split N i j) by assumption. unfold qrest. lia. }
  rewrite E1. rewrite <- (bit_co1 N i k).
  change (2 ^ (N - j - 1)) with (qrest N j). rewrite <- (bit_co1 N j k).
  pose proof (bit_lt N i k) as Hbi. pose proof (bit_lt N j k) as Hbj.
  destruct (bit N i k) as [|[|b]]; [| |lia]; destruct (bit N j k) as [|[|b']]; try lia; reflexivity.
Qed.

(* ---- entries of H v ----------------------------------------------------------------------------------- *)
Definition real_path_ok (N : nat) (omega : L) (phinz : list bool) (e : L) : Prop :=
  any_nonzero phinz = false -> forall n, n < N -> get e n = one /\ cj (get omega n) = get omega n.

Lemma ham_entry N omega delta phinz e U (vec : L) k :
  length omega = N -> length vec = 2 ^ N -> real_path_ok N omega phinz e -> k < 2 ^ N ->
  get (ham_mul o N omega delta phinz e U vec) k =
  Uint o N U k * get vec k + ksumn N (fun n => site_apply o N n (ham_site o omega delta e n) (get vec) k).
Proof.
  intros Lo Lv Hr Hk.
  rewrite (proj2 (H_apply_dense o laws N omega delta phinz e U vec Lo Lv Hr)) by assumption.
  apply (dense_apply o laws). assumption.
Qed.

Lemma length_upd (l : L) k x : length (upd o l k x) = length l.
Proof. unfold upd. apply length_tab. Qed.
Lemma get_upd (l : L) k x n : k < length l -> get (upd o l k x) n = if n =? k then x else get l n.
Proof.
  intros Hk. unfold upd. destruct (Nat.lt_ge_cases n (length l)) as [H|H].
  - rewrite get_tab by assumption. reflexivity.
  - rewrite !get_overflow by (try rewrite length_tab; assumption).
    destruct (Nat.eqb_spec n k); [lia | reflexivity].
Qed.

(* site_apply is linear in the 2x2 matrix *)
Lemma site_apply_sub N n c cb d c' cb' d' (v : nat -> o) k :
  site_apply o N n (hop o c' cb' d') v k - site_apply o N n (hop o c cb d) v k =
  site_apply o N n (hop o (c' - c) (cb' - cb) (d' - d)) v k.
Proof.
  unfold site_apply, hop. pose proof (bit_lt N n k) as Hb.
  destruct (bit N n k) as [|[|b]]; [| |lia]; cbn [m2]; ring.
Qed.
Lemma site_apply_scale N n t c cb d (v : nat -> o) k :
  t * site_apply o N n (hop o c cb d) v k = site_apply o N n (hop o (t * c) (t * cb) (t * d)) v k.
Proof.
  unfold site_apply, hop. pose proof (bit_lt N n k) as Hb.
  destruct (bit N n k) as [|[|b]]; [| |lia]; cbn [m2]; ring.
Qed.

(* a sum whose terms differ in one place *)
Lemma ksumn_diff_single N i (f f' : nat -> o) : i < N ->
  (forall n, n < N -> n <> i -> f' n = f n) ->
  ksumn N f' - ksumn N f = f' i - f i.
Proof.
  intros Hi Hsame. unfold ksumn. rewrite <- (ksum_sub o laws).
  rewrite (ksum_ext o (seq 0 N) _ (fun n => kif (n =? i) (f' n - f n))).
  - apply (ksumn_single o laws). assumption.
  - intros n Hn. apply in_seq in Hn. destruct (Nat.eqb_spec n i) as [E|E]; simpl; [reflexivity|].
    rewrite Hsame by lia. ring.
Qed.

(* ---- dH/dOmega_i ---------------------------------------------------------------------------------------- *)
Theorem dH_dOmega N omega delta phinz e U (vec : L) i t :
  length omega = N -> length vec = 2 ^ N -> real_path_ok N omega phinz e -> i < N ->
  cj t = t -> (nth i phinz false = false -> get e i = one) ->
  forall k, k < 2 ^ N ->
    get (ham_mul o N (upd o omega i (get omega i + t)) delta phinz e U vec) k
    - get (ham_mul o N omega delta phinz e U vec) k
    = t * get (dhd_omega o N i (nth i phinz false) (get e i) vec) k.
Proof.
  intros Lo Lv Hr Hi Ht He k Hk.
  assert (Hr' : real_path_ok N (upd o omega i (get omega i + t)) phinz e).
  { intros Hz n Hn. destruct (Hr Hz n Hn) as [E1 E2]. split; [exact E1|].
    rewrite get_upd by lia. destruct (Nat.eqb_spec n i) as [E|E]; [|exact E2].
    subst n. rewrite (conj_add o laws), E2, Ht. reflexivity. }
  rewrite (ham_entry N (upd o omega i (get omega i + t))) by (try rewrite length_upd; assumption).
  rewrite (ham_entry N omega) by assumption.
  match goal with |- ?u + ?a - (?u + ?b) = _ => transitivity (a - b); [ring|] end.
  rewrite (ksumn_diff_single N i);
    [ | assumption
      | intros n Hn Hne; unfold ham_site; rewrite get_upd by lia;
        destruct (Nat.eqb_spec n i); [contradiction | reflexivity] ].
  unfold ham_site. cbv zeta. rewrite get_upd by lia. rewrite Nat.eqb_refl.
  rewrite site_apply_sub. rewrite dhd_omega_spec by (rewrite Lv; assumption).
  rewrite site_apply_scale. f_equal. unfold hop. f_equal; [f_equal; [f_equal|]|]; try ring.
  rewrite <- (conj_sub o laws).
  replace ((get omega i + t) * khalf o * get e i - get omega i * khalf o * get e i)
    with (t * (khalf o * get e i)) by ring.
  rewrite (conj_mul o laws), Ht.
  destruct (nth i phinz false); [reflexivity|].
  rewrite (He eq_refl). rewrite (conj_mul o laws), (conj_half o laws), (conj_1 o laws). reflexivity.
Qed.

(* ---- dH/ddelta_i ---------------------------------------------------------------------------------------- *)
Theorem dH_dDelta N omega delta phinz e U (vec : L) i t :
  length omega = N -> length vec = 2 ^ N -> real_path_ok N omega phinz e -> i < N -> i < length delta ->
  forall k, k < 2 ^ N ->
    get (ham_mul o N omega (upd o delta i (get delta i + t)) phinz e U vec) k
    - get (ham_mul o N omega delta phinz e U vec) k
    = t * get (dhd_delta o N i vec) k.
Proof.
  intros Lo Lv Hr Hi Hd k Hk.
  rewrite !ham_entry by assumption.
  match goal with |- ?u + ?a - (?u + ?b) = _ => transitivity (a - b); [ring|] end.
  rewrite (ksumn_diff_single N i);
    [ | assumption
      | intros n Hn Hne; unfold ham_site; rewrite get_upd by lia;
        destruct (Nat.eqb_spec n i); [contradiction | reflexivity] ].
  unfold ham_site. cbv zeta. rewrite get_upd by lia. rewrite Nat.eqb_refl.
  rewrite site_apply_sub. rewrite dhd_delta_spec by (rewrite Lv; assumption).
  unfold site_apply, hop. pose proof (bit_lt N i k) as Hb. pose proof (setbit_bit N i k) as Es.
  destruct (bit N i k) as [|[|b]]; [| |lia]; cbn [m2 Nat.eqb kif].
  - ring.
  - rewrite Es. ring.
Qed.

(* ---- dH/dU_ij  (i < j: the entries the Hamiltonian reads) ------------------------------------------------- *)
Lemma getU_updU (U : list (list o)) i j x a b :
  i < length U -> j < length (nth i U []) ->
  getU o (updU o U i j x) a b = if (a =? i) && (b =? j) then x else getU o U a b.
Proof.
  intros Hi Hj. unfold getU, updU.
  destruct (Nat.lt_ge_cases a (length U)) as [Ha|Ha].
  - set (f := fun a0 : nat => if a0 =? i then upd o (nth a0 U []) j x else nth a0 U []).
    rewrite (nth_indep (map f (seq 0 (length U))) [] (f 0)) by (rewrite map_length, seq_length; assumption).
    rewrite (map_nth f), seq_nth by assumption. unfold f. cbn [Nat.add].
    destruct (Nat.eqb_spec a i) as [E|E]; [|reflexivity]. subst a. cbn [andb].
    apply get_upd. assumption.
  - rewrite !nth_overflow by (try rewrite map_length, seq_length; assumption).
    destruct (Nat.eqb_spec a i); [lia | reflexivity].
Qed.

Lemma Uint_updU N (U : list (list o)) i j t k :
  i < j -> j < N -> length U = N -> length (nth i U []) = N ->
  Uint o N (updU o U i j (getU o U i j + t)) k - Uint o N U k =
  kif ((bit N i k =? 1) && (bit N j k =? 1)) t.
Proof.
  intros Hij HjN LU Lr. unfold Uint.
  rewrite (ksumn_diff_single N i); try lia.
  - rewrite <- (ksum_sub o laws).
    rewrite (ksum_ext o _ _ (fun b => kif (b =? j) (kif ((bit N i k =? 1) && (bit N b k =? 1)) t))).
    + rewrite (ksum_single_seq o laws (i + 1) (N - (i + 1)) j
                 (fun b => kif ((bit N i k =? 1) && (bit N b k =? 1)) t)) by lia.
      reflexivity.
    + intros b Hb. apply in_seq in Hb. rewrite getU_updU by lia. rewrite Nat.eqb_refl. cbn [andb].
      destruct (Nat.eqb_spec b j) as [E|E]; cbn [kif].
      * subst b. destruct ((bit N i k =? 1) && (bit N j k =? 1)); cbn [kif]; ring.
      * ring.
  - intros a Ha Hne. apply (ksum_ext o). intros b Hb. rewrite getU_updU by lia.
    destruct (Nat.eqb_spec a i); [contradiction | reflexivity].
Qed.

Theorem dH_dU N omega delta phinz e U (vec : L) i j t :
  length omega = N -> length vec = 2 ^ N -> real_path_ok N omega phinz e ->
  i < j -> j < N -> length U = N -> length (nth i U []) = N ->
  forall k, k < 2 ^ N ->
    get (ham_mul o N omega delta phinz e (updU o U i j (getU o U i j + t)) vec) k
    - get (ham_mul o N omega delta phinz e U vec) k
    = t * get (dhd_U o N i j vec) k.
Proof.
  intros Lo Lv Hr Hij HjN LU Lr k Hk.
  rewrite !ham_entry by assumption.
  match goal with |- ?u' * ?v + ?a - (?u * ?v + ?a) = _ => transitivity ((u' - u) * v); [ring|] end.
  rewrite Uint_updU by assumption. rewrite dhd_U_spec by (try rewrite Lv; assumption).
  destruct ((bit N i k =? 1) && (bit N j k =? 1)); cbn [kif]; ring.
Qed.

(* the Hamiltonian does not read the diagonal or the lower triangle of the interaction matrix
   (backward leaves their gradient at zero) *)
Theorem dH_dU_lower N omega delta phinz e U (vec : L) i j x :
  j <= i -> length U = N -> i < N -> j < length (nth i U []) ->
  ham_mul o N omega delta phinz e (updU o U i j x) vec = ham_mul o N omega delta phinz e U vec.
Proof.
  intros Hji LU Hi Lr. unfold ham_mul.
  assert (E : create_diagonal o true N delta (updU o U i j x) = create_diagonal o true N delta U).
  { apply (list_eq_get o).
    - rewrite !(proj1 (diag_spec o laws true N delta _)). reflexivity.
    - intros k Hk. rewrite (proj1 (diag_spec o laws true N delta _)) in Hk.
      rewrite !(proj2 (diag_spec o laws true N delta _)) by assumption. f_equal.
      unfold Uint. apply (ksumn_ext o). intros a Ha. apply (ksum_ext o). intros b Hb. apply in_seq in Hb.
      rewrite getU_updU by lia.
      destruct (Nat.eqb_spec a i); destruct (Nat.eqb_spec b j); cbn [andb]; try reflexivity. lia. }
  rewrite E. reflexivity.
Qed.

(* ---- dH/dphi_i: H is real-linear in e_i = exp(i phi_i); DHDPhiSparse with direction ep is that linear map ---- *)
Theorem dH_de N omega delta phinz phinz' e U (vec : L) i ep s :
  length omega = N -> length vec = 2 ^ N -> i < N -> i < length e -> cj s = s ->
  real_path_ok N omega phinz e -> real_path_ok N omega phinz' (upd o e i (get e i + s * ep)) ->
  forall k, k < 2 ^ N ->
    get (ham_mul o N omega delta phinz' (upd o e i (get e i + s * ep)) U vec) k
    - get (ham_mul o N omega delta phinz e U vec) k
    = s * get (dhd_phi o N i (get omega i) ep vec) k.
Proof.
  intros Lo Lv Hi Hie Hs Hr Hr' k Hk.
  rewrite (ham_entry N omega delta phinz') by assumption.
  rewrite (ham_entry N omega delta phinz) by assumption.
  match goal with |- ?u + ?a - (?u + ?b) = _ => transitivity (a - b); [ring|] end.
  rewrite (ksumn_diff_single N i);
    [ | assumption
      | intros n Hn Hne; unfold ham_site; rewrite get_upd by lia;
        destruct (Nat.eqb_spec n i); [contradiction | reflexivity] ].
  unfold ham_site. cbv zeta. rewrite get_upd by lia. rewrite Nat.eqb_refl.
  rewrite site_apply_sub. rewrite dhd_phi_spec by (rewrite Lv; assumption).
  rewrite site_apply_scale. f_equal. unfold hop. f_equal; [f_equal; [f_equal|]|]; try ring.
  rewrite <- (conj_sub o laws).
  replace (get omega i * khalf o * (get e i + s * ep) - get omega i * khalf o * get e i)
    with (s * (khalf o * (get omega i * ep))) by ring.
  rewrite (conj_mul o laws), Hs. reflexivity.
Qed.

(* the phi = 0 fast path of DHDOmegaSparse agrees with the general one *)
Theorem dhd_omega_paths_coincide N i e (vec : L) : e = one ->
  dhd_omega o N i true e vec = dhd_omega o N i false e vec.
Proof.
  intros E. subst e. unfold dhd_omega. apply (list_eq_get o).
  - rewrite (proj1 (apply_omega_complex_spec _ _ _ _)), (proj1 (apply_omega_real_spec _ _ _ _)). reflexivity.
  - intros k Hk. rewrite (proj1 (apply_omega_complex_spec _ _ _ _)) in Hk.
    rewrite (proj2 (apply_omega_complex_spec _ _ _ _)), (proj2 (apply_omega_real_spec _ _ _ _)) by assumption.
    rewrite (conj_mul o laws), (conj_half o laws), (conj_1 o laws). reflexivity.
Qed.

(* ---- the rearrangement used by backward ------------------------------------------------------------------ *)
(* torch.tensordot(Vg.conj(), dh @ (dS.mT @ Vs))  =  tr( dh . (Vs^T dS conj(Vg)) )
   Vs : ms x D, Vg : mg x D, dS : ms x mg, dh : D x D (any matrix; DHD*Sparse are such by the specs above) *)
Definition e_l (ms : nat) (dS Vs : nat -> nat -> o) (a k' : nat) : o := ksumn ms (fun b => dS b a * Vs b k').
Definition tdot (mg D : nat) (Vg v : nat -> nat -> o) : o := ksumn mg (fun a => ksumn D (fun k => cj (Vg a k) * v a k)).
Definition dUmat (ms mg : nat) (Vs dS Vg : nat -> nat -> o) (k' k : nat) : o :=
  ksumn ms (fun b => ksumn mg (fun a => Vs b k' * dS b a * cj (Vg a k))).
Definition trace_prod (D : nat) (E M : nat -> nat -> o) : o := ksumn D (fun k => ksumn D (fun k' => E k k' * M k' k)).

Theorem vjp_algebra ms mg D (Vs dS Vg E : nat -> nat -> o) :
  tdot mg D Vg (fun a k => matvec o D E (e_l ms dS Vs a) k) = trace_prod D E (dUmat ms mg Vs dS Vg).
Proof.
  unfold tdot, trace_prod, dUmat, matvec, e_l, ksumn.
  (* left: sum_a sum_k sum_k' sum_b *)
  transitivity (ksum (seq 0 mg) (fun a => ksum (seq 0 D) (fun k => ksum (seq 0 D) (fun k' =>
                  ksum (seq 0 ms) (fun b => cj (Vg a k) * (E k k' * (dS b a * Vs b k'))))))).
  { apply (ksum_ext o); intros a _. apply (ksum_ext o); intros k _.
    rewrite <- (ksum_mul_l o laws). apply (ksum_ext o); intros k' _.
    rewrite <- (ksum_mul_l o laws). rewrite <- (ksum_mul_l o laws). reflexivity. }
  (* right: sum_k sum_k' sum_b sum_a *)
  symmetry.
  transitivity (ksum (seq 0 D) (fun k => ksum (seq 0 D) (fun k' => ksum (seq 0 ms) (fun b =>
                  ksum (seq 0 mg) (fun a => cj (Vg a k) * (E k k' * (dS b a * Vs b k'))))))).
  { apply (ksum_ext o); intros k _. apply (ksum_ext o); intros k' _.
    rewrite <- (ksum_mul_l o laws). apply (ksum_ext o); intros b _.
    rewrite <- (ksum_mul_l o laws). apply (ksum_ext o); intros a _. ring. }
  (* reorder the sums *)
  transitivity (ksum (seq 0 D) (fun k => ksum (seq 0 D) (fun k' => ksum (seq 0 mg) (fun a =>
                  ksum (seq 0 ms) (fun b => cj (Vg a k) * (E k k' * (dS b a * Vs b k'))))))).
  { apply (ksum_ext o); intros k _. apply (ksum_ext o); intros k' _. apply (ksum_swap o laws). }
  transitivity (ksum (seq 0 D) (fun k => ksum (seq 0 mg) (fun a => ksum (seq 0 D) (fun k' =>
                  ksum (seq 0 ms) (fun b => cj (Vg a k) * (E k k' * (dS b a * Vs b k'))))))).
  { apply (ksum_ext o); intros k _. apply (ksum_swap o laws). }
  apply (ksum_swap o laws).
Qed.

End GradProofs.
