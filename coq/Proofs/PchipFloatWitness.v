(* Binary64 (PrimFloat) witness about Model/Pchip.v, by computation (C20, finding F-28). *)
From Coq Require Import PrimFloat.
From EV Require Import Base.Arith Model.Pchip.

(* at binary64 the former product-based sign tests underflow for secants 2^-600 (finite, normal), the
   sign-based ones of the source today do not *)
Lemma product_mask_underflows :
  same_sign_mask_src float_arith (0x1p-600)%float (0x1p-600)%float = false /\
  same_sign_mask float_arith (0x1p-600)%float (0x1p-600)%float = true /\
  opp_sign_mask_src float_arith (0x1p-600)%float (-0x1p-600)%float = false /\
  opp_sign_mask float_arith (0x1p-600)%float (-0x1p-600)%float = true.
Proof. vm_compute. repeat split; reflexivity. Qed.
