(* Algebra of the Lindblad generator over ANY commutative ring with involution (Klaws), matrices as
   functions nat -> nat -> K restricted to [0,D)^2, every dimension D (C16, reused by C17).
   The code's quantity is  G(rho) = H_eff rho - rho H_eff^dagger + i sum_J J rho J^dagger  (= i * generator),
   cf. C06_lindblad_apply_spec. *)
From Coq Require Import List Arith Bool Lia Ring.
From EV Require Import Model.SvBase Model.SvHam Proofs.SvBaseProofs Proofs.SvHamProofs Proofs.SvLindProofs.
Import ListNotations.

Section LindAlg.
Variable o : Kops.
Hypothesis laws : Klaws o.
Add Ring KrLA : (K_ring o laws).
Open Scope K_scope.
Notation zero := (k0 o).
Notation one := (k1 o).
Notation cj := (kconj o).
Notation Mat := (nat -> nat -> o).
Notation mm := (mmul o).
Notation dg := (dag o).

Definition tr (D : nat) (A : Mat) : o := ksumn D (fun k => A k k).
Definition herm_on (D : nat) (A : Mat) : Prop := forall a b, a < D -> b < D -> A a b = cj (A b a).
Definition eq_on (D : nat) (A B : Mat) : Prop := forall a b, a < D -> b < D -> A a b = B a b.

(* sum_J J rho J^dagger   and   sum_J J^dagger J *)
Definition jump_sum (D : nat) (Js : list Mat) (rho : Mat) : Mat :=
  fun r c => ksum Js (fun J => mm D (mm D J rho) (dg J) r c).
Definition JdJ (D : nat) (Js : list Mat) : Mat := fun r c => ksum Js (fun J => mm D (dg J) J r c).

(* what RydbergLindbladian.__matmul__ returns (C06_lindblad_apply_spec), for a general H_eff and jump list *)
Definition lindG (D : nat) (Heff : Mat) (Js : list Mat) (rho : Mat) : Mat :=
  fun r c => mm D Heff rho r c - mm D rho (dg Heff) r c + kI o * jump_sum D Js rho r c.
(* the Lindblad generator itself:  d rho / dt = -i * G(rho)  (the -i is applied by EvolveDensityMatrix.apply) *)
Definition lindL (D : nat) (Heff : Mat) (Js : list Mat) (rho : Mat) : Mat :=
  fun r c => (- kI o) * lindG D Heff Js rho r c.

(* ---- trace ---------------------------------------------------------------------------------------- *)
Lemma tr_ext D A B : eq_on D A B -> tr D A = tr D B.
Proof. intros H. apply (ksumn_ext o). intros k Hk. apply H; assumption. Qed.

Lemma tr_cyclic D (A B : Mat) : tr D (mm D A B) = tr D (mm D B A).
Proof.
  unfold tr, mmul, ksumn. rewrite (ksum_swap o laws).
  apply (ksum_ext o). intros k _. apply (ksum_ext o). intros j _. ring.
Qed.

Lemma mmul_assoc D (A B C : Mat) r c : mm D (mm D A B) C r c = mm D A (mm D B C) r c.
Proof.
  unfold mmul, ksumn.
  rewrite (ksum_ext o _ _ (fun k => ksum (seq 0 D) (fun j => A r j * B j k * C k c))).
  2:{ intros k _. rewrite <- (ksum_mul_r o laws). reflexivity. }
  rewrite (ksum_swap o laws). apply (ksum_ext o). intros j _.
  rewrite <- (ksum_mul_l o laws). apply (ksum_ext o). intros k _. ring.
Qed.

Lemma mmul_ksum_l {A} D (l : list A) (F : A -> Mat) (B : Mat) r c :
  mm D (fun r' c' => ksum l (fun a => F a r' c')) B r c = ksum l (fun a => mm D (F a) B r c).
Proof.
  unfold mmul, ksumn.
  rewrite (ksum_ext o _ _ (fun k => ksum l (fun a => F a r k * B k c))).
  2:{ intros k _. rewrite <- (ksum_mul_r o laws). reflexivity. }
  apply (ksum_swap o laws).
Qed.

Lemma tr_ksum {A} D (l : list A) (F : A -> Mat) :
  tr D (fun r c => ksum l (fun a => F a r c)) = ksum l (fun a => tr D (F a)).
Proof. unfold tr, ksumn. apply (ksum_swap o laws). Qed.

(* tr(J rho J^dagger) = tr(J^dagger J rho) *)
Lemma tr_jump D (J rho : Mat) : tr D (mm D (mm D J rho) (dg J)) = tr D (mm D (mm D (dg J) J) rho).
Proof.
  rewrite tr_cyclic. apply tr_ext. intros a b _ _. symmetry. apply mmul_assoc.
Qed.

Lemma tr_jump_sum D Js rho : tr D (jump_sum D Js rho) = tr D (mm D (JdJ D Js) rho).
Proof.
  unfold jump_sum. rewrite tr_ksum.
  rewrite (tr_ext D (mm D (JdJ D Js) rho) (fun r c => ksum Js (fun J => mm D (mm D (dg J) J) rho r c))).
  2:{ intros a b _ _. unfold JdJ. apply mmul_ksum_l. }
  rewrite tr_ksum. apply (ksum_ext o). intros J _. apply tr_jump.
Qed.

(* The trace of the generator vanishes for EVERY matrix rho (Hermitian or not), provided the anti-Hermitian
   part of H_eff is the one belonging to the jump operators:  H_eff - H_eff^dagger = -i sum_J J^dagger J. *)
Theorem lindblad_trace_free D (Heff : Mat) (Js : list Mat) (rho : Mat) :
  (forall r c, r < D -> c < D -> Heff r c - dg Heff r c = - (kI o * JdJ D Js r c)) ->
  tr D (lindG D Heff Js rho) = zero.
Proof.
  intros Hanti.
  assert (E : tr D (lindG D Heff Js rho) =
              tr D (mm D Heff rho) - tr D (mm D (dg Heff) rho) + kI o * tr D (mm D (JdJ D Js) rho)).
  { rewrite <- tr_jump_sum, (tr_cyclic D (dg Heff) rho).
    unfold tr, lindG, ksumn. rewrite <- (ksum_mul_l o laws), <- (ksum_sub o laws), <- (ksum_add o laws).
    reflexivity. }
  rewrite E. unfold tr, mmul, ksumn.
  rewrite <- (ksum_mul_l o laws), <- (ksum_sub o laws), <- (ksum_add o laws).
  rewrite (ksum_ext o _ _ (fun _ => zero)); [apply (ksum_zero o laws)|].
  intros k Hk. apply in_seq in Hk.
  rewrite <- (ksum_mul_l o laws), <- (ksum_sub o laws), <- (ksum_add o laws).
  rewrite (ksum_ext o _ _ (fun _ => zero)); [apply (ksum_zero o laws)|].
  intros j Hj. apply in_seq in Hj.
  transitivity ((Heff k j - dg Heff k j + kI o * JdJ D Js k j) * rho j k); [ring|].
  rewrite Hanti by lia. ring.
Qed.

Corollary lindblad_generator_trace_free D Heff Js rho :
  (forall r c, r < D -> c < D -> Heff r c - dg Heff r c = - (kI o * JdJ D Js r c)) ->
  tr D (lindL D Heff Js rho) = zero.
Proof.
  intros H. unfold lindL, tr, ksumn. rewrite (ksum_mul_l o laws).
  change (ksum (seq 0 D) (fun a => lindG D Heff Js rho a a)) with (tr D (lindG D Heff Js rho)).
  rewrite (lindblad_trace_free D Heff Js rho H). ring.
Qed.

(* ---- Hermiticity ------------------------------------------------------------------------------------ *)
Lemma dagger_product' D (A rho : Mat) r c : herm_on D rho -> c < D ->
  cj (mm D rho (dg A) c r) = mm D A rho r c.
Proof.
  intros Hh Hc. rewrite <- (dagger_product o laws D A rho c r Hh Hc). apply (conj_inv o laws).
Qed.

Lemma jump_term_herm D (J rho : Mat) r c : herm_on D rho -> r < D -> c < D ->
  cj (mm D (mm D J rho) (dg J) c r) = mm D (mm D J rho) (dg J) r c.
Proof.
  intros Hh Hr Hc. unfold mmul, dag, ksumn. rewrite (ksum_conj o laws).
  rewrite (ksum_ext o _ _ (fun k => ksum (seq 0 D) (fun m => J r k * rho k m * cj (J c m)))).
  2:{ intros k Hk. apply in_seq in Hk. rewrite (conj_mul o laws), (conj_inv o laws), (ksum_conj o laws).
      rewrite <- (ksum_mul_r o laws). apply (ksum_ext o). intros m Hm. apply in_seq in Hm.
      rewrite (conj_mul o laws). rewrite (Hh k m) by lia. ring. }
  rewrite (ksum_swap o laws). apply (ksum_ext o). intros m _.
  rewrite <- (ksum_mul_r o laws). reflexivity.
Qed.

(* For Hermitian rho the code's G(rho) is ANTI-Hermitian, i.e. the generator -i G(rho) is Hermitian.
   No premise on H_eff or the jump operators. *)
Theorem lindG_antihermitian D Heff Js rho : herm_on D rho ->
  forall r c, r < D -> c < D -> lindG D Heff Js rho r c = - cj (lindG D Heff Js rho c r).
Proof.
  intros Hh r c Hr Hc. unfold lindG.
  rewrite (conj_add o laws), (conj_sub o laws), (conj_mul o laws), (conj_I o laws).
  rewrite (dagger_product o laws D Heff rho r c Hh Hr).
  rewrite (dagger_product' D Heff rho r c Hh Hc).
  unfold jump_sum. rewrite (ksum_conj o laws).
  rewrite (ksum_ext o Js (fun a => cj (mm D (mm D a rho) (dg a) c r)) (fun a => mm D (mm D a rho) (dg a) r c)).
  2:{ intros J _. apply jump_term_herm; assumption. }
  ring.
Qed.

Theorem lindblad_hermiticity_preserving D Heff Js rho : herm_on D rho -> herm_on D (lindL D Heff Js rho).
Proof.
  intros Hh r c Hr Hc. unfold lindL.
  rewrite (conj_mul o laws), (conj_opp o laws), (conj_I o laws).
  rewrite (lindG_antihermitian D Heff Js rho Hh r c Hr Hc). ring.
Qed.

(* one explicit Euler/Krylov building block: rho + s * (-i) * G(rho) with real s stays Hermitian *)
Corollary lindblad_step_hermitian D Heff Js rho (s : o) : cj s = s -> herm_on D rho ->
  herm_on D (fun r c => rho r c + s * lindL D Heff Js rho r c).
Proof.
  intros Hs Hh r c Hr Hc. rewrite (conj_add o laws), (conj_mul o laws), Hs.
  rewrite <- (lindblad_hermiticity_preserving D Heff Js rho Hh r c Hr Hc).
  rewrite <- (Hh r c Hr Hc). reflexivity.
Qed.

End LindAlg.

(* ---- linear invariants along polynomial (Krylov / Taylor) combinations -------------------------------
   V: any module over the scalars, A: ANY map V -> V (not even linear), f: a linear functional with
   f (A v) = 0 for all v.  Then f (sum_k c_k A^k v) = c_0 f(v) for every coefficient list. *)
Section Invariants.
Variable o : Kops.
Hypothesis laws : Klaws o.
Add Ring KrLI : (K_ring o laws).
Open Scope K_scope.
Variable V : Type.
Variable vzero : V.
Variable vadd : V -> V -> V.
Variable vscale : o -> V -> V.
Variable A : V -> V.
Variable f : V -> o.
Hypothesis f_zero : f vzero = k0 o.
Hypothesis f_add : forall u v, f (vadd u v) = f u + f v.
Hypothesis f_scale : forall c v, f (vscale c v) = c * f v.
Hypothesis f_A : forall v, f (A v) = k0 o.

(* sum_{k < length cs} cs[k] A^k v  (Horner-free form: c0 v + P'(A)(A v)) *)
Fixpoint poly_apply (cs : list o) (v : V) : V :=
  match cs with
  | [] => vzero
  | c :: cs' => vadd (vscale c v) (poly_apply cs' (A v))
  end.

Fixpoint iterA (k : nat) (v : V) : V := match k with O => v | S k' => A (iterA k' v) end.
(* partial sums  sum_{k<=n} c k * A^k v  as the loop of a Taylor / Krylov evaluation builds them *)
Fixpoint psum (c : nat -> o) (n : nat) (v : V) : V :=
  match n with
  | O => vscale (c 0) v
  | S n' => vadd (psum c n' v) (vscale (c (S n')) (iterA (S n') v))
  end.

Theorem poly_preserves_invariant : forall cs v, f (poly_apply cs v) = hd (k0 o) cs * f v.
Proof.
  induction cs as [|c cs IH]; intros v; cbn.
  - rewrite f_zero. ring.
  - rewrite f_add, f_scale, IH, f_A. ring.
Qed.

Theorem krylov_preserves_linear_invariants : forall c n v, f (psum c n v) = c 0 * f v.
Proof.
  intros c n v. induction n as [|n IH]; cbn.
  - apply f_scale.
  - rewrite f_add, IH, f_scale, f_A. ring.
Qed.

(* the combination krylov_exp returns: sum_i e_i v_i.  If every Krylov vector beyond the first is in the
   range of A up to earlier vectors the invariant only sees the coefficients; stated on the values. *)
Fixpoint lincomb_list (es : list o) (vs : list V) : V :=
  match es, vs with
  | e :: es', v :: vs' => vadd (vscale e v) (lincomb_list es' vs')
  | _, _ => vzero
  end.
Fixpoint dot_list (es ts : list o) : o :=
  match es, ts with
  | e :: es', t :: ts' => e * t + dot_list es' ts'
  | _, _ => k0 o
  end.
Theorem invariant_of_lincomb : forall es vs, f (lincomb_list es vs) = dot_list es (map f vs).
Proof.
  induction es as [|e es IH]; intros [|v vs]; cbn; try apply f_zero.
  rewrite f_add, f_scale, IH. reflexivity.
Qed.

End Invariants.
