(* Proofs for C10: cutoff arithmetic at R, split rank arithmetic, canonical-form machine. *)
From Coq Require Import ZArith List Bool Arith Lia Reals Lra.
From EV Require Import Base.Arith Model.Canon.
Import ListNotations.

(* ======================= cutoff index (exact real arithmetic) ======================= *)
Definition sumR (l : list R) : R := fold_right Rplus 0%R l.

Lemma cutoff_go_spec : forall (d : list R) (sq acc : R) (k : nat),
  (acc <= sq)%R ->
  let r := cutoff_go R_arith d sq acc k in
  (exists j, j < length d /\ r = k + j /\
             (acc + sumR (firstn j d) <= sq)%R /\ (sq < acc + sumR (firstn (S j) d))%R) \/
  (r = 0 /\ forall j, (acc + sumR (firstn j d) <= sq)%R).
Proof.
  induction d as [|x d IH]; intros sq acc k Hacc; simpl.
  - right. split; [reflexivity|]. intros j. rewrite firstn_nil. simpl. lra.
  - destruct (Rltb sq (acc + x)) eqn:E.
    + apply Rltb_true in E. left. exists 0. repeat split; simpl; try lia; lra.
    + apply Rltb_false in E. destruct (IH sq (acc + x)%R (S k) E) as [(j & Hj & Hr & H1 & H2)|(Hr & Hall)].
      * left. exists (S j). repeat split; try lia.
        -- simpl. lra.
        -- change (firstn (S (S j)) (x :: d)) with (x :: firstn (S j) d). simpl in *. lra.
      * right. split; [assumption|]. intros [|j]; simpl; [lra|]. specialize (Hall j). lra.
Qed.

Lemma cutoff_discarded_weight : forall (d : list R) (eps : R), (0 < eps)%R ->
  exists i, determine_cutoff_index R_arith d eps = Ok i /\
    (sumR (firstn i d) <= eps * eps)%R /\
    (i = 0 \/ i < length d) /\
    ((eps * eps < sumR (firstn (S i) d))%R \/
     (i = 0 /\ forall j, (sumR (firstn j d) <= eps * eps)%R)).
Proof.
  intros d eps Heps. unfold determine_cutoff_index. cbn [a_ltb a_ofZ a_mul R_arith].
  replace (Rltb 0 eps) with true by (symmetry; apply Rltb_true; assumption).
  eexists; split; [reflexivity|].
  assert (H0 : (0 <= eps * eps)%R) by nra.
  destruct (cutoff_go_spec d (eps * eps)%R 0%R 0 H0) as [(j & Hj & Hr & H1 & H2)|(Hr & Hall)].
  - simpl in Hr. rewrite Hr. split; [lra|]. split; [right; assumption|]. left. lra.
  - rewrite Hr. split; [simpl; lra|]. split.
    + left; reflexivity.
    + right. split; [reflexivity|]. intros j. specialize (Hall j). lra.
Qed.

(* ======================= split rank arithmetic ======================= *)
Lemma split_kept_bounds : forall (cut len : nat) (max_rank : Z),
  (cut = 0 \/ cut < len) ->
  (0 <= max_rank -> Z.of_nat (split_kept cut len max_rank) <= max_rank)%Z /\
  split_kept cut len max_rank <= len /\
  ((1 <= max_rank)%Z -> 1 <= len -> 1 <= split_kept cut len max_rank) /\
  ((Z.of_nat len - max_rank <= Z.of_nat cut)%Z -> len - split_kept cut len max_rank = cut).
Proof.
  intros cut len mr H. unfold split_kept, split_max_bond. repeat split; intros; lia.
Qed.

Lemma split_rank_bound : forall (d : list R) (eps : R) (max_rank : Z), (0 < eps)%R ->
  exists i, determine_cutoff_index R_arith d eps = Ok i /\
    let kept := split_kept i (length d) max_rank in
    ((0 <= max_rank)%Z -> (Z.of_nat kept <= max_rank)%Z) /\
    ((1 <= max_rank)%Z -> d <> [] -> 1 <= kept) /\
    ((Z.of_nat (length d) - max_rank <= Z.of_nat i)%Z ->
       (sumR (firstn (length d - kept) d) <= eps * eps)%R).
Proof.
  intros d eps mr Heps. destruct (cutoff_discarded_weight d eps Heps) as (i & Hi & Hw & Hlen & _).
  exists i. split; [assumption|].
  destruct (split_kept_bounds i (length d) mr Hlen) as (B1 & B2 & B3 & B4).
  cbv zeta. split; [assumption|]. split.
  - intros Hm Hne. apply B3; [assumption|]. destruct d; [congruence | simpl; lia].
  - intros Hcap. rewrite (B4 Hcap). assumption.
Qed.

(* ======================= list update ======================= *)
Lemma length_upd {T : Type} (l : list T) : forall i x, length (upd i x l) = length l.
Proof. induction l; intros [|i] x; simpl; auto. Qed.

Lemma nth_error_upd {T : Type} (l : list T) : forall i j x,
  nth_error (upd i x l) j =
  if j =? i then match nth_error l i with Some _ => Some x | None => None end else nth_error l j.
Proof.
  induction l as [|y l IH]; intros [|i] [|j] x; simpl; try reflexivity;
    try (destruct (j =? i); reflexivity); apply IH.
Qed.

Lemma nth_error_upd_same {T : Type} (l : list T) i x : i < length l -> nth_error (upd i x l) i = Some x.
Proof.
  intros H. rewrite nth_error_upd, Nat.eqb_refl.
  destruct (nth_error l i) eqn:E; [reflexivity|]. apply nth_error_None in E. lia.
Qed.
Lemma nth_error_upd_other {T : Type} (l : list T) i j x : j <> i -> nth_error (upd i x l) j = nth_error l j.
Proof.
  intros H. rewrite nth_error_upd. destruct (Nat.eqb_spec j i); [contradiction|reflexivity].
Qed.
Lemma nth_error_lt {T : Type} (l : list T) i : i < length l -> exists t, nth_error l i = Some t.
Proof.
  intros H. destruct (nth_error l i) eqn:E; [eauto|]. apply nth_error_None in E. lia.
Qed.

(* ======================= canonical-form machine ======================= *)
Section MachineProofs.
Variables T M Sl : Type.
Variables isL isR : T -> Prop.           (* left / right isometry *)
Variable Pbond : T -> Prop.              (* "left bond within the cap" (any predicate established by eig_ok) *)
Variable qr_q : T -> T.
Variable qr_r_into : T -> T -> T.
Variable lq_q : T -> T.
Variable lq_r_into : T -> T -> T.
Variable eig_ok : nat -> T -> bool.
Variable eig_right : nat -> T -> T.
Variable eig_left_into : nat -> T -> T -> T.
Variable scaleT : T -> T.
Variable applyT : T -> T.
Variable addT : nat -> T -> T -> option T.
Variable slider0 : Sl.
Variable zip_step : Sl -> M -> T -> option (T * Sl).
Variable zip_absorb : T -> Sl -> option T.
(* premises on the numerical kernels *)
Hypothesis qr_q_iso : forall t, isL (qr_q t).
Hypothesis lq_q_iso : forall t, isR (lq_q t).
Hypothesis eig_right_iso : forall k t, isR (eig_right k t).
Hypothesis eig_right_bond : forall k t, eig_ok k t = true -> Pbond (eig_right k t).
Hypothesis zip_q_iso : forall s m t q s', zip_step s m t = Some (q, s') -> isL q.

Local Notation lr_sweep := (lr_sweep qr_q qr_r_into).
Local Notation rl_sweep := (rl_sweep lq_q lq_r_into).
Local Notation orthogonalize := (orthogonalize qr_q qr_r_into lq_q lq_r_into).
Local Notation trunc_sweep := (trunc_sweep eig_ok eig_right eig_left_into).
Local Notation truncate_impl := (truncate_impl eig_ok eig_right eig_left_into).
Local Notation truncate := (truncate qr_q qr_r_into lq_q lq_r_into eig_ok eig_right eig_left_into).
Local Notation step := (step qr_q qr_r_into lq_q lq_r_into eig_ok eig_right eig_left_into scaleT applyT addT
                             slider0 zip_step zip_absorb).
Local Notation corr_loop := (corr_loop qr_q qr_r_into lq_q lq_r_into).
Local Notation zip_go := (zip_go zip_step).
Local Notation zip_factors := (zip_factors slider0 zip_step zip_absorb).

Definition canon_at (fs : list T) (c : nat) : Prop :=
  forall i t, nth_error fs i = Some t -> (i < c -> isL t) /\ (c < i -> isR t).
Definition valid (m : mps T) : Prop :=
  match oc m with None => True | Some c => c < length (fac m) /\ canon_at (fac m) c end.

Lemma lr_sweep_spec : forall cnt i fs, i + cnt < length fs ->
  exists fs', lr_sweep i cnt fs = Ok fs' /\ length fs' = length fs /\
    (forall j, j < i \/ i + cnt < j -> nth_error fs' j = nth_error fs j) /\
    (forall j t, i <= j < i + cnt -> nth_error fs' j = Some t -> isL t).
Proof.
  induction cnt as [|c IH]; intros i fs H.
  - exists fs. simpl. repeat split; auto. intros; lia.
  - simpl. unfold qr_step.
    destruct (nth_error_lt fs i ltac:(lia)) as (a & Ea). destruct (nth_error_lt fs (S i) ltac:(lia)) as (b & Eb).
    rewrite Ea, Eb. simpl.
    set (fs1 := upd (S i) (qr_r_into a b) (upd i (qr_q a) fs)).
    assert (L1 : length fs1 = length fs) by (unfold fs1; rewrite !length_upd; reflexivity).
    destruct (IH (S i) fs1 ltac:(lia)) as (fs' & E & L & U & I).
    exists fs'. split; [exact E|]. split; [lia|]. split.
    + intros j Hj. rewrite U by lia. unfold fs1. rewrite !nth_error_upd_other by lia. reflexivity.
    + intros j t Hj Ht. destruct (Nat.eq_dec j i) as [->|Hne].
      * rewrite U in Ht by lia. unfold fs1 in Ht. rewrite nth_error_upd_other in Ht by lia.
        rewrite nth_error_upd_same in Ht by lia. injection Ht as <-. apply qr_q_iso.
      * apply (I j t); [lia | exact Ht].
Qed.

Lemma rl_sweep_spec : forall cnt i fs, cnt <= i -> i < length fs ->
  exists fs', rl_sweep i cnt fs = Ok fs' /\ length fs' = length fs /\
    (forall j, j < i - cnt \/ i < j -> nth_error fs' j = nth_error fs j) /\
    (forall j t, i - cnt < j <= i -> nth_error fs' j = Some t -> isR t).
Proof.
  induction cnt as [|c IH]; intros i fs H1 H2.
  - exists fs. simpl. repeat split; auto. intros; lia.
  - destruct i as [|i0]; [lia|]. simpl.
    destruct (nth_error_lt fs (S i0) ltac:(lia)) as (a & Ea). destruct (nth_error_lt fs i0 ltac:(lia)) as (b & Eb).
    simpl in Ea. rewrite Ea, Eb. simpl.
    set (fs1 := upd i0 (lq_r_into a b) (upd (S i0) (lq_q a) fs)).
    assert (L1 : length fs1 = length fs) by (unfold fs1; rewrite !length_upd; reflexivity).
    destruct (IH i0 fs1 ltac:(lia) ltac:(lia)) as (fs' & E & L & U & I).
    exists fs'. split; [exact E|]. split; [lia|]. split.
    + intros j Hj. rewrite U by lia. unfold fs1. rewrite !nth_error_upd_other by lia. reflexivity.
    + intros j t Hj Ht. destruct (Nat.eq_dec j (S i0)) as [->|Hne].
      * rewrite U in Ht by lia. unfold fs1 in Ht. rewrite nth_error_upd_other in Ht by lia.
        rewrite nth_error_upd_same in Ht by lia. injection Ht as <-. apply lq_q_iso.
      * apply (I j t); [lia | exact Ht].
Qed.

Lemma trunc_sweep_spec : forall i ks fs fs', i < length fs -> trunc_sweep i ks fs = Ok fs' ->
  length fs' = length fs /\
  (forall j, i < j -> nth_error fs' j = nth_error fs j) /\
  (forall j t, 1 <= j <= i -> nth_error fs' j = Some t -> isR t /\ Pbond t).
Proof.
  induction i as [|i0 IH]; intros ks fs fs' H E.
  - destruct ks; simpl in E; [|discriminate]. injection E as <-. repeat split; auto; intros; lia.
  - destruct ks as [|k ks]; simpl in E; [discriminate|].
    destruct (nth_error_lt fs (S i0) ltac:(lia)) as (a & Ea). destruct (nth_error_lt fs i0 ltac:(lia)) as (b & Eb).
    simpl in Ea. rewrite Ea, Eb in E. destruct (eig_ok k a) eqn:Eok; [|discriminate]. simpl in E.
    set (fs1 := upd i0 (eig_left_into k a b) (upd (S i0) (eig_right k a) fs)) in E.
    assert (L1 : length fs1 = length fs) by (unfold fs1; rewrite !length_upd; reflexivity).
    destruct (IH ks fs1 fs' ltac:(lia) E) as (L & U & I).
    split; [lia|]. split.
    + intros j Hj. rewrite U by lia. unfold fs1. rewrite !nth_error_upd_other by lia. reflexivity.
    + intros j t Hj Ht. destruct (Nat.eq_dec j (S i0)) as [->|Hne].
      * rewrite U in Ht by lia. unfold fs1 in Ht. rewrite nth_error_upd_other in Ht by lia.
        rewrite nth_error_upd_same in Ht by lia. injection Ht as <-. split; [apply eig_right_iso | apply eig_right_bond; assumption].
      * apply (I j t); [lia | exact Ht].
Qed.

(* ---- orthogonalize ---- *)
Lemma orthogonalize_spec : forall c m, valid m -> c < length (fac m) ->
  exists m', orthogonalize c m = Ok m' /\ oc m' = Some c /\
             length (fac m') = length (fac m) /\ canon_at (fac m') c.
Proof.
  intros c [fs o] V Hc. simpl in *. unfold Canon.orthogonalize. simpl.
  replace (c <? length fs) with true by (symmetry; apply Nat.ltb_lt; assumption).
  destruct o as [k|].
  - destruct V as (Hk & Can). simpl in Hk, Can.
    destruct (le_lt_dec k c) as [Hle|Hgt].
    + destruct (lr_sweep_spec (c - k) k fs ltac:(lia)) as (fs1 & E1 & L1 & U1 & I1).
      rewrite E1. simpl. replace (k - c) with 0 by lia. simpl.
      eexists; split; [reflexivity|]. simpl. split; [reflexivity|]. split; [assumption|].
      intros i t Ht. split; intros Hi.
      * destruct (le_lt_dec k i).
        -- apply (I1 i t); [lia | assumption].
        -- rewrite U1 in Ht by lia. apply (Can i t Ht). assumption.
      * rewrite U1 in Ht by lia. apply (Can i t Ht). lia.
    + replace (c - k) with 0 by lia. simpl.
      destruct (rl_sweep_spec (k - c) k fs ltac:(lia) Hk) as (fs1 & E1 & L1 & U1 & I1).
      rewrite E1. simpl.
      eexists; split; [reflexivity|]. simpl. split; [reflexivity|]. split; [assumption|].
      intros i t Ht. split; intros Hi.
      * rewrite U1 in Ht by lia. apply (Can i t Ht). lia.
      * destruct (le_lt_dec i k).
        -- apply (I1 i t); [lia | assumption].
        -- rewrite U1 in Ht by lia. apply (Can i t Ht). assumption.
  - replace (c - 0) with c by lia.
    destruct (lr_sweep_spec c 0 fs ltac:(lia)) as (fs1 & E1 & L1 & U1 & I1).
    rewrite E1. simpl.
    destruct (rl_sweep_spec (length fs - 1 - c) (length fs - 1) fs1 ltac:(lia) ltac:(lia)) as (fs2 & E2 & L2 & U2 & I2).
    rewrite E2. simpl.
    eexists; split; [reflexivity|]. simpl. split; [reflexivity|]. split; [lia|].
    intros i t Ht. split; intros Hi.
    + rewrite U2 in Ht by lia. apply (I1 i t); [lia | assumption].
    + assert (i < length fs2) by (apply nth_error_Some; congruence).
      apply (I2 i t); [lia | assumption].
Qed.

Lemma orthogonalize_noop : forall c fs, c < length fs ->
  orthogonalize c (MkMps fs (Some c)) = Ok (MkMps fs (Some c)).
Proof.
  intros c fs Hc. unfold Canon.orthogonalize. simpl.
  replace (c <? length fs) with true by (symmetry; apply Nat.ltb_lt; assumption).
  rewrite Nat.sub_diag. reflexivity.
Qed.

Lemma orth_ok : forall c m m', valid m -> orthogonalize c m = Ok m' ->
  valid m' /\ oc m' = Some c /\ length (fac m') = length (fac m) /\ c < length (fac m).
Proof.
  intros c m m' V E.
  assert (Hc : c < length (fac m)).
  { unfold Canon.orthogonalize in E. destruct (Nat.ltb_spec c (length (fac m))); [assumption|discriminate]. }
  destruct (orthogonalize_spec c m V Hc) as (m'' & E' & O & L & Can).
  rewrite E in E'. injection E' as <-.
  repeat split; try assumption. unfold valid. rewrite O. split; [lia | assumption].
Qed.

Lemma canon_upd_centre : forall fs c x, canon_at fs c -> canon_at (upd c x fs) c.
Proof.
  intros fs c x Can i t Ht. destruct (Nat.eq_dec i c) as [->|Hne]; [split; intros; lia|].
  rewrite nth_error_upd_other in Ht by assumption. apply (Can i t Ht).
Qed.

(* ---- truncate ---- *)
Lemma truncate_spec : forall ks m m', valid m -> 1 <= length (fac m) -> truncate ks m = Ok m' ->
  valid m' /\ oc m' = Some 0 /\ length (fac m') = length (fac m) /\
  (forall j t, 1 <= j -> nth_error (fac m') j = Some t -> Pbond t) /\
  exists m1, orthogonalize (length (fac m) - 1) m = Ok m1 /\ canon_at (fac m1) (length (fac m) - 1) /\
             truncate_impl ks (fac m1) = Ok (fac m').
Proof.
  intros ks m m' V HN E. unfold Canon.truncate in E.
  destruct (orthogonalize_spec (length (fac m) - 1) m V ltac:(lia)) as (m1 & E1 & O1 & L1 & C1).
  rewrite E1 in E. simpl in E.
  destruct (truncate_impl ks (fac m1)) as [fs| |] eqn:E2; try discriminate. simpl in E. injection E as <-.
  unfold Canon.truncate_impl in E2.
  destruct (trunc_sweep_spec (length (fac m1) - 1) ks (fac m1) fs ltac:(lia) E2) as (L & U & I).
  simpl. split.
  - unfold valid; simpl. split; [lia|]. intros i t Ht. split; intros Hi; [lia|].
    assert (i < length fs) by (apply nth_error_Some; congruence).
    apply (I i t); [lia | assumption].
  - split; [reflexivity|]. split; [lia|]. split.
    + intros j t Hj Ht. assert (j < length fs) by (apply nth_error_Some; congruence).
      apply (I j t); [lia | assumption].
    + exists m1. split; [exact E1|]. split; [assumption|]. unfold Canon.truncate_impl. exact E2.
Qed.

(* ---- add_factors / zip-up shapes ---- *)
Lemma add_go_length : forall (A B C : list T) i n,
  length A = length B -> add_go addT i n A B = Some C -> length C = length A.
Proof.
  induction A as [|a A IH]; intros B C i n HL H.
  - simpl in H. injection H as <-. reflexivity.
  - destruct B as [|b B]; [discriminate|]. simpl in H.
    destruct (addT _ a b); [|discriminate].
    destruct (add_go addT (S i) n A B) eqn:E; [|discriminate]. injection H as <-.
    simpl. f_equal. apply (IH B l (S i) n); [simpl in HL; lia | exact E].
Qed.

Lemma zip_go_spec : forall tops s fs qs sf, zip_go s tops fs = Some (qs, sf) ->
  length qs = length fs /\ forall j t, nth_error qs j = Some t -> isL t.
Proof.
  induction tops as [|m tops IH]; intros s fs qs sf H; destruct fs as [|t0 fs]; simpl in H; try discriminate.
  - injection H as <- <-. split; [reflexivity|]. intros [|j] t; discriminate.
  - destruct (zip_step s m t0) as [[q s']|] eqn:E1; [|discriminate].
    destruct (zip_go s' tops fs) as [[qs' sf']|] eqn:E2; [|discriminate].
    injection H as <- <-. destruct (IH s' fs qs' sf' E2) as (L & I).
    split; [simpl; lia|]. intros [|j] t Ht; simpl in Ht.
    + injection Ht as <-. eapply zip_q_iso; eassumption.
    + eapply I; eassumption.
Qed.

(* zip_right hands truncate_impl a chain whose centre is the last site (its documented precondition) *)
Lemma zip_factors_canonical : forall tops fs qs, zip_factors tops fs = Some qs ->
  length qs = length fs /\ canon_at qs (length qs - 1).
Proof.
  intros tops fs qs H. unfold Canon.zip_factors in H.
  destruct (zip_go slider0 tops fs) as [[qs0 sf]|] eqn:E; [|discriminate].
  destruct (nth_error qs0 (length qs0 - 1)) as [lastq|] eqn:El; [|discriminate].
  destruct (zip_absorb lastq sf) as [t|]; [|discriminate]. injection H as <-.
  destruct (zip_go_spec tops slider0 fs qs0 sf E) as (L & I).
  rewrite length_upd. split; [assumption|].
  intros i t0 Ht. split; intros Hi.
  - rewrite nth_error_upd_other in Ht by lia. eapply I; eassumption.
  - assert (i < length (upd (length qs0 - 1) t qs0)) by (apply nth_error_Some; congruence).
    rewrite length_upd in *. lia.
Qed.

Lemma corr_loop_ok : forall cnt left m m', valid m -> corr_loop left cnt m = Ok m' ->
  valid m' /\ length (fac m') = length (fac m).
Proof.
  induction cnt as [|c IH]; intros left m m' V E; simpl in E.
  - injection E as <-. auto.
  - destruct (orthogonalize left m) as [m1| |] eqn:E1; try discriminate. simpl in E.
    destruct (orth_ok left m m1 V E1) as (V1 & _ & L1 & _).
    destruct (IH (S left) m1 m' V1 E) as (V' & L'). split; [assumption | lia].
Qed.

(* ---- every public operation preserves "the declared centre is valid" ---- *)
Theorem step_valid : forall o m m', valid m -> 2 <= length (fac m) -> step o m = Ok m' ->
  valid m' /\ length (fac m') = length (fac m).
Proof.
  intros o m m' V HN E. destruct o; simpl in E.
  - destruct (orth_ok c m m' V E) as (V' & _ & L & _). auto.
  - destruct (truncate_spec ks m m' V ltac:(lia) E) as (V' & _ & L & _). auto.
  - destruct (Nat.eqb_spec (length (fac m)) (length other)) as [HL|]; [|discriminate].
    destruct (add_go addT 0 (length (fac m)) (fac m) other) as [fs|] eqn:EA; [|discriminate].
    pose proof (add_go_length _ _ _ _ _ HL EA) as LA.
    destruct (truncate_spec ks (MkMps fs None) m' I ltac:(simpl; lia) E) as (V' & _ & L & _).
    simpl in L. split; [assumption | lia].
  - destruct (nth_error (fac m) match oc m with Some k => k | None => 0 end) as [t|] eqn:Et; [|discriminate].
    injection E as <-. simpl. rewrite length_upd. split; [|reflexivity].
    unfold valid in *; simpl. destruct (oc m) as [k|]; [|exact I].
    destruct V as (Hk & Can). rewrite length_upd. split; [assumption|]. apply canon_upd_centre; assumption.
  - destruct (orthogonalize q m) as [m1| |] eqn:E1; try discriminate. simpl in E.
    destruct (orth_ok q m m1 V E1) as (V1 & O1 & L1 & Hq).
    destruct (nth_error (fac m1) q) as [t|]; [|discriminate]. injection E as <-. simpl.
    rewrite length_upd. split; [|assumption].
    unfold valid in *; simpl. rewrite O1 in *. destruct V1 as (Hk & Can).
    rewrite length_upd. split; [assumption|]. apply canon_upd_centre; assumption.
  - destruct (oc m) eqn:Eo.
    + injection E as <-. auto.
    + destruct (orth_ok 0 m m' V E) as (V' & _ & L & _). auto.
  - destruct (oc m) eqn:Eo.
    + injection E as <-. auto.
    + destruct (orth_ok 0 m m' V E) as (V' & _ & L & _). auto.
  - destruct (orth_ok 0 m m' V E) as (V' & _ & L & _). auto.
  - destruct (orthogonalize site m) as [m1| |] eqn:E1; try discriminate. simpl in E.
    destruct (orth_ok site m m1 V E1) as (V1 & _ & L1 & _).
    destruct (orth_ok 0 m1 m' V1 E) as (V' & _ & L & _). split; [assumption | lia].
  - destruct (corr_loop_ok _ _ _ _ V E). auto.
  - destruct (zip_factors tops (fac m)) as [qs|] eqn:EZ; [|discriminate].
    destruct (zip_factors_canonical _ _ _ EZ) as (LZ & _).
    destruct (truncate_impl ks qs) as [fs| |] eqn:ET; try discriminate. simpl in E. injection E as <-.
    unfold Canon.truncate_impl in ET.
    destruct (trunc_sweep_spec (length qs - 1) ks qs fs ltac:(lia) ET) as (L & U & I).
    simpl. split; [|lia]. unfold valid; simpl. split; [lia|].
    intros i t Ht. split; intros Hi; [lia|].
    assert (i < length fs) by (apply nth_error_Some; congruence).
    apply (I i t); [lia | assumption].
  - injection E as <-. auto.
Qed.

(* the invariant along whole histories *)
Theorem run_valid : forall os m, valid m -> 2 <= length (fac m) ->
  Forall (fun r => match r with Ok m' => valid m' /\ length (fac m') = length (fac m) | _ => True end)
         (run qr_q qr_r_into lq_q lq_r_into eig_ok eig_right eig_left_into scaleT applyT addT
              slider0 zip_step zip_absorb os m).
Proof.
  induction os as [|o os IH]; intros m V HN; simpl; [constructor|].
  destruct (step o m) as [m'| |] eqn:E.
  - destruct (step_valid o m m' V HN E) as (V' & L). constructor; [auto|].
    specialize (IH m' V' ltac:(lia)). rewrite L in IH. exact IH.
  - constructor; [exact I | constructor].
  - constructor; [exact I | constructor].
Qed.

(* truncating operations leave every internal bond within the cap, and enter truncate_impl canonically *)
Theorem truncating_ops_bounded : forall o m m', valid m -> 2 <= length (fac m) -> step o m = Ok m' ->
  match o with OTrunc _ _ _ | OAdd _ _ _ | OApplyTo _ _ _ => True | _ => False end ->
  forall j t, 1 <= j -> nth_error (fac m') j = Some t -> Pbond t.
Proof.
  intros o m m' V HN E Ho j t Hj Ht. destruct o; try contradiction; simpl in E.
  - destruct (truncate_spec ks m m' V ltac:(lia) E) as (_ & _ & _ & B & _). eapply B; eassumption.
  - destruct (Nat.eqb_spec (length (fac m)) (length other)) as [HL|]; [|discriminate].
    destruct (add_go addT 0 (length (fac m)) (fac m) other) as [fs|] eqn:EA; [|discriminate].
    pose proof (add_go_length _ _ _ _ _ HL EA) as LA.
    destruct (truncate_spec ks (MkMps fs None) m' I ltac:(simpl; lia) E) as (_ & _ & _ & B & _).
    eapply B; eassumption.
  - destruct (zip_factors tops (fac m)) as [qs|] eqn:EZ; [|discriminate].
    destruct (zip_factors_canonical _ _ _ EZ) as (LZ & _).
    destruct (truncate_impl ks qs) as [fs| |] eqn:ET; try discriminate. simpl in E. injection E as <-.
    unfold Canon.truncate_impl in ET.
    destruct (trunc_sweep_spec (length qs - 1) ks qs fs ltac:(lia) ET) as (L & U & I).
    simpl in Ht. assert (j < length fs) by (apply nth_error_Some; congruence).
    apply (I j t); [lia | assumption].
Qed.

End MachineProofs.

(* ======================= the executable instance satisfies the premises ======================= *)
Definition ft_isL (t : FT) : Prop := cL t = true.
Definition ft_isR (t : FT) : Prop := cR t = true.
Definition ft_bond (max_rank : Z) (t : FT) : Prop := (Z.of_nat (fl t) <= max_rank)%Z.

Lemma f_premises (d : nat) (mr : Z) :
  (forall t, ft_isL (f_qr_q d t)) /\ (forall t, ft_isR (f_lq_q d t)) /\
  (forall k t, ft_isR (f_eig_right k t)) /\
  (forall k t, f_eig_ok d mr k t = true -> ft_bond mr (f_eig_right k t)) /\
  (forall s m t q s', f_zip_step d s m t = Some (q, s') -> ft_isL q).
Proof.
  repeat split; try reflexivity.
  - intros k t H. unfold f_eig_ok in H. apply andb_true_iff in H. destruct H as (_ & H).
    apply Z.leb_le in H. exact H.
  - intros [[s0 sw] sb] [wl wr] t q s' H. unfold f_zip_step in H.
    destruct ((sw =? wl) && (sb =? fl t)); [|discriminate]. injection H as <- _. reflexivity.
Qed.

Theorem f_step_valid (d : nat) (mr : Z) : forall o m m',
  valid FT ft_isL ft_isR m -> 2 <= length (fac m) -> f_step d mr o m = Ok m' ->
  valid FT ft_isL ft_isR m' /\ length (fac m') = length (fac m).
Proof.
  destruct (f_premises d mr) as (P1 & P2 & P3 & P4 & P5).
  exact (step_valid FT FM FS ft_isL ft_isR (ft_bond mr) _ _ _ _ _ _ _ _ _ _ _ _ _ P1 P2 P3 P4 P5).
Qed.

Theorem f_truncating_bounded (d : nat) (mr : Z) : forall o m m',
  valid FT ft_isL ft_isR m -> 2 <= length (fac m) -> f_step d mr o m = Ok m' ->
  match o with OTrunc _ _ _ | OAdd _ _ _ | OApplyTo _ _ _ => True | _ => False end ->
  forall j t, 1 <= j -> nth_error (fac m') j = Some t -> (Z.of_nat (fl t) <= mr)%Z.
Proof.
  destruct (f_premises d mr) as (P1 & P2 & P3 & P4 & P5).
  exact (truncating_ops_bounded FT FM FS ft_isL ft_isR (ft_bond mr) _ _ _ _ _ _ _ _ _ _ _ _ _ P1 P2 P3 P4 P5).
Qed.
