(* Proofs for the autosave / resume model (Model/Resume.v), property C26. *)
From Coq Require Import List Bool String Arith Lia.
From EV Require Import Model.Fs Model.Resume Proofs.FsProofs.
Import ListNotations.
Set Implicit Arguments.

Lemma smem_In f l : smem f l = true <-> In f l.
Proof.
  induction l as [|g l IH]; simpl.
  - split; [discriminate|tauto].
  - rewrite orb_true_iff, IH, String.eqb_eq. split; intros [H|H]; auto.
Qed.

Section Machine.
Variable V : Type.
Variable Env : Type.
Variable Res : Type.
Variable step : st V -> Env -> st V * Env.
Variable finished : st V -> bool.
Variable results_of : st V -> Res.
Variable permute : st V -> Res -> Res.
Variables gT sT : string -> V -> V.
Variables get_over set_over resume_sets reads : list string.
Variable rebind : string -> option V.

(* two solver objects agree on every field the stepping touches *)
Definition agree (s s' : st V) : Prop := forall f, In f reads -> s f = s' f.

(* premises: stepping, the termination test, the results and their permutation depend on [reads] only *)
Hypothesis step_local : forall s s' e, agree s s' ->
  agree (fst (step s e)) (fst (step s' e)) /\ snd (step s e) = snd (step s' e).
Hypothesis finished_local : forall s s', agree s s' -> finished s = finished s'.
Hypothesis results_local : forall s s', agree s s' -> results_of s = results_of s'.
Hypothesis permute_local : forall s s' r, agree s s' -> permute s r = permute s' r.
(* premises: resume rebinds exactly [resume_sets]; the accepted pickle round trips are identities *)
Hypothesis rebind_dom : forall f, rebind f <> None -> In f resume_sets.
Hypothesis roundtrip : forall f v, In f roundtrip_ok ->
  (let p := if smem f get_over then gT f v else v in if smem f set_over then sT f p else p) = v.

Lemma agree_refl s : agree s s.
Proof. intros f _. reflexivity. Qed.

Lemma agree_sym s s' : agree s s' -> agree s' s.
Proof. intros H f Hf. symmetry. apply H. exact Hf. Qed.

Lemma agree_trans s1 s2 s3 : agree s1 s2 -> agree s2 s3 -> agree s1 s3.
Proof. intros H1 H2 f Hf. rewrite (H1 f Hf). apply H2. exact Hf. Qed.

(* pickle_roundtrip_state: save, load and resume give back every field the stepping reads *)
Lemma restore_snapshot_agree s :
  pickle_ok reads get_over set_over resume_sets = true ->
  agree (restore sT set_over rebind (snapshot gT get_over s)) s.
Proof.
  intros Hok f Hf. unfold pickle_ok in Hok. rewrite forallb_forall in Hok.
  specialize (Hok f Hf). apply andb_true_iff in Hok. destruct Hok as [Hr Ho].
  unfold restore, snapshot.
  destruct (rebind f) as [v|] eqn:Eb.
  - assert (Hin : In f resume_sets) by (apply rebind_dom; rewrite Eb; discriminate).
    apply smem_In in Hin. rewrite Hin in Hr. discriminate.
  - apply orb_true_iff in Ho. destruct Ho as [Ho|Ho].
    + apply negb_true_iff in Ho. apply orb_false_iff in Ho. destruct Ho as [Hg Hs].
      rewrite Hs, Hg. reflexivity.
    + apply smem_In in Ho. apply (roundtrip (s f) Ho).
Qed.

Lemma finish_agree fuel : forall s s' e, agree s s' ->
  match finish step finished fuel s e, finish step finished fuel s' e with
  | Some (a, e1), Some (b, e2) => agree a b /\ e1 = e2
  | None, None => True
  | _, _ => False
  end.
Proof.
  induction fuel as [|n IH]; intros s s' e H; simpl; [exact I|].
  rewrite <- (finished_local H).
  destruct (finished s).
  - split; [exact H | reflexivity].
  - destruct (step_local e H) as [Ha He].
    destruct (step s e) as [s1 e1], (step s' e) as [s2 e2]. simpl in *. subst e2.
    apply IH. exact Ha.
Qed.

(* stopping after k units of work and continuing is the same as not stopping *)
Lemma finish_iter k : forall fuel s e,
  finish step finished (k + fuel) s e =
  (let '(s', e') := iter step finished k s e in finish step finished fuel s' e')
  \/ fuel = 0.
Proof.
  induction k as [|k IH]; intros fuel s e; simpl; [left; reflexivity|].
  destruct fuel as [|fuel]; [right; reflexivity|].
  left. unfold gstep. destruct (finished s) eqn:F.
  - (* already finished: every further guarded step is the identity *)
    clear IH. revert s e F. induction k as [|k IHk]; intros s e F; simpl.
    + rewrite F. reflexivity.
    + unfold gstep. rewrite F. apply IHk. exact F.
  - destruct (step s e) as [s1 e1].
    destruct (IH (S fuel) s1 e1) as [H|H]; [exact H | discriminate].
Qed.

Lemma apply_post_agree fl s s' r :
  agree s s' -> apply_post permute fl s r = apply_post permute fl s' r.
Proof.
  intros H. unfold apply_post. generalize (after_run fl) r.
  induction l as [|stg l IH]; intros r0; simpl; [reflexivity|].
  destruct stg; try apply IH. rewrite (permute_local r0 H). apply IH.
Qed.

Lemma apply_post_same fl1 fl2 s r :
  (forall x, permute s (permute s x) = permute s x \/ True) ->
  after_run fl1 = after_run fl2 -> apply_post permute fl1 s r = apply_post permute fl2 s r.
Proof. intros _ H. unfold apply_post. rewrite H. reflexivity. Qed.

Lemma apply_post_count fl s r :
  apply_post permute fl s r = Nat.iter (n_permutes (after_run fl)) (permute s) r.
Proof.
  unfold apply_post. generalize (after_run fl) r.
  induction l as [|stg l IH]; intros r0; simpl; [reflexivity|].
  destruct stg; simpl; rewrite ?IH; try reflexivity.
  clear IH. induction (n_permutes l); simpl; [reflexivity|]. rewrite IHn. reflexivity.
Qed.

(* resume_equals_run *)
Theorem resume_equals_run (run_flow resume_flow : list stage) :
  pickle_ok reads get_over set_over resume_sets = true ->
  same_post run_flow resume_flow = true ->
  forall (s0 : st V) (e0 : Env) (k fuel : nat) (sk : st V) (ek : Env) (r : Res) (ef : Env),
    iter step finished k s0 e0 = (sk, ek) ->
    outcome step finished results_of permute resume_flow fuel
            (restore sT set_over rebind (snapshot gT get_over sk)) ek = Some (r, ef) ->
    outcome step finished results_of permute run_flow (k + fuel) s0 e0 = Some (r, ef).
Proof.
  intros Hok Hpost s0 e0 k fuel sk ek r ef Hk Hres.
  destruct fuel as [|fuel]; [discriminate|].
  unfold outcome in *.
  destruct (finish_iter k (S fuel) s0 e0) as [E|E]; [|discriminate].
  rewrite E, Hk. clear E.
  pose proof (finish_agree (S fuel) ek (restore_snapshot_agree sk Hok)) as HA.
  destruct (finish step finished (S fuel) (restore sT set_over rebind (snapshot gT get_over sk)) ek)
    as [[a e1]|]; [|discriminate].
  destruct (finish step finished (S fuel) sk ek) as [[b e2]|]; [|contradiction].
  destruct HA as [Hab ->]. inversion Hres; subst. f_equal. f_equal.
  rewrite (results_local Hab), (apply_post_agree resume_flow _ Hab).
  rewrite !apply_post_count. apply Nat.eqb_eq in Hpost. rewrite Hpost. reflexivity.
Qed.

End Machine.

(* the results come back in internal order when the post-processing differs: a concrete machine *)
Open Scope string_scope.
Definition ex_step (s : st (list nat)) (e : unit) : st (list nat) * unit := (s, e).
Definition ex_flow_run := [SCreate; SInit; SRun; SPermute].
Definition ex_flow_resume := [SLoad; SRebind "autosave_file"; SRun].

Lemma post_mismatch_example :
  same_post ex_flow_run ex_flow_resume = false /\
  let s : st (list nat) := fun _ => [1; 2; 3] in
  outcome ex_step (fun _ => true) (fun s => s "results") (fun _ r => rev r) ex_flow_run 1 s tt
  <> outcome ex_step (fun _ => true) (fun s => s "results") (fun _ r => rev r) ex_flow_resume 1 s tt.
Proof. split; [reflexivity|]. vm_compute. discriminate. Qed.

(* the resumed run advertises (autosaves to, removes at the end) the file it was given *)
Lemma adv_at_run_given (P : Type) (given recorded : P) (fl : list stage) :
  forall (cur : option P) (seen : bool),
    (seen = true -> cur = Some given) ->
    file_rebound_from fl seen = true ->
    adv_at_run fl cur given recorded = Some given.
Proof.
  induction fl as [|stg fl IH]; intros cur seen Hseen H; simpl in *; [discriminate|].
  destruct stg; try (apply (IH cur seen Hseen H)).
  - (* SLoad *) apply (IH (Some recorded) false); [discriminate | exact H].
  - (* SRebind *) destruct (String.eqb f "autosave_file") eqn:E; simpl in H.
    + apply (IH (Some given) true); [reflexivity | exact H].
    + apply (IH cur seen Hseen H).
  - (* SRun *) apply Hseen. exact H.
Qed.

Theorem resumed_file_is_given (P : Type) (fl : list stage) (given recorded : P) :
  file_rebound fl = true -> adv_at_run fl None given recorded = Some given.
Proof.
  intros H. apply (@adv_at_run_given P given recorded fl None false); [discriminate | exact H].
Qed.

Lemma file_rebound_example :
  file_rebound [SLoad; SRebind "autosave_file"; SRun] = true /\ file_rebound [SLoad; SLog; SRun] = false /\
  adv_at_run [SLoad; SLog; SRun] None 1 2 = Some 2.
Proof. repeat split. Qed.

(* autosave_removed: whatever is on disk, after `if f.is_file(): os.remove(f)` the file is gone *)
Lemma remove_if_file_removes (C : Type) (pl : platform) (c : C) (s : fs C) :
  exists s', final pl c [IfFile Adv (Remove Adv)] s = Some s' /\ s' Adv = None.
Proof.
  unfold final, run, step_op, step_prim, is_file.
  destruct (s Adv) as [f|] eqn:E.
  - eexists. split; [reflexivity|]. reflexivity.
  - eexists. split; [reflexivity|]. exact E.
Qed.
