(* Proofs about Model/McwfOps.v: ordering of the jump candidates / weights, and the link between the model's
   weights on dense vectors and the generic quantities <psi|J^dagger J|psi> = |J psi|^2 of Proofs/McwfAlg.v. *)
From Coq Require Import List Arith Bool Lia Ring.
From EV Require Import Model.SvBase Model.SvHam Model.McwfOps Proofs.SvBaseProofs Proofs.SvHamProofs
  Proofs.SvLindProofs Proofs.LindbladAlg Proofs.LindbladCode.
Import ListNotations.

(* ---- row-major enumeration (pure list facts) ------------------------------------------------------- *)
Lemma flat_map_rows_length {A B} (g : nat -> list B) (K N : nat) (dummy : A) :
  (forall q, length (g q) = K) -> length (flat_map g (seq 0 N)) = N * K.
Proof.
  intros Hg. assert (G : forall s, length (flat_map g (seq s N)) = N * K).
  { induction N as [|n IH]; intros s; cbn; [reflexivity|]. rewrite app_length, Hg, IH. reflexivity. }
  apply G.
Qed.

Lemma flat_map_rows_nth {B} (g : nat -> list B) (K : nat) (d : B) :
  (forall q, length (g q) = K) ->
  forall N s q k, q < N -> k < K -> nth (q * K + k) (flat_map g (seq s N)) d = nth k (g (s + q)) d.
Proof.
  intros Hg. induction N as [|n IH]; intros s q k Hq Hk; [lia|].
  cbn [seq flat_map]. destruct q as [|q].
  - rewrite app_nth1 by (rewrite Hg; lia). rewrite Nat.add_0_r. reflexivity.
  - rewrite app_nth2 by (rewrite Hg; nia). rewrite Hg.
    replace (S q * K + k - K) with (q * K + k) by lia.
    rewrite IH by lia. f_equal. f_equal. lia.
Qed.

Lemma nth_map_any {A B} (f : A -> B) (l : list A) k (d : A) (d' : B) : k < length l ->
  nth k (map f l) d' = f (nth k l d).
Proof.
  intros H. rewrite (nth_indep _ d' (f d)) by (rewrite map_length; assumption). apply map_nth.
Qed.

Theorem jump_candidates_spec N K : length (jump_candidates N K) = N * K /\
  forall q k, q < N -> k < K -> nth (q * K + k) (jump_candidates N K) (0, 0) = (q, k).
Proof.
  unfold jump_candidates. split.
  - apply (flat_map_rows_length (A := nat) _ K N 0). intros q. rewrite map_length, seq_length. reflexivity.
  - intros q k Hq Hk.
    rewrite (flat_map_rows_nth (fun q => map (fun k => (q, k)) (seq 0 K)) K (0, 0)); try assumption.
    + cbn [Nat.add]. rewrite (nth_map_any _ _ _ 0) by (rewrite seq_length; lia).
      rewrite seq_nth by lia. reflexivity.
    + intros q'. rewrite map_length, seq_length. reflexivity.
Qed.

Section McwfOpsProofs.
Variable o : Kops.
Hypothesis laws : Klaws o.
Add Ring KrMO : (K_ring o laws).
Open Scope K_scope.
Notation cj := (kconj o).

Lemma site_act_is_site_apply N q h v r : site_act o N q h v r = site_apply o N q h v r.
Proof. reflexivity. Qed.

Lemma aggregate_length (Ls : list (M2 o)) : length (aggregate o Ls) = length Ls.
Proof. unfold aggregate. apply map_length. Qed.

Lemma aggregate_nth (Ls : list (M2 o)) k d : k < length Ls ->
  nth k (aggregate o Ls) (m2mul (m2mH d) d) = m2mul (m2mH (nth k Ls d)) (nth k Ls d).
Proof. intros _. unfold aggregate. apply (map_nth (fun Lk => m2mul (m2mH Lk) Lk)). Qed.

(* entries of L^dagger L *)
Lemma aggregate_entry (Lk : M2 o) b b' : b < 2 -> b' < 2 ->
  m2 (m2mul (m2mH Lk) Lk) b b' = cj (m2 Lk 0 b) * m2 Lk 0 b' + cj (m2 Lk 1 b) * m2 Lk 1 b'.
Proof.
  intros Hb Hb'. rewrite (m2mul_entry o laws) by assumption.
  rewrite !(m2mH_entry o) by lia. ring.
Qed.

(* weights are listed row-major (qubit, operator), aligned with jump_candidates *)
Theorem jump_weights_spec N (Ls : list (M2 o)) (psi : list o) (d : M2 o) :
  length (jump_weights o N Ls psi) = (N * length Ls)%nat /\
  forall q k, q < N -> k < length Ls ->
    nth (q * length Ls + k)%nat (jump_weights o N Ls psi) (k0 o) =
    expect_site o N q (m2mul (m2mH (nth k Ls d)) (nth k Ls d)) psi.
Proof.
  unfold jump_weights. split.
  - apply (flat_map_rows_length (A := nat) _ (length Ls) N 0). intros q. rewrite map_length. apply aggregate_length.
  - intros q k Hq Hk.
    rewrite (flat_map_rows_nth (fun q => map (fun A => expect_site o N q A psi) (aggregate o Ls)) (length Ls) (k0 o));
      try assumption.
    + cbn [Nat.add].
      rewrite (nth_map_any _ _ _ (m2mul (m2mH d) d)) by (rewrite aggregate_length; assumption).
      rewrite aggregate_nth by assumption. reflexivity.
    + intros q'. rewrite map_length. apply aggregate_length.
Qed.

(* the model's expectation is the dense one: <psi| site q h |psi> = sum_{r,c} conj(psi r) (site q h) r c psi c *)
Theorem expect_site_dense N q (h : M2 o) (psi : list o) : q < N ->
  expect_site o N q h psi =
  ksumn (2 ^ N) (fun r => cj (get psi r) * ksumn (2 ^ N) (fun c => site o N q h r c * get psi c)).
Proof.
  intros Hq. unfold expect_site. apply (ksumn_ext o). intros r Hr.
  rewrite (site_apply_dense o laws) by assumption. reflexivity.
Qed.

(* apply_site is the dense product with the single-site operator *)
Theorem apply_site_dense N q (h : M2 o) (psi : list o) : q < N ->
  length (apply_site o N q h psi) = 2 ^ N /\
  forall r, r < 2 ^ N -> get (apply_site o N q h psi) r = ksumn (2 ^ N) (fun c => site o N q h r c * get psi c).
Proof.
  intros Hq. unfold apply_site. split; [apply (length_tab o)|].
  intros r Hr. rewrite (get_tab o) by assumption. symmetry. apply (site_apply_dense o laws); assumption.
Qed.

End McwfOpsProofs.
