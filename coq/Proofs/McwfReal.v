(* split_matrix(preserve_norm=True) (emu_mps/utils.py): the rescaling factor, over the reals (C17). *)
From Coq Require Import Reals List Lra.
Import ListNotations.
Local Open Scope R_scope.

Definition sumR (l : list R) : R := fold_right Rplus 0 l.

Lemma sumR_app l m : sumR (l ++ m) = sumR l + sumR m.
Proof. unfold sumR. induction l as [|a l IH]; simpl; [lra | rewrite IH; lra]. Qed.

Lemma sumR_nonneg l : (forall x, In x l -> 0 <= x) -> 0 <= sumR l.
Proof.
  induction l as [|a l IH]; intros H; [unfold sumR; simpl; lra|].
  assert (0 <= a) by (apply H; left; reflexivity).
  assert (0 <= sumR l) by (apply IH; intros x Hx; apply H; right; exact Hx).
  change (sumR (a :: l)) with (a + sumR l). lra.
Qed.

(* d: the eigenvalues of m m^dagger (ascending, as torch.linalg.eigh returns them), max_bond: number of dropped
   ones.  old_norm2 = sum(d), new_norm2 = sum(d[max_bond:]), factor = sqrt(old_norm2 / new_norm2).
   Scaling the kept part (whose squared Frobenius norm is new_norm2) by the factor restores old_norm2, and the
   factor is >= 1 (truncation never increases the norm).  Guard: new_norm2 > 0 (otherwise the code divides by 0). *)
Theorem preserve_norm_rescale (d : list R) (max_bond : nat) :
  (forall x, In x d -> 0 <= x) -> 0 < sumR (skipn max_bond d) ->
  let factor := sqrt (sumR d / sumR (skipn max_bond d)) in
  factor * factor * sumR (skipn max_bond d) = sumR d /\ 1 <= factor.
Proof.
  intros Hd Hnew factor.
  assert (Hsplit : sumR d = sumR (firstn max_bond d) + sumR (skipn max_bond d)).
  { rewrite <- sumR_app, firstn_skipn. reflexivity. }
  assert (Hfirst : 0 <= sumR (firstn max_bond d)).
  { apply sumR_nonneg. intros x Hx. apply Hd. rewrite <- (firstn_skipn max_bond d). apply in_or_app. left. exact Hx. }
  assert (Hratio : 1 <= sumR d / sumR (skipn max_bond d)).
  { apply (Rmult_le_reg_r (sumR (skipn max_bond d))); [exact Hnew|].
    unfold Rdiv. rewrite Rmult_assoc, Rinv_l by lra. lra. }
  split.
  - unfold factor. rewrite sqrt_sqrt by lra. field. lra.
  - unfold factor. rewrite <- sqrt_1. apply sqrt_le_1; lra.
Qed.

Example preserve_norm_rescale_premises_satisfiable :
  (forall x, In x [0; 1; 3] -> 0 <= x) /\ 0 < sumR (skipn 1 [0; 1; 3]).
Proof. split; [intros x [<-|[<-|[<-|[]]]]; lra | unfold sumR; simpl; lra]. Qed.
