(* Proofs about Model/SvState.v: bitstrings, Kronecker products, sparse COO kron/add, outer product. *)
From Coq Require Import List Arith Bool Lia Ring.
From EV Require Import Model.SvBase Model.SvState Proofs.SvBaseProofs Proofs.SvLindProofs.
Import ListNotations.

(* ---- bitstrings ---------------------------------------------------------------------------------------- *)
Definition value_lsb (l : list nat) : nat := fold_right (fun b acc => 2 * acc + b) 0 l.

Lemma bits_to_index_rev l : bits_to_index (rev l) = value_lsb l.
Proof.
  unfold bits_to_index, value_lsb.
  rewrite <- (rev_involutive l) at 2. rewrite fold_left_rev_right. reflexivity.
Qed.

Lemma length_lsb n k : length (bits_lsb n k) = n.
Proof. revert k; induction n; intros; simpl; [reflexivity | rewrite IHn; reflexivity]. Qed.

Lemma value_of_lsb n : forall k, k < 2 ^ n -> value_lsb (bits_lsb n k) = k.
Proof.
  induction n; intros k Hk.
  - simpl in Hk. cbn. lia.
  - cbn [bits_lsb]. unfold value_lsb in *. cbn [fold_right]. rewrite IHn.
    + pose proof (Nat.div_mod k 2 ltac:(lia)). lia.
    + rewrite Nat.pow_succ_r' in Hk. apply Nat.div_lt_upper_bound; lia.
Qed.

Lemma nth_lsb n : forall k j, j < n -> nth j (bits_lsb n k) 0 = (k / 2 ^ j) mod 2.
Proof.
  induction n; intros k j Hj; [lia|]. cbn [bits_lsb]. destruct j; cbn [nth].
  - rewrite Nat.pow_0_r, Nat.div_1_r. reflexivity.
  - rewrite IHn by lia. rewrite Nat.div_div by (try lia; apply Nat.pow_nonzero; lia).
    rewrite Nat.pow_succ_r'. reflexivity.
Qed.

Lemma lsb_of_value l : Forall (fun b => b < 2) l -> bits_lsb (length l) (value_lsb l) = l /\ value_lsb l < 2 ^ length l.
Proof.
  induction 1 as [|b l Hb Hl [IH1 IH2]]; [split; [reflexivity | cbn; lia]|].
  cbn [length bits_lsb]. unfold value_lsb in *. cbn [fold_right]. rewrite Nat.pow_succ_r'. set (v := fold_right (fun b acc => 2 * acc + b) 0 l) in *.
  assert (E1 : (2 * v + b) mod 2 = b).
  { rewrite Nat.add_comm, Nat.mul_comm, Nat.mod_add by lia. apply Nat.mod_small; assumption. }
  assert (E2 : (2 * v + b) / 2 = v).
  { rewrite Nat.mul_comm, Nat.div_add_l by lia. rewrite Nat.div_small by assumption. lia. }
  rewrite E1, E2, IH1. split; [reflexivity | lia].
Qed.

(* int(index_to_bitstring(N,k), 2) = k, and character q of the string is bit_q(k) *)
Theorem bitstring_of_index N k : k < 2 ^ N ->
  exists s, index_to_bits N k = Some s /\ length s = N /\ bits_to_index s = k /\
            forall q, q < N -> nth q s 0 = bit N q k.
Proof.
  intros Hk. exists (rev (bits_lsb N k)). unfold index_to_bits.
  destruct (Nat.ltb_spec k (2 ^ N)); [|lia]. repeat split.
  - rewrite rev_length. apply length_lsb.
  - rewrite bits_to_index_rev. apply value_of_lsb; assumption.
  - intros q Hq. rewrite rev_nth by (rewrite length_lsb; assumption). rewrite length_lsb.
    rewrite nth_lsb by lia. unfold bit, qrest. replace (N - S q) with (N - q - 1) by lia. reflexivity.
Qed.

(* index_to_bitstring(len s, int(s,2)) = s for every string of binary digits *)
Theorem index_of_bitstring s : Forall (fun b => b < 2) s ->
  index_to_bits (length s) (bits_to_index s) = Some s.
Proof.
  intros H. assert (Hr : Forall (fun b => b < 2) (rev s)).
  { apply Forall_forall. intros x Hx. apply in_rev in Hx. revert x Hx. apply Forall_forall. exact H. }
  destruct (lsb_of_value (rev s) Hr) as [E1 E2]. rewrite rev_length in *.
  rewrite <- (rev_involutive s) at 2. rewrite bits_to_index_rev.
  unfold index_to_bits. destruct (Nat.ltb_spec (value_lsb (rev s)) (2 ^ length s)); [|lia].
  rewrite E1, rev_involutive. reflexivity.
Qed.

Lemma index_to_bits_rejects N k : 2 ^ N <= k -> index_to_bits N k = None.
Proof. intros. unfold index_to_bits. destruct (Nat.ltb_spec k (2 ^ N)); [lia | reflexivity]. Qed.

Lemma bit_succ m q k : q < m -> bit (S m) q k = bit m q (k / 2).
Proof.
  intros. unfold bit, qrest. replace (S m - q - 1) with (S (m - q - 1)) by lia.
  rewrite Nat.div_div by (try lia; apply Nat.pow_nonzero; lia). reflexivity.
Qed.
Lemma bit_last m k : bit (S m) m k = k mod 2.
Proof. unfold bit, qrest. replace (S m - m - 1) with 0 by lia. rewrite Nat.pow_0_r, Nat.div_1_r. reflexivity. Qed.

Section StateProofs.
Variable o : Kops.
Hypothesis laws : Klaws o.
Add Ring Kr4 : (K_ring o laws).
Open Scope K_scope.
Notation zero := (k0 o).
Notation one := (k1 o).
Notation cj := (kconj o).
Notation L := (list o).

(* ---- matrices ---------------------------------------------------------------------------------------- *)
Lemma mget_mtab d f i j : i < d -> j < d -> mget o (mtab o d f) i j = f i j.
Proof.
  intros Hi Hj. unfold mget, mtab. simpl. rewrite get_tab by nia.
  destruct (divmod_rc d i j Hj) as [E1 E2]. rewrite E1, E2. reflexivity.
Qed.

Lemma kron_entry (A B : mat o) i j : 0 < fst B -> (i < fst A * fst B)%nat -> (j < fst A * fst B)%nat ->
  mget o (kron o A B) i j =
  mget o A (i / fst B) (j / fst B) * mget o B (i mod fst B) (j mod fst B).
Proof. intros. unfold kron. rewrite mget_mtab by assumption. reflexivity. Qed.

Definition kprod {A} (l : list A) (f : A -> o) : o := fold_right (fun a acc => f a * acc) one l.
Lemma kprod_app {A} (l m : list A) (f : A -> o) : kprod (l ++ m) f = kprod l f * kprod m f.
Proof. induction l; simpl; [ring | rewrite IHl; ring]. Qed.
Lemma kprod_ext {A} (l : list A) (f g : A -> o) : (forall a, In a l -> f a = g a) -> kprod l f = kprod l g.
Proof. induction l; simpl; intros H; [reflexivity|]. rewrite H by auto. rewrite IHl by auto. reflexivity. Qed.

Definition kron_inv (done : list (M2 o)) (M : mat o) : Prop :=
  fst M = 2 ^ length done /\
  forall k k', k < 2 ^ length done -> k' < 2 ^ length done ->
    mget o M k k' = kprod (seq 0 (length done))
                      (fun q => m2 (nth q done m2zero) (bit (length done) q k) (bit (length done) q k')).

Lemma of_m2_entry h i j : i < 2 -> j < 2 -> mget o (of_m2 o h) i j = m2 h i j.
Proof. intros. unfold of_m2. apply mget_mtab; assumption. Qed.

Lemma kron_step done M h : kron_inv done M -> kron_inv (done ++ [h]) (kron o M (of_m2 o h)).
Proof.
  intros [E G]. unfold kron_inv. rewrite app_length. simpl length. rewrite Nat.add_1_r.
  set (m := length done) in *. split.
  - unfold kron, mtab. simpl. rewrite E. lia.
  - intros k k' Hk Hk'. simpl in Hk, Hk'.
    rewrite kron_entry by (simpl; rewrite ?E; lia). change (fst (of_m2 o h)) with 2.
    rewrite of_m2_entry by (apply Nat.mod_upper_bound; lia).
    rewrite G by (apply Nat.div_lt_upper_bound; lia).
    rewrite seq_S, kprod_app. simpl kprod. simpl plus.
    rewrite app_nth2 by (fold m; lia). replace (m - length done)%nat with 0 by (unfold m; lia). simpl nth. rewrite !bit_last.
    rewrite (kprod_ext (seq 0 m) (fun q => m2 (nth q (done ++ [h]) m2zero) (bit (S m) q k) (bit (S m) q k'))
               (fun q => m2 (nth q done m2zero) (bit m q (k / 2)) (bit m q (k' / 2)))).
    + change (fst (Nat.divmod k 1 0 1)) with (k / 2). change (fst (Nat.divmod k' 1 0 1)) with (k' / 2). ring.
    + intros q Hq. apply in_seq in Hq. rewrite app_nth1 by (fold m; lia). rewrite !bit_succ by lia. reflexivity.
Qed.

(* reduce(kron, [A_0 .. A_{N-1}])[k,k'] = prod_q A_q[bit_q k][bit_q k']  (N >= 1 factors, every N) *)
Theorem kron_elem (gates : list (M2 o)) : gates <> [] ->
  let N := length gates in
  fst (kron_all o gates) = 2 ^ N /\
  forall k k', k < 2 ^ N -> k' < 2 ^ N ->
    mget o (kron_all o gates) k k' = kprod (seq 0 N) (fun q => m2 (nth q gates m2zero) (bit N q k) (bit N q k')).
Proof.
  destruct gates as [|g gs]; [congruence|]. intros _. simpl kron_all.
  assert (H : forall gs done M, kron_inv done M ->
            kron_inv (done ++ gs) (fold_left (fun acc h => kron o acc (of_m2 o h)) gs M)).
  { induction gs0 as [|h gs' IH]; intros done M HM; simpl.
    - rewrite app_nil_r. exact HM.
    - replace (done ++ h :: gs') with ((done ++ [h]) ++ gs') by (rewrite <- app_assoc; reflexivity).
      apply IH. apply kron_step. exact HM. }
  apply (H gs [g] (of_m2 o g)). unfold kron_inv. simpl length. split; [reflexivity|].
  intros k k' Hk Hk'. change (2 ^ 1) with 2 in Hk, Hk'. rewrite of_m2_entry by assumption.
  unfold kprod. cbn [seq fold_right nth]. rewrite !bit_last, !Nat.mod_small by assumption. ring.
Qed.

(* ---- sparse COO ------------------------------------------------------------------------------------------- *)
Theorem sparse_add_dense (A B : coo o) i j :
  coo_dense o (sparse_add o A B) i j = coo_dense o A i j + coo_dense o B i j.
Proof.
  destruct A as [[ra ca] ea], B as [[rb cb] eb]. simpl. apply (ksum_app o laws).
Qed.

Lemma eqb_divmod rb ia ib i : ib < rb -> (rb * ia + ib =? i) = (ia =? i / rb) && (ib =? i mod rb).
Proof.
  intros H. apply eq_true_iff_eq. rewrite andb_true_iff, !Nat.eqb_eq. split.
  - intros E. subst i. split.
    + rewrite Nat.mul_comm, Nat.div_add_l by lia. rewrite Nat.div_small by assumption. lia.
    + rewrite Nat.add_comm, Nat.mul_comm, Nat.mod_add by lia. symmetry. apply Nat.mod_small. assumption.
  - intros [E1 E2]. subst. symmetry. apply Nat.div_mod. lia.
Qed.

Lemma ksum_flat_map {A B} (f : A -> list B) (l : list A) (g : B -> o) :
  ksum (flat_map f l) g = ksum l (fun a => ksum (f a) g).
Proof. induction l; simpl; [reflexivity | rewrite (ksum_app o laws), IHl; reflexivity]. Qed.
Lemma ksum_map {A B} (f : A -> B) (l : list A) (g : B -> o) : ksum (map f l) g = ksum l (fun a => g (f a)).
Proof. induction l; simpl; [reflexivity | rewrite IHl; reflexivity]. Qed.

(* dense(sparse_kron a b)[i][j] = dense(a)[i / rb][j / cb] * dense(b)[i mod rb][j mod cb]  (= dense kron) *)
Theorem sparse_kron_dense (A B : coo o) i j :
  (let '(rb, cb, eb) := B in Forall (fun e => let '(ib, jb, _) := e in ib < rb /\ jb < cb) eb) ->
  let '(rb, cb, _) := B in
  coo_dense o (sparse_kron o A B) i j = coo_dense o A (i / rb) (j / cb) * coo_dense o B (i mod rb) (j mod cb).
Proof.
  destruct A as [[ra ca] ea], B as [[rb cb] eb]. intros Hb. simpl.
  rewrite ksum_flat_map. rewrite <- (ksum_mul_r o laws).
  apply ksum_ext. intros [[ia ja] va] _. rewrite ksum_map. rewrite kif_mul by assumption.
  rewrite <- (ksum_mul_l o laws ) .
  replace (kif ((ia =? i / rb) && (ja =? j / cb))
             (ksum eb (fun a => va * (let '(a0, b, v) := a in kif ((a0 =? i mod rb) && (b =? j mod cb)) v))))
    with (ksum eb (fun a => kif ((ia =? i / rb) && (ja =? j / cb))
                              (va * (let '(a0, b, v) := a in kif ((a0 =? i mod rb) && (b =? j mod cb)) v)))).
  2:{ destruct ((ia =? i / rb) && (ja =? j / cb)); simpl; [reflexivity | apply (ksum_zero o laws)]. }
  apply ksum_ext. intros [[ib jb] vb] Hin.
  pose proof (proj1 (Forall_forall _ _) Hb _ Hin) as [H1 H2]. simpl in H1, H2.
  rewrite (eqb_divmod rb ia ib i H1), (eqb_divmod cb ja jb j H2).
  destruct (ia =? i / rb), (ja =? j / cb), (ib =? i mod rb), (jb =? j mod cb); simpl; ring.
Qed.

(* ---- outer product / inner products ---------------------------------------------------------------------- *)
Theorem from_state_vector_entry (psi : L) r c : r < length psi -> c < length psi ->
  get (from_state_vector o psi) (r * length psi + c) = get psi r * cj (get psi c).
Proof.
  intros Hr Hc. unfold from_state_vector. rewrite get_tab by nia.
  destruct (divmod_rc (length psi) r c Hc) as [E1 E2]. rewrite E1, E2. reflexivity.
Qed.

Lemma set_at_spec (l : L) i x k : k < length l ->
  get (set_at o l i x) k = if k =? i then x else get l k.
Proof. intros. unfold set_at. apply get_tab. assumption. Qed.

End StateProofs.

(* ---- sesquilinear forms: vdot / inner / DensityMatrix.overlap = Tr(A^dagger B) ---------------------------- *)
Section Sesqui.
Variable o : Kops.
Hypothesis laws : Klaws o.
Add Ring Kr5 : (K_ring o laws).
Open Scope K_scope.
Notation cj := (kconj o).
Notation L := (list o).

Lemma ksum_seq_shift n : forall s (f : nat -> o), ksum (seq s n) f = ksum (seq 0 n) (fun c => f (s + c)%nat).
Proof.
  induction n as [|n IH]; intros s f; [reflexivity|]. cbn [seq ksum fold_right].
  rewrite Nat.add_0_r. f_equal. change (fold_right (fun a acc => f a + acc) (k0 o) (seq (S s) n)) with (ksum (seq (S s) n) f).
  change (fold_right (fun a acc => f (s + a)%nat + acc) (k0 o) (seq 1 n)) with (ksum (seq 1 n) (fun c => f (s + c)%nat)).
  rewrite (IH (S s) f), (IH 1 (fun c => f (s + c)%nat)).
  apply ksum_ext. intros c _. f_equal. lia.
Qed.

(* a flat sum over a row-major D x D array is the double sum over rows and columns *)
Lemma ksumn_rows D : forall R (f : nat -> o),
  ksumn (R * D) f = ksumn R (fun r => ksumn D (fun c => f (r * D + c)%nat)).
Proof.
  induction R as [|R IH]; intros f; [reflexivity|].
  unfold ksumn in *. replace (S R * D)%nat with (R * D + D)%nat by lia.
  rewrite seq_app, (ksum_app o laws), IH. rewrite seq_S, (ksum_app o laws). cbn [ksum fold_right plus].
  rewrite (ksum_seq_shift D (R * D) f). ring.
Qed.

Theorem vdot_antilinear s (a b : L) : vdot o (vscale s a) b = cj s * vdot o a b.
Proof.
  unfold vdot. rewrite (proj1 (vscale_spec o s a)). unfold ksumn. rewrite <- (ksum_mul_l o laws).
  apply ksum_ext. intros k Hk. apply in_seq in Hk.
  rewrite (proj2 (vscale_spec o s a)) by lia. rewrite (conj_mul o laws). ring.
Qed.

Theorem vdot_conj_sym (a b : L) : length a = length b -> vdot o a b = cj (vdot o b a).
Proof.
  intros H. unfold vdot, ksumn. rewrite (ksum_conj o laws), H. apply ksum_ext. intros k _.
  rewrite (conj_mul o laws), (conj_inv o laws). ring.
Qed.

(* DensityMatrix.overlap(A, B) = sum_c (A^dagger B)[c,c] = Tr(A^dagger B) for row-major D x D data *)
Theorem dm_overlap_trace D (a b : L) : length a = (D * D)%nat ->
  dm_overlap o a b = ksumn D (fun c => ksumn D (fun r => cj (get a (r * D + c)) * get b (r * D + c))).
Proof.
  intros H. unfold dm_overlap, vdot. rewrite H, ksumn_rows. unfold ksumn. apply (ksum_swap o laws).
Qed.

End Sesqui.
