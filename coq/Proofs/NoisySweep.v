(* Invariant proofs for the noisy (quantum-jump) emu-mps stepping machine; see Properties/C18.v. *)
From Coq Require Import ZArith List Bool Lia Reals Lra.
From EV Require Import Base.Arith Gen.Brent Model.BrentLoop Model.MpsMachine Proofs.BrentProofs
  Proofs.MpsStep Proofs.MpsPhase Proofs.MpsSweep.
From EV Require Import Proofs.MpsSweepComplete Proofs.NoisyInv Proofs.NoisyBranches Proofs.NoisyComplete.
Import ListNotations.
Open Scope Z_scope.

Ltac sp := cbn [m_kind m_N m_steps m_times m_sweep m_l2r m_tidx m_cur m_tgt m_nl m_nr m_oc m_thr m_gap m_rf
  m_prevE m_curE m_sweeps m_etol m_maxsw o_norm o_unif o_energy o_same m_ev
  emit set_sweep set_l2r set_tidx set_cur set_tgt set_nl set_nr set_oc set_thr set_gap set_rf set_prevE
  set_curE set_sweeps set_onorm set_ounif set_oenergy set_osame].

Definition quiet (e : event R) : Prop := fill_of e = [] /\ jump_of e = [].

Lemma quiet_flat_map (l : list (event R)) :
  Forall quiet l -> flat_map fill_of l = [] /\ flat_map jump_of l = [].
Proof.
  induction 1 as [|e l [H1 H2] _ [IH1 IH2]]; [split; reflexivity|].
  cbn [flat_map]. rewrite H1, H2, IH1, IH2. split; reflexivity.
Qed.

Lemma Forall_flat_map {X Y} (P : Y -> Prop) (f : X -> list Y) (l : list X) :
  (forall x, Forall P (f x)) -> Forall P (flat_map f l).
Proof. intros H. induction l; cbn [flat_map]; [constructor|]. apply Forall_app. split; auto. Qed.

Lemma sweep_prefix_quiet (s : ms) (n : nat) : Forall quiet (sweep_prefix R ar s n).
Proof.
  unfold sweep_prefix. apply Forall_app; split; [|apply Forall_app; split].
  - apply Forall_flat_map. intros i. unfold l2r_block. repeat constructor.
  - unfold mid_block. repeat constructor.
  - apply Forall_flat_map. intros i. unfold r2l_call, r2l_block. repeat constructor.
Qed.

Lemma flat_map_app' {X Y} (f : X -> list Y) l1 l2 : flat_map f (l1 ++ l2) = flat_map f l1 ++ flat_map f l2.
Proof. induction l1; cbn; [reflexivity|]. rewrite IHl1, app_assoc. reflexivity. Qed.

(* one whole sweep of the noisy solver preserves the invariant *)
Theorem noisy_sweep_inv (s : ms) (n : nat) :
  wf s -> m_N s = Z.of_nat n + 3 -> sweep_start R s -> tinv s ->
  match iter_progress ar (Datatypes.S n + 1 + n + 1) s with
  | Ok s' => wf s' /\ m_N s' = m_N s /\ m_steps s' = m_steps s /\ m_times s' = m_times s /\
             sweep_start R s' /\ (is_finished s' = true \/ tinv s') /\ step_effect s s'
  | Err m => allowed_err m
  | OutOfFuel => False
  end.
Proof.
  intros Hwf HN HS Hti.
  pose proof Hwf as (Hk & HN3 & Hlen & Hsort). pose proof Hti as (Ht & Hcur & Hrf).
  assert (HT : tdvp_like R s) by (unfold tdvp_like; rewrite Hk; repeat split; [discriminate|lia|lia]).
  destruct (sweep_then_complete R ar s n HT HN HS) as (s1 & F1 & P1 & E1 & ->).
  destruct F1 as (Fk & FN & Fst & Fti & Ftx & Fcur & Ftg & Fthr & Fgap & Frf & _ & _ & _ & _ & _ & Fon & Fou & _ & Fos).
  destruct P1 as (Psw & Pl & Pnl & Pnr & Poc).
  set (s2 := before_complete R ar s1).
  assert (B : m_kind s2 = m_kind s1 /\ m_N s2 = m_N s1 /\ m_steps s2 = m_steps s1 /\ m_times s2 = m_times s1 /\
              m_tidx s2 = m_tidx s1 /\ m_cur s2 = m_cur s1 /\ m_tgt s2 = m_tgt s1 /\ m_rf s2 = m_rf s1 /\
              m_sweep s2 = 0 /\ m_oc s2 = 0 /\ m_nl s2 = m_nl s1 - 1 /\ m_nr s2 = m_nr s1 + 1 /\ m_l2r s2 = m_l2r s1 /\
              m_ev s2 = EvPair 0 1 (hdt R ar s1) false :: EvPopL R :: EvSingle 1 (nhdt R ar s1) :: EvPushR R 2 :: m_ev s1)
    by (unfold s2, before_complete; sp; repeat split; reflexivity).
  destruct B as (Bk & BN & Bst & Bti & Btx & Bcur & Btg & Brf & Bsw & Boc & Bnl & Bnr & Bl & Bev).
  clearbody s2.
  assert (T2 : forall k, tm s2 k = tm s k) by (intros k; unfold tm; rewrite Bti, Fti; reflexivity).
  assert (Hwf2 : wf s2).
  { unfold wf. rewrite Bk, Fk, BN, FN, Bti, Fti, Bst, Fst. repeat split; try assumption.
    intros k Hk'. rewrite !T2. apply Hsort. exact Hk'. }
  assert (Hc2 : cpos s2) by (unfold cpos; rewrite Bsw, Boc, Bnl, Bnr, Pnl, Pnr, BN, FN; repeat split; lia).
  assert (Hti2 : tinv s2).
  { unfold tinv, rfinv. rewrite Btx, Ftx, Bst, Fst, Bcur, Fcur, Btg, Ftg, Brf, Frf, !T2. exact Hti. }
  pose proof (noisy_sweep_complete_inv s2 Hwf2 Hc2 Hti2) as Hsc.
  unfold sweep_complete. rewrite Bk, Fk, Hk.
  destruct (sweep_complete_noisy ar s2) as [s3| m |]; cbn [res_bind]; [|exact Hsc|exact Hsc].
  destruct Hsc as (F3 & C3 & Fin3 & (new & Ev3 & Jn3 & Fl3)).
  destruct F3 as (Gk & GN & Gst & Gti & Gl & Gsw). destruct C3 as (Csw & Coc & Cnl & Cnr).
  assert (T3 : forall k, tm s3 k = tm s k) by (intros k; unfold tm; rewrite Gti, Bti, Fti; reflexivity).
  sp. split.
  { unfold wf. sp. rewrite Gk, Bk, Fk, GN, BN, FN, Gti, Bti, Fti, Gst, Bst, Fst. repeat split; try assumption.
    intros k Hk'. unfold tm. sp. rewrite Gti, Bti, Fti. apply Hsort. exact Hk'. }
  split; [rewrite GN, BN, FN; reflexivity|].
  split; [rewrite Gst, Bst, Fst; reflexivity|]. split; [rewrite Gti, Bti, Fti; reflexivity|].
  split; [unfold sweep_start, pos; sp; rewrite Csw, Cnl, Cnr, Coc; repeat split; reflexivity|].
  split.
  { destruct Fin3 as [Hf|Hi]; [left; unfold is_finished in *; sp; exact Hf|right].
    unfold tinv, rfinv in *. sp. unfold tm in *. sp. exact Hi. }
  unfold step_effect. sp.
  destruct (quiet_flat_map _ (sweep_prefix_quiet s n)) as (Qf & Qj).
  exists (EvSave R :: new ++ [EvPair 0 1 (hdt R ar s1) false; EvPopL R; EvSingle 1 (nhdt R ar s1); EvPushR R 2]
          ++ rev (sweep_prefix R ar s n)).
  split.
  { rewrite Ev3, Bev, E1. cbn [app]. rewrite <- !app_assoc. reflexivity. }
  assert (Qr : flat_map fill_of (rev (sweep_prefix R ar s n)) = [] /\ flat_map jump_of (rev (sweep_prefix R ar s n)) = []).
  { apply quiet_flat_map. apply Forall_rev. apply sweep_prefix_quiet. }
  destruct Qr as (Qrf & Qrj).
  cbn [flat_map fill_of jump_of app]. rewrite !flat_map_app'. cbn [flat_map fill_of jump_of app]. rewrite Qrf, Qrj, !app_nil_r.
  rewrite Btx, Ftx, !T2 in Jn3. rewrite Btx, Ftx, !T2 in Fl3.
  split; [exact Jn3| exact Fl3].
Qed.
