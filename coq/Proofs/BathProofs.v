(* The left and right bath updates are adjoint to each other under the full contraction over a cut, for every
   commutative ring, every physical dimension, every pair of factors and all baths; hence the contraction of
   the left bath with the right bath is the same number at every cut of a chain (the value <psi|H|psi> the sweeps
   rely on: the effective Hamiltonians of all sites are projections of one and the same operator). *)
From Coq Require Import List Arith Lia Ring Bool ZArith.
From EV Require Import Model.TransferMat Proofs.TransferMat Model.Bath.
Import ListNotations.

Section BathProofs.
Variable K : Type.
Variable Ko : RingOps K.
Hypothesis Kring : ring_theory (k0 Ko) (k1 Ko) (kadd Ko) (kmul Ko) (ksub Ko) (kopp Ko) (@eq K).
Add Ring KRingB : Kring.
Local Infix "[+]" := (kadd Ko) (at level 50, left associativity).
Local Infix "[*]" := (kmul Ko) (at level 40, left associativity).
Local Notation sumL := (sumL Ko).

Lemma sumL_swap (A B : Type) (l1 : list A) (l2 : list B) (f : A -> B -> K) :
  sumL l1 (fun x => sumL l2 (fun y => f x y)) = sumL l2 (fun y => sumL l1 (fun x => f x y)).
Proof.
  induction l1 as [|x l1 IH]; simpl.
  - symmetry. apply (sumL_zero K Ko Kring).
  - rewrite IH. rewrite <- (sumL_add K Ko Kring). reflexivity.
Qed.

Lemma sumL_ext' (A : Type) (l : list A) (f g : A -> K) : (forall x, f x = g x) -> sumL l f = sumL l g.
Proof. intros H. apply (sumL_ext K Ko). intros x _. apply H. Qed.

Lemma at3_right_step d (A W : T3 K) R t : at3 (right_step Ko d A W R) t = rstep_at Ko d A W R t.
Proof. destruct t as [[a b] c]. reflexivity. Qed.

Lemma at3_left_step d (A W : T3 K) L t : at3 (left_step Ko d A W L) t = lstep_at Ko d A W L t.
Proof. destruct t as [[a b] c]. reflexivity. Qed.

Theorem bath_adjoint d (A W : T3 K) (L R : B3 K) :
  pair3 Ko (rdims A W) (left_step Ko d A W L) R = pair3 Ko (ldims A W) L (right_step Ko d A W R).
Proof.
  unfold pair3.
  transitivity (sumL (idxd (rdims A W)) (fun r => sumL (idx2 d) (fun ij => sumL (idxd (ldims A W))
                 (fun l => at3 L l [*] tw Ko d A W l ij r [*] at3 R r)))).
  { apply sumL_ext'. intros r. rewrite at3_left_step. unfold lstep_at.
    rewrite <- (sumL_scale_r K Ko Kring). apply sumL_ext'. intros ij.
    rewrite <- (sumL_scale_r K Ko Kring). reflexivity. }
  transitivity (sumL (idxd (ldims A W)) (fun l => sumL (idx2 d) (fun ij => sumL (idxd (rdims A W))
                 (fun r => at3 L l [*] tw Ko d A W l ij r [*] at3 R r)))).
  { rewrite sumL_swap.
    transitivity (sumL (idx2 d) (fun ij => sumL (idxd (ldims A W)) (fun l => sumL (idxd (rdims A W))
                 (fun r => at3 L l [*] tw Ko d A W l ij r [*] at3 R r)))).
    { apply sumL_ext'. intros ij. apply sumL_swap. }
    apply sumL_swap. }
  apply sumL_ext'. intros l. rewrite at3_right_step. unfold rstep_at.
  rewrite <- (sumL_scale K Ko Kring). apply sumL_ext'. intros ij.
  rewrite <- (sumL_scale K Ko Kring). apply sumL_ext'. intros r. ring.
Qed.

(* the contraction over a cut does not depend on the cut *)
Theorem cut_independent d : forall (As1 Ws1 As2 Ws2 : list (T3 K)) (L R : B3 K) n m,
  chain_ok n As1 Ws1 m ->
  pair3 Ko m (lbath Ko d As1 Ws1 L) (rbath Ko d As2 Ws2 R)
  = pair3 Ko n L (rbath Ko d (As1 ++ As2) (Ws1 ++ Ws2) R).
Proof.
  induction As1 as [|A As1 IH]; intros Ws1 As2 Ws2 L R n m Hc; destruct Ws1 as [|W Ws1]; simpl in Hc;
    try contradiction.
  - subst m. reflexivity.
  - destruct Hc as [Hn Hc]. simpl. rewrite (IH Ws1 As2 Ws2 _ R _ m Hc).
    rewrite bath_adjoint. rewrite Hn. reflexivity.
Qed.

(* in particular the two ends agree: sweeping all the way right or all the way left gives the same number *)
Corollary ends_agree d (As Ws : list (T3 K)) (L R : B3 K) n m :
  chain_ok n As Ws m ->
  pair3 Ko m (lbath Ko d As Ws L) R = pair3 Ko n L (rbath Ko d As Ws R).
Proof.
  intros Hc. pose proof (cut_independent d As Ws [] [] L R n m Hc) as H.
  simpl in H. rewrite !app_nil_r in H. destruct As, Ws; exact H.
Qed.

(* ---- the tabulated variant used for evaluation is the same function ---- *)
Lemma in_idx3 n1 n2 n3 a b c : In (a, b, c) (idx3 n1 n2 n3) <-> a < n1 /\ b < n2 /\ c < n3.
Proof.
  unfold idx3. rewrite in_flat_map. split.
  - intros [a' [Ha H]]. apply in_flat_map in H. destruct H as [b' [Hb H]].
    apply in_map_iff in H. destruct H as [c' [E Hc]]. inversion E; subst.
    apply in_seq in Ha. apply in_seq in Hb. apply in_seq in Hc. lia.
  - intros [Ha [Hb Hc]]. exists a. split; [apply in_seq; lia|].
    apply in_flat_map. exists b. split; [apply in_seq; lia|].
    apply in_map_iff. exists c. split; [reflexivity|apply in_seq; lia].
Qed.

Lemma nth_map_seq (X : Type) (f : nat -> X) n i dflt : i < n -> nth i (map f (seq 0 n)) dflt = f i.
Proof.
  intros Hi. rewrite (nth_indep _ dflt (f 0)) by (rewrite map_length, seq_length; exact Hi).
  rewrite map_nth. rewrite seq_nth by exact Hi. reflexivity.
Qed.

Lemma memo_at n (B : B3 K) t : In t (idxd n) -> at3 (memo Ko n B) t = at3 B t.
Proof.
  destruct n as [[n1 n2] n3]. destruct t as [[a b] c]. simpl. intros H. apply in_idx3 in H.
  destruct H as [Ha [Hb Hc]]. unfold memo, bath_of_list, bath_list.
  rewrite nth_map_seq by exact Ha. rewrite nth_map_seq by exact Hb. rewrite nth_map_seq by exact Hc. reflexivity.
Qed.

Lemma rstep_at_memo d (A W : T3 K) (R : B3 K) l :
  rstep_at Ko d A W (memo Ko (rdims A W) R) l = rstep_at Ko d A W R l.
Proof.
  unfold rstep_at. apply sumL_ext'. intros ij. apply (sumL_ext K Ko). intros r Hr.
  rewrite memo_at by exact Hr. reflexivity.
Qed.

Lemma rstep_at_ext d (A W : T3 K) (R R' : B3 K) l :
  (forall t, at3 R t = at3 R' t) -> rstep_at Ko d A W R l = rstep_at Ko d A W R' l.
Proof. intros H. unfold rstep_at. apply sumL_ext'. intros ij. apply sumL_ext'. intros r. rewrite H. reflexivity. Qed.

Theorem rbath_m_eq d : forall (As Ws : list (T3 K)) (R : B3 K) t,
  at3 (rbath_m Ko d As Ws R) t = at3 (rbath Ko d As Ws R) t.
Proof.
  induction As as [|A As IH]; intros Ws R t; destruct Ws as [|W Ws]; simpl; try reflexivity.
  rewrite !at3_right_step. rewrite rstep_at_memo. apply rstep_at_ext. intros t'. apply IH.
Qed.

End BathProofs.
