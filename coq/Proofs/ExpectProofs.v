(* expect_spec: the fully contracted environment of a state and an operator chain is the dense expectation value.
   For every number of sites, all bond dimensions, every physical dimension d, over every commutative ring with a
   ring involution:
     rbath d As Ws 1 (a, b, c) = sum_{i, j in {0..d-1}^N} conj(ramp As i a) * ramp Ws (i (x) j) b * ramp As j c
   and hence (bath adjointness, Proofs/BathProofs.v) the left bath swept over the whole chain - which is what
   MPO.expect computes with new_left_bath - equals  sum_{i,j} conj(<i|psi>) <i|O|j> <j|psi>. *)
From Coq Require Import List Arith Lia Ring Bool ZArith.
From EV Require Import Model.TransferMat Model.MPSAlg Model.Bath
                       Proofs.TransferMat Proofs.MPSAlg Proofs.MPSInner Proofs.BathProofs.
Import ListNotations.

(* operator index string of the pair (bra string i, ket string j): out*d + in per site *)
Fixpoint pair_idx (d : nat) (i j : list nat) : list nat :=
  match i, j with x :: i', y :: j' => (x * d + y) :: pair_idx d i' j' | _, _ => [] end.

Section ExpectProofs.
Variable K : Type.
Variable Ko : RingOps K.
Hypothesis Kring : ring_theory (k0 Ko) (k1 Ko) (kadd Ko) (kmul Ko) (ksub Ko) (kopp Ko) (@eq K).
Hypothesis conj_add : forall a b, kconj Ko (kadd Ko a b) = kadd Ko (kconj Ko a) (kconj Ko b).
Hypothesis conj_mul : forall a b, kconj Ko (kmul Ko a b) = kmul Ko (kconj Ko a) (kconj Ko b).
Hypothesis conj_zero : kconj Ko (k0 Ko) = k0 Ko.
Hypothesis conj_one : kconj Ko (k1 Ko) = k1 Ko.
Add Ring KRingE : Kring.
Local Notation "'zero'" := (k0 Ko).
Local Notation "'one'" := (k1 Ko).
Local Infix "[+]" := (kadd Ko) (at level 50, left associativity).
Local Infix "[*]" := (kmul Ko) (at level 40, left associativity).
Local Notation sumn := (sumn Ko).
Local Notation sumL := (sumL Ko).
Local Notation cj := (kconj Ko).
Local Notation T3 := (T3 K).
Local Notation ramp := (ramp K Ko).
Local Notation amp := (amp Ko).
Local Notation sumn_ext := (sumn_ext K Ko).
Local Notation sumL_ext := (sumL_ext K Ko).
Local Notation sumL_sumn_swap := (sumL_sumn_swap K Ko Kring).

Variable d : nat.

(* ---- sums over the index lists of Model/Bath.v as nested range sums ---- *)
Lemma sumL_idx2 (f : nat * nat -> K) :
  sumL (idx2 d) f = sumn d (fun i => sumn d (fun j => f (i, j))).
Proof.
  unfold idx2. rewrite (sumL_flat_map K Ko Kring), (sumL_seq K Ko Kring).
  apply sumn_ext; intros i _. rewrite (sumL_map K Ko), (sumL_seq K Ko Kring). reflexivity.
Qed.

Lemma sumL_idx3 n1 n2 n3 (f : I3 -> K) :
  sumL (idx3 n1 n2 n3) f = sumn n1 (fun a => sumn n2 (fun b => sumn n3 (fun c => f (a, b, c)))).
Proof.
  unfold idx3. rewrite (sumL_flat_map K Ko Kring), (sumL_seq K Ko Kring).
  apply sumn_ext; intros a _. rewrite (sumL_flat_map K Ko Kring), (sumL_seq K Ko Kring).
  apply sumn_ext; intros b _. rewrite (sumL_map K Ko), (sumL_seq K Ko Kring). reflexivity.
Qed.

(* ---- moving list sums through three range sums ---- *)
Lemma sumL_sumn3_swap (X : Type) (l : list X) n1 n2 n3 (F : X -> nat -> nat -> nat -> K) :
  sumL l (fun x => sumn n1 (fun a => sumn n2 (fun b => sumn n3 (fun c => F x a b c)))) =
  sumn n1 (fun a => sumn n2 (fun b => sumn n3 (fun c => sumL l (fun x => F x a b c)))).
Proof.
  rewrite (sumL_sumn_swap X l n1 (fun x a => sumn n2 (fun b => sumn n3 (fun c => F x a b c)))).
  apply sumn_ext; intros a _.
  rewrite (sumL_sumn_swap X l n2 (fun x b => sumn n3 (fun c => F x a b c))).
  apply sumn_ext; intros b _.
  apply (sumL_sumn_swap X l n3 (fun x c => F x a b c)).
Qed.

Lemma sumL2_sumn3_swap (X Y : Type) (l1 : list X) (l2 : list Y) n1 n2 n3 (F : X -> Y -> nat -> nat -> nat -> K) :
  sumL l1 (fun x => sumL l2 (fun y => sumn n1 (fun a => sumn n2 (fun b => sumn n3 (fun c => F x y a b c))))) =
  sumn n1 (fun a => sumn n2 (fun b => sumn n3 (fun c => sumL l1 (fun x => sumL l2 (fun y => F x y a b c))))).
Proof.
  transitivity (sumL l1 (fun x => sumn n1 (fun a => sumn n2 (fun b => sumn n3 (fun c =>
                  sumL l2 (fun y => F x y a b c)))))).
  { apply sumL_ext; intros x _. apply (sumL_sumn3_swap Y l2 n1 n2 n3 (fun y a b c => F x y a b c)). }
  apply (sumL_sumn3_swap X l1 n1 n2 n3 (fun x a b c => sumL l2 (fun y => F x y a b c))).
Qed.

Lemma sum3_mul n1 n2 n3 (f g h : nat -> K) :
  sumn n1 f [*] sumn n2 g [*] sumn n3 h =
  sumn n1 (fun a => sumn n2 (fun b => sumn n3 (fun c => f a [*] g b [*] h c))).
Proof.
  rewrite (sumn_mul_sumn K Ko Kring). rewrite <- (sumn_scale_r K Ko Kring). apply sumn_ext; intros a _.
  rewrite <- (sumn_scale_r K Ko Kring). apply sumn_ext; intros b _.
  rewrite (sumn_scale K Ko Kring). reflexivity.
Qed.

(* ---- the right environment is the double sum over index strings ---- *)
Definition dense_env (As Ws : list T3) (a b c : nat) : K :=
  sumL (strings (repeat d (length As))) (fun i => sumL (strings (repeat d (length As))) (fun j =>
    cj (ramp As i a) [*] ramp Ws (pair_idx d i j) b [*] ramp As j c)).

Lemma rbath_strings : forall (As Ws : list T3) a b c, length Ws = length As ->
  rbath Ko d As Ws (ones3 Ko) a b c = dense_env As Ws a b c.
Proof.
  induction As as [|A As IH]; intros Ws a b c Hl.
  - destruct Ws; [|discriminate]. unfold dense_env, ones3. cbn. rewrite conj_one. ring.
  - destruct Ws as [|W Ws]; [discriminate|]. cbn [length] in Hl. injection Hl as Hl.
    unfold dense_env. cbn [length repeat].
    change (strings (d :: repeat d (length As))) with
      (flat_map (fun s => map (cons s) (strings (repeat d (length As)))) (seq 0 d)).
    set (S' := strings (repeat d (length As))).
    cbn [rbath]. unfold right_step, rstep_at. rewrite sumL_idx2.
    (* right-hand side: peel the first site off both strings *)
    rewrite (sumL_flat_map K Ko Kring), (sumL_seq K Ko Kring).
    apply sumn_ext; intros i _. rewrite (sumL_map K Ko).
    transitivity (sumn d (fun j => sumL S' (fun i' => sumL S' (fun j' =>
        sumn (dr A) (fun a' => sumn (dr W) (fun b' => sumn (dr A) (fun c' =>
          (cj (tf A a i a') [*] cj (ramp As i' a')) [*] (tf W b (i * d + j) b' [*] ramp Ws (pair_idx d i' j') b')
          [*] (tf A c j c' [*] ramp As j' c')))))))).
    2:{ symmetry. rewrite <- (sumL_sumn_swap _ S' d). apply sumL_ext; intros i' _.
        rewrite (sumL_flat_map K Ko Kring), (sumL_seq K Ko Kring).
        apply sumn_ext; intros j _. rewrite (sumL_map K Ko). apply sumL_ext; intros j' _.
        cbn [pair_idx MPSInner.ramp].
        rewrite (conj_sumn K Ko conj_add conj_zero).
        rewrite (sumn_ext (dr A) (fun a' => cj (tf A a i a' [*] ramp As i' a'))
                   (fun a' => cj (tf A a i a') [*] cj (ramp As i' a'))) by (intros; apply conj_mul).
        apply sum3_mul. }
    apply sumn_ext; intros j _.
    rewrite (sumL2_sumn3_swap _ _ S' S' (dr A) (dr W) (dr A)
      (fun i' j' a' b' c' =>
          (cj (tf A a i a') [*] cj (ramp As i' a')) [*] (tf W b (i * d + j) b' [*] ramp Ws (pair_idx d i' j') b')
          [*] (tf A c j c' [*] ramp As j' c'))).
    unfold rdims, idxd. rewrite sumL_idx3.
    apply sumn_ext; intros a' _. apply sumn_ext; intros b' _. apply sumn_ext; intros c' _.
    cbn [tw at3]. rewrite (IH Ws a' b' c' Hl). unfold dense_env. fold S'.
    rewrite <- (sumL_scale K Ko Kring). apply sumL_ext; intros i' _.
    rewrite <- (sumL_scale K Ko Kring). apply sumL_ext; intros j' _. ring.
Qed.

(* ---- MPO.expect: the left bath swept over the whole chain, read at its single entry ---- *)
Theorem expect_spec : forall (As Ws : list T3),
  chain_ok (1, 1, 1) As Ws (1, 1, 1) ->
  forall (x : K) (fa fw : list nat -> K),
  lbath Ko d As Ws (ones3 Ko) 0 0 0 = x ->
  (forall i, In i (strings (repeat d (length As))) -> amp As i = Some (fa i)) ->
  (forall i j, In i (strings (repeat d (length As))) -> In j (strings (repeat d (length As))) ->
     amp Ws (pair_idx d i j) = Some (fw (pair_idx d i j))) ->
  x = sumL (strings (repeat d (length As))) (fun i => sumL (strings (repeat d (length As))) (fun j =>
        cj (fa i) [*] fw (pair_idx d i j) [*] fa j)).
Proof.
  intros As Ws Hc x fa fw Hx HA HW.
  assert (Hl : length Ws = length As).
  { clear -Hc. revert Ws Hc. generalize (1, 1, 1) at 1. induction As as [|A As IH]; intros n Ws Hc; destruct Ws as [|W Ws];
      cbn in Hc; try contradiction; [reflexivity|]. destruct Hc as (_ & Hc). cbn [length]. f_equal. exact (IH _ _ Hc). }
  pose proof (ends_agree K Ko Kring d As Ws (ones3 Ko) (ones3 Ko) (1, 1, 1) (1, 1, 1) Hc) as E.
  unfold pair3 in E. cbn [idxd idx3 seq flat_map map app sumL at3] in E.
  unfold ones3 at 2 3 in E.
  assert (E' : lbath Ko d As Ws (ones3 Ko) 0 0 0 = rbath Ko d As Ws (ones3 Ko) 0 0 0).
  { transitivity (lbath Ko d As Ws (ones3 Ko) 0 0 0 [*] one [+] zero); [ring|]. rewrite E. ring. }
  rewrite <- Hx, E', (rbath_strings As Ws 0 0 0 Hl). unfold dense_env.
  apply sumL_ext; intros i Hi. apply sumL_ext; intros j Hj.
  rewrite (amp_ramp K Ko Kring _ _ _ (HA i Hi)), (amp_ramp K Ko Kring _ _ _ (HA j Hj)),
          (amp_ramp K Ko Kring _ _ _ (HW i j Hi Hj)). reflexivity.
Qed.

End ExpectProofs.

(* premises are satisfiable: the operator / state pair of Proofs/ZipProofs.v is a fitting chain with all amplitudes defined *)
From EV Require Import Model.Zip Proofs.ZipProofs.
Lemma expect_example :
  chain_ok (1, 1, 1) ex_bot ex_top (1, 1, 1) /\
  forallb (fun i => match amp gi_ops ex_bot i with Some _ => true | None => false end) (strings (repeat 2 2)) = true /\
  forallb (fun i => forallb (fun j => match amp gi_ops ex_top (pair_idx 2 i j) with Some _ => true | None => false end)
                      (strings (repeat 2 2))) (strings (repeat 2 2)) = true.
Proof. split; [cbn; repeat split; reflexivity | split; vm_compute; reflexivity]. Qed.

(* executable form used by the correspondence: MPO.expect on Gaussian-integer chains *)
Definition expect_gi (d : nat) (As Ws : list RawT) : GI :=
  lbath gi_ops d (map of_raw As) (map of_raw Ws) (ones3 gi_ops) 0 0 0.
