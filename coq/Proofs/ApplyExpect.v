(* <psi | O psi> computed two ways agree: MPS.inner(psi, MPO.apply_to(psi)) (zip-up product with any factorising QR
   oracle, then the transfer contraction of inner) equals MPO.expect(psi) (the left bath swept over the chain), for every
   number of sites, all bond dimensions, every local dimension, over every commutative ring with involution. *)
From Coq Require Import List Arith Lia Ring Bool ZArith.
From EV Require Import Model.TransferMat Model.MPSAlg Model.Zip Model.Bath
                       Proofs.TransferMat Proofs.MPSAlg Proofs.MPSInner Proofs.BathProofs Proofs.ZipProofs Proofs.ExpectProofs.
Import ListNotations.

Section ApplyExpect.
Variable K : Type.
Variable Ko : RingOps K.
Hypothesis Kring : ring_theory (k0 Ko) (k1 Ko) (kadd Ko) (kmul Ko) (ksub Ko) (kopp Ko) (@eq K).
Hypothesis conj_add : forall a b, kconj Ko (kadd Ko a b) = kadd Ko (kconj Ko a) (kconj Ko b).
Hypothesis conj_mul : forall a b, kconj Ko (kmul Ko a b) = kmul Ko (kconj Ko a) (kconj Ko b).
Hypothesis conj_zero : kconj Ko (k0 Ko) = k0 Ko.
Hypothesis conj_one : kconj Ko (k1 Ko) = k1 Ko.
Add Ring KRingAE : Kring.
Local Infix "[*]" := (kmul Ko) (at level 40, left associativity).
Local Notation sumL := (sumL Ko).
Local Notation cj := (kconj Ko).
Local Notation T3 := (T3 K).
Local Notation ramp := (ramp K Ko).

Variable d : nat.
Variable qr : QR K.
Hypothesis Hqr : QRok K Ko qr.

(* with e = 1 the index maps of the zip statement are the pair index and the identity *)
Lemma top_idx_1 : forall bo m, top_idx d 1 bo m = pair_idx d bo m.
Proof. induction bo as [|s bo IH]; intros [|x m]; cbn [top_idx pair_idx]; try reflexivity. rewrite Nat.div_1_r, IH. reflexivity. Qed.
Lemma bot_idx_1 : forall bo m, length m = length bo -> bot_idx 1 bo m = m.
Proof.
  induction bo as [|s bo IH]; intros [|x m] Hl; cbn [bot_idx]; try reflexivity; try discriminate.
  cbn [length] in Hl. injection Hl as Hl. rewrite Nat.mod_1_r, Nat.mul_1_r, Nat.add_0_r, (IH m Hl). reflexivity.
Qed.

Lemma in_strings_repeat : forall n b, In b (strings (repeat d n)) -> length b = n /\ Forall (fun s => s < d) b.
Proof.
  induction n as [|n IH]; intros b Hb; cbn [repeat strings] in Hb.
  - destruct Hb as [<-|[]]. split; [reflexivity|constructor].
  - apply in_flat_map in Hb. destruct Hb as (s & Hs & Hb). apply in_map_iff in Hb. destruct Hb as (b' & <- & Hb').
    destruct (IH b' Hb') as (Hl & Hf). apply in_seq in Hs. split; [cbn; congruence | constructor; [lia|exact Hf]].
Qed.

(* a successful zip forces every physical dimension of the operand to be d*e *)
Lemma zip_go_dp e : forall (tops bots : list T3) i Sl top bot Fs,
  zip_go Ko d e qr i Sl top bot tops bots = Some Fs -> map (@dp K) (bot :: bots) = repeat (d * e) (S (length bots))
  /\ map (@dp K) Fs = repeat (d * e) (S (length bots)) /\ length tops = length bots.
Proof.
  induction tops as [|top2 tops IH]; intros bots i Sl top bot Fs H; cbn [zip_go] in H;
    destruct ((dp Sl =? dl top) && (dr Sl =? dl bot) && (dp top =? d * d) && (dp bot =? d * e)) eqn:G; try discriminate;
    apply andb_true_iff in G; destruct G as (_ & G); apply Nat.eqb_eq in G;
    destruct (qr i (dl Sl * (d * e)) (dr top * dr bot) (zmat Ko d e Sl top bot)) as [[k L] R].
  - destruct bots; [|discriminate]. injection H as <-. cbn. rewrite G. repeat split.
  - destruct bots as [|bot2 bots]; [discriminate|].
    destruct (zip_go Ko d e qr (S i) _ top2 bot2 tops bots) as [Fs2|] eqn:E2; [|discriminate]. injection H as <-.
    destruct (IH _ _ _ _ _ _ E2) as (H1 & H2 & H3). cbn [map length repeat] in *. rewrite G, H2. cbn [dp Zip.memo3 of_list3].
    repeat split; [f_equal; exact H1 | congruence].
Qed.

(* the amplitudes of the zip product in right-amplitude form (what Proofs/ZipProofs.zip_contract states with amp) *)
Lemma zip_ramp_e1 : forall (Ws As Fs : list T3), zip_right Ko d 1 qr Ws As = Some Fs ->
  forall W0 A0, dr (last Ws W0) = 1 -> dr (last As A0) = 1 ->
  forall bo, length bo = length Ws -> Forall (fun s => s < d) bo ->
  ramp Fs bo 0 = sumL (strings (repeat d (length Ws))) (fun m => ramp Ws (pair_idx d bo m) 0 [*] ramp As m 0).
Proof.
  intros Ws As Fs H W0 A0 Hlt Hlb bo Hlen Hall.
  unfold zip_right in H. destruct (Nat.eqb_spec (length Ws) (length As)) as [El|]; [|discriminate].
  destruct Ws as [|top tops]; [discriminate|]. destruct As as [|bot bots]; [discriminate|].
  destruct bo as [|s bo]; [discriminate|]. cbn [length] in Hlen, El. injection Hlen as Hlen. injection El as El.
  assert (Hlt' : dr (last tops top) = 1) by (rewrite <- (proj1 (last_cons_indep _ tops top W0 W0)); exact Hlt).
  assert (Hlb' : dr (last bots bot) = 1) by (rewrite <- (proj1 (last_cons_indep _ bots bot A0 A0)); exact Hlb).
  assert (Hall' : Forall (fun x => x < d * 1) (s :: bo)) by (rewrite Nat.mul_1_r; exact Hall).
  rewrite (zip_go_ramp K Ko Kring d 1 Nat.lt_0_1 qr Hqr tops bots 0 (ones_slider Ko) top bot Fs H Hlt' Hlb' s bo Hlen Hall' 0)
    by (cbn; lia).
  cbn [dp dr ones_slider tf]. rewrite !(sumn_one K Ko Kring).
  rewrite (framp_strings K Ko Kring d 1 (top :: tops) (bot :: bots) (s :: bo) 0 0) by (cbn [length]; congruence).
  transitivity (sumL (strings (repeat d (length (top :: tops))))
    (fun m => ramp (top :: tops) (top_idx d 1 (s :: bo) m) 0 [*] ramp (bot :: bots) (bot_idx 1 (s :: bo) m) 0)); [ring|].
  apply (sumL_ext K Ko). intros m Hm. destruct (in_strings_repeat _ _ Hm) as (Hml & _).
  rewrite top_idx_1, bot_idx_1 by (cbn [length] in *; congruence). reflexivity.
Qed.

Theorem inner_apply_is_expect : forall (As Ws Fs : list T3) (x : K),
  zip_right Ko d 1 qr Ws As = Some Fs ->
  chain_ok (1, 1, 1) As Ws (1, 1, 1) ->
  forall A0 W0, dr (last As A0) = 1 -> dr (last Ws W0) = 1 ->
  inner Ko As Fs = Some x ->
  x = lbath Ko d As Ws (ones3 Ko) 0 0 0.
Proof.
  intros As Ws Fs x Hz Hc A0 W0 HlA HlW Hin.
  assert (Hl : length Ws = length As).
  { clear -Hc. revert Ws Hc. generalize (1, 1, 1) at 1. induction As as [|A As IH]; intros n Ws Hc; destruct Ws as [|W Ws];
      cbn in Hc; try contradiction; [reflexivity|]. destruct Hc as (_ & Hc). cbn [length]. f_equal. exact (IH _ _ Hc). }
  (* expectation side: left bath = right bath = dense double sum *)
  pose proof (ends_agree K Ko Kring d As Ws (ones3 Ko) (ones3 Ko) (1, 1, 1) (1, 1, 1) Hc) as E.
  unfold pair3 in E. cbn [idxd idx3 seq flat_map map app TransferMat.sumL at3] in E. unfold ones3 at 2 3 in E.
  assert (E' : lbath Ko d As Ws (ones3 Ko) 0 0 0 = rbath Ko d As Ws (ones3 Ko) 0 0 0).
  { transitivity (kadd Ko (lbath Ko d As Ws (ones3 Ko) 0 0 0 [*] k1 Ko) (k0 Ko)); [ring|]. rewrite E. ring. }
  rewrite E', (rbath_strings K Ko Kring conj_add conj_mul conj_zero conj_one d As Ws 0 0 0 Hl). unfold dense_env.
  (* inner side *)
  unfold inner in Hin. destruct (inner_go_renv K Ko Kring _ _ _ _ Hin) as (Hx & Hm).
  cbn [length nth] in Hx. rewrite Hx.
  transitivity (renv K Ko As Fs 0 0); [cbn [TransferMat.sumn TransferMat.dotf]; ring|].
  rewrite (renv_strings K Ko Kring conj_add conj_mul conj_zero conj_one As Fs 0 0 Hm).
  (* physical dimensions: every factor of the operand has dimension d *)
  assert (Hdp : map (@dp K) As = repeat d (length As)).
  { unfold zip_right in Hz. destruct (Nat.eqb_spec (length Ws) (length As)); [|discriminate].
    destruct Ws as [|top tops]; [discriminate|]. destruct As as [|bot bots]; [discriminate|].
    destruct (zip_go_dp 1 _ _ _ _ _ _ _ Hz) as (H1 & _ & _). rewrite Nat.mul_1_r in H1. exact H1. }
  rewrite Hdp. apply (sumL_ext K Ko). intros i Hi. destruct (in_strings_repeat _ _ Hi) as (Hil & Hif).
  rewrite (zip_ramp_e1 Ws As Fs Hz W0 A0 HlW HlA i ltac:(congruence) Hif). rewrite Hl.
  rewrite <- (sumL_scale K Ko Kring). apply (sumL_ext K Ko). intros j _. ring.
Qed.

End ApplyExpect.

(* non-vacuity: on the operator / state pair of Proofs/ZipProofs.v both sides are defined (and equal, by evaluation) *)
Lemma inner_apply_example :
  match zip_right gi_ops 2 1 qr_left_identity ex_top ex_bot with
  | Some Fs => inner gi_ops ex_bot Fs = Some (lbath gi_ops 2 ex_bot ex_top (ones3 gi_ops) 0 0 0)
  | None => False
  end /\ chain_ok (1, 1, 1) ex_bot ex_top (1, 1, 1).
Proof. split; [vm_compute; reflexivity | cbn; repeat split; reflexivity]. Qed.
