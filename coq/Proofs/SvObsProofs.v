(* Proofs about Model/SvObs.v (C13): the sliced views select bits, occupation / correlation are the Born sums,
   energy moments algebra.  Everything for an arbitrary coefficient structure with [Klaws]. *)
From Coq Require Import List Arith Bool Lia Ring.
From EV Require Import Model.SvBase Model.SvHam Model.SvState Model.SvObs Proofs.SvBaseProofs Proofs.SvHamProofs.
Import ListNotations.

Lemma divmod_ij N i j : j < N -> (i * N + j) / N = i /\ (i * N + j) mod N = j.
Proof.
  intros. split.
  - rewrite Nat.div_add_l by lia. rewrite Nat.div_small by lia. lia.
  - rewrite Nat.add_comm, Nat.mod_add by lia. apply Nat.mod_small; lia.
Qed.

Lemma dm_pred_i_bit N i k : dm_pred_i N i k = (bit N i k =? 1).
Proof. reflexivity. Qed.

Lemma dm_pred_ij_bit N i j k : i < j -> j < N -> dm_pred_ij N i j k = (bit N i k =? 1) && (bit N j k =? 1).
Proof.
  intros Hij Hj. rewrite <- (diag_pred_ij_bit N i j k Hij Hj).
  unfold dm_pred_ij, diag_pred_ij. rewrite rest_pow by lia.
  assert (E3 : rest (2 ^ i * qrest N i) (2 ^ i * 2 ^ (j - i - 1)) 2 = qrest N j).
  { unfold rest. rewrite (qrest_split N i j) by assumption.
    pose proof (qrest_pos N j). pose proof (pow2_pos i). pose proof (pow2_pos (j - i - 1)).
    replace (2 ^ i * (qrest N j * (2 ^ (j - i - 1) * 2))) with (qrest N j * (2 ^ i * 2 ^ (j - i - 1) * 2)) by lia.
    apply Nat.div_mul. nia. }
  rewrite E3. reflexivity.
Qed.

Section ObsProofs.
Variable o : Kops.
Hypothesis laws : Klaws o.
Add Ring Kr13 : (K_ring o laws).
Open Scope K_scope.
Notation zero := (k0 o).
Notation one := (k1 o).
Notation cj := (kconj o).
Notation L := (list o).

(* the definitions the observables are compared with: weights w_k summed over the basis states whose bits are set *)
Definition occ_def (N : nat) (w : nat -> o) (i : nat) : o :=
  ksumn (2 ^ N) (fun k => kif (bit N i k =? 1) (w k)).
Definition corr_def (N : nat) (w : nat -> o) (i j : nat) : o :=
  ksumn (2 ^ N) (fun k => kif ((bit N i k =? 1) && (bit N j k =? 1)) (w k)).

Lemma corr_def_sym N w i j : corr_def N w i j = corr_def N w j i.
Proof. unfold corr_def. apply (ksumn_ext o). intros k _. rewrite andb_comm. reflexivity. Qed.
Lemma corr_def_diag N w i : corr_def N w i i = occ_def N w i.
Proof. unfold corr_def, occ_def. apply (ksumn_ext o). intros k _. rewrite andb_diag. reflexivity. Qed.

(* ---- state vectors ---- *)
Lemma sv_occ_entry_spec N (psi : L) i : length psi = 2 ^ N -> i < N ->
  sv_occ_entry o psi i = occ_def N (fun k => nrm2 (get psi k)) i.
Proof.
  intros Hl Hi. unfold sv_occ_entry, alias_norm2, occ_def. rewrite Hl. apply (ksumn_ext o). intros k _.
  rewrite diag_pred_i_bit by assumption. reflexivity.
Qed.
Lemma sv_pair_entry_spec N (psi : L) i j : length psi = 2 ^ N -> i < j -> j < N ->
  sv_pair_entry o psi i j = corr_def N (fun k => nrm2 (get psi k)) i j.
Proof.
  intros Hl Hi Hj. unfold sv_pair_entry, alias_norm2, corr_def. rewrite Hl. apply (ksumn_ext o). intros k _.
  rewrite diag_pred_ij_bit by assumption. reflexivity.
Qed.

Theorem sv_occupation_spec N (psi : L) i : length psi = 2 ^ N -> i < N ->
  get (sv_occupation o N psi) i = occ_def N (fun k => nrm2 (get psi k)) i.
Proof. intros. unfold sv_occupation. rewrite (get_tab o) by assumption. apply sv_occ_entry_spec; assumption. Qed.

Lemma corr_entry_spec N occ pair (w : nat -> o) :
  (forall i, i < N -> occ i = occ_def N w i) ->
  (forall i j, i < j -> j < N -> pair i j = corr_def N w i j) ->
  forall i j, i < N -> j < N -> corr_entry o N occ pair (i * N + j) = corr_def N w i j.
Proof.
  intros Ho Hp i j Hi Hj. unfold corr_entry. destruct (divmod_ij N i j Hj) as [-> ->].
  destruct (Nat.eqb_spec i j) as [E|E].
  - subst. rewrite corr_def_diag. apply Ho; assumption.
  - destruct (Nat.ltb_spec i j).
    + apply Hp; assumption.
    + rewrite corr_def_sym. apply Hp; lia.
Qed.

Theorem sv_correlation_spec N (psi : L) i j : length psi = 2 ^ N -> i < N -> j < N ->
  get (sv_correlation o N psi) (i * N + j) = corr_def N (fun k => nrm2 (get psi k)) i j.
Proof.
  intros Hl Hi Hj. unfold sv_correlation. rewrite (get_tab o) by nia.
  apply corr_entry_spec; auto.
  - intros. apply sv_occ_entry_spec; assumption.
  - intros. apply sv_pair_entry_spec; assumption.
Qed.

(* ---- density matrices ---- *)
Lemma alias_sum_diag N (rho : L) p :
  alias_sum p (diagonal o (2 ^ N) rho) = ksumn (2 ^ N) (fun k => kif (p k) (get rho (k * 2 ^ N + k))).
Proof.
  unfold alias_sum, diagonal. rewrite (length_tab o). apply (ksumn_ext o). intros k Hk.
  rewrite (get_tab o) by assumption. reflexivity.
Qed.

Theorem dm_occupation_spec N (rho : L) i : i < N ->
  get (dm_occupation o N rho) i = kre (occ_def N (fun k => get rho (k * 2 ^ N + k)) i).
Proof.
  intros Hi. unfold dm_occupation. rewrite (get_tab o) by assumption. unfold dm_occ_entry.
  rewrite alias_sum_diag. reflexivity.
Qed.

Theorem dm_correlation_spec N (rho : L) i j : i < N -> j < N ->
  get (dm_correlation o N rho) (i * N + j) = kre (corr_def N (fun k => get rho (k * 2 ^ N + k)) i j).
Proof.
  intros Hi Hj. unfold dm_correlation. rewrite (get_tab o) by nia.
  unfold corr_entry. destruct (divmod_ij N i j Hj) as [-> ->].
  unfold dm_occ_entry, dm_pair_entry. rewrite !alias_sum_diag.
  destruct (Nat.eqb_spec i j) as [E|E].
  - subst. rewrite corr_def_diag. reflexivity.
  - destruct (Nat.ltb_spec i j).
    + f_equal. apply (ksumn_ext o). intros k _. rewrite dm_pred_ij_bit by lia. reflexivity.
    + rewrite corr_def_sym. f_equal. apply (ksumn_ext o). intros k _. rewrite dm_pred_ij_bit by lia. reflexivity.
Qed.

(* ---- the Born sum is the expectation value of the projector n_i = |r><r| on qubit i ------------------- *)
Definition nproj : M2 o := (zero, zero, zero, one).
Lemma site_apply_nproj N i (v : nat -> o) k :
  site_apply o N i nproj v k = kif (bit N i k =? 1) (v k).
Proof.
  unfold site_apply. pose proof (bit_lt N i k) as Hb. pose proof (setbit_bit N i k) as Hs.
  destruct (bit N i k) as [|[|b]] eqn:E; [| |lia]; simpl.
  - ring.
  - rewrite Hs. ring.
Qed.

Theorem occupation_is_expectation N (psi : L) i : i < N ->
  ksumn (2 ^ N) (fun k => cj (get psi k) * ksumn (2 ^ N) (fun k' => site o N i nproj k k' * get psi k'))
  = occ_def N (fun k => nrm2 (get psi k)) i.
Proof.
  intros Hi. unfold occ_def. apply (ksumn_ext o). intros k Hk.
  rewrite (site_apply_dense o laws N i nproj (get psi) k Hi Hk), site_apply_nproj.
  unfold nrm2. destruct (bit N i k =? 1); simpl; ring.
Qed.

(* ---- energy moments -------------------------------------------------------------------------------- *)
Definition dag (A : mfun o) : mfun o := fun i j => cj (A j i).
Definition hermitian (D : nat) (H : mfun o) : Prop := forall i j, i < D -> j < D -> H i j = cj (H j i).

Lemma length_happly D H (v : L) : length (happly o D H v) = D.
Proof. apply (length_tab o). Qed.
Lemma get_happly D H (v : L) k : k < D -> get (happly o D H v) k = ksumn D (fun k' => H k k' * get v k').
Proof. intros. unfold happly. apply (get_tab o). assumption. Qed.

Lemma happly_ext D A B (v : L) : (forall i j, i < D -> j < D -> A i j = B i j) -> happly o D A v = happly o D B v.
Proof.
  intros E. unfold happly, tab. apply map_ext_in. intros k Hk. apply in_seq in Hk.
  apply (ksumn_ext o). intros k' Hk'. rewrite E by lia. reflexivity.
Qed.

Lemma conj_vdot (a b : L) : length a = length b -> cj (vdot o a b) = vdot o b a.
Proof.
  intros Hl. unfold vdot, ksumn. rewrite (ksum_conj o laws). rewrite <- Hl. apply (ksum_ext o). intros k _.
  rewrite (conj_mul o laws), (conj_inv o laws). ring.
Qed.

Lemma vdot_adjoint D A (x y : L) : length y = D ->
  vdot o (happly o D A x) y = vdot o x (happly o D (dag A) y) \/ length x <> D.
Proof.
  intros Hy. destruct (Nat.eq_dec (length x) D) as [Hx|Hx]; [left | right; assumption].
  unfold vdot. rewrite length_happly, Hx.
  transitivity (ksumn D (fun k => ksumn D (fun k' => cj (A k k') * cj (get x k') * get y k))).
  - apply (ksumn_ext o). intros k Hk. rewrite get_happly by assumption.
    unfold ksumn. rewrite (ksum_conj o laws). rewrite <- (ksum_mul_r o laws). apply (ksum_ext o). intros k' _.
    rewrite (conj_mul o laws). reflexivity.
  - unfold ksumn. rewrite (ksum_swap o laws). apply (ksum_ext o). intros k' Hk'. apply in_seq in Hk'.
    fold (ksumn D (fun k'0 => dag A k' k'0 * get y k'0)).
    rewrite get_happly by lia. unfold ksumn. rewrite <- (ksum_mul_l o laws). apply (ksum_ext o). intros k _.
    unfold dag. ring.
Qed.

Lemma kre_real z : cj z = z -> kre z = z.
Proof.
  intros E. unfold kre. rewrite E.
  transitivity ((khalf o + khalf o) * z); [ring|]. rewrite (half_half o laws). ring.
Qed.

Lemma vdot_self_real (h : L) : cj (vdot o h h) = vdot o h h.
Proof. apply conj_vdot. reflexivity. Qed.

Section Herm.
Variable D : nat.
Variable H : mfun o.
Hypothesis Hherm : hermitian D H.
Variable psi : L.
Hypothesis Hlen : length psi = D.

Lemma happly_dag (y : L) : happly o D (dag H) y = happly o D H y.
Proof. apply happly_ext. intros i j Hi Hj. unfold dag. symmetry. apply Hherm; assumption. Qed.

(* <H psi, H psi> = <psi, H (H psi)> *)
Lemma second_moment_adjoint :
  vdot o (happly o D H psi) (happly o D H psi) = vdot o psi (happly o D H (happly o D H psi)).
Proof.
  destruct (vdot_adjoint D H psi (happly o D H psi) (length_happly _ _ _)) as [E|E]; [|contradiction].
  rewrite E, happly_dag. reflexivity.
Qed.

(* <psi, H psi> is real *)
Lemma energy_real : cj (vdot o psi (happly o D H psi)) = vdot o psi (happly o D H psi).
Proof.
  rewrite conj_vdot by (rewrite length_happly; assumption).
  destruct (vdot_adjoint D H psi psi Hlen) as [E|E]; [|contradiction].
  rewrite E, happly_dag. reflexivity.
Qed.

Theorem sv_energy_spec : sv_energy o D H psi = vdot o psi (happly o D H psi).
Proof. unfold sv_energy. apply kre_real, energy_real. Qed.

Theorem sv_second_moment_spec :
  sv_second_moment o D H psi = vdot o psi (happly o D H (happly o D H psi)).
Proof. unfold sv_second_moment. rewrite kre_real by apply vdot_self_real. apply second_moment_adjoint. Qed.

Theorem sv_variance_spec :
  sv_variance o D H psi =
  vdot o psi (happly o D H (happly o D H psi)) - vdot o psi (happly o D H psi) * vdot o psi (happly o D H psi).
Proof.
  unfold sv_variance. rewrite (kre_real (vdot o psi _)) by apply energy_real.
  rewrite kre_real by apply vdot_self_real. rewrite second_moment_adjoint. reflexivity.
Qed.

(* for a normalised state the variance is the squared norm of (H - <H>) psi, a sum of squared moduli *)
Theorem sv_variance_centered : vdot o psi psi = one ->
  let e := vdot o psi (happly o D H psi) in
  sv_variance o D H psi =
  ksumn D (fun k => nrm2 (get (happly o D H psi) k - e * get psi k)).
Proof.
  intros Hn e. rewrite sv_variance_spec, <- second_moment_adjoint. fold e.
  set (h := happly o D H psi).
  assert (Ee : cj e = e) by apply energy_real.
  assert (E1 : ksumn D (fun k => cj (get h k) * get h k) = vdot o h h).
  { unfold vdot, h. rewrite length_happly. reflexivity. }
  assert (E2 : ksumn D (fun k => cj (get psi k) * get h k) = e).
  { unfold e, vdot. rewrite Hlen. reflexivity. }
  assert (E3 : ksumn D (fun k => cj (get h k) * get psi k) = e).
  { transitivity (cj e); [|exact Ee]. unfold e. rewrite conj_vdot by (rewrite length_happly; assumption).
    unfold vdot. rewrite length_happly. reflexivity. }
  assert (E4 : ksumn D (fun k => cj (get psi k) * get psi k) = one).
  { rewrite <- Hn. unfold vdot. rewrite Hlen. reflexivity. }
  rewrite (ksumn_ext o D _ (fun k =>
     (cj (get h k) * get h k - e * (cj (get h k) * get psi k))
     - (e * (cj (get psi k) * get h k) - e * e * (cj (get psi k) * get psi k)))).
  - unfold ksumn. rewrite !(ksum_sub o laws), !(ksum_mul_l o laws).
    fold (ksumn D (fun k => cj (get h k) * get h k)). fold (ksumn D (fun k => cj (get h k) * get psi k)).
    fold (ksumn D (fun k => cj (get psi k) * get h k)). fold (ksumn D (fun k => cj (get psi k) * get psi k)).
    rewrite E1, E2, E3, E4. ring.
  - intros k _. unfold nrm2. rewrite (conj_sub o laws), (conj_mul o laws), Ee. ring.
Qed.

End Herm.

(* ---- density-matrix energy moments: tr(H (H rho)) = tr(rho H^2) --------------------------------------- *)
Lemma get_mmul_l D H (rho : L) r c : r < D -> c < D ->
  get (mmul_l o D H rho) (r * D + c) = ksumn D (fun m => H r m * get rho (m * D + c)).
Proof.
  intros Hr Hc. unfold mmul_l. rewrite (get_tab o) by nia.
  destruct (divmod_ij D r c Hc) as [-> ->]. reflexivity.
Qed.

Theorem dm_second_moment_spec D H (rho : L) :
  dm_second_moment o D H rho =
  kre (ksumn D (fun a => ksumn D (fun b => get rho (a * D + b) * ksumn D (fun m => H b m * H m a)))).
Proof.
  unfold dm_second_moment, dm_energy. f_equal. unfold trace.
  transitivity (ksumn D (fun k => ksumn D (fun m => ksumn D (fun n => H k m * (H m n * get rho (n * D + k)))))).
  - apply (ksumn_ext o). intros k Hk. rewrite get_mmul_l by assumption. apply (ksumn_ext o). intros m Hm.
    rewrite get_mmul_l by assumption. unfold ksumn. rewrite <- (ksum_mul_l o laws). reflexivity.
  - transitivity (ksumn D (fun k => ksumn D (fun n => ksumn D (fun m => H k m * (H m n * get rho (n * D + k)))))).
    { apply (ksumn_ext o). intros k _. unfold ksumn. apply (ksum_swap o laws). }
    unfold ksumn at 1 2. rewrite (ksum_swap o laws). apply (ksum_ext o). intros a _.
    apply (ksum_ext o). intros b _. unfold ksumn. rewrite <- (ksum_mul_l o laws). apply (ksum_ext o). intros m _.
    ring.
Qed.

Theorem dm_variance_def D H (rho : L) :
  dm_variance o D H rho = dm_second_moment o D H rho - dm_energy o D H rho * dm_energy o D H rho.
Proof. reflexivity. Qed.

End ObsProofs.
