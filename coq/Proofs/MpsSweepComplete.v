(* Proofs about the emu-mps stepping machine: one full sweep ends in sweep_complete; see Properties/C18.v. *)
From Coq Require Import ZArith List Bool Lia Reals Lra.
From EV Require Import Base.Arith Gen.Brent Model.MpsMachine
  Proofs.MpsStep Proofs.MpsPhase Proofs.MpsSweep.
Import ListNotations.
Open Scope Z_scope.

(* generic part: one full sweep of a TDVP-like machine ends in sweep_complete *)
Section G.
Variable A : Type.
Variable ar : Arith A.
Notation mstate := (mstate A).
Notation event := (event A).

Lemma sweep_then_complete (s : mstate) (n : nat) :
  tdvp_like A s -> m_N s = Z.of_nat n + 3 -> sweep_start A s ->
  exists s1, same_frame A s s1 /\ pos A s1 1 false 2 (m_N s - 2) 1 /\
    m_ev s1 = rev (sweep_prefix A ar s n) ++ m_ev s /\
    iter_progress ar (S n + 1 + n + 1) s =
      res_bind (res_bind (sweep_complete ar (before_complete A ar s1)) (fun s => Ok (set_l2r s true)))
               (fun s => Ok (emit s (EvSave A))).
Proof.
  intros HT HN HS.
  destruct (sweep_body A ar s n HT HN HS) as (s1 & H1 & F1 & P1 & E1).
  exists s1. split; [exact F1|]. split; [exact P1|]. split; [exact E1|].
  rewrite iter_progress_app, H1. cbn [res_bind iter_progress].
  assert (HT1 := tdvp_like_frame A _ _ F1 HT).
  assert (HN1 : m_N s1 = m_N s) by (destruct F1 as (_ & H & _); exact H).
  rewrite (progress_r2l_last A ar s1 HT1) by (rewrite HN1; exact P1).
  destruct (sweep_complete ar (before_complete A ar s1)); reflexivity.
Qed.
End G.
