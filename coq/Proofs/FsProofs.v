(* Proofs about the crash-semantics file-system model (Model/Fs.v), property C27.

   Main results
     crash_safe            safe p = true  ->  every crash state of one autosave keeps a complete old-or-new
                           snapshot under the advertised name (any content type, any other files on disk,
                           both platforms)
     fresh_sound           fresh p = true ->  an autosave that runs to its end leaves the NEW snapshot
     safe_complete         safe p = false ->  a concrete initial state and crash point violating it exist
     every_later_autosave  lifting to any number of successive (completed or crashed) autosaves
   The bridge between the finite symbolic check and arbitrary concrete disks is a simulation
   (content abstraction + restriction to the names the routine mentions). *)
From Coq Require Import List Bool String Lia.
From EV Require Import Model.Fs.
Import ListNotations.
Set Implicit Arguments.

(* ---- names ------------------------------------------------------------------------------ *)
Lemma name_eqb_eq a b : name_eqb a b = true <-> a = b.
Proof.
  destruct a, b; simpl; split; intros H; try congruence; try discriminate;
    try (apply String.eqb_eq in H; congruence); try (inversion H; apply String.eqb_refl).
Qed.

Lemma name_eqb_refl a : name_eqb a a = true.
Proof. apply name_eqb_eq. reflexivity. Qed.

Lemma name_eqb_neq a b : name_eqb a b = false <-> a <> b.
Proof.
  split; intros H.
  - intros E. apply name_eqb_eq in E. congruence.
  - destruct (name_eqb a b) eqn:E; auto. apply name_eqb_eq in E. contradiction.
Qed.

Lemma mem_In n l : mem n l = true <-> In n l.
Proof.
  induction l as [|m l IH]; simpl.
  - split; [discriminate | tauto].
  - rewrite orb_true_iff, IH, name_eqb_eq. split; intros [H|H]; auto.
Qed.

Lemma dedup_In n l : In n (dedup l) <-> In n l.
Proof.
  induction l as [|m l IH]; simpl; [tauto|].
  destruct (mem m l) eqn:E.
  - rewrite IH. split; auto. intros [H|H]; auto. subst. apply mem_In. exact E.
  - simpl. rewrite IH. tauto.
Qed.

Lemma names_of_Adv p : In Adv (names_of p).
Proof. left. reflexivity. Qed.

Lemma names_of_incl p : incl (flat_map names_op p) (names_of p).
Proof.
  intros n H. unfold names_of.
  destruct (name_eqb n Adv) eqn:E.
  - apply name_eqb_eq in E. subst. left. reflexivity.
  - right. apply dedup_In. apply filter_In. split; auto. rewrite E. reflexivity.
Qed.

(* ---- aliasing classes cover every way the advertised name can end ------------------------------ *)
Lemma smem'_In s l : smem' s l = true <-> In s l.
Proof.
  induction l as [|t l IH]; simpl.
  - split; [discriminate|tauto].
  - rewrite orb_true_iff, IH, String.eqb_eq. split; intros [H|H]; auto.
Qed.

Lemma canon_id s n : (forall t, n = Sfx t -> t <> s) -> canon (Some s) n = n.
Proof.
  intros H. destruct n as [|t|u]; simpl; try reflexivity.
  destruct (String.eqb t s) eqn:E; [|reflexivity].
  apply String.eqb_eq in E. exfalso. exact (H t eq_refl E).
Qed.

Lemma sfx_strings_In t l : In (Sfx t) l -> In t (sfx_strings l).
Proof.
  induction l as [|n l IH]; simpl; [tauto|]. intros [->|H]; simpl; auto.
  destruct n; simpl; auto.
Qed.

Lemma sfx_strings_app a b : sfx_strings (a ++ b) = sfx_strings a ++ sfx_strings b.
Proof.
  induction a as [|n a IH]; simpl; [reflexivity|]. destruct n; simpl; rewrite ?IH; reflexivity.
Qed.

Lemma map_prim_id f p : (forall n, In n (names_prim p) -> f n = n) -> map_prim f p = p.
Proof.
  destruct p; simpl; intros H; rewrite ?H; simpl; auto.
Qed.

Lemma map_op_id f o : (forall n, In n (names_op o) -> f n = n) -> map_op f o = o.
Proof.
  destruct o as [p|n p|n p]; simpl; intros H.
  - rewrite map_prim_id; auto.
  - rewrite H, map_prim_id; simpl; auto.
  - rewrite H, map_prim_id; simpl; auto.
Qed.

Lemma resolve_other s p :
  ~ In s (sfx_strings (flat_map names_op p)) -> resolve (Some s) p = p.
Proof.
  intros H. unfold resolve.
  assert (G : forall o, In o p -> map_op (canon (Some s)) o = o).
  { intros o Ho. apply map_op_id. intros n Hn. apply canon_id. intros t -> E. subst t.
    apply H. apply sfx_strings_In. apply in_flat_map. exists o. auto. }
  induction p as [|o p IH]; simpl; [reflexivity|].
  rewrite G by (left; reflexivity). f_equal. apply IH.
  - intros Hin. apply H. simpl. rewrite sfx_strings_app. apply in_or_app. right. exact Hin.
  - intros o' Ho'. apply G. right. exact Ho'.
Qed.

Theorem all_classes_sound (chk : list op -> bool) (p : list op) :
  all_classes chk p = true -> forall sg : option string, chk (resolve sg p) = true.
Proof.
  unfold all_classes. rewrite andb_true_iff, forallb_forall. intros [Hp Hc] sg.
  destruct sg as [s|].
  - destruct (smem' s (sfx_strings (flat_map names_op p))) eqn:E.
    + apply Hc. unfold classes. right. apply in_map. apply smem'_In. exact E.
    + rewrite resolve_other; [exact Hp|]. intros Hin. apply smem'_In in Hin. congruence.
  - apply Hc. left. reflexivity.
Qed.

(* ---- list helpers ------------------------------------------------------------------------- *)
Lemma forallb_false_ex {A} (f : A -> bool) l :
  forallb f l = false -> exists x, In x l /\ f x = false.
Proof.
  induction l as [|a l IH]; simpl; [discriminate|].
  destruct (f a) eqn:E; simpl; intros H.
  - destruct (IH H) as [x [Hx Hf]]. exists x. auto.
  - exists a. auto.
Qed.

Lemma Forall2_In_l {A B} (P : A -> B -> Prop) l l' x :
  Forall2 P l l' -> In x l -> exists y, In y l' /\ P x y.
Proof.
  induction 1; simpl; intros Hin; [contradiction|].
  destruct Hin as [->|Hin].
  - eexists; split; [left; reflexivity | assumption].
  - destruct (IHForall2 Hin) as [y0 [Hy HP]]. exists y0. auto.
Qed.

Lemma Forall2_app' {A B} (P : A -> B -> Prop) l1 l1' l2 l2' :
  Forall2 P l1 l1' -> Forall2 P l2 l2' -> Forall2 P (l1 ++ l2) (l1' ++ l2').
Proof. induction 1; simpl; auto. Qed.

(* ---- simulation between two content types ----------------------------------------------------- *)
Section Sim.
Variables (C D : Type) (f : C -> D).
Variable ns : list name.

Definition fmap (x : option (file C)) : option (file D) :=
  match x with Some (c, b) => Some (f c, b) | None => None end.

(* the two disks agree (through f) on every name of ns *)
Definition R (s : fs C) (t : fs D) : Prop := forall n, In n ns -> t n = fmap (s n).

Definition Rev (x : ev * fs C) (y : ev * fs D) : Prop := fst x = fst y /\ R (snd x) (snd y).

Definition Ropt (r : option (fs C)) (r' : option (fs D)) : Prop :=
  match r, r' with
  | Some s, Some t => R s t
  | None, None => True
  | _, _ => False
  end.

Lemma R_upd s t n v : R s t -> R (upd s n v) (upd t n (fmap v)).
Proof. unfold R, upd. intros H m Hm. destruct (name_eqb m n); auto. Qed.

Lemma R_upd_none s t n : R s t -> R (upd s n None) (upd t n None).
Proof. intros H. apply (R_upd n None H). Qed.

Lemma R_is_file s t n : R s t -> In n ns -> is_file t n = is_file s n.
Proof.
  unfold is_file. intros H Hn. rewrite (H n Hn). destruct (s n) as [[c b]|]; reflexivity.
Qed.

Lemma R_move s t a b c k : R s t -> R (move s a b (c, k)) (move t a b (f c, k)).
Proof.
  intros H. unfold move. apply R_upd_none. apply (R_upd b (Some (c, k)) H).
Qed.

Lemma step_prim_R pl c p s t :
  incl (names_prim p) ns -> R s t ->
  Forall2 Rev (fst (step_prim pl c p s)) (fst (step_prim pl (f c) p t)) /\
  Ropt (snd (step_prim pl c p s)) (snd (step_prim pl (f c) p t)).
Proof.
  intros Hin HR. destruct p as [n | a b | a b | n | n]; simpl in *.
  - (* Write *)
    pose proof (R_upd n (Some (c, false)) HR) as H1.
    pose proof (R_upd n (Some (c, true)) HR) as H2.
    split; [|exact H2].
    repeat constructor; simpl; assumption.
  - (* Rename *)
    assert (Ha : t a = fmap (s a)) by (apply HR, Hin; simpl; auto).
    assert (Hb : t b = fmap (s b)) by (apply HR, Hin; simpl; auto).
    rewrite Ha, Hb.
    destruct (s a) as [[ca ka]|]; simpl.
    + destruct (name_eqb a b).
      * simpl. split; [repeat constructor; simpl; auto | exact HR].
      * destruct pl.
        -- simpl. pose proof (R_move a b ca ka HR) as HM.
           destruct (s b) as [[cb kb]|]; simpl;
             (split; [repeat constructor; simpl; auto | exact HM]).
        -- destruct (s b) as [[cb kb]|]; simpl.
           ++ split; [repeat constructor; simpl; auto | exact I].
           ++ pose proof (R_move a b ca ka HR) as HM.
              split; [repeat constructor; simpl; auto | exact HM].
    + split; [repeat constructor; simpl; auto | exact I].
  - (* Replace *)
    assert (Ha : t a = fmap (s a)) by (apply HR, Hin; simpl; auto).
    rewrite Ha.
    destruct (s a) as [[ca ka]|]; simpl.
    + destruct (name_eqb a b); simpl.
      * split; [repeat constructor; simpl; auto | exact HR].
      * pose proof (R_move a b ca ka HR) as HM.
        split; [repeat constructor; simpl; auto | exact HM].
    + split; [repeat constructor; simpl; auto | exact I].
  - (* Remove *)
    assert (Hn : t n = fmap (s n)) by (apply HR, Hin; simpl; auto).
    rewrite Hn. destruct (s n) as [[cn kn]|]; simpl.
    + pose proof (R_upd_none n HR) as HU.
      split; [repeat constructor; simpl; auto | exact HU].
    + split; [repeat constructor; simpl; auto | exact I].
  - (* Stat *)
    assert (Hn : t n = fmap (s n)) by (apply HR, Hin; simpl; auto).
    rewrite Hn. destruct (s n) as [[cn kn]|]; simpl.
    + split; [repeat constructor; simpl; auto | exact HR].
    + split; [repeat constructor; simpl; auto | exact I].
Qed.

Lemma step_op_R pl c o s t :
  incl (names_op o) ns -> R s t ->
  Forall2 Rev (fst (step_op pl c o s)) (fst (step_op pl (f c) o t)) /\
  Ropt (snd (step_op pl c o s)) (snd (step_op pl (f c) o t)).
Proof.
  intros Hin HR. destruct o as [p | n p | n p]; simpl in *.
  - apply step_prim_R; assumption.
  - assert (Hn : In n ns) by (apply Hin; simpl; auto).
    assert (Hp : incl (names_prim p) ns) by (intros x Hx; apply Hin; simpl; auto).
    rewrite (R_is_file n HR Hn).
    destruct (is_file s n).
    + destruct (step_prim_R pl c p Hp HR) as [H1 H2].
      destruct (step_prim pl c p s) as [v r], (step_prim pl (f c) p t) as [v' r']. simpl in *.
      split; [constructor; [split; simpl; auto | exact H1] | exact H2].
    + simpl. split; [repeat constructor; simpl; auto | exact HR].
  - assert (Hn : In n ns) by (apply Hin; simpl; auto).
    assert (Hp : incl (names_prim p) ns) by (intros x Hx; apply Hin; simpl; auto).
    rewrite (R_is_file n HR Hn).
    destruct (is_file s n).
    + simpl. split; [repeat constructor; simpl; auto | exact HR].
    + destruct (step_prim_R pl c p Hp HR) as [H1 H2].
      destruct (step_prim pl c p s) as [v r], (step_prim pl (f c) p t) as [v' r']. simpl in *.
      split; [constructor; [split; simpl; auto | exact H1] | exact H2].
Qed.

Lemma run_R pl c p : forall s t,
  incl (flat_map names_op p) ns -> R s t ->
  Forall2 Rev (fst (run pl c p s)) (fst (run pl (f c) p t)) /\
  Ropt (snd (run pl c p s)) (snd (run pl (f c) p t)).
Proof.
  induction p as [|o p IH]; intros s t Hin HR; simpl.
  - split; [constructor | exact HR].
  - assert (Ho : incl (names_op o) ns) by (intros x Hx; apply Hin; simpl; apply in_or_app; auto).
    assert (Hp : incl (flat_map names_op p) ns)
      by (intros x Hx; apply Hin; simpl; apply in_or_app; auto).
    destruct (step_op_R pl c o Ho HR) as [H1 H2].
    destruct (step_op pl c o s) as [v r], (step_op pl (f c) o t) as [v' r']. simpl in *.
    destruct r as [s1|], r' as [t1|]; simpl in H2; try contradiction.
    + destruct (IH s1 t1 Hp H2) as [H3 H4].
      destruct (run pl c p s1) as [w q], (run pl (f c) p t1) as [w' q']. simpl in *.
      split; [apply Forall2_app'; assumption | exact H4].
    + simpl. split; [exact H1 | exact I].
Qed.

Lemma trace_R pl c p s t :
  incl (flat_map names_op p) ns -> R s t ->
  Forall2 R (trace pl c p s) (trace pl (f c) p t).
Proof.
  intros Hin HR. unfold trace. constructor; [exact HR|].
  destruct (run_R pl c p Hin HR) as [H _].
  induction H; simpl; constructor; auto. destruct H as [_ H]. exact H.
Qed.

Lemma final_R pl c p s t :
  incl (flat_map names_op p) ns -> R s t ->
  Ropt (final pl c p s) (final pl (f c) p t).
Proof. intros Hin HR. unfold final. apply (run_R pl c p Hin HR). Qed.

End Sim.

(* ---- from the finite check to every concrete disk ------------------------------------------ *)
Section Main.
Variable C : Type.
Variable C_eq_dec : forall x y : C, {x = y} + {x <> y}.
Variables old new : C.

(* the advertised name holds the complete snapshot c *)
Definition holds (s : fs C) (c : C) : Prop := s Adv = Some (c, true).

Definition cls (c : C) : tok :=
  if C_eq_dec c new then New else if C_eq_dec c old then Old else Other.

Lemma cls_new : cls new = New.
Proof. unfold cls. destruct (C_eq_dec new new); congruence. Qed.

Lemma vals_all (x : option (file C)) : In (fmap cls x) vals.
Proof.
  destruct x as [[c b]|]; simpl; [|auto].
  destruct (cls c), b; simpl; auto 10.
Qed.

Lemma enum_covers ns (s : fs C) : exists t, In t (enum ns) /\ R cls ns s t.
Proof.
  induction ns as [|n ns IH].
  - exists (@empty_fs tok). split; [left; reflexivity|]. intros m [].
  - destruct IH as [t0 [Hin HR]].
    exists (upd t0 n (fmap cls (s n))). split.
    + change (enum (n :: ns)) with (flat_map (fun s => map (fun v => upd s n v) vals) (enum ns)).
      apply in_flat_map. exists t0. split; auto.
      apply (in_map (fun v => upd t0 n v)). apply vals_all.
    + intros m Hm. unfold upd. destruct (name_eqb m n) eqn:E.
      * apply name_eqb_eq in E. subst. reflexivity.
      * destruct Hm as [Hm|Hm]; [subst; rewrite name_eqb_refl in E; discriminate|].
        apply HR. exact Hm.
Qed.

Lemma goodb_abs ns s t : In Adv ns -> R cls ns s t -> holds s old \/ holds s new -> goodb t = true.
Proof.
  intros HA HR H. unfold goodb. rewrite (HR Adv HA). unfold holds in H.
  destruct H as [H|H]; rewrite H; simpl; unfold cls.
  - destruct (C_eq_dec old new); [reflexivity|]. destruct (C_eq_dec old old); congruence.
  - destruct (C_eq_dec new new); congruence.
Qed.

Lemma goodb_conc ns s t : In Adv ns -> R cls ns s t -> goodb t = true -> holds s old \/ holds s new.
Proof.
  intros HA HR H. unfold goodb in H. rewrite (HR Adv HA) in H. unfold holds.
  destruct (s Adv) as [[c b]|]; simpl in H; [|discriminate].
  unfold cls in H. destruct (C_eq_dec c new) as [->|].
  - destruct b; [auto|discriminate].
  - destruct (C_eq_dec c old) as [->|]; [|discriminate]. destruct b; [auto|discriminate].
Qed.

Lemma safe_on_all p pl : safe p = true -> safe_on pl p = true.
Proof.
  unfold safe, platforms. simpl. rewrite !andb_true_iff. intros [H1 [H2 _]]. destruct pl; assumption.
Qed.

Lemma fresh_on_all p pl : fresh p = true -> fresh_on pl p = true.
Proof.
  unfold fresh, platforms. simpl. rewrite !andb_true_iff. intros [H1 [H2 _]]. destruct pl; assumption.
Qed.

Theorem crash_safe_step p pl (s : fs C) :
  safe p = true -> holds s old \/ holds s new ->
  forall s', In s' (trace pl new p s) -> holds s' old \/ holds s' new.
Proof.
  intros Hs Hg s' Hin.
  pose proof (safe_on_all p pl Hs) as Hon. unfold safe_on in Hon.
  rewrite forallb_forall in Hon.
  destruct (enum_covers (names_of p) s) as [t [Ht HR]].
  specialize (Hon t Ht).
  rewrite (goodb_abs (names_of_Adv p) HR Hg) in Hon. unfold implb in Hon.
  rewrite forallb_forall in Hon.
  pose proof (@trace_R _ _ cls (names_of p) pl new p s t (names_of_incl p) HR) as HT.
  rewrite cls_new in HT.
  destruct (@Forall2_In_l _ _ _ _ _ _ HT Hin) as [t' [Ht' HR']].
  apply (goodb_conc (names_of_Adv p) HR'). apply Hon. exact Ht'.
Qed.

Theorem fresh_step p pl (s s' : fs C) :
  fresh p = true -> final pl new p s = Some s' -> holds s' new.
Proof.
  intros Hf Hfin.
  pose proof (fresh_on_all p pl Hf) as Hon. unfold fresh_on in Hon.
  rewrite forallb_forall in Hon.
  destruct (enum_covers (names_of p) s) as [t [Ht HR]].
  specialize (Hon t Ht).
  pose proof (@final_R _ _ cls (names_of p) pl new p s t (names_of_incl p) HR) as HF.
  rewrite cls_new, Hfin in HF.
  destruct (final pl New p t) as [t'|]; simpl in HF; [|contradiction].
  unfold holds_new in Hon. rewrite (HF Adv (names_of_Adv p)) in Hon. unfold holds.
  destruct (s' Adv) as [[c b]|]; simpl in Hon; [|discriminate].
  unfold cls in Hon. destruct (C_eq_dec c new) as [->|].
  - destruct b; [reflexivity|discriminate].
  - destruct (C_eq_dec c old); discriminate.
Qed.

Lemma completes_on_all p pl : completes p = true -> completes_on pl p = true.
Proof.
  unfold completes, platforms. simpl. rewrite !andb_true_iff. intros [H1 [H2 _]]. destruct pl; assumption.
Qed.

Theorem completes_step p pl (s : fs C) :
  completes p = true ->
  (forall n, In n (names_of p) -> n <> Adv -> s n = None) ->
  final pl new p s <> None.
Proof.
  intros Hc Htidy.
  pose proof (completes_on_all p pl Hc) as Hon. unfold completes_on in Hon.
  rewrite forallb_forall in Hon.
  set (t := upd (@empty_fs tok) Adv (fmap cls (s Adv))).
  assert (Ht : In t tidy_states).
  { unfold tidy_states. apply (in_map (fun v => upd (@empty_fs tok) Adv v)). apply vals_all. }
  assert (HR : R cls (names_of p) s t).
  { intros n Hn. unfold t, upd. destruct (name_eqb n Adv) eqn:E.
    - apply name_eqb_eq in E. subst. reflexivity.
    - apply name_eqb_neq in E. rewrite (Htidy n Hn E). reflexivity. }
  specialize (Hon t Ht).
  pose proof (@final_R _ _ cls (names_of p) pl new p s t (names_of_incl p) HR) as HF.
  rewrite cls_new in HF.
  destruct (final pl New p t); [|discriminate].
  destruct (final pl new p s); [discriminate|contradiction].
Qed.

Theorem removes_step p pl (s : fs C) :
  removes p = true -> exists s', final pl new p s = Some s' /\ s' Adv = None.
Proof.
  intros Hr.
  assert (Hon : removes_on pl p = true).
  { revert Hr. unfold removes, platforms. simpl. rewrite !andb_true_iff. intros [H1 [H2 _]].
    destruct pl; assumption. }
  unfold removes_on in Hon. rewrite forallb_forall in Hon.
  destruct (enum_covers (names_of p) s) as [t [Ht HR]].
  specialize (Hon t Ht).
  pose proof (@final_R _ _ cls (names_of p) pl new p s t (names_of_incl p) HR) as HF.
  rewrite cls_new in HF.
  destruct (final pl New p t) as [t'|]; [|discriminate].
  destruct (final pl new p s) as [s'|]; [|contradiction].
  exists s'. split; [reflexivity|]. simpl in HF.
  unfold is_file in Hon. rewrite (HF Adv (names_of_Adv p)) in Hon.
  destruct (s' Adv) as [[c b]|]; [discriminate | reflexivity].
Qed.

End Main.

(* one autosave, in the words of the property *)
Theorem crash_safe :
  forall (p : list op), safe p = true ->
  forall (C : Type) (C_eq_dec : forall x y : C, {x = y} + {x <> y})
         (pl : platform) (old new : C) (s s' : fs C),
    holds s old -> In s' (trace pl new p s) -> holds s' old \/ holds s' new.
Proof.
  intros p Hs C dec pl old new s s' Hh Hin.
  apply (@crash_safe_step C dec old new p pl s Hs (or_introl Hh) s' Hin).
Qed.

Theorem fresh_sound :
  forall (p : list op), fresh p = true ->
  forall (C : Type) (C_eq_dec : forall x y : C, {x = y} + {x <> y})
         (pl : platform) (new : C) (s s' : fs C),
    final pl new p s = Some s' -> holds s' new.
Proof.
  intros p Hf C dec pl new s s' H. exact (@fresh_step C dec new new p pl s s' Hf H).
Qed.

Theorem completes_sound :
  forall (p : list op), completes p = true ->
  forall (C : Type) (C_eq_dec : forall x y : C, {x = y} + {x <> y})
         (pl : platform) (new : C) (s : fs C),
    (forall n, In n (names_of p) -> n <> Adv -> s n = None) ->
    exists s', final pl new p s = Some s'.
Proof.
  intros p Hc C dec pl new s Ht.
  pose proof (@completes_step C dec new new p pl s Hc Ht) as H.
  destruct (final pl new p s) as [s'|]; [exists s'; reflexivity | contradiction].
Qed.

Theorem removes_sound :
  forall (p : list op), removes p = true ->
  forall (C : Type) (C_eq_dec : forall x y : C, {x = y} + {x <> y})
         (pl : platform) (c : C) (s : fs C),
    exists s', final pl c p s = Some s' /\ s' Adv = None.
Proof. intros p Hr C dec pl c s. exact (@removes_step C dec c c p pl s Hr). Qed.

(* the check is complete: when it fails there is a real counterexample in the model *)
Theorem safe_complete :
  forall (p : list op), safe p = false ->
  exists (pl : platform) (s s' : fs tok),
    (holds s Old \/ holds s New) /\ In s' (trace pl New p s) /\ ~ (holds s' Old \/ holds s' New).
Proof.
  intros p H. unfold safe in H.
  destruct (forallb_false_ex _ _ H) as [pl [_ Hpl]]. unfold safe_on in Hpl.
  destruct (forallb_false_ex _ _ Hpl) as [s [_ Hs]].
  destruct (goodb s) eqn:G; [|discriminate].
  change (forallb goodb (trace pl New p s) = false) in Hs.
  destruct (forallb_false_ex _ _ Hs) as [s' [Hin Hbad]].
  exists pl, s, s'. split; [|split; [exact Hin|]].
  - unfold goodb in G. unfold holds.
    destruct (s Adv) as [[[] []]|]; try discriminate; auto.
  - unfold goodb in Hbad. unfold holds. intros [E|E]; rewrite E in Hbad; discriminate.
Qed.

(* ---- any number of successive autosaves, each completed or cut short by a crash --------------- *)
Section History.
Variable C : Type.
Variable pl : platform.
Variable p : list op.

(* [history s cs s']: starting from disk s, autosaves with contents cs (in this order) were
   attempted; each one ended in ANY state of its trace (ran to the end, raised, or the process
   was killed and later resumed); s' is the disk now. *)
Inductive history : fs C -> list C -> fs C -> Prop :=
| H_nil s : history s [] s
| H_snoc s cs s1 c s2 :
    history s cs s1 -> In s2 (trace pl c p s1) -> history s (cs ++ [c]) s2.

Lemma history_inv (C_eq_dec : forall x y : C, {x = y} + {x <> y}) :
  safe p = true -> forall s c0, holds s c0 ->
  forall cs s', history s cs s' -> exists c, holds s' c /\ In c (c0 :: cs).
Proof.
  intros Hs s c0 H0 cs s' Hh. induction Hh as [s | s cs s1 c s2 Hh IH Hin].
  - exists c0. split; [exact H0 | left; reflexivity].
  - destruct (IH H0) as [c1 [H1 Hc1]].
    destruct (@crash_safe p Hs C C_eq_dec pl c1 c s1 s2 H1 Hin) as [H|H].
    + exists c1. split; [exact H|]. destruct Hc1 as [E|Hc]; [left; exact E|].
      right. apply in_or_app. auto.
    + exists c. split; [exact H|]. right. apply in_or_app. right. left. reflexivity.
Qed.

End History.

Theorem every_later_autosave :
  forall (p : list op), safe p = true ->
  forall (C : Type) (C_eq_dec : forall x y : C, {x = y} + {x <> y}) (pl : platform)
         (s : fs C) (c0 : C) (cs : list C) (s' : fs C),
    holds s c0 -> history pl p s cs s' -> exists c, holds s' c /\ In c (c0 :: cs).
Proof.
  intros p Hs C dec pl s c0 cs s' H0 Hh. exact (@history_inv C pl p dec Hs s c0 H0 cs s' Hh).
Qed.

(* the verdict on a given routine, whatever [safe] evaluates to *)
Theorem verdict (p : list op) :
  if safe p
  then forall (C : Type) (C_eq_dec : forall x y : C, {x = y} + {x <> y}) (pl : platform)
              (s : fs C) (c0 : C) (cs : list C) (s' : fs C),
         holds s c0 -> history pl p s cs s' -> exists c, holds s' c /\ In c (c0 :: cs)
  else exists (pl : platform) (s s' : fs tok),
         (holds s Old \/ holds s New) /\ In s' (trace pl New p s) /\
         ~ (holds s' Old \/ holds s' New).
Proof.
  destruct (safe p) eqn:E.
  - exact (@every_later_autosave p E).
  - exact (@safe_complete p E).
Qed.

(* the verdict for every way the advertised file name can end *)
Theorem verdict_all (p : list op) :
  if all_classes safe p
  then forall (sg : option string)
              (C : Type) (C_eq_dec : forall x y : C, {x = y} + {x <> y}) (pl : platform)
              (s : fs C) (c0 : C) (cs : list C) (s' : fs C),
         holds s c0 -> history pl (resolve sg p) s cs s' -> exists c, holds s' c /\ In c (c0 :: cs)
  else exists q : list op, (q = p \/ exists sg, q = resolve sg p) /\
       exists (pl : platform) (s s' : fs tok),
         (holds s Old \/ holds s New) /\ In s' (trace pl New q s) /\
         ~ (holds s' Old \/ holds s' New).
Proof.
  destruct (all_classes safe p) eqn:E.
  - intros sg. exact (@every_later_autosave (resolve sg p) (all_classes_sound safe p E sg)).
  - unfold all_classes in E. apply andb_false_iff in E. destruct E as [E|E].
    + exists p. split; [left; reflexivity | exact (@safe_complete p E)].
    + destruct (forallb_false_ex _ _ E) as [sg [_ Hs]]. exists (resolve sg p).
      split; [right; exists sg; reflexivity | exact (@safe_complete _ Hs)].
Qed.

(* premises are satisfiable / the check is not vacuous *)
Open Scope string_scope.
Definition atomic_replace : list op := [Do (Write (Sfx "new")); Do (Replace (Sfx "new") Adv)].

Lemma atomic_replace_safe :
  safe atomic_replace = true /\ fresh atomic_replace = true /\ completes atomic_replace = true.
Proof. repeat split; vm_compute; reflexivity. Qed.

(* appending the temporary suffix never collides with the advertised name; replacing the last
   suffix does, when the advertised name itself ends in that suffix *)
Definition atomic_replace_appended : list op := [Do (Write (App "new")); Do (Replace (App "new") Adv)].

Lemma appended_safe_every_class :
  all_classes safe atomic_replace_appended = true /\ all_classes fresh atomic_replace_appended = true /\
  all_classes completes atomic_replace_appended = true.
Proof. repeat split; vm_compute; reflexivity. Qed.

Lemma replaced_suffix_unsafe_when_aliased :
  all_classes safe atomic_replace = false /\ safe (resolve (Some "new") atomic_replace) = false.
Proof. split; vm_compute; reflexivity. Qed.

Lemma write_in_place_unsafe : safe [Do (Write Adv)] = false.
Proof. vm_compute. reflexivity. Qed.
