(* Proofs about Model/MpsObs.v (MPS.expect_batch): the values of both sweeps depend on the R factors returned by
   torch.linalg.qr only through their Gram matrices R^dagger R.  Hence every QR oracle that preserves the Gram matrix
   (any M = Q R with Q^dagger Q = 1) yields the same table as R = M, i.e. as carrying the whole contracted block along
   (no factorisation at all); all chains, all sizes, every commutative ring with involution. *)
From Coq Require Import List Arith Lia Ring Bool ZArith.
From EV Require Import Model.TransferMat Model.MPSAlg Model.MpsObs Proofs.TransferMat Proofs.MPSInner.
Import ListNotations.

Section ObsProofs.
Variable K : Type.
Variable Ko : RingOps K.
Hypothesis Kring : ring_theory (k0 Ko) (k1 Ko) (kadd Ko) (kmul Ko) (ksub Ko) (kopp Ko) (@eq K).
Hypothesis conj_add : forall a b, kconj Ko (kadd Ko a b) = kadd Ko (kconj Ko a) (kconj Ko b).
Hypothesis conj_mul : forall a b, kconj Ko (kmul Ko a b) = kmul Ko (kconj Ko a) (kconj Ko b).
Hypothesis conj_zero : kconj Ko (k0 Ko) = k0 Ko.
Add Ring KRingObs : Kring.
Local Notation "'zero'" := (k0 Ko).
Local Notation "'one'" := (k1 Ko).
Local Infix "[+]" := (kadd Ko) (at level 50, left associativity).
Local Infix "[*]" := (kmul Ko) (at level 40, left associativity).
Local Notation sumn := (sumn Ko).
Local Notation cj := (kconj Ko).
Local Notation T3 := (T3 K).
Local Notation Mat := (Mat K).
Local Notation sumn_ext := (sumn_ext K Ko).
Local Notation sumn_swap := (sumn_swap K Ko Kring).
Local Notation gram := (gram Ko).
Local Notation absorb_l := (absorb_l Ko).
Local Notation absorb_r := (absorb_r Ko).
Local Notation site_expect := (site_expect Ko).

(* a sum over a flattened pair of indices (torch .view) is the double sum *)
Lemma sumn_flatten n m (f : nat -> nat -> K) :
  sumn (n * m) (fun i => f (i / m) (i mod m)) = sumn n (fun a => sumn m (fun s => f a s)).
Proof.
  induction n as [|n IH]; [reflexivity|].
  replace (S n * m) with (n * m + m) by lia.
  rewrite (sumn_split K Ko Kring). rewrite IH. simpl. f_equal.
  apply sumn_ext. intros i Hi.
  assert (Hm : m <> 0) by lia.
  rewrite (Nat.add_comm (n * m) i).
  rewrite Nat.div_add by assumption. rewrite Nat.mod_add by assumption.
  rewrite Nat.div_small, Nat.mod_small by assumption. reflexivity.
Qed.

Lemma gram_mat_r (C : T3) l l' :
  gram (mat_r C) l l' = sumn (dl C) (fun a => sumn (dp C) (fun s0 => cj (tf C a s0 l) [*] tf C a s0 l')).
Proof.
  unfold MpsObs.gram, mat_r. cbn [mr mf].
  apply (sumn_flatten (dl C) (dp C) (fun a s0 => cj (tf C a s0 l) [*] tf C a s0 l')).
Qed.

Lemma gram_mat_l (C : T3) l l' :
  gram (mat_l C) l l' = sumn (dp C) (fun s0 => sumn (dr C) (fun r0 => cj (tf C l s0 r0) [*] tf C l' s0 r0)).
Proof.
  unfold MpsObs.gram, mat_l. cbn [mr mf].
  apply (sumn_flatten (dp C) (dr C) (fun s0 r0 => cj (tf C l s0 r0) [*] tf C l' s0 r0)).
Qed.

(* the site Gram tensor of the centre obtained by absorbing R into the next factor sees R only through R^dagger R *)
Lemma gram_absorb_l (R : Mat) (A : T3) s s' r r' :
  sumn (mr R) (fun k => cj (tf (absorb_l R A) k s r) [*] tf (absorb_l R A) k s' r')
  = sumn (dl A) (fun l => sumn (dl A) (fun l' => gram R l l' [*] (cj (tf A l s r) [*] tf A l' s' r'))).
Proof.
  unfold MpsObs.absorb_l. cbn [tf].
  transitivity (sumn (mr R) (fun k => sumn (dl A) (fun l => sumn (dl A) (fun l' =>
     cj (mf R k l [*] tf A l s r) [*] (mf R k l' [*] tf A l' s' r'))))).
  { apply sumn_ext. intros k _. rewrite (conj_sumn K Ko conj_add conj_zero).
    apply (sumn_mul_sumn K Ko Kring). }
  rewrite (sumn_swap (mr R) (dl A)). apply sumn_ext. intros l _.
  rewrite (sumn_swap (mr R) (dl A)). apply sumn_ext. intros l' _.
  unfold MpsObs.gram. rewrite <- (sumn_scale_r K Ko Kring). apply sumn_ext. intros k _.
  rewrite conj_mul. ring.
Qed.

Lemma gram_absorb_r (A : T3) (R : Mat) l l' s s' :
  sumn (mr R) (fun k => cj (tf (absorb_r A R) l s k) [*] tf (absorb_r A R) l' s' k)
  = sumn (dr A) (fun r => sumn (dr A) (fun r' => gram R r r' [*] (cj (tf A l s r) [*] tf A l' s' r'))).
Proof.
  unfold MpsObs.absorb_r. cbn [tf].
  transitivity (sumn (mr R) (fun k => sumn (dr A) (fun r => sumn (dr A) (fun r' =>
     cj (tf A l s r [*] mf R k r) [*] (tf A l' s' r' [*] mf R k r'))))).
  { apply sumn_ext. intros k _. rewrite (conj_sumn K Ko conj_add conj_zero).
    apply (sumn_mul_sumn K Ko Kring). }
  rewrite (sumn_swap (mr R) (dr A)). apply sumn_ext. intros r _.
  rewrite (sumn_swap (mr R) (dr A)). apply sumn_ext. intros r' _.
  unfold MpsObs.gram. rewrite <- (sumn_scale_r K Ko Kring). apply sumn_ext. intros k _.
  rewrite conj_mul. ring.
Qed.

(* two centre tensors are equivalent for the right-going sweep when they have the same contraction over the LEFT
   bond, and for the left-going sweep when they have the same contraction over the RIGHT bond *)
Definition gequiv_r (C1 C2 : T3) : Prop :=
  dp C1 = dp C2 /\ dr C1 = dr C2 /\ forall s s' r r',
    sumn (dl C1) (fun k => cj (tf C1 k s r) [*] tf C1 k s' r') = sumn (dl C2) (fun k => cj (tf C2 k s r) [*] tf C2 k s' r').
Definition gequiv_l (C1 C2 : T3) : Prop :=
  dp C1 = dp C2 /\ dl C1 = dl C2 /\ forall s s' l l',
    sumn (dr C1) (fun k => cj (tf C1 l s k) [*] tf C1 l' s' k) = sumn (dr C2) (fun k => cj (tf C2 l s k) [*] tf C2 l' s' k).

Lemma gequiv_r_refl C : gequiv_r C C.
Proof. repeat split. Qed.
Lemma gequiv_l_refl C : gequiv_l C C.
Proof. repeat split. Qed.

Lemma gequiv_r_site C1 C2 O : gequiv_r C1 C2 -> site_expect C1 O = site_expect C2 O.
Proof.
  intros (Hp & Hr & H). unfold MpsObs.site_expect. rewrite Hp.
  apply sumn_ext. intros s _. apply sumn_ext. intros s' _. f_equal.
  unfold site_temp. rewrite (sumn_swap (dl C1) (dr C1)), (sumn_swap (dl C2) (dr C2)). rewrite Hr.
  apply sumn_ext. intros r _. apply H.
Qed.

Lemma gequiv_l_site C1 C2 O : gequiv_l C1 C2 -> site_expect C1 O = site_expect C2 O.
Proof.
  intros (Hp & Hl & H). unfold MpsObs.site_expect. rewrite Hp.
  apply sumn_ext. intros s _. apply sumn_ext. intros s' _. f_equal.
  unfold site_temp. rewrite Hl. apply sumn_ext. intros l _. apply H.
Qed.

Section TwoOracles.
Variables qr1 qr2 : Mat -> Mat.
Hypothesis ok1 : qr_gram_ok Ko qr1.
Hypothesis ok2 : qr_gram_ok Ko qr2.

Lemma gequiv_r_step C1 C2 (A : T3) : gequiv_r C1 C2 -> dl A = dr C1 ->
  gequiv_r (absorb_l (qr1 (mat_r C1)) A) (absorb_l (qr2 (mat_r C2)) A).
Proof.
  intros (Hp & Hr & H) Hb. split; [reflexivity|]. split; [reflexivity|]. intros s s' r r'.
  change (dl (absorb_l (qr1 (mat_r C1)) A)) with (mr (qr1 (mat_r C1))).
  change (dl (absorb_l (qr2 (mat_r C2)) A)) with (mr (qr2 (mat_r C2))).
  rewrite !gram_absorb_l. apply sumn_ext. intros l Hl. apply sumn_ext. intros l' Hl'. f_equal.
  rewrite ok1 by (cbn [mc mat_r]; lia). rewrite ok2 by (cbn [mc mat_r]; lia).
  rewrite !gram_mat_r.
  rewrite (sumn_swap (dl C1) (dp C1)), (sumn_swap (dl C2) (dp C2)). rewrite Hp.
  apply sumn_ext. intros s0 _. apply H.
Qed.

Lemma gequiv_l_step C1 C2 (A : T3) : gequiv_l C1 C2 -> dr A = dl C1 ->
  gequiv_l (absorb_r A (qr1 (mat_l C1))) (absorb_r A (qr2 (mat_l C2))).
Proof.
  intros (Hp & Hl & H) Hb. split; [reflexivity|]. split; [reflexivity|]. intros s s' l l'.
  change (dr (absorb_r A (qr1 (mat_l C1)))) with (mr (qr1 (mat_l C1))).
  change (dr (absorb_r A (qr2 (mat_l C2)))) with (mr (qr2 (mat_l C2))).
  rewrite !gram_absorb_r. apply sumn_ext. intros r Hr. apply sumn_ext. intros r' Hr'. f_equal.
  rewrite ok1 by (cbn [mc mat_l]; lia). rewrite ok2 by (cbn [mc mat_l]; lia).
  rewrite !gram_mat_l. rewrite Hp.
  apply sumn_ext. intros s0 _. apply H.
Qed.

(* bonds of the factors visited by the left-going sweep (reversed prefix): right bond of each = left bond of the
   current centre *)
Fixpoint lbonds_ok (n : nat) (revpre : list T3) : Prop :=
  match revpre with [] => True | A :: pre' => dr A = n /\ lbonds_ok (dl A) pre' end.

Lemma centres_r_gauge O : forall (Rs : list T3) C1 C2 m, gequiv_r C1 C2 -> bonds_ok (dr C1) Rs m ->
  map (fun X => site_expect X O) (centres_r Ko qr1 C1 Rs) = map (fun X => site_expect X O) (centres_r Ko qr2 C2 Rs).
Proof.
  induction Rs as [|A Rs IH]; intros C1 C2 m He Hb.
  - simpl. f_equal. apply gequiv_r_site; assumption.
  - destruct Hb as (Hd & Hb). cbn [centres_r map]. f_equal; [apply gequiv_r_site; assumption|].
    apply (IH _ _ m); [apply gequiv_r_step; assumption | exact Hb].
Qed.

Lemma centres_l_gauge O : forall (pre : list T3) C1 C2, gequiv_l C1 C2 -> lbonds_ok (dl C1) pre ->
  map (fun X => site_expect X O) (centres_l Ko qr1 C1 pre) = map (fun X => site_expect X O) (centres_l Ko qr2 C2 pre).
Proof.
  induction pre as [|A pre IH]; intros C1 C2 He Hb; [reflexivity|].
  destruct Hb as (Hd & Hb). cbn [centres_l map].
  assert (Hs := gequiv_l_step C1 C2 A He Hd).
  f_equal; [apply gequiv_l_site; exact Hs|]. apply IH; [exact Hs | exact Hb].
Qed.

End TwoOracles.

(* bonds of a chain seen from the right end *)
Lemma lbonds_rev : forall (Ls : list T3) n m, bonds_ok n Ls m -> lbonds_ok m (rev Ls).
Proof.
  induction Ls as [|A Ls IH]; intros n m H; [exact I|].
  destruct H as (Hd & H). simpl rev.
  assert (G : forall (Xs : list T3) k, lbonds_ok k Xs -> forall B, (match Xs with [] => k | _ => dl (last Xs B) end) = dr B ->
              lbonds_ok k (Xs ++ [B])).
  { induction Xs as [|X Xs IHX]; intros k Hk B HB.
    - simpl. split; [symmetry; exact HB | exact I].
    - destruct Hk as (Hk1 & Hk2). simpl. split; [exact Hk1|]. apply IHX; [exact Hk2|].
      destruct Xs; [exact HB | exact HB]. }
  apply G; [apply (IH _ _ H)|].
  clear G IH. revert A Hd H. generalize dependent n.
  induction Ls as [|B Ls IH2]; intros n A Hd H.
  - simpl in *. symmetry. exact H.
  - destruct H as (Hb & H). simpl rev.
    destruct (rev Ls ++ [B]) eqn:E; [destruct (rev Ls); discriminate|]. rewrite <- E.
    rewrite last_last. exact Hb.
Qed.

Lemma expect_batch_split qr (Ls : list T3) C Rs ops :
  expect_batch Ko qr (length Ls) (Ls ++ C :: Rs) ops =
  Some (map (fun X => map (site_expect X) ops) (rev (centres_l Ko qr C (rev Ls)) ++ centres_r Ko qr C Rs)).
Proof.
  unfold expect_batch. rewrite nth_error_app2 by lia. rewrite Nat.sub_diag. cbn [nth_error].
  rewrite firstn_app, Nat.sub_diag, firstn_all. cbn [firstn]. rewrite app_nil_r.
  replace (skipn (S (length Ls)) (Ls ++ C :: Rs)) with Rs; [reflexivity|].
  rewrite skipn_app. rewrite skipn_all2 by lia. replace (S (length Ls) - length Ls) with 1 by lia. reflexivity.
Qed.

(* MPS.expect_batch, every chain with fitting bonds, every declared centre, every batch of operators: two
   Gram-preserving QR oracles give the same table *)
Theorem expect_batch_gauge qr1 qr2 : qr_gram_ok Ko qr1 -> qr_gram_ok Ko qr2 ->
  forall (Ls : list T3) C Rs n m ops, bonds_ok n (Ls ++ C :: Rs) m ->
  expect_batch Ko qr1 (length Ls) (Ls ++ C :: Rs) ops = expect_batch Ko qr2 (length Ls) (Ls ++ C :: Rs) ops.
Proof.
  intros ok1 ok2 Ls C Rs n m ops Hb. rewrite !expect_batch_split. f_equal.
  assert (HL : bonds_ok n Ls (dl C) /\ bonds_ok (dr C) Rs m).
  { clear -Hb. revert n Hb. induction Ls as [|A Ls IH]; intros n Hb.
    - destruct Hb as (Hd & Hb). split; [symmetry; exact Hd | exact Hb].
    - destruct Hb as (Hd & Hb). destruct (IH _ Hb) as (H1 & H2). split; [split; assumption | exact H2]. }
  destruct HL as (HL & HR).
  assert (E1 : forall O, map (fun X => site_expect X O) (centres_l Ko qr1 C (rev Ls)) =
                         map (fun X => site_expect X O) (centres_l Ko qr2 C (rev Ls))).
  { intros O. apply centres_l_gauge; try assumption; [apply gequiv_l_refl | apply (lbonds_rev _ _ _ HL)]. }
  assert (E2 : forall O, map (fun X => site_expect X O) (centres_r Ko qr1 C Rs) =
                         map (fun X => site_expect X O) (centres_r Ko qr2 C Rs)).
  { intros O. apply (centres_r_gauge qr1 qr2 ok1 ok2 O Rs C C m); [apply gequiv_r_refl | exact HR]. }
  (* row by row, operator by operator *)
  assert (G : forall (Xs Ys : list T3), (forall O, map (fun X => site_expect X O) Xs = map (fun X => site_expect X O) Ys) ->
              map (fun X => map (site_expect X) ops) Xs = map (fun X => map (site_expect X) ops) Ys).
  { induction Xs as [|X Xs IHX]; intros Ys H.
    - destruct Ys; [reflexivity|]. specialize (H (fun _ _ => zero)). discriminate.
    - destruct Ys as [|Y Ys]; [specialize (H (fun _ _ => zero)); discriminate|].
      simpl. f_equal.
      + apply map_ext. intros O. specialize (H O). simpl in H. injection H as H _. exact H.
      + apply IHX. intros O. specialize (H O). simpl in H. injection H as _ H. exact H. }
  rewrite !map_app, !map_rev. f_equal; [f_equal; apply G; exact E1 | apply G; exact E2].
Qed.

End ObsProofs.

(* the premises are satisfiable at the execution instance: qr_id preserves the Gram matrix *)
Lemma qr_id_gram_ok : qr_gram_ok gi_ops qr_id.
Proof. intros M j j' _ _. reflexivity. Qed.

(* a second, different Gram-preserving oracle (Q = -i * identity, R = i * M): the gauge theorem is not about one oracle *)
Definition qr_phase (M : Mat GI) : Mat GI :=
  MkMat (mr M) (mc M) (fun k j => kmul gi_ops (0%Z, 1%Z) (mf M k j)).
Lemma qr_phase_gram_ok : qr_gram_ok gi_ops qr_phase.
Proof.
  intros M j j' _ _. unfold gram, qr_phase. cbn [mr mf]. apply (sumn_ext GI gi_ops). intros k _.
  destruct (mf M k j) as [a b], (mf M k j') as [c d]. cbn [kmul kconj gi_ops fst snd]. f_equal; ring.
Qed.

(* premises of expect_batch_gauge are satisfiable, with two different oracles, on a 3-site chain with centre 1 whose
   occupation table is defined and not trivially zero *)
Lemma expect_batch_gauge_example :
  bonds_ok 1 ([nth 0 ex_chain (zeros3 gi_ops 0 0 0)] ++ nth 1 ex_chain (zeros3 gi_ops 0 0 0) :: [nth 2 ex_chain (zeros3 gi_ops 0 0 0)]) 1 /\
  (exists M, mf (qr_id M) 0 0 <> mf (qr_phase M) 0 0) /\
  occupation gi_ops qr_phase 1 ex_chain = Some [(12, 0)%Z; (3, 0)%Z; (20, 0)%Z] /\
  occupation gi_ops qr_id 1 ex_chain = occupation gi_ops qr_phase 1 ex_chain.
Proof.
  split; [vm_compute; auto|]. split.
  - exists (MkMat 1 1 (fun _ _ => (1, 0)%Z)). vm_compute. discriminate.
  - split; vm_compute; reflexivity.
Qed.
