(* C25, emu-mps side: routing of the good atoms into the reduced chain, padding, accepted masks. *)
From Coq Require Import ZArith List Bool Arith Lia Permutation.
From EV Require Import Base.Arith Model.Permutations Model.Optimiser Model.QubitOrder Model.DarkMps
  Proofs.PermutationsProofs Proofs.OptimiserProofs Proofs.QubitOrderProofs.
Import ListNotations.
Open Scope nat_scope.

(* ---- boolean-mask filtering ---------------------------------------------------------------------------------- *)
Lemma filter_mask_map {A B} (f : A -> B) (g : A -> bool) (p : list A) :
  filter_mask (map g p) (map f p) = map f (filter g p).
Proof.
  unfold filter_mask. induction p as [|a p IH]; [reflexivity|]. simpl.
  destruct (g a); simpl; rewrite IH; reflexivity.
Qed.

Lemma filter_mask_checked_map {A B} (f : A -> B) (g : A -> bool) (p : list A) :
  filter_mask_checked (map g p) (map f p) = Ok (map f (filter g p)).
Proof. unfold filter_mask_checked. rewrite !map_length, Nat.eqb_refl, filter_mask_map. reflexivity. Qed.

Lemma Permutation_filter' {A} (g : A -> bool) (l l' : list A) : Permutation l l' -> Permutation (filter g l) (filter g l').
Proof.
  induction 1; simpl.
  - constructor.
  - destruct (g x); [constructor|]; assumption.
  - destruct (g x), (g y); first [apply perm_swap | apply Permutation_refl].
  - eapply Permutation_trans; eassumption.
Qed.

Lemma count_true_filter {A} (g : A -> bool) (p : list A) : count_true (map g p) = length (filter g p).
Proof.
  unfold count_true. induction p as [|a p IH]; [reflexivity|]. simpl.
  destruct (g a); simpl; [destruct (bool_dec true true); [|congruence] | destruct (bool_dec false true); [discriminate|]];
    rewrite IH; reflexivity.
Qed.

(* the good atoms in internal (chain) order *)
Definition internal_goods (perm : list nat) (bad : list bool) : list nat :=
  filter (fun a => negb (nth a bad false)) perm.

Lemma site_interaction_pm n perm (m : list (list Z)) : is_perm n perm -> wf n m ->
  site_interaction perm m = Ok (pm 0%Z m perm).
Proof.
  intros Hp W. unfold site_interaction. destruct (list_nat_eqb perm (seq 0 (length m))) eqn:E.
  - apply list_nat_eqb_spec in E. destruct W as [W1 W2]. rewrite E, W1. rewrite (pm_id 0%Z (conj W1 W2)). reflexivity.
  - apply (permute_matrix_ok 0%Z W (perm_lt Hp)).
Qed.

Theorem mps_dark_routing n perm (m : list (list Z)) (row : list Z) (bad : list bool) :
  is_perm n perm -> wf n m -> length row = n -> length bad = n ->
  let IG := internal_goods perm bad in
  mps_filter true perm bad = Ok (Some (map (fun a => negb (nth a bad false)) perm)) /\
  mps_dark_drive true perm bad row = Ok (map (fun a => nth a row 0%Z) IG) /\
  mps_dark_interaction true perm bad m = Ok (map (fun a => map (fun b => nth b (nth a m []) 0%Z) IG) IG) /\
  mps_dark_count true perm bad = Ok (length IG) /\
  Permutation IG (filter (fun a => negb (nth a bad false)) (seq 0 n)).
Proof.
  intros Hp W Hr Hb IG. pose proof (perm_lt Hp) as PF.
  assert (F : mps_filter true perm bad = Ok (Some (map (fun a => negb (nth a bad false)) perm))).
  { unfold mps_filter, site_bad. simpl. rewrite (permute_list_ok false) by (rewrite Hb; auto). simpl.
    unfold pl. rewrite map_map. reflexivity. }
  split; [exact F|]. split; [|split; [|split]].
  - unfold mps_dark_drive. rewrite F. unfold site_drive, permute_vector. cbn [v_drives fixed].
    rewrite (permute_list_ok 0%Z) by (rewrite Hr; auto). cbn [res_bind].
    unfold pl. apply filter_mask_checked_map.
  - unfold mps_dark_interaction. rewrite F. rewrite (site_interaction_pm n) by assumption. cbn [res_bind].
    unfold pm, pl. rewrite map_map.
    rewrite (filter_mask_checked_map (fun x => map (fun i => nth i (nth x m []) 0%Z) perm)). simpl.
    fold IG. rewrite (mapM_ok (filter_mask_checked (map (fun a => negb (nth a bad false)) perm))
                              (fun r => filter_mask (map (fun a => negb (nth a bad false)) perm) r)).
    + rewrite map_map. f_equal. apply map_ext. intros a. apply filter_mask_map.
    + apply Forall_forall. intros r Hr'. apply in_map_iff in Hr'. destruct Hr' as [a [<- _]].
      unfold filter_mask_checked. rewrite !map_length, Nat.eqb_refl. reflexivity.
  - unfold mps_dark_count. rewrite F. simpl. f_equal. apply (count_true_filter (fun a => negb (nth a bad false))).
  - apply Permutation_filter'. apply is_perm_Permutation. assumption.
Qed.

(* without state-preparation errors nothing is filtered (this is the routing of C03) *)
Theorem mps_no_spe_routing n perm (m : list (list Z)) (row : list Z) (bad : list bool) :
  is_perm n perm -> wf n m -> length row = n ->
  mps_dark_drive false perm bad row = Ok (map (fun a => nth a row 0%Z) perm) /\
  mps_dark_interaction false perm bad m = Ok (map (fun a => map (fun b => nth b (nth a m []) 0%Z) perm) perm) /\
  mps_dark_count false perm bad = Ok (length perm).
Proof.
  intros Hp W Hr. pose proof (perm_lt Hp) as PF. split; [|split].
  - unfold mps_dark_drive, site_drive, permute_vector. simpl.
    rewrite (permute_list_ok 0%Z) by (rewrite Hr; auto). reflexivity.
  - unfold mps_dark_interaction. rewrite (site_interaction_pm n) by assumption. simpl.
    unfold pm, pl. rewrite map_map. reflexivity.
  - reflexivity.
Qed.

(* ---- padding ------------------------------------------------------------------------------------------------ *)
Lemma count_true_cons b l : count_true (b :: l) = (if b then 1 else 0) + count_true l.
Proof. unfold count_true. simpl. destruct b; [destruct (bool_dec true true); [|congruence] | destruct (bool_dec false true); [discriminate|]]; reflexivity. Qed.

Lemma ext_loop_spec pd : forall wh rest bond, length rest = count_true wh ->
  exists r, ext_loop pd rest bond wh = Ok r /\
    map (fun x : bool * shape => negb (fst x)) r = wh /\
    map snd (filter (fun x : bool * shape => negb (fst x)) r) = rest /\
    Forall (fun x : bool * shape => fst x = true -> s_phys (snd x) = pd) r.
Proof.
  induction wh as [|b wh IH]; intros rest bond H.
  - destruct rest; [|discriminate]. exists []. repeat split; constructor.
  - rewrite count_true_cons in H. destruct b.
    + destruct rest as [|f rest]; [simpl in H; lia|]. simpl in H.
      destruct (IH rest (s_right f)) as [r [E [P1 [P2 P3]]]]; [lia|].
      exists ((false, f) :: r). simpl. rewrite E. simpl. rewrite P1, P2. repeat split.
      constructor; [intros; discriminate | assumption].
    + simpl in H. destruct rest as [|f rest].
      * destruct (IH [] 1) as [r [E [P1 [P2 P3]]]]; [assumption|].
        exists ((true, (bond, pd, 1)) :: r). simpl. rewrite E. simpl. rewrite P1, P2. repeat split.
        constructor; [reflexivity | assumption].
      * destruct (IH (f :: rest) bond) as [r [E [P1 [P2 P3]]]]; [assumption|].
        exists ((true, (bond, pd, bond)) :: r). cbn [ext_loop]. rewrite E. simpl. rewrite P1, P2. repeat split.
        constructor; [reflexivity | assumption].
Qed.

Theorem padding_roundtrip v factors wh : length factors = count_true wh ->
  exists r, extended_mps_shapes v factors wh = Ok r /\
    length r = length wh /\
    map (fun x : bool * shape => negb (fst x)) r = wh /\
    map snd (filter (fun x : bool * shape => negb (fst x)) r) = factors /\
    Forall (fun x : bool * shape => fst x = true -> s_phys (snd x) = pad_phys v factors) r.
Proof.
  intros H. unfold extended_mps_shapes. rewrite H, Nat.eqb_refl.
  destruct (ext_loop_spec (pad_phys v factors) wh factors 1 H) as [r [E [P1 [P2 P3]]]]. exists r. repeat split; try assumption.
  transitivity (length (map (fun x : bool * shape => negb (fst x)) r)); [symmetry; apply map_length | rewrite P1; reflexivity].
Qed.

(* F-14: the inserted factors have physical dimension 2, so for any other basis size the MPS constructor
   rejects the padded chain as soon as one atom is bad *)
Theorem padding_rejected_for_qudits factors wh dim r : length factors = count_true wh -> In false wh -> dim <> 2 ->
  extended_mps_shapes false factors wh = Ok r -> mps_ctor_ok dim (map snd r) <> Ok tt.
Proof.
  intros H Hin Hd E. destruct (padding_roundtrip false factors wh H) as [r' [E' [_ [P1 [_ P3]]]]].
  rewrite E in E'. injection E' as <-.
  rewrite <- P1 in Hin. apply in_map_iff in Hin. destruct Hin as [x [Hx Hin]]. apply negb_false_iff in Hx.
  rewrite Forall_forall in P3. specialize (P3 x Hin Hx).
  assert (FB : forallb (fun f => s_phys f =? dim) (map snd r) = false).
  { destruct (forallb (fun f => s_phys f =? dim) (map snd r)) eqn:FB; [|reflexivity].
    rewrite forallb_forall in FB. specialize (FB (snd x) (in_map snd _ _ Hin)). apply Nat.eqb_eq in FB.
    unfold pad_phys in P3. congruence. }
  unfold mps_ctor_ok. destruct (map snd r) as [|f0 l] eqn:EM; [discriminate|].
  destruct (negb (bonds_match (f0 :: l))); [discriminate|].
  destruct (negb ((s_left f0 =? 1) && (s_right (last (f0 :: l) f0) =? 1))); [discriminate|].
  destruct (negb (1 <? length (f0 :: l))); [discriminate|].
  rewrite FB. discriminate.
Qed.

(* get_extended_site_index: the result is the position of the desired-th True of the mask *)
Lemma ext_index_loop_spec : forall wh pos rem j, ext_index_loop wh pos rem = Ok j ->
  pos <= j /\ nth (j - pos) wh false = true /\ count_true (firstn (j - pos) wh) = rem.
Proof.
  induction wh as [|b wh IH]; intros pos rem j H; [discriminate|]. destruct b; simpl in H.
  - destruct rem.
    + injection H as <-. rewrite Nat.sub_diag. simpl. repeat split; auto.
    + apply IH in H. destruct H as [H1 [H2 H3]].
      replace (j - pos) with (S (j - S pos)) by lia. cbn [nth firstn]. rewrite count_true_cons, H3. repeat split; auto; lia.
  - apply IH in H. destruct H as [H1 [H2 H3]].
    replace (j - pos) with (S (j - S pos)) by lia. cbn [nth firstn]. rewrite count_true_cons, H3. repeat split; auto; lia.
Qed.

Theorem extended_site_index_spec wh d j : extended_site_index wh d = Ok j ->
  nth j wh false = true /\ count_true (firstn j wh) = d.
Proof.
  intros H. apply ext_index_loop_spec in H. rewrite Nat.sub_0_r in H. tauto.
Qed.

(* ---- accepted masks ----------------------------------------------------------------------------------------- *)
Theorem mps_mask_domain n dim bad :
  mps_accepts false n dim true false bad = Ok tt <->
  2 <= n /\ 2 <= count_true (map negb bad) /\ (dim = 2 \/ (dim = 3 /\ existsb (fun b => b) bad = false)).
Proof.
  unfold mps_accepts.
  destruct (Nat.leb_spec 2 n); simpl; [|split; [discriminate | lia]].
  destruct (Nat.leb_spec (count_true (map negb bad)) 1); simpl; [split; [discriminate | lia]|].
  destruct (Nat.eqb_spec dim 2) as [->|D2]; simpl.
  - rewrite andb_false_r. split; auto.
  - destruct (Nat.eqb_spec dim 3) as [->|D3]; simpl.
    + rewrite andb_true_r. destruct (existsb (fun b => b) bad); split; try discriminate; auto.
      intros [_ [_ [?|[_ ?]]]]; [lia | discriminate].
    + split; [discriminate|]. intros [_ [_ [?|[? _]]]]; lia.
Qed.

(* with the inserted factors sized like the state (proposed fix of F-14) only the >= 2 good atoms condition remains *)
Theorem mps_mask_domain_pad_fixed n dim bad :
  mps_accepts true n dim true false bad = Ok tt <->
  2 <= n /\ 2 <= count_true (map negb bad) /\ (dim = 2 \/ dim = 3).
Proof.
  unfold mps_accepts.
  destruct (Nat.leb_spec 2 n); simpl; [|split; [discriminate | lia]].
  destruct (Nat.leb_spec (count_true (map negb bad)) 1); simpl; [split; [discriminate | lia]|].
  destruct (Nat.eqb_spec dim 2) as [->|D2]; simpl; [split; auto|].
  destruct (Nat.eqb_spec dim 3) as [->|D3]; simpl; [split; auto|].
  split; [discriminate|]. intros [_ [_ [?|?]]]; lia.
Qed.

(* ... and every inserted factor then has the physical dimension of the first original factor *)
Theorem padding_fixed_phys factors wh f0 : length factors = count_true wh -> nth_error factors 0 = Some f0 ->
  exists r, extended_mps_shapes true factors wh = Ok r /\
    Forall (fun x : bool * shape => fst x = true -> s_phys (snd x) = s_phys f0) r.
Proof.
  intros H H0. destruct (padding_roundtrip true factors wh H) as [r [E [_ [_ [_ P]]]]]. exists r. split; [assumption|].
  destruct factors as [|f fs]; [discriminate|]. injection H0 as <-. exact P.
Qed.
