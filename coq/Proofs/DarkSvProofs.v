(* C25, emu-sv side: a badly prepared atom (drive zeroed) decouples.  For every N, every bad-atom mask and
   every coefficient ring: the dense Hamiltonian of C06 (Hdense/ham_site/Uint) never connects the sector
   "all bad atoms in g" with its complement, and restricted to that sector it is entry for entry the
   Hamiltonian of the sub-register of the well-prepared atoms. *)
From Coq Require Import List Arith Bool Lia Ring.
From EV Require Import Model.SvBase Model.SvHam Model.SvState Model.DarkSv
  Proofs.SvBaseProofs Proofs.SvHamProofs Proofs.SvStateProofs Proofs.BitIndex.
Import ListNotations.

(* ---- lists ----------------------------------------------------------------------------------------------- *)
Lemma nth_map' {A B} (f : A -> B) l s d d' : s < length l -> nth s (map f l) d' = f (nth s l d).
Proof. intros. rewrite (nth_indep _ d' (f d)) by (rewrite map_length; assumption). apply map_nth. Qed.

Lemma goods_In bad i : In i (goods bad) <-> i < length bad /\ nth i bad false = false.
Proof. unfold goods. rewrite filter_In, in_seq, negb_true_iff. split; intros [? ?]; split; auto; lia. Qed.

Lemma goods_NoDup bad : NoDup (goods bad).
Proof. apply NoDup_filter, seq_NoDup. Qed.

Lemma filter_seq_mono p : forall n a s t, s < t -> t < length (filter p (seq a n)) ->
  nth s (filter p (seq a n)) 0 < nth t (filter p (seq a n)) 0.
Proof.
  induction n; intros a s t Hst Ht; simpl in *; [lia|].
  destruct (p a) eqn:E; simpl in *.
  - destruct t; [lia|]. destruct s.
    + assert (H : In (nth t (filter p (seq (S a) n)) 0) (filter p (seq (S a) n))) by (apply nth_In; lia).
      apply filter_In in H. destruct H as [H _]. apply in_seq in H. lia.
    + apply IHn; lia.
  - apply IHn; lia.
Qed.

Lemma goods_ltb bad s t : s < length (goods bad) -> t < length (goods bad) ->
  (nth s (goods bad) 0 <? nth t (goods bad) 0) = (s <? t).
Proof.
  intros Hs Ht. unfold goods in *.
  destruct (Nat.ltb_spec s t) as [L|L].
  - apply Nat.ltb_lt. apply filter_seq_mono; assumption.
  - apply Nat.ltb_ge. destruct (Nat.eq_dec s t) as [->|Hne]; [lia|].
    apply Nat.lt_le_incl. apply filter_seq_mono; [lia | assumption].
Qed.

Lemma goods_nth_lt bad s : s < length (goods bad) ->
  nth s (goods bad) 0 < length bad /\ nth (nth s (goods bad) 0) bad false = false.
Proof. intros. apply goods_In. apply nth_In. assumption. Qed.

Lemma goods_index bad i : i < length bad -> nth i bad false = false ->
  exists s, s < length (goods bad) /\ nth s (goods bad) 0 = i.
Proof. intros. apply In_nth. apply goods_In. auto. Qed.

(* the sector "every bad atom in g" *)
Definition in_sector (N : nat) (bad : list bool) (k : nat) : Prop :=
  forall i, i < N -> nth i bad false = true -> bit N i k = 0.

(* ---- sub_index --------------------------------------------------------------------------------------------- *)
Lemma binary_sub N idx k : binary (map (fun i => bit N i k) idx).
Proof. apply Forall_forall. intros x Hx. apply in_map_iff in Hx. destruct Hx as [i [<- _]]. apply bit_lt. Qed.

Lemma sub_lt N idx k : sub_index N idx k < 2 ^ length idx.
Proof.
  pose proof (of_bits_lt _ (binary_sub N idx k)) as L. rewrite map_length in L. exact L.
Qed.

Lemma sub_bit N idx k s : s < length idx -> bit (length idx) s (sub_index N idx k) = bit N (nth s idx 0) k.
Proof.
  intros Hs. pose proof (bit_of_bits _ s (binary_sub N idx k)) as B. rewrite map_length in B.
  unfold sub_index. unfold of_bits in B. rewrite B by assumption.
  apply (nth_map' (fun i => bit N i k)). assumption.
Qed.

Section Sector.
Variable bad : list bool.
Variable N : nat.
Hypothesis Hlen : length bad = N.
Notation G := (goods bad).
Notation N' := (length (goods bad)).
Notation sub := (sub_index N (goods bad)).

Lemma sector_bits_eq k k' : in_sector N bad k -> in_sector N bad k' ->
  (forall s, s < N' -> bit N' s (sub k) = bit N' s (sub k')) -> forall i, i < N -> bit N i k = bit N i k'.
Proof.
  intros Sk Sk' H i Hi. destruct (nth i bad false) eqn:E.
  - rewrite Sk, Sk' by assumption. reflexivity.
  - destruct (goods_index bad i) as [s [Hs Es]]; [lia | assumption |].
    specialize (H s Hs). rewrite !sub_bit in H by assumption. rewrite Es in H. exact H.
Qed.

Lemma sub_eqb k k' : k < 2 ^ N -> k' < 2 ^ N -> in_sector N bad k -> in_sector N bad k' ->
  (sub k =? sub k') = (k =? k').
Proof.
  intros Hk Hk' Sk Sk'. destruct (Nat.eqb_spec k k') as [->|Hne]; [apply Nat.eqb_refl|].
  apply Nat.eqb_neq. intros E. apply Hne. apply (index_ext N); try assumption.
  apply sector_bits_eq; try assumption. intros s Hs. rewrite E. reflexivity.
Qed.

Lemma sub_same_except k k' s : k < 2 ^ N -> k' < 2 ^ N -> in_sector N bad k -> in_sector N bad k' -> s < N' ->
  same_except N' s (sub k) (sub k') = same_except N (nth s G 0) k k'.
Proof.
  intros Hk Hk' Sk Sk' Hs. destruct (goods_nth_lt bad s Hs) as [Hn Hg]. rewrite Hlen in Hn.
  apply eq_true_iff_eq.
  rewrite (same_except_bits N' s) by (try assumption; apply sub_lt).
  rewrite (same_except_bits N (nth s G 0)) by assumption.
  split.
  - intros H i Hi Hne. destruct (nth i bad false) eqn:E.
    + rewrite Sk, Sk' by assumption. reflexivity.
    + destruct (goods_index bad i) as [t [Ht Et]]; [lia | assumption |].
      assert (t <> s) by (intros ->; congruence).
      specialize (H t Ht H0). rewrite !sub_bit in H by assumption. rewrite Et in H. exact H.
  - intros H t Ht Hne. rewrite !sub_bit by assumption.
    destruct (goods_nth_lt bad t Ht) as [Hn' _]. rewrite Hlen in Hn'.
    apply H; [assumption|]. intros E. apply Hne.
    apply (proj1 (NoDup_nth G 0) (goods_NoDup bad)); assumption.
Qed.

Section Ring.
Variable o : Kops.
Hypothesis laws : Klaws o.
Add Ring Kr25 : (K_ring o laws).
Open Scope K_scope.
Notation zero := (k0 o).
Notation one := (k1 o).
Notation cj := (kconj o).

Lemma ksum_cons {A} (a : A) l (f : A -> o) : ksum (a :: l) f = f a + ksum l f.
Proof. reflexivity. Qed.

Lemma ksum_map {A B} (g : A -> B) l (f : B -> o) : ksum (map g l) f = ksum l (fun a => f (g a)).
Proof. induction l; [reflexivity|]. simpl map. rewrite !ksum_cons, IHl. reflexivity. Qed.

Lemma ksum_nth (l : list nat) (f : nat -> o) : ksum l f = ksumn (length l) (fun s => f (nth s l 0)).
Proof.
  unfold ksumn. induction l as [|a l IH]; [reflexivity|].
  simpl length. change (seq 0 (S (length l))) with (0 :: seq 1 (length l)).
  rewrite !ksum_cons. f_equal. rewrite <- seq_shift, ksum_map. exact IH.
Qed.

Lemma ksum_filter p (l : list nat) (f : nat -> o) :
  (forall a, In a l -> p a = false -> f a = zero) -> ksum l f = ksum (filter p l) f.
Proof.
  induction l as [|a l IH]; intros H; [reflexivity|]. simpl filter. rewrite ksum_cons.
  assert (H' : forall a0, In a0 l -> p a0 = false -> f a0 = zero) by (intros; apply H; simpl; auto).
  destruct (p a) eqn:E.
  - rewrite ksum_cons, IH by assumption. reflexivity.
  - rewrite (H a) by (simpl; auto). rewrite IH by assumption. ring.
Qed.

(* a sum over all atoms whose bad-atom terms vanish is the sum over the good atoms *)
Lemma ksumn_goods (f : nat -> o) : (forall n, n < N -> nth n bad false = true -> f n = zero) ->
  ksumn N f = ksumn N' (fun s => f (nth s G 0)).
Proof.
  intros H. unfold ksumn at 1. rewrite (ksum_filter (fun i => negb (nth i bad false))).
  - rewrite <- Hlen. fold (goods bad). apply ksum_nth.
  - intros a Ha Hb. apply in_seq in Ha. apply negb_false_iff in Hb. apply H; [lia | assumption].
Qed.

Lemma ksumn_zero n (f : nat -> o) : (forall k, k < n -> f k = zero) -> ksumn n f = zero.
Proof. intros H. rewrite (ksumn_ext o n f (fun _ => zero) H). apply (ksum_zero o laws). Qed.

Lemma kif_zero b : kif b zero = zero :> o.
Proof. destruct b; reflexivity. Qed.

(* ---- restriction of a dense operator  diag(Ud) + sum_n site_n(h_n)  to the sector -------------------- *)
Lemma Hdense_sector_reduced (h h' : nat -> M2 o) (Ud Ud' : nat -> o) :
  (forall n, n < N -> nth n bad false = true -> m2 (h n) 0 0 = zero) ->
  (forall s, s < N' -> h' s = h (nth s G 0)) ->
  forall k k', k < 2 ^ N -> k' < 2 ^ N -> in_sector N bad k -> in_sector N bad k' ->
  Ud' (sub k) = Ud k ->
  Hdense o N h Ud k k' = Hdense o N' h' Ud' (sub k) (sub k').
Proof.
  intros Hh Hh' k k' Hk Hk' Sk Sk' HU. unfold Hdense.
  rewrite sub_eqb, HU by assumption. f_equal.
  rewrite ksumn_goods.
  - apply ksumn_ext. intros s Hs. unfold site.
    rewrite sub_same_except, !sub_bit, Hh' by assumption. reflexivity.
  - intros n Hn Hb. unfold site. rewrite Sk, Sk', Hh by assumption. apply kif_zero.
Qed.

(* the pair sum of the interaction, written over all ordered pairs *)
Lemma ksum_tail n i (g : nat -> o) : i < n ->
  ksum (seq (i + 1) (n - (i + 1))) g = ksumn n (fun j => kif (i <? j) (g j)).
Proof.
  intros Hi. unfold ksumn.
  pose proof (seq_app (i + 1) (n - (i + 1)) 0) as E. rewrite Nat.add_0_l in E.
  replace (i + 1 + (n - (i + 1)))%nat with n in E by lia. rewrite E. clear E.
  rewrite (ksum_app o laws).
  rewrite (ksum_ext o (seq 0 (i + 1)) _ (fun _ => zero)).
  2:{ intros j Hj. apply in_seq in Hj. destruct (Nat.ltb_spec i j); [lia | reflexivity]. }
  rewrite (ksum_zero o laws).
  rewrite (ksum_ext o (seq (i + 1) (n - (i + 1))) (fun j => kif (i <? j) (g j)) g).
  2:{ intros j Hj. apply in_seq in Hj. destruct (Nat.ltb_spec i j); [reflexivity | lia]. }
  ring.
Qed.

Definition Uterm (n : nat) (U : list (list o)) (k i j : nat) : o :=
  kif (i <? j) (kif ((bit n i k =? 1) && (bit n j k =? 1)) (getU o U i j)).

Lemma Uint_full n U k : Uint o n U k = ksumn n (fun i => ksumn n (fun j => Uterm n U k i j)).
Proof. unfold Uint. apply ksumn_ext. intros i Hi. apply ksum_tail. assumption. Qed.

Lemma getU_gather (U : list (list o)) s t : s < N' -> t < N' ->
  getU o (gatherU o U G) s t = getU o U (nth s G 0) (nth t G 0).
Proof.
  intros Hs Ht. unfold getU at 1, gatherU.
  rewrite (nth_map' (fun i => map (fun j => getU o U i j) G) G s 0) by assumption.
  unfold get. apply (nth_map' (fun j => getU o U (nth s G 0) j)). assumption.
Qed.

Lemma get_gather (l : list o) s : s < N' -> get (gather o l G) s = get l (nth s G 0).
Proof. intros Hs. unfold gather, get at 1. apply (nth_map' (fun i => get l i)). assumption. Qed.

Lemma Uint_reduced U k : k < 2 ^ N -> in_sector N bad k ->
  Uint o N' (gatherU o U G) (sub k) = Uint o N U k.
Proof.
  intros Hk Sk. rewrite !Uint_full. symmetry. rewrite ksumn_goods.
  - apply ksumn_ext. intros s Hs. rewrite ksumn_goods.
    + apply ksumn_ext. intros t Ht. unfold Uterm.
      rewrite goods_ltb, !sub_bit, getU_gather by assumption. reflexivity.
    + intros j Hj Hb. unfold Uterm. rewrite (Sk j) by assumption.
      rewrite andb_false_r. simpl. apply kif_zero.
  - intros i Hi Hb. apply ksumn_zero. intros j Hj. unfold Uterm. rewrite (Sk i) by assumption.
    simpl. apply kif_zero.
Qed.

(* ---- the Rydberg Hamiltonian ------------------------------------------------------------------------------ *)
Theorem dark_sector_reduced (omega delta e : list o) (U : list (list o)) k k' :
  k < 2 ^ N -> k' < 2 ^ N -> in_sector N bad k -> in_sector N bad k' ->
  Hdense o N (ham_site o omega delta e) (Uint o N U) k k' =
  Hdense o N' (ham_site o (gather o omega G) (gather o delta G) (gather o e G)) (Uint o N' (gatherU o U G))
         (sub k) (sub k').
Proof.
  intros Hk Hk' Sk Sk'. apply Hdense_sector_reduced; try assumption.
  - intros. reflexivity.
  - intros s Hs. unfold ham_site. rewrite !get_gather by assumption. reflexivity.
  - apply Uint_reduced; assumption.
Qed.

Theorem dark_sector_invariant (omega delta e : list o) (U : list (list o)) k k' i :
  (forall n, n < N -> nth n bad false = true -> get omega n = zero) ->
  i < N -> nth i bad false = true -> bit N i k = 0 -> bit N i k' = 1 ->
  Hdense o N (ham_site o omega delta e) (Uint o N U) k k' = zero /\
  Hdense o N (ham_site o omega delta e) (Uint o N U) k' k = zero.
Proof.
  intros Hom Hi Hb B0 B1.
  assert (Hne : k <> k') by (intros ->; lia).
  assert (Hc : (get omega i * khalf o) * get e i = zero) by (rewrite (Hom i) by assumption; ring).
  assert (T : forall n, n < N ->
     site o N n (ham_site o omega delta e n) k k' = zero /\ site o N n (ham_site o omega delta e n) k' k = zero).
  { intros n Hn. unfold site. destruct (Nat.eq_dec n i) as [->|Hni].
    - rewrite B0, B1. unfold ham_site. rewrite Hc. unfold hop. cbn [m2].
      rewrite (conj_0 o laws). split; apply kif_zero.
    - assert (F : same_except N n k k' = false).
      { destruct (same_except N n k k') eqn:E; [|reflexivity].
        pose proof (same_except_bits_fwd N n k k' i Hn E Hi (not_eq_sym Hni)). lia. }
      rewrite (same_except_sym N n k' k), F. split; reflexivity. }
  unfold Hdense. split.
  - destruct (Nat.eqb_spec k k'); [contradiction|]. rewrite ksumn_zero by (intros; apply T; assumption). simpl. ring.
  - destruct (Nat.eqb_spec k' k); [congruence|]. rewrite ksumn_zero by (intros; apply T; assumption). simpl. ring.
Qed.

(* ---- the model's zeroing ------------------------------------------------------------------------------------ *)
Lemma get_mask_set v (l : list o) i : length l = N -> i < N ->
  get (mask_set o v bad l) i = if nth i bad false then v else get l i.
Proof.
  intros Hl Hi. unfold mask_set, get.
  rewrite (nth_map' (fun bx : bool * o => if fst bx then v else snd bx) (combine bad l) i (false, zero))
    by (rewrite combine_length; lia).
  rewrite combine_nth by lia. reflexivity.
Qed.

Lemma dark_vec_zero (l : list o) : length l = N ->
  forall n, n < N -> nth n bad false = true -> get (sv_dark_vec o bad l) n = zero.
Proof. intros Hl n Hn Hb. unfold sv_dark_vec. rewrite get_mask_set, Hb by assumption. reflexivity. Qed.

Lemma gather_mask_set v (l : list o) : length l = N -> gather o (mask_set o v bad l) G = gather o l G.
Proof.
  intros Hl. unfold gather. apply map_ext_in. intros i Hi. apply goods_In in Hi. destruct Hi as [Hi Hg].
  rewrite get_mask_set, Hg by (try assumption; lia). reflexivity.
Qed.

Lemma gatherU_dark (U : list (list o)) : length U = N -> (forall i, i < N -> length (nth i U []) = N) ->
  gatherU o (sv_dark_U o bad U) G = gatherU o U G.
Proof.
  intros HU Hrows. unfold gatherU. apply map_ext_in. intros i Hi. apply map_ext_in. intros j Hj.
  apply goods_In in Hi, Hj. destruct Hi as [Hi Hgi], Hj as [Hj Hgj]. rewrite Hlen in Hi, Hj.
  unfold getU, sv_dark_U.
  rewrite (nth_map' (fun br : bool * list o => map (fun bx : bool * o => if fst br || fst bx then zero else snd bx)
                                                 (combine bad (snd br))) (combine bad U) i (false, []))
    by (rewrite combine_length; lia).
  rewrite combine_nth by lia. cbn [fst snd]. rewrite Hgi. cbn [orb].
  unfold get.
  rewrite (nth_map' (fun bx : bool * o => if fst bx then zero else snd bx) (combine bad (nth i U [])) j (false, zero))
    by (rewrite combine_length, Hrows; lia).
  rewrite combine_nth by (rewrite Hrows; lia). cbn [fst snd]. rewrite Hgj. reflexivity.
Qed.

End Ring.
End Sector.

(* ---- final forms on the model of SVBackendImpl.init_dark_qubits ------------------------------------------- *)
Section Final.
Variable o : Kops.
Hypothesis laws : Klaws o.

Definition wfU (N : nat) (U : list (list o)) : Prop := length U = N /\ forall i, i < N -> length (nth i U []) = N.

(* the Hamiltonian emu-sv builds after init_dark_qubits (phi zeroed: e = exp(i 0) = 1 on bad atoms) *)
Definition sv_dark_H (N : nat) (bad : list bool) (omega delta e : list o) (U : list (list o)) : nat -> nat -> o :=
  Hdense o N (ham_site o (sv_dark_vec o bad omega) (sv_dark_vec o bad delta) (sv_dark_e o bad e))
         (Uint o N (sv_dark_U o bad U)).
(* the Hamiltonian of the register without the bad atoms *)
Definition good_H (bad : list bool) (omega delta e : list o) (U : list (list o)) : nat -> nat -> o :=
  let G := goods bad in
  Hdense o (length G) (ham_site o (gather o omega G) (gather o delta G) (gather o e G)) (Uint o (length G) (gatherU o U G)).

Theorem sv_dark_invariant N bad omega delta e U k k' i :
  length bad = N -> length omega = N ->
  i < N -> nth i bad false = true -> bit N i k = 0 -> bit N i k' = 1 ->
  sv_dark_H N bad omega delta e U k k' = k0 o /\ sv_dark_H N bad omega delta e U k' k = k0 o.
Proof.
  intros Hb Ho. unfold sv_dark_H. apply (dark_sector_invariant bad N Hb o laws).
  intros n Hn Hbn. apply (dark_vec_zero bad N Hb); assumption.
Qed.

Theorem sv_dark_reduced N bad omega delta e U k k' :
  length bad = N -> length omega = N -> length delta = N -> length e = N -> wfU N U ->
  k < 2 ^ N -> k' < 2 ^ N -> in_sector N bad k -> in_sector N bad k' ->
  sv_dark_H N bad omega delta e U k k' =
  good_H bad omega delta e U (sub_index N (goods bad) k) (sub_index N (goods bad) k').
Proof.
  intros Hb Ho Hd He [HU1 HU2] Hk Hk' Sk Sk'. unfold sv_dark_H, good_H.
  rewrite (dark_sector_reduced bad N Hb o laws) by assumption.
  unfold sv_dark_vec, sv_dark_e. rewrite !(gather_mask_set bad N Hb) by assumption.
  rewrite (gatherU_dark bad N Hb) by assumption. reflexivity.
Qed.

(* sub_index identifies the sector with the basis of the sub-register *)
Theorem sub_index_injective N bad k k' : length bad = N -> k < 2 ^ N -> k' < 2 ^ N ->
  in_sector N bad k -> in_sector N bad k' ->
  sub_index N (goods bad) k < 2 ^ length (goods bad) /\
  (sub_index N (goods bad) k = sub_index N (goods bad) k' -> k = k') /\
  forall s, s < length (goods bad) ->
    bit (length (goods bad)) s (sub_index N (goods bad) k) = bit N (nth s (goods bad) 0) k.
Proof.
  intros Hb Hk Hk' Sk Sk'. split; [apply sub_lt|]. split.
  - intros E. pose proof (sub_eqb bad N Hb k k' Hk Hk' Sk Sk') as B. rewrite E, Nat.eqb_refl in B.
    symmetry in B. apply Nat.eqb_eq in B. exact B.
  - intros s Hs. apply sub_bit. assumption.
Qed.
End Final.
