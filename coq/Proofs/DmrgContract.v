(* Proofs about the DMRG part of the emu-mps stepping machine (Model/MpsMachine.v); see Properties/C09.v. *)
From Coq Require Import ZArith List Bool Lia.
From EV Require Import Base.Arith Gen.Brent Model.MpsMachine Proofs.MpsStep Proofs.MpsPhase.
From EV Require Import Proofs.DmrgStep Proofs.DmrgPhase Proofs.DmrgSweep.
From EV Require Import Proofs.MpsSweep Proofs.MpsTdvpComplete.
Import ListNotations.
Open Scope Z_scope.

Section P.
Variable A : Type.
Variable ar : Arith A.
Notation mstate := (mstate A).
Notation event := (event A).
Notation dframe := (@dframe A).
Notation dpos := (@dpos A).
Notation dmrg_like := (@dmrg_like A).
Notation dmrg_l2r := (@dmrg_l2r A ar).
Notation dmrg_r2l := (@dmrg_r2l A ar).
Notation iter_progress_app := (@iter_progress_app A ar).

Ltac sp := cbn [m_kind m_N m_steps m_times m_sweep m_l2r m_tidx m_cur m_tgt m_nl m_nr m_oc m_thr m_gap m_rf
  m_prevE m_curE m_sweeps m_etol m_maxsw o_norm o_unif o_energy o_same m_ev
  emit set_sweep set_l2r set_tidx set_cur set_tgt set_nl set_nr set_oc set_thr set_gap set_rf set_prevE
  set_curE set_sweeps set_onorm set_ounif set_oenergy set_osame].
Ltac zt := repeat match goal with
  | |- context [(?a <? ?b)%Z] =>
      first [ replace (a <? b)%Z with true by (symmetry; apply Z.ltb_lt; lia)
            | replace (a <? b)%Z with false by (symmetry; apply Z.ltb_ge; lia) ]
  | |- context [(?a <=? ?b)%Z] =>
      first [ replace (a <=? b)%Z with true by (symmetry; apply Z.leb_le; lia)
            | replace (a <=? b)%Z with false by (symmetry; apply Z.leb_gt; lia) ]
  | |- context [(?a =? ?b)%Z] =>
      first [ replace (a =? b)%Z with true by (symmetry; apply Z.eqb_eq; lia)
            | replace (a =? b)%Z with false by (symmetry; apply Z.eqb_neq; lia) ]
  end.
Ltac step := sp; zt; cbn [negb andb orb res_bind].

Notation ev_l2r := (@ev_l2r A).
Notation ev_r2l := (@ev_r2l A).
Notation complete_events := (@complete_events A ar).
Notation dmrg_before_complete := (@dmrg_before_complete A).
Notation dmrg_sweep_body := (@dmrg_sweep_body A ar).
Notation timestep_complete_base_spec := (@timestep_complete_base_spec A ar).
Notation dstart := (@dstart A).
Notation sweep_ev := (@sweep_ev A).

(* the convergence test applied at the end of a sweep whose last minimisation returned e *)
Definition converges (prevE : option A) (e etol : A) : bool :=
  match prevE with Some p => a_ltb ar (a_abs ar (a_sub ar e p)) etol | None => false end.

Definition sweep_trace (s : mstate) (n : nat) : list event := rev (sweep_ev n) ++ m_ev s.

Lemma dbc_fields (s0 : mstate) (e : A) (rest0 : list A) :
  let sb := set_cur (dmrg_before_complete s0 e rest0) (m_tgt (dmrg_before_complete s0 e rest0)) in
  m_sweep sb = 0 /\ m_l2r sb = true /\ m_oc sb = 0 /\ m_N sb = m_N s0 /\ m_steps sb = m_steps s0 /\
  m_times sb = m_times s0 /\ m_tidx sb = m_tidx s0 /\ m_cur sb = m_tgt s0 /\ m_tgt sb = m_tgt s0 /\
  m_etol sb = m_etol s0 /\ m_maxsw sb = m_maxsw s0 /\ m_prevE sb = m_prevE s0 /\
  m_sweeps sb = m_sweeps s0 + 1 /\ o_energy sb = rest0 /\
  m_ev sb = EvOrth A 0 :: EvPopL A :: EvPushR A 2 :: EvMinimize A 1 false :: m_ev s0 /\
  m_kind sb = m_kind s0 /\ o_same sb = o_same s0 /\ m_curE sb = Some e.
Proof. cbv zeta. unfold DmrgSweep.dmrg_before_complete. sp. repeat split. Qed.

Section OneSweep.
Variables (s : mstate) (n : nat) (ea : list A) (eb : A) (ec : list A) (el : A) (rest : list A).
Hypothesis HT : dmrg_like s.
Hypothesis HN : m_N s = Z.of_nat n + 3.
Hypothesis HS : dstart s.
Hypothesis Hla : length ea = n.
Hypothesis Hlc : length ec = n.
Hypothesis He : o_energy s = ea ++ eb :: ec ++ el :: rest.

(* (C) not converged and sweeps left: same time step, previous energy := e, one more sweep counted *)
Lemma dmrg_sweep_continue :
  converges (m_prevE s) el (m_etol s) = false -> m_sweeps s + 2 <= m_maxsw s ->
  exists s', iter_progress ar (n + 1 + n + 1) s = Ok s' /\
    dstart s' /\ dmrg_like s' /\ m_N s' = m_N s /\ m_steps s' = m_steps s /\ m_times s' = m_times s /\
    m_tidx s' = m_tidx s /\ m_cur s' = m_cur s /\ m_tgt s' = m_tgt s /\ m_etol s' = m_etol s /\
    m_maxsw s' = m_maxsw s /\ o_same s' = o_same s /\
    m_prevE s' = Some el /\ m_sweeps s' = m_sweeps s + 1 /\ o_energy s' = rest /\
    m_ev s' = EvSave A :: sweep_trace s n.
Proof.
  intros Hc Hm.
  destruct (dmrg_sweep_body s n ea eb ec el rest HT HN HS Hla Hlc He) as (s1 & F1 & P1 & E1 & V1 & ->).
  destruct F1 as (Fk & FN & Fst & Fti & Ftx & Fcur & Ftg & FpE & Fsw & Fet & Fmx & Fsm).
  destruct P1 as (Psw & Pl & Pnl & Pnr). destruct HT as (Hk & HN3 & Htx).
  unfold sweep_complete, MpsMachine.sweep_complete. unfold DmrgSweep.dmrg_before_complete at 1. sp. rewrite Fk, Hk.
  unfold sweep_complete_dmrg, convergence_check. unfold DmrgSweep.dmrg_before_complete. sp.
  rewrite FpE, Fet. unfold converges in Hc. destruct (m_prevE s) as [p|]; [rewrite Hc|]; step; step; step;
    (eexists; split; [reflexivity|]); unfold DmrgSweep.dstart, DmrgStep.dpos, DmrgStep.dmrg_like, sweep_trace, DmrgSweep.sweep_ev; sp;
    rewrite V1, Pnl, Pnr, FN, Fk, Fst, Ftx; rewrite !rev_app_distr; cbn [rev app]; rewrite <- !app_assoc;
    repeat split; try reflexivity; try assumption; try lia.
Qed.

(* (B) not converged and the sweep budget is exhausted: RuntimeError *)
Lemma dmrg_sweep_gives_up :
  converges (m_prevE s) el (m_etol s) = false -> m_maxsw s < m_sweeps s + 2 ->
  iter_progress ar (n + 1 + n + 1) s = Err E_DMRG_NOCONV.
Proof.
  intros Hc Hm.
  destruct (dmrg_sweep_body s n ea eb ec el rest HT HN HS Hla Hlc He) as (s1 & F1 & P1 & E1 & V1 & ->).
  destruct F1 as (Fk & FN & Fst & Fti & Ftx & Fcur & Ftg & FpE & Fsw & Fet & Fmx & Fsm).
  destruct HT as (Hk & HN3 & Htx).
  unfold sweep_complete, MpsMachine.sweep_complete. unfold DmrgSweep.dmrg_before_complete at 1. sp. rewrite Fk, Hk.
  unfold sweep_complete_dmrg, convergence_check. unfold DmrgSweep.dmrg_before_complete. sp.
  rewrite FpE, Fet. unfold converges in Hc. destruct (m_prevE s) as [p|]; [rewrite Hc|]; step; reflexivity.
Qed.

(* (A) converged: the time step completes (fill_results at the step's end time, next row installed) *)
Lemma dmrg_sweep_converged (same : bool) (srest : list bool) (next : option A) :
  converges (m_prevE s) el (m_etol s) = true -> o_same s = same :: srest ->
  (m_tidx s + 1 < m_steps s -> exists t, next = Some t /\ nthZ (m_times s) (m_tidx s + 2) = Some t) ->
  (m_steps s <= m_tidx s + 1 -> next = None) ->
  exists s', iter_progress ar (n + 1 + n + 1) s = Ok s' /\
    m_kind s' = DMRG /\ m_N s' = m_N s /\ m_steps s' = m_steps s /\ m_times s' = m_times s /\
    m_tidx s' = m_tidx s + 1 /\ m_cur s' = m_tgt s /\
    m_tgt s' = match next with Some t => t | None => m_tgt s end /\
    (match next with Some _ => dstart s' | None => True end) /\
    m_etol s' = m_etol s /\ m_maxsw s' = m_maxsw s /\ o_same s' = srest /\
    m_prevE s' = m_prevE s /\ m_sweeps s' = m_sweeps s + 1 /\ o_energy s' = rest /\
    m_ev s' = EvSave A :: rev (complete_events (m_tidx s) (m_tgt s) same next) ++ sweep_trace s n.
Proof.
  intros Hc Hsame Hnext Hfin.
  destruct (dmrg_sweep_body s n ea eb ec el rest HT HN HS Hla Hlc He) as (s1 & F1 & P1 & E1 & V1 & ->).
  destruct F1 as (Fk & FN & Fst & Fti & Ftx & Fcur & Ftg & FpE & Fsw & Fet & Fmx & Fsm).
  destruct P1 as (Psw & Pl & Pnl & Pnr). destruct HT as (Hk & HN3 & Htx).
  pose proof (dbc_fields s1 el rest) as T. cbv zeta in T.
  set (sb := dmrg_before_complete s1 el rest) in *.
  set (s2 := set_cur sb (m_tgt sb)) in *.
  destruct T as (T0a & T0b & T0c & T1 & T2 & T3 & T4 & T5 & T6 & T7 & T8 & T9 & T10 & T11 & T12 & T13 & T14 & T15).
  assert (Hkb : m_kind sb = DMRG) by (change (m_kind sb) with (m_kind s2); rewrite T13, Fk; exact Hk).
  assert (Hcb : convergence_check ar sb = true).
  { unfold convergence_check. change (m_prevE sb) with (m_prevE s2). change (m_curE sb) with (m_curE s2).
    change (m_etol sb) with (m_etol s2). rewrite T9, T15, T7, FpE, Fet. exact Hc. }
  unfold sweep_complete, MpsMachine.sweep_complete. rewrite Hkb. unfold sweep_complete_dmrg. rewrite Hcb.
  unfold timestep_complete. change (m_kind (set_cur sb (m_tgt sb))) with (m_kind s2). rewrite T13, Fk, Hk.
  fold s2.
  destruct (timestep_complete_base_spec s2 same srest next) as (s3 & H3 & Q).
  { rewrite T1. lia. }
  { rewrite T6, T5. reflexivity. }
  { rewrite T14. congruence. }
  { rewrite T2, T4, T3, Fst, Ftx, Fti. exact Hnext. }
  { rewrite T2, T4, Fst, Ftx. exact Hfin. }
  rewrite H3. cbn [res_bind].
  destruct Q as (Qk & QN & Qst & Qti & Qtx & Qcur & Qtg & Qsw & Ql & Qoc & Qb & Qsame & Qen & QpE & QcE & Qsws & Qet & Qmx & Qev).
  clearbody s2. clear Hcb Hkb. clearbody sb.
  rewrite Qsw, Ql, Qoc, T0a, T0b, T0c. cbn [Z.eqb andb negb res_bind].
  eexists; split; [reflexivity|]. sp.
  split; [rewrite Qk, T13, Fk; exact Hk|].
  split; [rewrite QN, T1; exact FN|].
  split; [rewrite Qst, T2; exact Fst|].
  split; [rewrite Qti, T3; exact Fti|].
  split; [rewrite Qtx, T4, Ftx; reflexivity|].
  split; [rewrite Qcur, T5; exact Ftg|].
  split; [rewrite Qtg, T6, Ftg; reflexivity|].
  split.
  { destruct next; [|exact I]. destruct Qb as (Qnl & Qnr). unfold DmrgSweep.dstart, DmrgStep.dpos. sp.
    split; [rewrite Qsw; exact T0a|]. split; [rewrite Ql; exact T0b|]. split; [exact Qnl|].
    rewrite Qnr, QN. reflexivity. }
  split; [rewrite Qet, T7; exact Fet|].
  split; [rewrite Qmx, T8; exact Fmx|].
  split; [exact Qsame|].
  split; [rewrite QpE, T9; exact FpE|].
  split; [rewrite Qsws, T10, Fsw; reflexivity|].
  split; [rewrite Qen; exact T11|].
  rewrite Qev, T12, T4, T5, Ftx, Ftg. unfold sweep_trace, DmrgSweep.sweep_ev. rewrite V1.
  rewrite !rev_app_distr. cbn [rev app]. rewrite <- !app_assoc. reflexivity.
Qed.
End OneSweep.
End P.
