(* Invariant proofs for the noisy (quantum-jump) emu-mps stepping machine; see Properties/C18.v. *)
From Coq Require Import ZArith List Bool Lia Reals Lra.
From EV Require Import Base.Arith Gen.Brent Model.BrentLoop Model.MpsMachine Proofs.BrentProofs.
Import ListNotations.
Open Scope Z_scope.

Notation ms := (mstate R).
Notation ar := R_arith.

Ltac sp := cbn [m_kind m_N m_steps m_times m_sweep m_l2r m_tidx m_cur m_tgt m_nl m_nr m_oc m_thr m_gap m_rf
  m_prevE m_curE m_sweeps m_etol m_maxsw o_norm o_unif o_energy o_same m_ev
  emit set_sweep set_l2r set_tidx set_cur set_tgt set_nl set_nr set_oc set_thr set_gap set_rf set_prevE
  set_curE set_sweeps set_onorm set_ounif set_oenergy set_osame].
Ltac zt := repeat match goal with
  | |- context [(?a <? ?b)%Z] =>
      first [ replace (a <? b)%Z with true by (symmetry; apply Z.ltb_lt; lia)
            | replace (a <? b)%Z with false by (symmetry; apply Z.ltb_ge; lia) ]
  | |- context [(?a <=? ?b)%Z] =>
      first [ replace (a <=? b)%Z with true by (symmetry; apply Z.leb_le; lia)
            | replace (a <=? b)%Z with false by (symmetry; apply Z.leb_gt; lia) ]
  | |- context [(?a =? ?b)%Z] =>
      first [ replace (a =? b)%Z with true by (symmetry; apply Z.eqb_eq; lia)
            | replace (a =? b)%Z with false by (symmetry; apply Z.eqb_neq; lia) ]
  end.

(* time of grid point k (0 outside the list) *)
Definition tm (s : ms) (k : Z) : R := match nthZ (m_times s) k with Some t => t | None => 0%R end.

(* static well-formedness of a noisy run *)
Definition wf (s : ms) : Prop :=
  m_kind s = Noisy /\ 2 <= m_N s /\ Z.of_nat (length (m_times s)) = m_steps s + 1 /\
  (forall k, 0 <= k < m_steps s -> (tm s k < tm s (k + 1))%R).

(* position handed to sweep_complete *)
Definition cpos (s : ms) : Prop := m_sweep s = 0 /\ m_oc s = 0 /\ m_nl s = 1 /\ m_nr s = m_N s - 1.

(* the root-finder part of the invariant: either no search is running and the target is the end of the
   step, or a query is pending: the target is the abscissa just asked for, inside a valid bracket
   that lies inside the step *)
Definition rfinv (s : ms) : Prop :=
  let lo := tm s (m_tidx s) in
  let hi := tm s (m_tidx s + 1) in
  match m_rf s with
  | None => m_tgt s = hi
  | Some r1 => exists r0 x, Inv r0 /\ live r0 /\ in_box lo hi r0 /\
                 get_next_abscissa ar r0 = Ok (r1, Some x) /\ m_tgt s = x
  end.

Definition tinv (s : ms) : Prop :=
  0 <= m_tidx s < m_steps s /\
  (tm s (m_tidx s) <= m_cur s <= tm s (m_tidx s + 1))%R /\ rfinv s.

Lemma nthZ_in_range {T} (l : list T) k : 0 <= k < Z.of_nat (length l) -> exists t, nthZ l k = Some t.
Proof.
  intros H. unfold nthZ. replace (k <? 0) with false by (symmetry; apply Z.ltb_ge; lia).
  destruct (nth_error l (Z.to_nat k)) eqn:E; [eauto|]. apply nth_error_None in E. lia.
Qed.

Lemma tm_some (s : ms) k : 0 <= k < Z.of_nat (length (m_times s)) -> nthZ (m_times s) k = Some (tm s k).
Proof. intros H. unfold tm. destruct (nthZ_in_range (m_times s) k H) as [t ->]. reflexivity. Qed.

(* the pending abscissa lies inside the bracket, hence inside the step *)
Lemma pending_inside lo hi r0 r1 x :
  Inv r0 -> live r0 -> in_box lo hi r0 -> get_next_abscissa ar r0 = Ok (r1, Some x) -> (lo <= x <= hi)%R.
Proof.
  intros HI HL HB Hg.
  destruct (gna_spec r0 HI HL) as (dx & bis & Hg' & Hs). rewrite Hg in Hg'. injection Hg' as _ ->.
  destruct HB as [Ha Hb]. apply (between_box _ _ _ _ _ Ha Hb). apply (step_ok_between _ _ _ _ Hs).
Qed.
