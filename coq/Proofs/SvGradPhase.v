(* C30: the phase direction used by DHDPhiSparse.  Over the complex numbers (Proofs/SvComplexInstance.v, pairs
   of reals) e(phi) = exp(i phi) = (cos phi, sin phi);  DHDPhiSparse uses  ep = exp(i (phi + pi/2)), which is
   i * e(phi) = (-sin phi, cos phi) = d e / d phi. *)
From Coq Require Import Reals Lra.
From EV Require Import Model.SvBase Proofs.SvBaseProofs Proofs.SvComplexInstance.
Open Scope R_scope.

Definition expi (phi : R) : CK := (cos phi, sin phi).

Lemma expi_shift phi : expi (phi + PI / 2) = kmul CK (kI CK) (expi phi).
Proof. unfold expi. simpl. rewrite cos_plus, sin_plus, cos_PI2, sin_PI2. f_equal; ring. Qed.

Lemma expi_shift_components phi : expi (phi + PI / 2) = (- sin phi, cos phi).
Proof. unfold expi. rewrite cos_plus, sin_plus, cos_PI2, sin_PI2. f_equal; ring. Qed.

Lemma expi_derivative phi :
  derivable_pt_lim (fun x => fst (expi x)) phi (fst (expi (phi + PI / 2))) /\
  derivable_pt_lim (fun x => snd (expi x)) phi (snd (expi (phi + PI / 2))).
Proof.
  rewrite expi_shift_components. unfold expi. simpl. split.
  - apply derivable_pt_lim_cos.
  - apply derivable_pt_lim_sin.
Qed.
