(* Proofs about Model/KrylovExp.v: control contract (a), Arnoldi relation (b). *)
From Coq Require Import ZArith List Bool Arith Lia.
From EV Require Import Base.Arith Model.KrylovExp.
Import ListNotations.
Set Implicit Arguments.

(* ---------------------------------------------------------------------------------------- *)
Section ControlProofs.
Variable A : Type.
Variable ar : Arith A.
Variable fixed : variant.
Variables n2 err1 err2 err2c : nat -> A.
Variables norm_tol exp_tol : A.

Notation trig := (trigger ar fixed n2 err1 err2 err2c norm_tol exp_tol).
Notation bd := (breakdown_at ar n2 norm_tol).
Notation loop := (kloop ar fixed n2 err1 err2 err2c norm_tol exp_tol).

Definition first_trigger (lo j0 : nat) : Prop :=
  trig j0 = true /\ forall i, lo <= i < j0 -> trig i = false.

Lemma kloop_spec : forall fuel j,
  exists r, loop fuel j = Ok r /\
    ((k_converged r = true /\ exists j0, j <= j0 < j + fuel /\ first_trigger j j0 /\
        k_iters r = S j0 /\ k_happy r = bd j0)
     \/ (k_converged r = false /\ k_happy r = false /\ k_iters r = j + fuel /\
         forall i, j <= i < j + fuel -> trig i = false)).
Proof.
  induction fuel as [|f IH]; intros j; cbn [kloop].
  - eexists; split; [reflexivity|]. right. cbn. repeat split; try lia; intros; lia.
  - destruct (breakdown_at ar n2 norm_tol j) eqn:Hb.
    + eexists; split; [reflexivity|]. left. cbn. split; [reflexivity|].
      exists j. split; [lia|]. split; [split|split].
      * unfold trigger. rewrite Hb. reflexivity.
      * intros; lia.
      * reflexivity.
      * symmetry; exact Hb.
    + destruct (estimate_at ar fixed err1 err2 err2c exp_tol j) eqn:He.
      * eexists; split; [reflexivity|]. left. cbn. split; [reflexivity|].
        exists j. split; [lia|]. split; [split|split].
        -- unfold trigger. rewrite Hb, He. reflexivity.
        -- intros; lia.
        -- reflexivity.
        -- symmetry; exact Hb.
      * destruct (IH (S j)) as (r & Hr & Hcase). exists r. split; [exact Hr|].
        assert (Hj : trig j = false) by (unfold trigger; rewrite Hb, He; reflexivity).
        destruct Hcase as [(Hc & j0 & Hrange & (Ht & Hmin) & Hit & Hh) | (Hc & Hh & Hit & Hall)].
        -- left. split; [exact Hc|]. exists j0. repeat split; try lia; try assumption.
           intros i Hi. destruct (Nat.eq_dec i j) as [->|Hne]; [exact Hj|]. apply Hmin. lia.
        -- right. repeat split; try assumption; try lia.
           intros i Hi. destruct (Nat.eq_dec i j) as [->|Hne]; [exact Hj|]. apply Hall. lia.
Qed.

(* krylov_exp_impl for max_krylov_dim >= 1 *)
Lemma kexp_impl_spec : forall max_dim, 0 < max_dim ->
  exists r, kexp_impl ar fixed n2 err1 err2 err2c norm_tol exp_tol max_dim = Ok r /\
    (k_converged r = true <-> exists j, j < max_dim /\ trig j = true) /\
    (k_converged r = true -> exists j0, j0 < max_dim /\ first_trigger 0 j0 /\
                                        k_iters r = S j0 /\ k_happy r = bd j0) /\
    (k_converged r = false -> k_iters r = max_dim /\ k_happy r = false) /\
    (k_happy r = true -> k_converged r = true).
Proof.
  intros m Hm. destruct m as [|m]; [lia|]. unfold kexp_impl.
  destruct (kloop_spec (S m) 0) as (r & Hr & Hcase). exists r. split; [exact Hr|].
  destruct Hcase as [(Hc & j0 & Hrange & (Ht & Hmin) & Hit & Hh) | (Hc & Hh & Hit & Hall)].
  - split; [split|split; [|split]].
    + intros _. exists j0. split; [lia|exact Ht].
    + intros _. exact Hc.
    + intros _. exists j0. split; [lia|]. split; [split; assumption|]. split; assumption.
    + intros Hf. congruence.
    + intros _. exact Hc.
  - split; [split|split; [|split]].
    + intros Hf. congruence.
    + intros (j & Hj & Ht). rewrite Hall in Ht by lia. discriminate.
    + intros Hf. congruence.
    + intros _. split; [lia|exact Hh].
    + intros Hf. congruence.
Qed.

Lemma kexp_impl_zero : kexp_impl ar fixed n2 err1 err2 err2c norm_tol exp_tol 0 = Err E_UNBOUND.
Proof. reflexivity. Qed.

(* the public entry point returns iff some iteration triggered, for every max_dim incl. 0;
   otherwise it raises (RecursionError, or UnboundLocalError when max_dim = 0) *)
Lemma kexp_public_spec : forall max_dim,
  ((exists j, j < max_dim /\ trig j = true) ->
     exists r, kexp_public ar fixed n2 err1 err2 err2c norm_tol exp_tol max_dim = Ok r /\ k_converged r = true) /\
  (~ (exists j, j < max_dim /\ trig j = true) ->
     kexp_public ar fixed n2 err1 err2 err2c norm_tol exp_tol max_dim =
       Err (if Nat.eqb max_dim 0 then E_UNBOUND else E_RECURSION)).
Proof.
  intros m. destruct m as [|m].
  - split.
    + intros (j & Hj & _). lia.
    + intros _. reflexivity.
  - destruct (@kexp_impl_spec (S m)) as (r & Hr & Hiff & _); [lia|].
    unfold kexp_public. rewrite Hr. cbn [res_bind Nat.eqb]. split.
    + intros Hex. apply Hiff in Hex. rewrite Hex. eauto.
    + intros Hn. destruct (k_converged r) eqn:Hc; [|reflexivity].
      exfalso. apply Hn. apply Hiff. reflexivity.
Qed.

(* the cached product, when present at the top of iteration j, is op(v_j): every iteration
   orthogonalises the product of its own newest Lanczos vector *)
Lemma ktrace_fresh : forall fuel j cache, (cache = None \/ cache = Some j) ->
  Forall (fun e => fst (snd e) = fst e)
         (ktrace ar fixed n2 err1 err2 err2c norm_tol exp_tol fuel j cache).
Proof.
  induction fuel as [|f IH]; intros j cache Hc; cbn [ktrace]; [constructor|].
  assert (Hu : match cache with Some k => k | None => j end = j) by (destruct Hc as [->| ->]; reflexivity).
  rewrite Hu. destruct (breakdown_at ar n2 norm_tol j).
  - constructor; [reflexivity|constructor].
  - constructor; [reflexivity|].
    destruct (estimate_at ar fixed err1 err2 err2c exp_tol j); [constructor|].
    apply IH. destruct (confirm_called ar fixed err1 err2 exp_tol j); [right|left]; reflexivity.
Qed.

(* one trace entry per executed iteration *)
Lemma ktrace_length : forall fuel j cache r, loop fuel j = Ok r ->
  j + length (ktrace ar fixed n2 err1 err2 err2c norm_tol exp_tol fuel j cache) = k_iters r.
Proof.
  induction fuel as [|f IH]; intros j cache r H; cbn [kloop ktrace] in *.
  - inversion H; subst. cbn. lia.
  - destruct (breakdown_at ar n2 norm_tol j).
    + inversion H; subst. cbn. lia.
    + destruct (estimate_at ar fixed err1 err2 err2c exp_tol j).
      * inversion H; subst. cbn. lia.
      * cbn [length]. match goal with |- context [ktrace _ _ _ _ _ _ _ _ f (S j) ?c] => pose proof (IH (S j) c r H) end. lia.
Qed.

Lemma cached_product_fresh : forall max_dim,
  Forall (fun e => fst (snd e) = fst e)
         (ktrace ar fixed n2 err1 err2 err2c norm_tol exp_tol max_dim 0 None) /\
  (forall r, loop max_dim 0 = Ok r ->
     length (ktrace ar fixed n2 err1 err2 err2c norm_tol exp_tol max_dim 0 None) = k_iters r).
Proof.
  intros. split.
  - apply ktrace_fresh. left; reflexivity.
  - intros r H. exact (ktrace_length max_dim 0 None H).
Qed.

End ControlProofs.

(* ---------------------------------------------------------------------------------------- *)
(* (b) the recurrence over an abstract module.  Laws are Section hypotheses = explicit premises. *)
Section FullProofs.
Variable A : Type.
Variable ar : Arith A.
Variables K V : Type.
Variables kzero kone : K.
Variable kmul : K -> K -> K.
Variable ofreal : A -> K.
Variable kabs : K -> A.
Variable vzero : V.
Variables vadd vsub : V -> V -> V.
Variable vscale : K -> V -> V.
Variable vdiv : V -> A -> V.
Variable Aop : V -> V.
Variable inner : V -> V -> K.
Variable nrm : V -> A.
Variable mexp : (nat -> nat -> K) -> nat -> nat -> K.
Variable runit : A -> Prop.   (* "this norm is invertible" *)

Hypothesis vadd_assoc : forall u v w, vadd u (vadd v w) = vadd (vadd u v) w.
Hypothesis vadd_comm : forall u v, vadd u v = vadd v u.
Hypothesis vadd_0_l : forall v, vadd vzero v = v.
Hypothesis vscale_0 : forall v, vscale kzero v = vzero.
Hypothesis vsub_add : forall u v, vadd (vsub u v) v = u.
Hypothesis vdiv_cancel : forall w c, runit c -> vscale (ofreal c) (vdiv w c) = w.

Notation bodyM := (body kone kmul ofreal kabs vzero vadd vsub vscale vdiv Aop inner nrm mexp).
Notation ghostM := (ghost kone kmul ofreal kabs vzero vadd vsub vscale vdiv Aop inner nrm mexp).
Notation orthoM := (ortho vsub vscale inner).
Notation floopM := (floop ar kone kmul ofreal kabs vzero vadd vsub vscale vdiv Aop inner nrm mexp).

Definition vsuml (l : list V) : V := fold_right vadd vzero l.
Definition vsumn (n : nat) (f : nat -> V) : V := vsuml (map f (seq 0 n)).
Definition col_sum (T : tmat K) (vs : list V) (j : nat) : V :=
  vsumn (S j) (fun k => vscale (T k j) (nth k vs vzero)).
(* A v_j = sum_{k<=j} T[k,j] v_k + T[j+1,j] v_{j+1} *)
Definition relation (T : tmat K) (vs : list V) (j : nat) : Prop :=
  Aop (nth j vs vzero) = vadd (col_sum T vs j) (vscale (T (S j) j) (nth (S j) vs vzero)).

Lemma vsuml_app l1 l2 : vsuml (l1 ++ l2) = vadd (vsuml l1) (vsuml l2).
Proof.
  induction l1 as [|a l1 IH]; cbn.
  - symmetry; apply vadd_0_l.
  - unfold vsuml in IH. rewrite IH. apply vadd_assoc.
Qed.

Lemma vsuml_zero l : (forall x, In x l -> x = vzero) -> vsuml l = vzero.
Proof.
  induction l as [|a l IH]; cbn; intros H; [reflexivity|].
  rewrite (H a) by (left; reflexivity). rewrite vadd_0_l. apply IH. intros; apply H; right; assumption.
Qed.

Lemma tset_eq (T : tmat K) r c x : tset T r c x r c = x.
Proof. unfold tset. rewrite !Nat.eqb_refl. reflexivity. Qed.
Lemma tset_neq (T : tmat K) r c x r' c' : (r <> r' \/ c <> c') -> tset T r c x r' c' = T r' c'.
Proof.
  unfold tset. intros H. destruct (Nat.eqb_spec r r'); destruct (Nat.eqb_spec c c'); cbn; try reflexivity.
  exfalso. destruct H; congruence.
Qed.

Lemma ortho_spec vs j : forall ks T w T' w',
  orthoM vs j ks T w = Ok (T', w') -> NoDup ks ->
  w = vadd (vsuml (map (fun k => vscale (T' k j) (nth k vs vzero)) ks)) w' /\
  (forall k' j', ~ (j' = j /\ In k' ks) -> T' k' j' = T k' j').
Proof.
  induction ks as [|a ks IH]; intros T w T' w' H Hnd; cbn in H.
  - inversion H; subst. split; [cbn; symmetry; apply vadd_0_l|reflexivity].
  - destruct (nth_error vs a) as [va|] eqn:E; [|discriminate].
    inversion Hnd as [|? ? Hnotin Hnd']; subst.
    apply IH in H as [Hw HT]; [|assumption].
    assert (HTa : T' a j = inner va w).
    { rewrite HT by (intros [_ Hin]; contradiction). apply tset_eq. }
    assert (Hva : nth a vs vzero = va) by (apply nth_error_nth; assumption).
    split.
    + cbn. rewrite HTa, Hva.
      rewrite <- (vsub_add w (vscale (inner va w) va)) at 1. rewrite Hw.
      rewrite (vadd_comm _ (vscale (inner va w) va)). apply vadd_assoc.
    + intros k' j' Hn. rewrite HT by (intros [E1 Hin]; apply Hn; split; [assumption|right; assumption]).
      apply tset_neq. destruct (Nat.eq_dec a k') as [->|]; [|left; assumption].
      right. intros ->. apply Hn. split; [reflexivity|left; reflexivity].
Qed.

Lemma ortho_ok vs j : forall ks T w, (forall k, In k ks -> k < length vs) ->
  exists r, orthoM vs j ks T w = Ok r.
Proof.
  induction ks as [|a ks IH]; intros T w H; cbn.
  - eauto.
  - destruct (nth_error vs a) eqn:E.
    + apply IH. intros; apply H; right; assumption.
    + apply nth_error_None in E. specialize (H a (or_introl eq_refl)). lia.
Qed.

Lemma k_start_le herm j : k_start herm j <= j.
Proof. unfold k_start. destruct herm; lia. Qed.

Lemma band_in herm j k : In k (band herm j) <-> k_start herm j <= k <= j.
Proof. unfold band. rewrite in_seq. pose proof (k_start_le herm j). lia. Qed.

Lemma band_nodup herm j : NoDup (band herm j).
Proof. apply seq_NoDup. Qed.

(* the invariant of the (ghost) iteration after m completed iterations *)
Definition Inv (m : nat) (st : kstate K V) : Prop :=
  length (s_vs st) = S m /\
  (forall j, j < m -> relation (s_T st) (s_vs st) j) /\
  (forall k j, m <= j -> k <= j -> s_T st k j = kzero) /\
  (forall k j, S j < k -> s_T st k j = kzero).

Lemma body_ok herm m st : Inv m st -> exists b, bodyM herm st m = Ok b.
Proof.
  intros (Hlen & _). unfold body. rewrite Hlen. cbn [Nat.pred].
  destruct (nth_error (s_vs st) m) eqn:E.
  - destruct (@ortho_ok (s_vs st) m (band herm m) (s_T st) (Aop v)) as ([T1 w] & ->).
    + intros k Hk. apply band_in in Hk. lia.
    + cbn. eauto.
  - apply nth_error_None in E. lia.
Qed.

Lemma col_sum_ext T T' vs vs' j :
  (forall k, k <= j -> T k j = T' k j) -> (forall k, k <= j -> nth k vs vzero = nth k vs' vzero) ->
  col_sum T vs j = col_sum T' vs' j.
Proof.
  intros HT Hv. unfold col_sum, vsumn. f_equal. apply map_ext_in. intros k Hk. apply in_seq in Hk.
  rewrite HT, Hv by lia. reflexivity.
Qed.

Lemma body_step herm m st b :
  Inv m st -> bodyM herm st m = Ok b -> runit (b_n2 b) -> Inv (S m) (b_next b).
Proof.
  intros (Hlen & Hrel & Hup & Hhess) Hb Hunit. unfold body in Hb. rewrite Hlen in Hb. cbn [Nat.pred] in Hb.
  destruct (nth_error (s_vs st) m) as [vj|] eqn:Evj; [|discriminate].
  destruct (orthoM (s_vs st) m (band herm m) (s_T st) (Aop vj)) as [[T1 w]| |] eqn:Eo; cbn in Hb; try discriminate.
  inversion Hb; subst b; clear Hb. cbn [b_next b_n2] in *.
  destruct (ortho_spec _ _ _ _ Eo (band_nodup herm m)) as [Hw HT1].
  set (vs := s_vs st) in *. set (T := s_T st) in *.
  set (n2 := nrm w) in *. set (x := vdiv w n2).
  set (T2 := tset T1 (S m) m (ofreal n2)). set (T3 := tset T2 (S (S m)) (S m) kone).
  assert (HT3 : forall k j, ~ (k = S (S m) /\ j = S m) -> ~ (k = S m /\ j = m) -> T3 k j = T1 k j).
  { intros k j H1 H2. unfold T3, T2. rewrite !tset_neq; [reflexivity| |].
    - destruct (Nat.eq_dec (S m) k); [|left; assumption]. right. intros <-. apply H2. split; congruence.
    - destruct (Nat.eq_dec (S (S m)) k); [|left; assumption]. right. intros <-. apply H1. split; congruence. }
  assert (Hnth : forall k, k <= m -> nth k (vs ++ [x]) vzero = nth k vs vzero).
  { intros k Hk. apply app_nth1. lia. }
  assert (Hnthx : nth (S m) (vs ++ [x]) vzero = x).
  { rewrite app_nth2 by lia. rewrite Hlen, Nat.sub_diag. reflexivity. }
  unfold Inv. cbn [s_vs s_T]. split; [|split; [|split]].
  - rewrite app_length. cbn. lia.
  - intros j Hj. destruct (Nat.eq_dec j m) as [->|Hne].
    + (* the new column *)
      unfold relation. rewrite Hnth by lia. rewrite Hnthx.
      replace (nth m vs vzero) with vj by (symmetry; apply nth_error_nth; assumption).
      assert (E3 : T3 (S m) m = ofreal n2).
      { unfold T3. rewrite tset_neq by (left; lia). unfold T2. apply tset_eq. }
      rewrite E3. unfold x. rewrite vdiv_cancel by assumption.
      rewrite Hw at 1. f_equal.
      unfold col_sum, vsumn.
      pose proof (k_start_le herm m) as Hks.
      replace (S m) with (k_start herm m + (S m - k_start herm m)) at 1 by lia.
      rewrite seq_app, map_app, vsuml_app. cbn [plus].
      match goal with |- _ = vadd (vsuml ?l) _ => rewrite (@vsuml_zero l) end; [rewrite vadd_0_l|].
      * unfold band. f_equal. apply map_ext_in. intros k Hk. apply in_seq in Hk.
        rewrite HT3 by lia. rewrite Hnth by lia. reflexivity.
      * intros y Hy. apply in_map_iff in Hy as (k & <- & Hk). apply in_seq in Hk.
        rewrite HT3 by lia. rewrite HT1 by (rewrite band_in; lia).
        fold T. rewrite Hup by lia. apply vscale_0.
    + assert (Hjm : j < m) by lia. specialize (Hrel j Hjm). unfold relation in *.
      rewrite !Hnth by lia. rewrite Hrel. f_equal.
      * apply col_sum_ext.
        -- intros k Hk. rewrite HT3 by lia. rewrite HT1 by lia. reflexivity.
        -- intros k Hk. symmetry. apply Hnth. lia.
      * rewrite HT3 by lia. rewrite HT1 by lia. reflexivity.
  - intros k j Hj Hk. rewrite HT3 by lia. rewrite HT1 by lia. apply Hup; lia.
  - intros k j Hk. rewrite HT3 by lia. rewrite HT1 by (rewrite band_in; lia). apply Hhess; lia.
Qed.

Definition st_init (v0 : V) : kstate K V := MkKstate [v0] (tzero kzero) None.

Lemma inv_init v0 : Inv 0 (st_init v0).
Proof.
  unfold Inv, st_init. cbn. repeat split; try reflexivity. intros; lia.
Qed.

(* every iteration i < m of the ghost run produced an invertible n2 *)
Definition units_before (herm : bool) (st0 : kstate K V) (m : nat) : Prop :=
  forall i st b, i < m -> ghostM herm st0 i = Ok st -> bodyM herm st i = Ok b -> runit (b_n2 b).

Lemma ghost_inv herm v0 : forall m, units_before herm (st_init v0) m ->
  exists st, ghostM herm (st_init v0) m = Ok st /\ Inv m st.
Proof.
  induction m as [|m IH]; intros Hu.
  - exists (st_init v0). split; [reflexivity|apply inv_init].
  - destruct IH as (st & Hg & Hinv).
    { intros i s b Hi. apply Hu. lia. }
    destruct (body_ok herm Hinv) as (b & Hb).
    exists (b_next b). split.
    + cbn [ghost]. rewrite Hg. cbn [res_bind]. rewrite Hb. reflexivity.
    + eapply body_step; [exact Hinv|exact Hb|]. eapply Hu; [|exact Hg|exact Hb]. lia.
Qed.


(* ---- the real loop (with its exits) against the ghost run -------------------------------- *)
Section LoopLink.
Variable fixed : variant.
Variables (herm : bool) (norm_tol exp_tol n0 : A) (st0 : kstate K V) (d : A).

Definition gstream (f : body_out A K V -> A) : nat -> A := fun i =>
  match ghostM herm st0 i with
  | Ok st => match bodyM herm st i with Ok b => f b | _ => d end
  | _ => d
  end.

Lemma gstream_at f i st b : ghostM herm st0 i = Ok st -> bodyM herm st i = Ok b -> gstream f i = f b.
Proof. intros Hg Hb. unfold gstream. rewrite Hg, Hb. reflexivity. Qed.

Lemma ghost_S i st b : ghostM herm st0 i = Ok st -> bodyM herm st i = Ok b ->
  ghostM herm st0 (S i) = Ok (b_next b).
Proof. intros Hg Hb. cbn [ghost]. rewrite Hg. cbn [res_bind]. rewrite Hb. reflexivity. Qed.

(* the control outcome of the full model is the control model run on the streams it computes *)
Lemma floop_control : forall fuel j st k r st',
  ghostM herm st0 j = Ok st ->
  floopM fixed herm norm_tol exp_tol n0 fuel j st = Ok (k, r, st') ->
  kloop ar fixed (gstream (@b_n2 A K V)) (gstream (@b_err1 A K V)) (gstream (@b_err2 A K V))
        (gstream (@b_err2c A K V)) norm_tol exp_tol fuel j = Ok k.
Proof.
  induction fuel as [|f IH]; intros j st k r st' Hg Hf; cbn [floop kloop] in *.
  - destruct (final_vec vzero vadd vscale st); cbn in Hf; try discriminate.
    inversion Hf; subst. reflexivity.
  - destruct (bodyM herm st j) as [b| |] eqn:Hb; cbn [res_bind] in Hf; try discriminate.
    unfold breakdown_at, estimate_at, err_of, confirmed_of.
    rewrite (@gstream_at (@b_n2 A K V) _ _ _ Hg Hb), (@gstream_at (@b_err1 A K V) _ _ _ Hg Hb),
            (@gstream_at (@b_err2 A K V) _ _ _ Hg Hb), (@gstream_at (@b_err2c A K V) _ _ _ Hg Hb).
    fold (b_estimate ar fixed exp_tol b).
    destruct (a_ltb ar (b_n2 b) norm_tol).
    + cbn in Hf. inversion Hf; subst. reflexivity.
    + destruct (b_estimate ar fixed exp_tol b).
      * destruct (final_vec vzero vadd vscale (b_next b)); cbn in Hf; try discriminate.
        inversion Hf; subst. reflexivity.
      * eapply IH; [|exact Hf]. eapply ghost_S; eassumption.
Qed.

(* where the loop stops relative to the ghost run *)
Definition completed (k : kres) : nat := if k_happy k then Nat.pred (k_iters k) else k_iters k.

Lemma floop_spec : forall fuel j st k r st',
  ghostM herm st0 j = Ok st ->
  floopM fixed herm norm_tol exp_tol n0 fuel j st = Ok (k, r, st') ->
  j <= completed k /\
  (k_happy k = false -> ghostM herm st0 (k_iters k) = Ok st') /\
  (k_happy k = true -> exists stl b, ghostM herm st0 (completed k) = Ok stl /\
       bodyM herm stl (completed k) = Ok b /\ st' = MkKstate (s_vs stl) (b_Tbd b) None) /\
  (forall i sti b, j <= i < completed k -> ghostM herm st0 i = Ok sti -> bodyM herm sti i = Ok b ->
       a_ltb ar (b_n2 b) norm_tol = false).
Proof.
  induction fuel as [|f IH]; intros j st k r st' Hg Hf; cbn [floop] in *.
  - destruct (final_vec vzero vadd vscale st); cbn in Hf; try discriminate.
    inversion Hf; subst. unfold completed; cbn. split; [lia|]. split; [intros _; assumption|].
    split; [intros; discriminate|intros; lia].
  - destruct (bodyM herm st j) as [b| |] eqn:Hb; cbn [res_bind] in Hf; try discriminate.
    destruct (a_ltb ar (b_n2 b) norm_tol) eqn:Hbd.
    + cbn in Hf. inversion Hf; subst. unfold completed; cbn. split; [lia|]. split; [intros; discriminate|].
      split; [|intros; lia]. intros _. exists st, b. split; [assumption|]. split; [assumption|reflexivity].
    + destruct (b_estimate ar fixed exp_tol b).
      * destruct (final_vec vzero vadd vscale (b_next b)); cbn in Hf; try discriminate.
        inversion Hf; subst. unfold completed; cbn. split; [lia|].
        split; [intros _; eapply ghost_S; eassumption|]. split; [intros; discriminate|].
        intros i sti b' Hi Hgi Hbi. assert (i = j) by lia. subst i.
        rewrite Hg in Hgi. inversion Hgi; subst. rewrite Hb in Hbi. inversion Hbi; subst. exact Hbd.
      * destruct (IH (S j) (b_next b) k r st' (@ghost_S _ _ _ Hg Hb) Hf) as (Hle & Hnh & Hh & Hall).
        split; [lia|]. split; [assumption|]. split; [assumption|].
        intros i sti b' Hi Hgi Hbi. destruct (Nat.eq_dec i j) as [->|Hne].
        -- rewrite Hg in Hgi. inversion Hgi; subst. rewrite Hb in Hbi. inversion Hbi; subst. exact Hbd.
        -- eapply Hall; eauto. lia.
Qed.

End LoopLink.

Lemma body_Tbd herm m st b : bodyM herm st m = Ok b ->
  (forall k j, j <> m -> b_Tbd b k j = s_T st k j) /\
  (forall k, S m < k -> b_Tbd b k m = s_T st k m).
Proof.
  intros Hb. unfold body in Hb.
  destruct (nth_error (s_vs st) (Nat.pred (length (s_vs st)))) as [vj|]; [|discriminate].
  destruct (orthoM (s_vs st) m (band herm m) (s_T st) (Aop vj)) as [[T1 w]| |] eqn:Eo; cbn in Hb; try discriminate.
  inversion Hb; subst b; clear Hb. cbn [b_Tbd].
  destruct (ortho_spec _ _ _ _ Eo (band_nodup herm m)) as [_ HT1].
  split.
  - intros k j Hj. rewrite tset_neq by (right; congruence). apply HT1. intros [E _]. congruence.
  - intros k Hk. rewrite tset_neq by (left; lia). apply HT1. rewrite band_in. lia.
Qed.

(* krylov_exp_impl: every completed iteration satisfies the Arnoldi relation, T is Hessenberg *)
Lemma kexp_full_relation fixed v herm exp_tol norm_tol max_dim k r st' :
  (forall c, a_ltb ar c norm_tol = false -> runit c) ->
  kexp_full ar kzero kone kmul ofreal kabs vzero vadd vsub vscale vdiv Aop inner nrm mexp
            fixed v herm exp_tol norm_tol max_dim = Ok (k, r, st') ->
  length (s_vs st') = S (completed k) /\
  (forall j, j < completed k -> relation (s_T st') (s_vs st') j) /\
  (forall i j, S j < i -> s_T st' i j = kzero).
Proof.
  intros Hunit Hf. unfold kexp_full in Hf.
  set (v0 := vdiv v (nrm v)) in *. fold (st_init v0) in Hf.
  destruct (@floop_spec fixed herm norm_tol exp_tol (nrm v) (st_init v0) max_dim 0 (st_init v0) k r st' eq_refl Hf)
    as (_ & Hnh & Hh & Hall).
  assert (Hu : units_before herm (st_init v0) (completed k)).
  { intros i sti b Hi Hgi Hbi. apply Hunit. eapply Hall; eauto. lia. }
  destruct (ghost_inv Hu) as (stc & Hgc & (Hlen & Hrel & Hup & Hhess)).
  destruct (k_happy k) eqn:Hhappy.
  - destruct (Hh eq_refl) as (stl & b & Hgl & Hbl & ->). rewrite Hgc in Hgl. inversion Hgl; subst stl.
    destruct (body_Tbd _ _ _ Hbl) as [Hcol Hrow]. cbn [s_vs s_T]. split; [exact Hlen|]. split.
    + intros j Hj. specialize (Hrel j Hj). unfold relation in *. rewrite Hrel. f_equal.
      * apply col_sum_ext; [|reflexivity]. intros i Hi. symmetry. apply Hcol. lia.
      * rewrite Hcol by lia. reflexivity.
    + intros i j Hij. destruct (Nat.eq_dec j (completed k)) as [->|Hne].
      * rewrite Hrow by lia. apply Hhess. lia.
      * rewrite Hcol by assumption. apply Hhess. lia.
  - specialize (Hnh eq_refl). unfold completed in *. rewrite Hhappy in *.
    rewrite Hgc in Hnh. inversion Hnh; subst st'. split; [assumption|]. split; assumption.
Qed.

End FullProofs.

(* The premises of the relation theorem are satisfiable: K = V = A = R (a module over itself),
   invertible = non-zero; with norm_tol > 0 the breakdown test guarantees invertibility. *)
From Coq Require Import Reals Lra.
Example module_laws_satisfiable_R :
  (forall u v w, (u + (v + w) = (u + v) + w)%R) /\
  (forall u v, (u + v = v + u)%R) /\ (forall v, (0 + v = v)%R) /\ (forall v, (0 * v = 0)%R) /\
  (forall u v, ((u - v) + v = u)%R) /\
  (forall w c, c <> 0%R -> (c * (w / c) = w)%R) /\
  (forall tol, (0 < tol)%R -> forall c, a_ltb R_arith c tol = false -> c <> 0%R).
Proof.
  repeat split; intros; try lra.
  - field; assumption.
  - apply Rltb_false in H0. lra.
Qed.
