(* zip_contract: for every QR oracle with L R = M, every number of sites, all bond dimensions, over every
   commutative ring, the chain produced by the zip-up product (Model/Zip.v) has the amplitudes of the dense product:
     <bo| zip_right(tops, bots) > = sum over the contracted strings m of  <top_idx bo m| tops > * <bot_idx bo m| bots >,
   i.e. (O psi)(o) = sum_m O(o, m) psi(m) for an MPS operand (e = 1) and (O1 O2)(o, j) = sum_m O1(o, m) O2(m, j)
   for an MPO operand (e = d).  The proof goes through the "fat" chain (no QR): the slider carries exactly the
   gauge that the factorisations move to the right. *)
From Coq Require Import List Arith Lia Ring Bool ZArith.
From EV Require Import Model.TransferMat Model.MPSAlg Model.Zip Proofs.TransferMat Proofs.MPSAlg Proofs.MPSInner.
Import ListNotations.

Section ZipProofs.
Variable K : Type.
Variable Ko : RingOps K.
Hypothesis Kring : ring_theory (k0 Ko) (k1 Ko) (kadd Ko) (kmul Ko) (ksub Ko) (kopp Ko) (@eq K).
Add Ring KRingZ : Kring.
Local Notation "'zero'" := (k0 Ko).
Local Notation "'one'" := (k1 Ko).
Local Infix "[+]" := (kadd Ko) (at level 50, left associativity).
Local Infix "[*]" := (kmul Ko) (at level 40, left associativity).
Local Notation sumn := (sumn Ko).
Local Notation sumL := (sumL Ko).
Local Notation T3 := (T3 K).
Local Notation ramp := (ramp K Ko).
Local Notation amp := (amp Ko).
Local Notation sumn_ext := (sumn_ext K Ko).
Local Notation sumn_swap := (sumn_swap K Ko Kring).
Local Notation sumn_scale := (sumn_scale K Ko Kring).
Local Notation sumn_scale_r := (sumn_scale_r K Ko Kring).
Local Notation sumn_one := (sumn_one K Ko Kring).
Local Notation sumn_reorder4 := (sumn_reorder4 K Ko Kring).
Local Notation memo3 := (memo3 Ko).

Variable d e : nat.
Hypothesis He : 0 < e.
Variable qr : QR K.

(* the only assumption on the factorisation: it factorises *)
Definition QRok (q : QR K) : Prop := forall i rows cols M,
  let '(k, L, R) := q i rows cols M in
  forall r c, r < rows -> c < cols -> sumn k (fun x => L r x [*] R x c) = M r c.
Hypothesis Hqr : QRok qr.

(* ---- tabulation is the identity on the index range ---- *)
Lemma tf_memo3 (T : T3) i s j : i < dl T -> s < dp T -> j < dr T -> tf (memo3 T) i s j = tf T i s j.
Proof.
  intros Hi Hs Hj. unfold Zip.memo3, of_list3, to_list3. cbn [tf].
  rewrite (nth_map_seq _ _ [] _ _ Hi). rewrite (nth_map_seq _ _ [] _ _ Hs).
  rewrite (nth_map_seq _ _ zero _ _ Hj). reflexivity.
Qed.

(* ---- the local weight of one site of the fat chain ---- *)
Definition wsite (top bot : T3) (s t b t' b' : nat) : K :=
  sumn d (fun m => tf top t ((s / e) * d + m) t' [*] tf bot b (m * e + s mod e) b').

(* right amplitude of the fat chain (bond index = the pair (t, b)) *)
Fixpoint framp (tops bots : list T3) (bo : list nat) (t b : nat) : K :=
  match tops, bots, bo with
  | top :: tops', bot :: bots', s :: bo' =>
      sumn (dr top) (fun t' => sumn (dr bot) (fun b' => wsite top bot s t b t' b' [*] framp tops' bots' bo' t' b'))
  | [], [], _ => one
  | _, _, _ => zero
  end.

Lemma framp_cons top bot tops bots s bo t b :
  framp (top :: tops) (bot :: bots) (s :: bo) t b =
  sumn (dr top) (fun t' => sumn (dr bot) (fun b' => wsite top bot s t b t' b' [*] framp tops bots bo t' b')).
Proof. reflexivity. Qed.

Lemma zentry_wsite (Sl top bot : T3) a s t' b' :
  zentry Ko d e Sl top bot a s t' b' =
  sumn (dl top) (fun t => sumn (dl bot) (fun b => tf Sl a t b [*] wsite top bot s t b t' b')).
Proof.
  unfold zentry, wsite. apply sumn_ext; intros t _. apply sumn_ext; intros b _.
  rewrite <- sumn_scale. apply sumn_ext; intros m _. ring.
Qed.

Lemma zmat_at (Sl top bot : T3) a s t' b' : s < d * e -> b' < dr bot ->
  zmat Ko d e Sl top bot (a * (d * e) + s) (t' * dr bot + b') = zentry Ko d e Sl top bot a s t' b'.
Proof.
  intros Hs Hb. unfold zmat.
  assert (Hde : d * e <> 0) by lia. assert (Hrb : dr bot <> 0) by lia.
  rewrite (Nat.div_add_l a (d * e) s Hde), (Nat.div_small s (d * e) Hs), Nat.add_0_r.
  rewrite (Nat.add_comm (a * (d * e)) s), (Nat.mod_add s a (d * e) Hde), (Nat.mod_small s (d * e) Hs).
  rewrite (Nat.div_add_l t' (dr bot) b' Hrb), (Nat.div_small b' (dr bot) Hb), Nat.add_0_r.
  rewrite (Nat.add_comm (t' * dr bot) b'), (Nat.mod_add b' t' (dr bot) Hrb), (Nat.mod_small b' (dr bot) Hb).
  reflexivity.
Qed.

(* ---- one zip step: the new factor against (new slider x anything) = old slider against (site weight x anything) ---- *)
Lemma zstep_sum (Sl top bot : T3) (k : nat) (L R : nat -> nat -> K) (X : nat -> nat -> K) a s :
  (forall r c, r < dl Sl * (d * e) -> c < dr top * dr bot ->
     sumn k (fun x => L r x [*] R x c) = zmat Ko d e Sl top bot r c) ->
  a < dl Sl -> s < d * e ->
  sumn k (fun c =>
    tf (memo3 (MkT3 (dl Sl) (d * e) k (fun a s c => L (a * (d * e) + s) c))) a s c [*]
    sumn (dr top) (fun t' => sumn (dr bot) (fun b' =>
      tf (memo3 (MkT3 k (dr top) (dr bot) (fun c t' b' => R c (t' * dr bot + b')))) c t' b' [*] X t' b')))
  = sumn (dl top) (fun t => sumn (dl bot) (fun b => tf Sl a t b [*]
      sumn (dr top) (fun t' => sumn (dr bot) (fun b' => wsite top bot s t b t' b' [*] X t' b')))).
Proof.
  intros HQ Ha Hs.
  (* remove the tabulations, push L inside *)
  transitivity (sumn k (fun c => sumn (dr top) (fun t' => sumn (dr bot) (fun b' =>
                  L (a * (d * e) + s) c [*] R c (t' * dr bot + b') [*] X t' b')))).
  { apply sumn_ext; intros c Hc. rewrite tf_memo3 by (cbn [dl dp dr]; assumption). cbn [tf].
    rewrite <- sumn_scale. apply sumn_ext; intros t' Ht'.
    rewrite <- sumn_scale. apply sumn_ext; intros b' Hb'.
    rewrite tf_memo3 by (cbn [dl dp dr]; assumption). cbn [tf]. ring. }
  (* bring the sum over the new bond inside and use L R = M *)
  transitivity (sumn (dr top) (fun t' => sumn (dr bot) (fun b' =>
                  zentry Ko d e Sl top bot a s t' b' [*] X t' b'))).
  { rewrite (sumn_swap k (dr top)). apply sumn_ext; intros t' Ht'.
    rewrite (sumn_swap k (dr bot)). apply sumn_ext; intros b' Hb'.
    rewrite sumn_scale_r. f_equal.
    rewrite HQ by nia. apply zmat_at; assumption. }
  (* unfold the matrix element and reorder the four sums *)
  transitivity (sumn (dr top) (fun t' => sumn (dr bot) (fun b' => sumn (dl top) (fun t => sumn (dl bot) (fun b =>
                  tf Sl a t b [*] wsite top bot s t b t' b' [*] X t' b'))))).
  { apply sumn_ext; intros t' _. apply sumn_ext; intros b' _. rewrite zentry_wsite.
    rewrite <- sumn_scale_r. apply sumn_ext; intros t _. rewrite <- sumn_scale_r. reflexivity. }
  rewrite (sumn_reorder4 (dr top) (dr bot) (dl top) (dl bot)
             (fun t' b' t b => tf Sl a t b [*] wsite top bot s t b t' b' [*] X t' b')).
  apply sumn_ext; intros t _. apply sumn_ext; intros b _.
  rewrite <- sumn_scale. apply sumn_ext; intros t' _. rewrite <- sumn_scale. apply sumn_ext; intros b' _. ring.
Qed.

(* the last element of a non-empty list does not depend on the default *)
Lemma last_cons_indep (X : Type) (l : list X) : forall x d1 d2, last (x :: l) d1 = last (l) x /\ last (x :: l) d1 = last (x :: l) d2.
Proof.
  induction l as [|y l IH]; intros x d1 d2; [split; reflexivity|].
  destruct (IH y d1 d2) as (H1 & H2). destruct (IH y x d2) as (H3 & H4).
  split; cbn [last] in *; congruence.
Qed.

(* ---- the zip chain against the slider = the fat chain (gauge invariance), by induction over the sites ---- *)
Lemma zip_go_ramp : forall (tops bots : list T3) (i : nat) (Sl top bot : T3) (Fs : list T3),
  zip_go Ko d e qr i Sl top bot tops bots = Some Fs ->
  dr (last tops top) = 1 -> dr (last bots bot) = 1 ->
  forall s bo, length bo = length tops -> Forall (fun x => x < d * e) (s :: bo) ->
  forall a, a < dl Sl ->
  ramp Fs (s :: bo) a =
  sumn (dp Sl) (fun t => sumn (dr Sl) (fun b => tf Sl a t b [*] framp (top :: tops) (bot :: bots) (s :: bo) t b)).
Proof.
  induction tops as [|top2 tops IH]; intros bots i Sl top bot Fs H Hlt Hlb s bo Hlen Hall a Ha.
  - (* last site *)
    cbn [zip_go] in H.
    destruct ((dp Sl =? dl top) && (dr Sl =? dl bot) && (dp top =? d * d) && (dp bot =? d * e)) eqn:G; [|discriminate].
    apply andb_true_iff in G. destruct G as (G & _). apply andb_true_iff in G. destruct G as (G & _).
    apply andb_true_iff in G. destruct G as (G1 & G2). apply Nat.eqb_eq in G1. apply Nat.eqb_eq in G2.
    pose proof (Hqr i (dl Sl * (d * e)) (dr top * dr bot) (zmat Ko d e Sl top bot)) as HQ.
    destruct (qr i (dl Sl * (d * e)) (dr top * dr bot) (zmat Ko d e Sl top bot)) as [[k L] R].
    destruct bots as [|bot2 bots]; [|discriminate]. injection H as <-.
    cbn [last] in Hlt, Hlb. destruct bo; [|discriminate]. inversion Hall as [|x l Hs _]; subst.
    rewrite G1, G2. cbn [framp].
    rewrite <- (zstep_sum Sl top bot k L R (fun _ _ => one) a s HQ Ha Hs).
    cbn [MPSInner.ramp]. unfold last_mul. cbn [dr dl dp Zip.memo3 of_list3].
    rewrite Hlt. rewrite sumn_one.
    rewrite tf_memo3 by (cbn [dl dp dr]; lia). cbn [tf].
    match goal with |- ?x [*] one = _ => transitivity x; [ring|] end.
    apply sumn_ext; intros c _. rewrite Hlb. rewrite !sumn_one. ring.
  - (* inner site *)
    cbn [zip_go] in H.
    destruct ((dp Sl =? dl top) && (dr Sl =? dl bot) && (dp top =? d * d) && (dp bot =? d * e)) eqn:G; [|discriminate].
    apply andb_true_iff in G. destruct G as (G & _). apply andb_true_iff in G. destruct G as (G & _).
    apply andb_true_iff in G. destruct G as (G1 & G2). apply Nat.eqb_eq in G1. apply Nat.eqb_eq in G2.
    pose proof (Hqr i (dl Sl * (d * e)) (dr top * dr bot) (zmat Ko d e Sl top bot)) as HQ.
    destruct (qr i (dl Sl * (d * e)) (dr top * dr bot) (zmat Ko d e Sl top bot)) as [[k L] R].
    destruct bots as [|bot2 bots]; [discriminate|].
    destruct (zip_go Ko d e qr (S i) _ top2 bot2 tops bots) as [Fs2|] eqn:E2; [|discriminate]. injection H as <-.
    destruct bo as [|s2 bo]; [discriminate|]. cbn [length] in Hlen. injection Hlen as Hlen.
    inversion Hall as [|x l Hs Hall2]; subst.
    assert (Hlt2 : dr (last tops top2) = 1) by (rewrite <- (proj1 (last_cons_indep _ tops top2 top top)); exact Hlt).
    assert (Hlb2 : dr (last bots bot2) = 1) by (rewrite <- (proj1 (last_cons_indep _ bots bot2 bot bot)); exact Hlb).
    rewrite G1, G2.
    etransitivity; [| symmetry; apply sumn_ext; intros t _; apply sumn_ext; intros b _; rewrite framp_cons; reflexivity].
    rewrite <- (zstep_sum Sl top bot k L R (framp (top2 :: tops) (bot2 :: bots) (s2 :: bo)) a s HQ Ha Hs).
    change (ramp (?F :: Fs2) (s :: s2 :: bo) a) with
      (sumn (dr F) (fun r => tf F a s r [*] ramp Fs2 (s2 :: bo) r)).
    cbn [dr Zip.memo3 of_list3]. apply sumn_ext; intros c Hc. f_equal.
    rewrite (IH bots (S i) _ top2 bot2 Fs2 E2 Hlt2 Hlb2 s2 bo Hlen Hall2 c) by (cbn [dl Zip.memo3 of_list3]; exact Hc).
    reflexivity.
Qed.

(* ---- the fat chain is the dense product: sum over the contracted index strings ---- *)
Lemma framp_strings : forall (tops bots : list T3) (bo : list nat) t b,
  length bots = length tops -> length bo = length tops ->
  framp tops bots bo t b =
  sumL (strings (repeat d (length tops)))
       (fun m => ramp tops (top_idx d e bo m) t [*] ramp bots (bot_idx e bo m) b).
Proof.
  induction tops as [|top tops IH]; intros bots bo t b Hb Hbo.
  - destruct bots; [|discriminate]. cbn. ring.
  - destruct bots as [|bot bots]; [discriminate|]. destruct bo as [|s bo]; [discriminate|].
    cbn [length] in Hb, Hbo. injection Hb as Hb. injection Hbo as Hbo.
    cbn [length repeat].
    change (strings (d :: repeat d (length tops))) with
      (flat_map (fun x => map (cons x) (strings (repeat d (length tops)))) (seq 0 d)).
    rewrite (sumL_flat_map K Ko Kring), (sumL_seq K Ko Kring). cbn [framp].
    transitivity (sumn d (fun x => sumL (strings (repeat d (length tops))) (fun m =>
        sumn (dr top) (fun t' => sumn (dr bot) (fun b' =>
          (tf top t ((s / e) * d + x) t' [*] ramp tops (top_idx d e bo m) t') [*]
          (tf bot b (x * e + s mod e) b' [*] ramp bots (bot_idx e bo m) b')))))).
    { transitivity (sumn (dr top) (fun t' => sumn (dr bot) (fun b' => sumn d (fun x =>
          sumL (strings (repeat d (length tops))) (fun m =>
          (tf top t ((s / e) * d + x) t' [*] ramp tops (top_idx d e bo m) t') [*]
          (tf bot b (x * e + s mod e) b' [*] ramp bots (bot_idx e bo m) b')))))).
      { apply sumn_ext; intros t' _. apply sumn_ext; intros b' _.
        rewrite (IH bots bo t' b' Hb Hbo). unfold wsite. rewrite <- sumn_scale_r. apply sumn_ext; intros x _.
        rewrite <- (sumL_scale K Ko Kring). apply (sumL_ext K Ko). intros m _. ring. }
      transitivity (sumn (dr top) (fun t' => sumn d (fun x => sumn (dr bot) (fun b' =>
          sumL (strings (repeat d (length tops))) (fun m =>
          (tf top t ((s / e) * d + x) t' [*] ramp tops (top_idx d e bo m) t') [*]
          (tf bot b (x * e + s mod e) b' [*] ramp bots (bot_idx e bo m) b')))))).
      { apply sumn_ext; intros t' _. apply (sumn_swap (dr bot) d). }
      rewrite (sumn_swap (dr top) d). apply sumn_ext; intros x _.
      symmetry. rewrite (sumL_sumn_swap K Ko Kring). apply sumn_ext; intros t' _.
      rewrite (sumL_sumn_swap K Ko Kring). reflexivity. }
    apply sumn_ext; intros x _. rewrite (sumL_map K Ko). apply (sumL_ext K Ko). intros m _.
    cbn [top_idx bot_idx MPSInner.ramp].
    rewrite (sumn_mul_sumn K Ko Kring). reflexivity.
Qed.

(* ---- the statement in terms of the left-to-right amplitudes of the three chains ---- *)
Theorem zip_contract : forall (tops bots Fs : list T3),
  zip_right Ko d e qr tops bots = Some Fs ->
  forall top bot, dr (last tops top) = 1 -> dr (last bots bot) = 1 ->
  forall (bo : list nat) (x : K) (ft fb : list nat -> K),
  length bo = length tops -> Forall (fun s => s < d * e) bo ->
  amp Fs bo = Some x ->
  (forall m, In m (strings (repeat d (length tops))) -> amp tops (top_idx d e bo m) = Some (ft m)) ->
  (forall m, In m (strings (repeat d (length tops))) -> amp bots (bot_idx e bo m) = Some (fb m)) ->
  x = sumL (strings (repeat d (length tops))) (fun m => ft m [*] fb m).
Proof.
  intros tops bots Fs H top0 bot0 Hlt Hlb bo x ft fb Hlen Hall Hx Ht Hb.
  unfold zip_right in H. destruct (Nat.eqb_spec (length tops) (length bots)) as [El|]; [|discriminate].
  destruct tops as [|top tops]; [discriminate|]. destruct bots as [|bot bots]; [discriminate|].
  destruct bo as [|s bo]; [discriminate|]. cbn [length] in Hlen, El. injection Hlen as Hlen. injection El as El.
  assert (Hlt' : dr (last tops top) = 1) by (rewrite <- (proj1 (last_cons_indep _ tops top top0 top0)); exact Hlt).
  assert (Hlb' : dr (last bots bot) = 1) by (rewrite <- (proj1 (last_cons_indep _ bots bot bot0 bot0)); exact Hlb).
  rewrite (amp_ramp K Ko Kring _ _ _ Hx).
  rewrite (zip_go_ramp tops bots 0 (ones_slider Ko) top bot Fs H Hlt' Hlb' s bo Hlen Hall 0)
    by (cbn; lia).
  cbn [dp dr ones_slider tf]. rewrite !sumn_one.
  rewrite (framp_strings (top :: tops) (bot :: bots) (s :: bo) 0 0) by (cbn [length]; congruence).
  transitivity (sumL (strings (repeat d (length (top :: tops))))
    (fun m => ramp (top :: tops) (top_idx d e (s :: bo) m) 0 [*] ramp (bot :: bots) (bot_idx e (s :: bo) m) 0)); [ring|].
  apply (sumL_ext K Ko). intros m Hm.
  rewrite (amp_ramp K Ko Kring _ _ _ (Ht m Hm)), (amp_ramp K Ko Kring _ _ _ (Hb m Hm)). reflexivity.
Qed.

End ZipProofs.

(* ---- the scripted oracles of the correspondence satisfy the premise; a concrete instance ---- *)
Section Delta.
Variable K : Type.
Variable Ko : RingOps K.
Hypothesis Kring : ring_theory (k0 Ko) (k1 Ko) (kadd Ko) (kmul Ko) (ksub Ko) (kopp Ko) (@eq K).
Add Ring KRingD : Kring.
Lemma sumn_delta_r n : forall c (f : nat -> K), c < n ->
  sumn Ko n (fun x => kmul Ko (f x) (if x =? c then k1 Ko else k0 Ko)) = f c.
Proof.
  induction n as [|n IH]; intros c f Hc; [lia|]. cbn [sumn].
  destruct (Nat.eqb_spec n c) as [->|Hne].
  - rewrite (sumn_ext K Ko c _ (fun _ => k0 Ko)).
    + rewrite (sumn_zero K Ko Kring). ring.
    + intros i Hi. destruct (Nat.eqb_spec i c); [lia|ring].
  - rewrite IH by lia. ring.
Qed.
Lemma sumn_delta_l n : forall r (f : nat -> K), r < n ->
  sumn Ko n (fun x => kmul Ko (if r =? x then k1 Ko else k0 Ko) (f x)) = f r.
Proof.
  intros r f Hr. rewrite <- (sumn_delta_r n r f Hr). apply (sumn_ext K Ko). intros i _.
  rewrite (Nat.eqb_sym r i). ring.
Qed.
End Delta.

Lemma qr_identity_gauge_ok : QRok GI gi_ops (qr_gauge []).
Proof.
  intros i rows cols M. unfold qr_gauge. destruct i; cbn [nth_error]; intros r c Hr Hc;
    apply (sumn_delta_r GI gi_ops gi_ring cols c (M r) Hc).
Qed.

Lemma qr_left_identity_ok : QRok GI gi_ops qr_left_identity.
Proof.
  intros i rows cols M. unfold qr_left_identity. intros r c Hr Hc.
  apply (sumn_delta_l GI gi_ops gi_ring rows r (fun x => M x c) Hr).
Qed.

(* a 2-site operator (d = 2, bond 2) applied to a 2-site state (bond 2): the zip product is defined, its right
   bonds are 1, and every amplitude of the result and of the operands is defined *)
Definition ex_top : list (T3 GI) :=
  [ of_list3 gi_ops 1 4 2 [[[(1,0);(0,1)];[(2,0);(0,0)];[(0,-1);(1,1)];[(1,0);(3,0)]]]%Z;
    of_list3 gi_ops 2 4 1 [[[(1,0)];[(0,2)];[(1,1)];[(0,0)]];[[(2,0)];[(1,0)];[(0,-1)];[(1,0)]]]%Z ].
Definition ex_bot : list (T3 GI) :=
  [ of_list3 gi_ops 1 2 2 [[[(1,0);(2,0)];[(0,1);(1,0)]]]%Z;
    of_list3 gi_ops 2 2 1 [[[(1,0)];[(0,1)]];[[(3,0)];[(1,-1)]]]%Z ].

Lemma zip_example :
  match zip_right gi_ops 2 1 qr_left_identity ex_top ex_bot with
  | Some Fs =>
      forallb (fun bo => match amp gi_ops Fs bo with Some _ => true | None => false end) (strings [2; 2]) &&
      forallb (fun bo => forallb (fun m =>
                 match amp gi_ops ex_top (top_idx 2 1 bo m), amp gi_ops ex_bot (bot_idx 1 bo m) with
                 | Some _, Some _ => true | _, _ => false end) (strings [2; 2])) (strings [2; 2])
  | None => false
  end = true /\ dr (last ex_top (zeros3 gi_ops 0 0 0)) = 1 /\ dr (last ex_bot (zeros3 gi_ops 0 0 0)) = 1.
Proof. split; [vm_compute; reflexivity | split; reflexivity]. Qed.
