(* from_amplitudes_spec: the accumulation loop of MPS._from_state_amplitudes (zero state, then
   `accum += amplitude * product_state` for every dictionary entry, Model/MPSAlg.from_amplitudes, before the truncation
   and normalisation of the real constructor) represents the dictionary: the amplitude at an index string b is the sum
   of the amplitudes of the entries whose string is b - for every number of sites >= 2, every local dimension, every
   list of entries (repeated strings add up), over every commutative ring. *)
From Coq Require Import List Arith Lia Ring Bool ZArith.
From EV Require Import Model.TransferMat Model.MPSAlg Proofs.TransferMat Proofs.MPSAlg.
Import ListNotations.

Section FromAmps.
Variable K : Type.
Variable Ko : RingOps K.
Hypothesis Kring : ring_theory (k0 Ko) (k1 Ko) (kadd Ko) (kmul Ko) (ksub Ko) (kopp Ko) (@eq K).
Add Ring KRingF : Kring.
Local Notation "'zero'" := (k0 Ko).
Local Notation "'one'" := (k1 Ko).
Local Infix "[+]" := (kadd Ko) (at level 50, left associativity).
Local Infix "[*]" := (kmul Ko) (at level 40, left associativity).
Local Notation sumL := (sumL Ko).
Local Notation ampv := (ampv Ko).
Local Notation amp := (amp Ko).
Local Notation T3 := (T3 K).

(* Kronecker delta of two index strings, as a ring element *)
Fixpoint deltaL (ks b : list nat) : K :=
  match ks, b with
  | [], [] => one
  | k :: ks', s :: b' => (if s =? k then one else zero) [*] deltaL ks' b'
  | _, _ => zero
  end.

Lemma deltaL_eq ks : deltaL ks ks = one.
Proof. induction ks as [|k ks IH]; cbn [deltaL]; [reflexivity|]. rewrite Nat.eqb_refl, IH. ring. Qed.

Lemma deltaL_neq : forall ks b, ks <> b -> deltaL ks b = zero.
Proof.
  induction ks as [|k ks IH]; intros [|s b] H; cbn [deltaL]; try reflexivity; [congruence|].
  destruct (Nat.eqb_spec s k) as [->|]; [|ring].
  rewrite IH by congruence. ring.
Qed.

Lemma deltaL_kronecker ks b : (ks = b -> deltaL ks b = one) /\ (ks <> b -> deltaL ks b = zero).
Proof. split; [intros ->; apply deltaL_eq | apply deltaL_neq]. Qed.

Lemma vstep_single c (T : T3) s : dr T = 1 ->
  vstep Ko [c] T s = [c [*] tf T 0 s 0 [+] zero].
Proof. intros H. unfold vstep. rewrite H. reflexivity. Qed.

(* a product state has the amplitude delta *)
Lemma ampv_product d : forall ks b c, length b = length ks -> Forall (fun s => s < d) b ->
  ampv [c] (product_state Ko d ks) b = Some (c [*] deltaL ks b).
Proof.
  induction ks as [|k ks IH]; intros [|s b] c Hl Hb; try discriminate.
  - cbn. f_equal. ring.
  - cbn [length] in Hl. injection Hl as Hl. inversion Hb as [|x l Hs Hb']; subst.
    cbn [product_state map TransferMat.ampv]. cbn [dl dp basis3 length].
    replace (s <? d) with true by (symmetry; apply Nat.ltb_lt; exact Hs). cbn [Nat.eqb andb].
    rewrite vstep_single by reflexivity. fold (product_state Ko d ks).
    rewrite (IH b _ Hl Hb'). f_equal. cbn [deltaL tf basis3]. ring.
Qed.

(* the zero state (at least one site) has amplitude zero *)
Lemma ampv_zero_state d : forall n b c, length b = S n -> Forall (fun s => s < d) b ->
  ampv [c] (zero_state Ko d (S n)) b = Some zero.
Proof.
  induction n as [|n IH]; intros [|s b] c Hl Hb; try discriminate; cbn [length] in Hl; injection Hl as Hl;
    inversion Hb as [|x l Hs Hb']; subst.
  - destruct b; [|discriminate]. cbn [zero_state repeat TransferMat.ampv]. cbn [dl dp zeros3 length].
    replace (s <? d) with true by (symmetry; apply Nat.ltb_lt; exact Hs). cbn [Nat.eqb andb].
    rewrite vstep_single by reflexivity. cbn [tf zeros3]. f_equal. ring.
  - change (zero_state Ko d (S (S n))) with (zeros3 Ko 1 d 1 :: zero_state Ko d (S n)).
    cbn [TransferMat.ampv]. cbn [dl dp zeros3 length].
    replace (s <? d) with true by (symmetry; apply Nat.ltb_lt; exact Hs). cbn [Nat.eqb andb].
    rewrite vstep_single by reflexivity. apply IH; assumption.
Qed.

Lemma length_zero_state d n : length (zero_state Ko d n) = n.
Proof. apply repeat_length. Qed.
Lemma length_product_state d ks : length (product_state Ko d ks) = length ks.
Proof. apply map_length. Qed.

Lemma accumulate_amp d n : forall terms acc C x b,
  2 <= n -> length acc = n -> accumulate Ko d acc terms = Some C -> amp acc b = Some x ->
  Forall (fun t => length (fst t) = n) terms -> length b = n -> Forall (fun s => s < d) b ->
  amp C b = Some (x [+] sumL terms (fun t => snd t [*] deltaL (fst t) b)).
Proof.
  induction terms as [|[ks a] terms IH]; intros acc C x b Hn Hacc HC Hx Ht Hb Hd.
  - cbn in HC. injection HC as <-. rewrite Hx. f_equal. cbn. ring.
  - cbn [accumulate] in HC. unfold obind in HC.
    destruct (add_factors Ko acc (scale_factors Ko (product_state Ko d ks) a 0)) as [acc'|] eqn:E; [|discriminate].
    inversion Ht as [|t l Hks Ht']; subst. cbn [fst] in Hks.
    assert (Hp : amp (scale_factors Ko (product_state Ko d ks) a 0) b = Some (a [*] deltaL ks b)).
    { rewrite (scale_factors_amp K Ko Kring). rewrite length_product_state.
      replace (0 <? length ks) with true by (symmetry; apply Nat.ltb_lt; lia).
      unfold TransferMat.amp. rewrite (ampv_product d ks b one) by (assumption || congruence).
      cbn [option_map]. f_equal. ring. }
    pose proof (add_factors_amp K Ko Kring acc _ acc' b x _ ltac:(lia) E Hx Hp) as Hacc'.
    rewrite (IH acc' C _ b Hn ltac:(rewrite (add_factors_length K Ko _ _ _ E); reflexivity) HC Hacc' Ht' Hb Hd).
    f_equal. cbn [sumL fst snd]. ring.
Qed.

Theorem from_amplitudes_spec d n : forall (terms : list (list nat * K)) C b,
  2 <= n -> from_amplitudes Ko d n terms = Some C ->
  Forall (fun t => length (fst t) = n) terms -> length b = n -> Forall (fun s => s < d) b ->
  amp C b = Some (sumL terms (fun t => snd t [*] deltaL (fst t) b)).
Proof.
  intros terms C b Hn HC Ht Hb Hd. unfold from_amplitudes in HC.
  destruct n as [|n]; [lia|].
  assert (Hz : amp (zero_state Ko d (S n)) b = Some zero) by (apply ampv_zero_state; assumption).
  rewrite (accumulate_amp d (S n) terms _ C zero b Hn (length_zero_state d (S n)) HC Hz Ht Hb Hd).
  f_equal. ring.
Qed.

End FromAmps.

(* non-vacuity: a three-site qutrit dictionary with a repeated string *)
Lemma from_amplitudes_example :
  match from_amplitudes gi_ops 3 3 [([0;1;2]%nat, (2,1)%Z); ([2;2;0]%nat, (0,-1)%Z); ([0;1;2]%nat, (1,0)%Z)] with
  | Some C => amp gi_ops C [0;1;2]%nat = Some (3,1)%Z /\ amp gi_ops C [2;2;0]%nat = Some (0,-1)%Z /\
              amp gi_ops C [1;1;1]%nat = Some (0,0)%Z
  | None => False
  end.
Proof. vm_compute. repeat split. Qed.
