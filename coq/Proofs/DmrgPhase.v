(* Proofs about the DMRG part of the emu-mps stepping machine (Model/MpsMachine.v); see Properties/C09.v. *)
From Coq Require Import ZArith List Bool Lia.
From EV Require Import Base.Arith Gen.Brent Model.MpsMachine Proofs.MpsStep Proofs.MpsPhase.
From EV Require Import Proofs.DmrgStep.
Import ListNotations.
Open Scope Z_scope.

Section P.
Variable A : Type.
Variable ar : Arith A.
Notation mstate := (mstate A).
Notation event := (event A).
Notation dframe := (@dframe A).
Notation dpos := (@dpos A).
Notation dmrg_like := (@dmrg_like A).
Notation dmrg_l2r := (@dmrg_l2r A ar).
Notation dmrg_r2l := (@dmrg_r2l A ar).
Notation iter_progress_app := (@iter_progress_app A ar).

Ltac sp := cbn [m_kind m_N m_steps m_times m_sweep m_l2r m_tidx m_cur m_tgt m_nl m_nr m_oc m_thr m_gap m_rf
  m_prevE m_curE m_sweeps m_etol m_maxsw o_norm o_unif o_energy o_same m_ev
  emit set_sweep set_l2r set_tidx set_cur set_tgt set_nl set_nr set_oc set_thr set_gap set_rf set_prevE
  set_curE set_sweeps set_onorm set_ounif set_oenergy set_osame].
Ltac zt := repeat match goal with
  | |- context [(?a <? ?b)%Z] =>
      first [ replace (a <? b)%Z with true by (symmetry; apply Z.ltb_lt; lia)
            | replace (a <? b)%Z with false by (symmetry; apply Z.ltb_ge; lia) ]
  | |- context [(?a <=? ?b)%Z] =>
      first [ replace (a <=? b)%Z with true by (symmetry; apply Z.leb_le; lia)
            | replace (a <=? b)%Z with false by (symmetry; apply Z.leb_gt; lia) ]
  | |- context [(?a =? ?b)%Z] =>
      first [ replace (a =? b)%Z with true by (symmetry; apply Z.eqb_eq; lia)
            | replace (a =? b)%Z with false by (symmetry; apply Z.eqb_neq; lia) ]
  end.
Ltac step := sp; zt; cbn [negb andb orb res_bind].

Definition ev_l2r (i : Z) : list event := [EvMinimize A i true; EvPushL A i; EvPopR A; EvSave A].
Definition ev_r2l (i : Z) : list event := [EvMinimize A i false; EvPushR A (i + 1); EvPopL A; EvSave A].

(* left-to-right half, before the turn: j minimisations starting at site i, i + j < N - 2 *)
Lemma dmrg_l2r_phase : forall (j : nat) (s : mstate) (i : Z) (es rest : list A),
  dmrg_like s -> 0 <= i -> i + Z.of_nat j < m_N s - 2 -> length es = j ->
  dpos s i true (i + 1) (m_N s - 1 - i) -> o_energy s = es ++ rest ->
  exists s', iter_progress ar j s = Ok s' /\ dframe s s' /\
    dpos s' (i + Z.of_nat j) true (i + Z.of_nat j + 1) (m_N s - 1 - i - Z.of_nat j) /\
    o_energy s' = rest /\
    m_ev s' = rev (flat_map ev_l2r (zup i j)) ++ m_ev s.
Proof.
  induction j as [|j IH]; intros s i es rest HT Hi Hj Hlen Hp He.
  - destruct es; [|discriminate]. exists s. cbn [iter_progress zup flat_map rev app].
    split; [reflexivity|]. split; [apply dframe_refl|].
    replace (i + Z.of_nat 0) with i by lia. replace (m_N s - 1 - i - Z.of_nat 0) with (m_N s - 1 - i) by lia.
    split; [exact Hp|]. split; [exact He|reflexivity].
  - destruct es as [|e es]; [discriminate|]. cbn [app] in He. cbn [length] in Hlen.
    assert (Hi2 : 0 <= i < m_N s - 2) by lia.
    destruct (dmrg_l2r s i e (es ++ rest) HT Hi2 Hp He) as (s1 & Hs1 & F1 & P1 & O1 & C1 & E1 & V1).
    assert (HN1 : m_N s1 = m_N s) by (destruct F1 as (_ & H & _); exact H).
    cbn [iter_progress]. rewrite Hs1. cbn [res_bind].
    assert (Hne : (i + 1 =? m_N s - 2) = false) by (apply Z.eqb_neq; lia).
    rewrite Hne in P1. cbn [negb] in P1.
    destruct (IH s1 (i + 1) es rest (dmrg_like_frame _ _ _ F1 HT) ltac:(lia) ltac:(rewrite HN1; lia) ltac:(lia))
      as (s2 & Hs2 & F2 & P2 & E2 & V2).
    { rewrite HN1. replace (i + 1 + 1) with (i + 2) by lia.
      replace (m_N s - 1 - (i + 1)) with (m_N s - 2 - i) by lia. exact P1. }
    { exact E1. }
    exists s2. split; [exact Hs2|]. split; [eapply dframe_trans; eassumption|].
    rewrite HN1 in P2.
    replace (i + Z.of_nat (S j)) with (i + 1 + Z.of_nat j) by lia.
    replace (m_N s - 1 - i - Z.of_nat (S j)) with (m_N s - 1 - (i + 1) - Z.of_nat j) by lia.
    split; [exact P2|]. split; [exact E2|].
    rewrite V2, V1. cbn [zup flat_map]. rewrite rev_app_distr, <- app_assoc. reflexivity.
Qed.

(* right-to-left half down to site 2: j minimisations starting at site i, i - j >= 1 *)
Lemma dmrg_r2l_phase : forall (j : nat) (s : mstate) (i : Z) (es rest : list A),
  dmrg_like s -> i <= m_N s - 2 -> 1 <= i - Z.of_nat j -> length es = j ->
  dpos s i false (i + 1) (m_N s - 1 - i) -> o_energy s = es ++ rest ->
  exists s', iter_progress ar j s = Ok s' /\ dframe s s' /\
    dpos s' (i - Z.of_nat j) false (i - Z.of_nat j + 1) (m_N s - 1 - i + Z.of_nat j) /\
    o_energy s' = rest /\
    m_ev s' = rev (flat_map ev_r2l (zdown i j)) ++ m_ev s.
Proof.
  induction j as [|j IH]; intros s i es rest HT Hi Hj Hlen Hp He.
  - destruct es; [|discriminate]. exists s. cbn [iter_progress zdown flat_map rev app].
    split; [reflexivity|]. split; [apply dframe_refl|].
    replace (i - Z.of_nat 0) with i by lia. replace (m_N s - 1 - i + Z.of_nat 0) with (m_N s - 1 - i) by lia.
    split; [exact Hp|]. split; [exact He|reflexivity].
  - destruct es as [|e es]; [discriminate|]. cbn [app] in He. cbn [length] in Hlen.
    assert (Hi2 : 2 <= i <= m_N s - 2) by lia.
    destruct (dmrg_r2l s i e (es ++ rest) HT Hi2 Hp He) as (s1 & Hs1 & F1 & P1 & O1 & C1 & E1 & V1).
    assert (HN1 : m_N s1 = m_N s) by (destruct F1 as (_ & H & _); exact H).
    cbn [iter_progress]. rewrite Hs1. cbn [res_bind].
    destruct (IH s1 (i - 1) es rest (dmrg_like_frame _ _ _ F1 HT) ltac:(rewrite HN1; lia) ltac:(lia) ltac:(lia))
      as (s2 & Hs2 & F2 & P2 & E2 & V2).
    { rewrite HN1. replace (i - 1 + 1) with i by lia.
      replace (m_N s - 1 - (i - 1)) with (m_N s - i) by lia. exact P1. }
    { exact E1. }
    exists s2. split; [exact Hs2|]. split; [eapply dframe_trans; eassumption|].
    rewrite HN1 in P2.
    replace (i - Z.of_nat (S j)) with (i - 1 - Z.of_nat j) by lia.
    replace (m_N s - 1 - i + Z.of_nat (S j)) with (m_N s - 1 - (i - 1) + Z.of_nat j) by lia.
    split; [exact P2|]. split; [exact E2|].
    rewrite V2, V1. cbn [zdown flat_map]. rewrite rev_app_distr, <- app_assoc. reflexivity.
Qed.
End P.
