(* Proofs about the emu-mps stepping machine (Model/MpsMachine.v); see Properties/C02.v. *)
From Coq Require Import ZArith List Bool Lia.
From EV Require Import Base.Arith Gen.Brent Model.MpsMachine.
From EV Require Import Proofs.MpsStep Proofs.MpsPhase.
Import ListNotations.
Open Scope Z_scope.
Section P.
Variable A : Type.
Variable ar : Arith A.
Notation mstate := (mstate A).
Notation event := (event A).
Notation progress_l2r_mid := (@progress_l2r_mid A ar).
Notation progress_r2l_mid := (@progress_r2l_mid A ar).
Notation same_frame := (@same_frame A).
Notation pos := (@pos A).
Notation tdvp_like := (@tdvp_like A).
Notation l2r_block := (@l2r_block A ar).
Notation r2l_block := (@r2l_block A ar).
Notation hdt := (@hdt A ar). Notation nhdt := (@nhdt A ar). Notation dt_of := (@dt_of A ar).
Notation same_frame_refl := (@same_frame_refl A).
Notation same_frame_trans := (@same_frame_trans A).
Notation same_frame_dt := (@same_frame_dt A ar).
Notation l2r_phase := (@l2r_phase A ar).
Notation r2l_phase := (@r2l_phase A ar).
Notation progress_l2r_last := (@progress_l2r_last A ar).
Notation progress_r2l_last := (@progress_r2l_last A ar).
Notation iter_progress_app := (@iter_progress_app A ar).
Notation tdvp_like_frame := (@tdvp_like_frame A).
Notation mid_block := (@mid_block A ar).
Notation r2l_call := (@r2l_call A ar).
Notation before_complete := (@before_complete A ar).

(* chronological events of the first 2N-4 progress() calls of a sweep *)
Definition sweep_prefix (s : mstate) (n : nat) : list event :=
  flat_map (l2r_block s) (zup 0 (S n)) ++ mid_block s ++ flat_map (r2l_call s) (zdown (Z.of_nat n + 1) n).

Definition sweep_start (s : mstate) : Prop := pos s 0 true 1 (m_N s - 1) 0.

(* From the start of a sweep, the first 2N-4 calls (N = n+3) run the left-to-right half, the
   rightmost pair, and the right-to-left half down to site 1; nothing but the sweep position and
   the trace changes. *)
Lemma sweep_body (s : mstate) (n : nat) :
  tdvp_like s -> m_N s = Z.of_nat n + 3 -> sweep_start s ->
  exists s1, iter_progress ar (S n + 1 + n) s = Ok s1 /\ same_frame s s1 /\
    pos s1 1 false 2 (m_N s - 2) 1 /\ m_ev s1 = rev (sweep_prefix s n) ++ m_ev s.
Proof.
  intros HT HN HS. unfold sweep_start in HS.
  destruct (l2r_phase (S n) s 0 HT ltac:(lia) ltac:(lia)) as (sa & Ha & Fa & Pa & Ea).
  { replace (0 + 1) with 1 by lia. replace (m_N s - 1 - 0) with (m_N s - 1) by lia. exact HS. }
  assert (HNa : m_N sa = m_N s) by (destruct Fa as (_ & H & _); exact H).
  assert (HTa := tdvp_like_frame _ _ Fa HT).
  destruct (progress_l2r_last sa HTa) as (sb & Hb & Fb & Pb & Eb).
  { rewrite HNa. replace (0 + Z.of_nat (S n)) with (m_N s - 2) in Pa by lia.
    replace (m_N s - 2 + 1) with (m_N s - 1) in Pa by lia.
    replace (m_N s - 1 - 0 - Z.of_nat (S n)) with 1 in Pa by lia. exact Pa. }
  assert (Fab := same_frame_trans _ _ _ Fa Fb).
  assert (HNb : m_N sb = m_N s) by (destruct Fab as (_ & H & _); exact H).
  assert (HTb := tdvp_like_frame _ _ Fab HT).
  destruct (r2l_phase n sb (m_N s - 2) HTb ltac:(lia) ltac:(lia)) as (sc & Hc & Fc & Pc & Ec).
  { rewrite HNa in Pb. rewrite HNb. replace (m_N s - 2 + 1) with (m_N s - 1) by lia.
    replace (m_N s - 1 - (m_N s - 2)) with 1 by lia. exact Pb. }
  exists sc. rewrite !iter_progress_app. rewrite Ha. cbn [res_bind iter_progress]. rewrite Hb. cbn [res_bind].
  split; [exact Hc|]. split; [eapply same_frame_trans; eassumption|]. split.
  - rewrite HNb in Pc. replace (m_N s - 2 - Z.of_nat n) with 1 in Pc by lia.
    replace (1 + 1) with 2 in Pc by lia.
    replace (m_N s - 1 - (m_N s - 2) + Z.of_nat n) with (m_N s - 2) in Pc by lia. exact Pc.
  - rewrite Ec, Eb, Ea. unfold sweep_prefix. rewrite !rev_app_distr, <- !app_assoc.
    replace (m_N s - 2) with (Z.of_nat n + 1) by lia.
    f_equal; [apply f_equal; apply flat_map_ext; intros k; unfold r2l_call; rewrite (r2l_block_frame _ _ _ _ k Fab); reflexivity|].
    f_equal. unfold mid_block. rewrite HNa. rewrite (same_frame_dt _ _ Fa). reflexivity.
Qed.
End P.
