(* C19: termination of the Brent search whenever every round is a bisection (partial termination). *)
From Coq Require Import Reals Lra ZArith List Bool Psatz.
From EV Require Import Base.Arith Gen.Brent Model.BrentLoop Proofs.BrentProofs.
Import ListNotations.
Open Scope R_scope.

(* "every round the search takes on this script is a bisection" *)
Fixpoint all_bisections (ys : list R) (tol : R) (s : st R) : Prop :=
  match ys with
  | [] => True
  | y :: ys' =>
      converged s tol \/
      exists s' x, round R_arith s (fun _ => y) = Ok (s', x) /\ f_bisection s' = true /\ all_bisections ys' tol s'
  end.

Lemma run_script_converged (ys : list R) tol (s : st R) :
  converged s tol -> run_script R_arith ys tol s = ([], Ok s).
Proof.
  intros Hc. destruct (is_converged_spec s tol) as (c & Hic & Hcv).
  assert (c = true) by (apply Hcv; exact Hc). subst c.
  destruct ys; cbn [run_script]; rewrite Hic; reflexivity.
Qed.

(* Termination whenever the search only bisects: a script of n ordinates suffices as soon as
   |b - a| < tol * 2^n. *)
Theorem bisection_terminates : forall (ys : list R) (tol : R) (s : st R),
  Inv s -> all_bisections ys tol s ->
  Rabs (f_b s - f_a s) < tol * 2 ^ (length ys) ->
  exists s', snd (run_script R_arith ys tol s) = Ok s' /\ converged s' tol /\
             (length (fst (run_script R_arith ys tol s)) <= length ys)%nat.
Proof.
  induction ys as [|y ys IH]; intros tol s HI Hall Hlen.
  - cbn [length pow] in Hlen. assert (Hc : converged s tol) by (right; lra).
    rewrite (run_script_converged [] tol s Hc). exists s. cbn. auto.
  - destruct (is_converged_spec s tol) as (c & Hic & Hcv). destruct c.
    + assert (Hc : converged s tol) by (apply Hcv; reflexivity).
      rewrite (run_script_converged (y :: ys) tol s Hc). exists s. cbn. split; auto. split; auto. lia.
    + cbn [all_bisections] in Hall. destruct Hall as [Hc|(s1 & x & Hr & Hb & Hall1)].
      { apply Hcv in Hc. discriminate. }
      assert (HL : live s) by (apply (converged_dead s tol); intro Hc; apply Hcv in Hc; discriminate).
      destruct (round_spec s (fun _ => y) HI HL) as (s1' & x' & Hr' & HI1 & _ & _ & _ & _ & Hhalf).
      rewrite Hr in Hr'. injection Hr' as <- <-.
      specialize (Hhalf Hb).
      assert (Hlen1 : Rabs (f_b s1 - f_a s1) < tol * 2 ^ length ys).
      { rewrite Hhalf. cbn [length pow] in Hlen. lra. }
      destruct (IH tol s1 HI1 Hall1 Hlen1) as (s' & Hs' & Hc' & Hl').
      cbn [run_script]. rewrite Hic, Hr.
      destruct (run_script R_arith ys tol s1) as [xs r]. cbn [fst snd] in *.
      exists s'. split; [exact Hs'|]. split; [exact Hc'|]. cbn [length]. lia.
Qed.
