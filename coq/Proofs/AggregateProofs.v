(* Proofs about the multi-trajectory plumbing model (Model/Aggregate.v). *)
From Coq Require Import ZArith QArith List Bool Lia.
From EV Require Import Base.Arith Model.Aggregate.
Import ListNotations.
Open Scope Z_scope.

(* ---- expansion ------------------------------------------------------------------------------- *)
Definition total_reps {T : Type} (trajs : list (T * nat)) : nat :=
  fold_right (fun tr acc => (snd tr + acc)%nat) 0%nat trajs.

Lemma expand_length : forall (T : Type) (trajs : list (T * nat)),
  length (expand trajs) = total_reps trajs.
Proof.
  induction trajs as [|[d n] r IH]; simpl; [reflexivity|].
  unfold expand in *. simpl. rewrite app_length, repeat_length, IH. reflexivity.
Qed.

Lemma expand_blocks : forall (T : Type) (trajs : list (T * nat)),
  expand trajs = concat (map (fun tr => repeat (fst tr) (snd tr)) trajs).
Proof. intros. unfold expand. apply flat_map_concat_map. Qed.

Lemma expand_all_one : forall (T : Type) (ds : list T),
  expand (map (fun d => (d, 1%nat)) ds) = ds.
Proof. induction ds; simpl; [reflexivity|]. unfold expand in *. simpl. now rewrite IHds. Qed.

(* ---- zeroing is idempotent; different masks compose to their union ------------------------------ *)
Lemma zero_cols_idem : forall (T : Type) (z : T) (m : list bool) (r : list T),
  zero_cols z m (zero_cols z m r) = zero_cols z m r.
Proof.
  induction m; intros; simpl; [reflexivity|].
  destruct r; simpl; [reflexivity|]. rewrite IHm. now destruct a.
Qed.

Lemma zero_cols_iter : forall (T : Type) (z : T) (m : list bool) (r : list T) (k : nat),
  Nat.iter (S k) (zero_cols z m) r = zero_cols z m r.
Proof.
  induction k; simpl; [reflexivity|]. simpl in IHk. rewrite IHk. apply zero_cols_idem.
Qed.

Fixpoint mask_or (a b : list bool) : list bool :=
  match a, b with
  | x :: a', y :: b' => (x || y) :: mask_or a' b'
  | _, _ => []
  end.

Lemma zero_cols_compose : forall (T : Type) (z : T) (m1 m2 : list bool) (r : list T),
  length m1 = length r -> length m2 = length r ->
  zero_cols z m2 (zero_cols z m1 r) = zero_cols z (mask_or m1 m2) r.
Proof.
  induction m1; intros m2 r L1 L2; destruct r; simpl in *; try discriminate.
  - destruct m2; [reflexivity|discriminate].
  - destruct m2; simpl in *; [discriminate|].
    rewrite IHm1 by lia. destruct a, b; reflexivity.
Qed.

(* ---- mapM ----------------------------------------------------------------------------------- *)
Lemma mapM_nth : forall (X Y : Type) (f : X -> res Y) (l : list X) (l' : list Y),
  mapM f l = Ok l' ->
  length l' = length l /\
  forall i x y, nth_error l i = Some x -> nth_error l' i = Some y -> f x = Ok y.
Proof.
  induction l; intros l' H; simpl in H.
  - inversion H; subst. split; [reflexivity|]. intros [|i] x y Hx; simpl in Hx; discriminate.
  - destruct (f a) eqn:Fa; simpl in H; try discriminate.
    destruct (mapM f l) eqn:M; simpl in H; try discriminate.
    inversion H; subst. destruct (IHl v0 eq_refl) as (L & N). split; [simpl; now rewrite L|].
    intros [|i] x y Hx Hy; simpl in *.
    + inversion Hx; inversion Hy; subst. exact Fa.
    + eapply N; eauto.
Qed.

Lemma mapM_Forall2 : forall (X Y : Type) (f : X -> res Y) (l : list X) (l' : list Y),
  mapM f l = Ok l' -> Forall2 (fun x y => f x = Ok y) l l'.
Proof.
  induction l; intros l' H; simpl in H.
  - inversion H. constructor.
  - destruct (f a) eqn:Fa; simpl in H; try discriminate.
    destruct (mapM f l) eqn:M; simpl in H; try discriminate.
    inversion H; subst. constructor; auto.
Qed.

Lemma index_of_nth : forall (l : list Z) (t : Z) (i : nat),
  index_of t l = Some i -> nth_error l i = Some t.
Proof.
  induction l; intros t i H; simpl in H; [discriminate|].
  destruct (a =? t) eqn:E.
  - inversion H; subst. apply Z.eqb_eq in E. subst. reflexivity.
  - destruct (index_of t l) eqn:I; simpl in H; [|discriminate].
    inversion H; subst. simpl. now apply IHl.
Qed.

Lemma find_tag : forall (es : list entry) (tag : Z) (e : entry),
  lookup_tag tag es = Some e -> In e es /\ e_tag e = tag.
Proof.
  intros es tag e H. unfold lookup_tag in H. apply find_some in H. destruct H as (H1 & H2).
  split; [exact H1|]. now apply Z.eqb_eq.
Qed.

Lemma Forall2_imp : forall (X Y : Type) (R1 R2 : X -> Y -> Prop) (l : list X) (l' : list Y),
  (forall a b, R1 a b -> R2 a b) -> Forall2 R1 l l' -> Forall2 R2 l l'.
Proof. intros X Y R1 R2 l l' Hi H. induction H; constructor; auto. Qed.

Lemma Forall2_len : forall (X Y : Type) (R : X -> Y -> Prop) (l : list X) (l' : list Y),
  Forall2 R l l' -> length l = length l'.
Proof. intros X Y R l l' H. induction H; simpl; congruence. Qed.

(* ---- what an aggregated value is ------------------------------------------------------------ *)
(* every value of the aggregate at (tag, t) is the default aggregator of an entry of the first result
   carrying that tag, applied to exactly one value per run, in run order, each being that run's own
   value at (tag, t) *)
Lemma aggregate_value : forall (r0 r1 : results) (rest : list results) (agg : results) (tag t : Z) (v : value),
  aggregate (r0 :: r1 :: rest) = Ok agg ->
  get_result agg tag t = Some v ->
  exists (e0 : entry) (vals : list value),
    In e0 (r_entries r0) /\ e_tag e0 = tag /\ is_skip (e_meth e0) = false /\
    Forall2 (fun r x => get_result r tag t = Some x) (r0 :: r1 :: rest) vals /\
    agg_fun (e_meth e0) vals = Ok v.
Proof.
  intros r0 r1 rest agg tag t v H G.
  unfold aggregate in H.
  repeat match type of H with (if ?c then _ else _) = _ => destruct c; [discriminate|] end.
  match type of H with res_bind (mapM ?f ?todo) _ = _ =>
    destruct (mapM f todo) as [es| |] eqn:M; simpl in H; try discriminate end.
  inversion H; subst agg. clear H.
  unfold get_result in G. simpl in G.
  destruct (lookup_tag tag es) as [e|] eqn:L; [|discriminate].
  destruct (find_tag _ _ _ L) as (Hin & Htag).
  destruct (index_of t (e_times e)) as [i|] eqn:I; [|discriminate].
  apply In_nth_error in Hin. destruct Hin as (j & Hj).
  destruct (mapM_nth _ _ _ _ _ M) as (Len & Nth).
  match type of M with mapM _ ?td = _ => set (todo := td) in * end.
  assert (exists e0, nth_error todo j = Some e0) as (e0 & He0).
  { destruct (nth_error todo j) eqn:Q; [eauto|].
    apply nth_error_None in Q. assert (nth_error es j <> None) as Hn by congruence.
    apply nth_error_Some in Hn. lia. }
  pose proof (Nth j e0 e He0 Hj) as B.
  assert (Hf := nth_error_In _ _ He0). subst todo. apply filter_In in Hf. destruct Hf as (Hin0 & Hc).
  apply andb_true_iff in Hc. destruct Hc as (Hcommon & Hskip).
  unfold build_entry in B.
  match type of B with (if ?c then _ else _) = _ => destruct c; [discriminate|] end.
  match type of B with res_bind (mapM ?f ?l) _ = _ =>
    destruct (mapM f l) as [vals| |] eqn:MV; simpl in B; try discriminate end.
  inversion B; subst e. simpl in *. clear B. subst tag.
  pose proof (index_of_nth _ _ _ I) as Ti.
  destruct (mapM_nth _ _ _ _ _ MV) as (_ & NV).
  pose proof (NV i t v Ti G) as AV.
  unfold agg_value in AV.
  match type of AV with res_bind (mapM ?f ?l) _ = _ =>
    destruct (mapM f l) as [xs| |] eqn:MX; simpl in AV; try discriminate end.
  exists e0, xs. split; [exact Hin0|]. split; [reflexivity|].
  split; [now apply negb_true_iff in Hskip|]. split; [|exact AV].
  apply mapM_Forall2 in MX. eapply Forall2_imp; [|exact MX].
  intros r x Hr. simpl in Hr. destruct (get_result r (e_tag e0) t); [now inversion Hr|discriminate].
Qed.

(* ---- MEAN --------------------------------------------------------------------------------- *)
Lemma agg_fun_mean : forall vals v, agg_fun MEAN vals = Ok v ->
  exists vs, Forall2 (fun x w => x = VNum w) vals vs /\ v = VNum (mean_vec vs) /\ same_length vs = true.
Proof.
  intros vals v H. unfold agg_fun in H.
  destruct (mapM as_num vals) as [vs| |] eqn:M; simpl in H; try discriminate.
  destruct (same_length vs) eqn:S; [|discriminate]. inversion H; subst.
  exists vs. split; [|split; auto].
  apply mapM_Forall2 in M. eapply Forall2_imp; [|exact M].
  intros a b Hab. destruct a; simpl in Hab; [now inversion Hab|discriminate].
Qed.

Lemma agg_fun_bag : forall vals v, agg_fun BAG_UNION vals = Ok v ->
  exists bs, Forall2 (fun x b => x = VBag b) vals bs /\ v = VBag (concat bs).
Proof.
  intros vals v H. unfold agg_fun in H.
  destruct (mapM as_bag vals) as [bs| |] eqn:M; simpl in H; try discriminate.
  inversion H; subst. exists bs. split; [|reflexivity].
  apply mapM_Forall2 in M. eapply Forall2_imp; [|exact M].
  intros a b Hab. destruct a; simpl in Hab; [discriminate|now inversion Hab].
Qed.

Lemma Forall2_compose : forall (X Y W : Type) (R : X -> Y -> Prop) (S : Y -> W -> Prop) l1 l2 l3,
  Forall2 R l1 l2 -> Forall2 S l2 l3 -> Forall2 (fun x w => exists y, R x y /\ S y w) l1 l3.
Proof.
  intros X Y W R S l1 l2 l3 H. revert l3. induction H; intros l3 H3; inversion H3; subst; constructor; eauto.
Qed.

Theorem aggregate_mean_thm : forall (r0 r1 : results) (rest : list results) (agg : results) (tag t : Z) (v : value),
  aggregate (r0 :: r1 :: rest) = Ok agg ->
  (forall e, In e (r_entries r0) -> e_tag e = tag -> e_meth e = MEAN) ->
  get_result agg tag t = Some v ->
  exists vs : list (list Q),
    Forall2 (fun r w => get_result r tag t = Some (VNum w)) (r0 :: r1 :: rest) vs /\
    length vs = length (r0 :: r1 :: rest) /\ v = VNum (mean_vec vs).
Proof.
  intros r0 r1 rest agg tag t v H Hm G.
  destruct (aggregate_value _ _ _ _ _ _ _ H G) as (e0 & vals & Hin & Ht & _ & F & A).
  rewrite (Hm e0 Hin Ht) in A. destruct (agg_fun_mean _ _ A) as (vs & F2 & Hv & _).
  exists vs. split; [|split; [|exact Hv]].
  - pose proof (Forall2_compose _ _ _ _ _ _ _ _ F F2) as C. eapply Forall2_imp; [|exact C].
    intros r w (y & Hy & Hw). now subst.
  - pose proof (Forall2_len _ _ _ _ _ F) as L1. pose proof (Forall2_len _ _ _ _ _ F2) as L2. congruence.
Qed.

Theorem aggregate_counts_thm : forall (r0 r1 : results) (rest : list results) (agg : results) (tag t : Z) (v : value),
  aggregate (r0 :: r1 :: rest) = Ok agg ->
  (forall e, In e (r_entries r0) -> e_tag e = tag -> e_meth e = BAG_UNION) ->
  get_result agg tag t = Some v ->
  exists bs : list bag,
    Forall2 (fun r b => get_result r tag t = Some (VBag b)) (r0 :: r1 :: rest) bs /\
    length bs = length (r0 :: r1 :: rest) /\ v = VBag (concat bs).
Proof.
  intros r0 r1 rest agg tag t v H Hm G.
  destruct (aggregate_value _ _ _ _ _ _ _ H G) as (e0 & vals & Hin & Ht & _ & F & A).
  rewrite (Hm e0 Hin Ht) in A. destruct (agg_fun_bag _ _ A) as (bs & F2 & Hv).
  exists bs. split; [|split; [|exact Hv]].
  - pose proof (Forall2_compose _ _ _ _ _ _ _ _ F F2) as C. eapply Forall2_imp; [|exact C].
    intros r w (y & Hy & Hw). now subst.
  - pose proof (Forall2_len _ _ _ _ _ F) as L1. pose proof (Forall2_len _ _ _ _ _ F2) as L2. congruence.
Qed.

(* ---- bags: union adds counts ------------------------------------------------------------------ *)
Lemma bag_total_app : forall a b, bag_total (a ++ b) = bag_total a + bag_total b.
Proof. induction a; intros; simpl; [reflexivity|]. unfold bag_total in *. simpl. rewrite IHa. lia. Qed.

Lemma bag_count_app : forall k a b, bag_count k (a ++ b) = bag_count k a + bag_count k b.
Proof. induction a; intros; simpl; [reflexivity|]. unfold bag_count in *. simpl. rewrite IHa. lia. Qed.

Lemma bag_total_concat : forall bs, bag_total (concat bs) = fold_right (fun b acc => bag_total b + acc) 0 bs.
Proof. induction bs; simpl; [reflexivity|]. now rewrite bag_total_app, IHbs. Qed.

Lemma bag_count_concat : forall k bs,
  bag_count k (concat bs) = fold_right (fun b acc => bag_count k b + acc) 0 bs.
Proof. induction bs; simpl; [reflexivity|]. now rewrite bag_count_app, IHbs. Qed.

Lemma bag_total_shots : forall (shots : Z) bs,
  Forall (fun b => bag_total b = shots) bs -> bag_total (concat bs) = Z.of_nat (length bs) * shots.
Proof.
  intros shots bs H. rewrite bag_total_concat. induction H; simpl fold_right; [simpl; lia|].
  rewrite IHForall, H. simpl length. lia.
Qed.

(* ---- mean: arithmetic content ------------------------------------------------------------------- *)
(* componentwise: n * mean_k == sum over the runs of component k (vectors of equal length) *)
Fixpoint col (k : nat) (vs : list (list Q)) : Q :=
  match vs with [] => 0%Q | v :: r => (nth k v 0 + col k r)%Q end.

Lemma vadd_nth : forall a b k, length a = length b -> (nth k (vadd a b) 0 == nth k a 0 + nth k b 0)%Q.
Proof.
  induction a; intros b k L; destruct b; simpl in *; try discriminate.
  - destruct k; ring.
  - destruct k; [ring|]. apply IHa. lia.
Qed.

Lemma vadd_length : forall a b, length a = length b -> length (vadd a b) = length a.
Proof. induction a; intros b L; destruct b; simpl in *; try discriminate; auto. Qed.

Lemma fold_vadd_nth : forall r v k, Forall (fun w => length w = length v) r ->
  length (fold_left vadd r v) = length v /\ (nth k (fold_left vadd r v) 0 == nth k v 0 + col k r)%Q.
Proof.
  induction r; intros v k H; simpl.
  - split; [reflexivity|ring].
  - inversion H; subst.
    assert (Forall (fun w => length w = length (vadd v a)) r).
    { rewrite vadd_length by congruence. exact H3. }
    destruct (IHr (vadd v a) k H0) as (L & N). split.
    + rewrite L. apply vadd_length. congruence.
    + rewrite N, vadd_nth by congruence. ring.
Qed.

Lemma mean_vec_component : forall (v : list Q) (r : list (list Q)) (k : nat),
  Forall (fun w => length w = length v) r -> (k < length v)%nat ->
  (nth k (mean_vec (v :: r)) 0 * inject_Z (Z.of_nat (length (v :: r))) == col k (v :: r))%Q.
Proof.
  intros v r k H Hk. unfold mean_vec. simpl vsum.
  destruct (fold_vadd_nth r v k H) as (L & N).
  set (n := inject_Z (Z.of_nat (length (v :: r)))).
  assert (Hn : ~ (n == 0)%Q).
  { unfold n. simpl length. rewrite Nat2Z.inj_succ. unfold inject_Z, Qeq. simpl. lia. }
  rewrite (nth_indep (map (fun s => (s / n)%Q) (fold_left vadd r v)) 0%Q ((fun s => (s / n)%Q) 0%Q))
    by (rewrite map_length, L; exact Hk).
  rewrite (map_nth (fun s => (s / n)%Q)).
  rewrite N. simpl col. field. exact Hn.
Qed.

(* ---- run(): one result per simulated trajectory ---------------------------------------------------- *)
Lemma aggregate_single : forall r, aggregate [r] = Ok r.
Proof. reflexivity. Qed.

Lemma run_all_inputs : forall (T : Type) (runner : T -> results) (trajs : list (T * nat)),
  run_all runner trajs = aggregate (map runner (expand trajs)) /\
  length (map runner (expand trajs)) = total_reps trajs /\
  map runner (expand trajs) = concat (map (fun tr => repeat (runner (fst tr)) (snd tr)) trajs).
Proof.
  intros. split; [reflexivity|]. split; [now rewrite map_length, expand_length|].
  rewrite expand_blocks, concat_map, map_map. f_equal. apply map_ext. intros [d n]. simpl.
  induction n; simpl; congruence.
Qed.

Lemma expansion_full : forall (T : Type) (trajs : list (T * nat)),
  length (expand trajs) = total_reps trajs /\
  expand trajs = concat (map (fun tr => repeat (fst tr) (snd tr)) trajs).
Proof. intros. split; [apply expand_length|apply expand_blocks]. Qed.

(* a concrete two-run aggregation (premises of the theorems are satisfiable) *)
Definition ex_run (a b : Z) : results :=
  MkR [0; 1] 100 [MkE 7 70 MEAN [10; 20] [VNum [inject_Z a; 1%Q]; VNum [inject_Z b; 3%Q]];
                  MkE 8 80 BAG_UNION [20] [VBag [(0, a); (3, 5)]];
                  MkE 9 90 SKIP [20] [VNum []]].
