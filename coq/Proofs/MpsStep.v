(* Proofs about the emu-mps stepping machine (Model/MpsMachine.v); see Properties/C02.v. *)
From Coq Require Import ZArith List Bool Lia.
From EV Require Import Base.Arith Gen.Brent Model.MpsMachine.
Import ListNotations.
Open Scope Z_scope.

Section P.
Variable A : Type.
Variable ar : Arith A.
Notation mstate := (mstate A).
Notation event := (event A).

Ltac sp := cbn [m_kind m_N m_steps m_times m_sweep m_l2r m_tidx m_cur m_tgt m_nl m_nr m_oc m_thr m_gap m_rf
  m_prevE m_curE m_sweeps m_etol m_maxsw o_norm o_unif o_energy o_same m_ev
  emit set_sweep set_l2r set_tidx set_cur set_tgt set_nl set_nr set_oc set_thr set_gap set_rf set_prevE
  set_curE set_sweeps set_onorm set_ounif set_oenergy set_osame].
Ltac zt := repeat match goal with
  | |- context [(?a <? ?b)%Z] =>
      first [ replace (a <? b)%Z with true by (symmetry; apply Z.ltb_lt; lia)
            | replace (a <? b)%Z with false by (symmetry; apply Z.ltb_ge; lia) ]
  | |- context [(?a <=? ?b)%Z] =>
      first [ replace (a <=? b)%Z with true by (symmetry; apply Z.leb_le; lia)
            | replace (a <=? b)%Z with false by (symmetry; apply Z.leb_gt; lia) ]
  | |- context [(?a =? ?b)%Z] =>
      first [ replace (a =? b)%Z with true by (symmetry; apply Z.eqb_eq; lia)
            | replace (a =? b)%Z with false by (symmetry; apply Z.eqb_neq; lia) ]
  end.
Ltac step := sp; zt; cbn [negb andb orb res_bind].

Definition dt_of (s : mstate) : A := a_sub ar (m_tgt s) (m_cur s).
Definition hdt (s : mstate) : A := half ar (dt_of s).
Definition nhdt (s : mstate) : A := half ar (a_neg ar (dt_of s)).

(* everything the sweep does not touch *)
Definition same_frame (s s' : mstate) : Prop :=
  m_kind s' = m_kind s /\ m_N s' = m_N s /\ m_steps s' = m_steps s /\ m_times s' = m_times s /\
  m_tidx s' = m_tidx s /\ m_cur s' = m_cur s /\ m_tgt s' = m_tgt s /\ m_thr s' = m_thr s /\
  m_gap s' = m_gap s /\ m_rf s' = m_rf s /\ m_prevE s' = m_prevE s /\ m_curE s' = m_curE s /\
  m_sweeps s' = m_sweeps s /\ m_etol s' = m_etol s /\ m_maxsw s' = m_maxsw s /\
  o_norm s' = o_norm s /\ o_unif s' = o_unif s /\ o_energy s' = o_energy s /\ o_same s' = o_same s.

Lemma same_frame_refl s : same_frame s s.
Proof. unfold same_frame; repeat split. Qed.
Lemma same_frame_trans s1 s2 s3 : same_frame s1 s2 -> same_frame s2 s3 -> same_frame s1 s3.
Proof. unfold same_frame; intuition congruence. Qed.

Lemma same_frame_dt s s' : same_frame s s' -> dt_of s' = dt_of s.
Proof. unfold same_frame, dt_of; intuition congruence. Qed.

(* the discrete sweep position *)
Definition pos (s : mstate) (sweep : Z) (l2r : bool) (nl nr oc : Z) : Prop :=
  m_sweep s = sweep /\ m_l2r s = l2r /\ m_nl s = nl /\ m_nr s = nr /\ m_oc s = oc.

Definition tdvp_like (s : mstate) : Prop := m_kind s <> DMRG /\ 3 <= m_N s /\ m_tidx s < m_steps s.

Lemma progress_is_tdvp s : m_kind s <> DMRG -> progress ar s = progress_tdvp ar s.
Proof. unfold progress; destruct (m_kind s); congruence. Qed.

Definition l2r_block (s : mstate) (i : Z) : list event :=
  [EvPair i (i + 1) (hdt s) true; EvPushL A i; EvSingle (i + 1) (nhdt s); EvPopR A; EvSave A].

Lemma progress_l2r_mid (s : mstate) i :
  tdvp_like s -> 0 <= i < m_N s - 2 -> pos s i true (i + 1) (m_N s - 1 - i) i ->
  exists s', progress ar s = Ok s' /\ same_frame s s' /\
    pos s' (i + 1) true (i + 2) (m_N s - 2 - i) (i + 1) /\
    m_ev s' = rev (l2r_block s i) ++ m_ev s.
Proof.
  intros (Hk & HN & Ht) Hi (Hsw & Hl & Hnl & Hnr & Hoc).
  rewrite (progress_is_tdvp s Hk). unfold progress_tdvp, is_finished. step. rewrite Hl.
  unfold l2r_tdvp. step.
  unfold evolve_pair at 1. step.
  unfold push_l at 1. step.
  unfold evolve_single at 1. step.
  unfold pop_r at 1. step.
  eexists; split; [reflexivity|]. unfold same_frame, pos, l2r_block, hdt, nhdt, dt_of. sp.
  rewrite Hsw, Hnl, Hnr. repeat split; try lia; try assumption.
Qed.

Definition mid_block (s : mstate) : list event :=
  [EvPair (m_N s - 2) (m_N s - 1) (dt_of s) false; EvSave A].

Lemma progress_l2r_last (s : mstate) :
  tdvp_like s -> pos s (m_N s - 2) true (m_N s - 1) 1 (m_N s - 2) ->
  exists s', progress ar s = Ok s' /\ same_frame s s' /\
    pos s' (m_N s - 2) false (m_N s - 1) 1 (m_N s - 2) /\
    m_ev s' = rev (mid_block s) ++ m_ev s.
Proof.
  intros (Hk & HN & Ht) (Hsw & Hl & Hnl & Hnr & Hoc).
  rewrite (progress_is_tdvp s Hk). unfold progress_tdvp, is_finished. step. rewrite Hl.
  unfold l2r_tdvp. step.
  unfold evolve_pair at 1. step.
  eexists; split; [reflexivity|]. unfold same_frame, pos, mid_block, dt_of. sp.
  rewrite Hsw, Hnl, Hnr. replace (m_N s - 2 + 1) with (m_N s - 1) by lia. repeat split; try lia; try assumption.
Qed.

Definition r2l_block (s : mstate) (i : Z) : list event :=
  [EvPushR A (i + 1); EvSingle i (nhdt s); EvPopL A; EvPair (i - 1) i (hdt s) false].

Lemma progress_r2l_mid (s : mstate) i :
  tdvp_like s -> 2 <= i <= m_N s - 2 -> pos s i false (i + 1) (m_N s - 1 - i) i ->
  exists s', progress ar s = Ok s' /\ same_frame s s' /\
    pos s' (i - 1) false i (m_N s - i) (i - 1) /\
    m_ev s' = EvSave A :: rev (r2l_block s i) ++ m_ev s.
Proof.
  intros (Hk & HN & Ht) Hi (Hsw & Hl & Hnl & Hnr & Hoc).
  rewrite (progress_is_tdvp s Hk). unfold progress_tdvp, is_finished. step. rewrite Hl.
  unfold r2l_tdvp. step.
  unfold push_r at 1. step.
  unfold evolve_single at 1. step.
  unfold pop_l at 1. step.
  unfold evolve_pair at 1. step. step.
  eexists; split; [reflexivity|]. unfold same_frame, pos, r2l_block, hdt, nhdt, dt_of. sp.
  rewrite Hsw, Hnl, Hnr. repeat split; try lia; try assumption.
Qed.

(* the state handed to sweep_complete by the last right-to-left call *)
Definition before_complete (s : mstate) : mstate :=
  set_sweep (set_oc (emit (set_nl (emit (emit (set_nr (emit s (EvPushR A 2)) (m_nr s + 1))
    (EvSingle 1 (nhdt s))) (EvPopL A)) (m_nl s - 1)) (EvPair 0 1 (hdt s) false)) 0) 0.

Lemma progress_r2l_last (s : mstate) :
  tdvp_like s -> pos s 1 false 2 (m_N s - 2) 1 ->
  progress ar s =
    res_bind (res_bind (sweep_complete ar (before_complete s)) (fun s => Ok (set_l2r s true)))
             (fun s => Ok (emit s (EvSave A))).
Proof.
  intros (Hk & HN & Ht) (Hsw & Hl & Hnl & Hnr & Hoc).
  rewrite (progress_is_tdvp s Hk). unfold progress_tdvp, is_finished. step. rewrite Hl.
  unfold r2l_tdvp. step.
  unfold push_r at 1. step.
  unfold evolve_single at 1. step.
  unfold pop_l at 1. step.
  unfold evolve_pair at 1. step. step.
  unfold before_complete, hdt, nhdt, dt_of. rewrite Hsw. reflexivity.
Qed.

End P.
