(* Laws of the coefficient ring and generic lemmas for the F2 index-map semantics (Model/SvBase.v). *)
From Coq Require Import List Arith Bool Lia Ring.
From EV Require Import Model.SvBase.
Import ListNotations.

(* commutative ring with involution, imaginary unit and 1/2 *)
Record Klaws (o : Kops) : Prop := MkKlaws {
  K_ring : ring_theory (k0 o) (k1 o) (kadd o) (kmul o) (ksub o) (kopp o) (@eq (K o));
  conj_add : forall x y, kconj o (kadd o x y) = kadd o (kconj o x) (kconj o y);
  conj_mul : forall x y, kconj o (kmul o x y) = kmul o (kconj o x) (kconj o y);
  conj_inv : forall x, kconj o (kconj o x) = x;
  I_sq : kmul o (kI o) (kI o) = kopp o (k1 o);
  conj_I : kconj o (kI o) = kopp o (kI o);
  half_half : kadd o (khalf o) (khalf o) = k1 o;
  conj_half : kconj o (khalf o) = khalf o;
}.

(* ---- index arithmetic ---------------------------------------------------------------------------- *)
Lemma co_flat d1 d2 a b c : b < d1 -> c < d2 ->
  co0 d1 d2 (flat3 d1 d2 a b c) = a /\ co1 d1 d2 (flat3 d1 d2 a b c) = b /\ co2 d2 (flat3 d1 d2 a b c) = c.
Proof.
  intros Hb Hc. unfold co0, co1, co2, flat3.
  assert (d1 <> 0) by lia. assert (d2 <> 0) by lia. assert (d1 * d2 <> 0) by nia.
  repeat split.
  - replace (a * (d1 * d2) + b * d2 + c) with (a * (d1 * d2) + (b * d2 + c)) by lia.
    rewrite Nat.div_add_l by assumption. rewrite (Nat.div_small (b * d2 + c)) by nia. lia.
  - replace (a * (d1 * d2) + b * d2 + c) with ((a * d1 + b) * d2 + c) by lia.
    rewrite Nat.div_add_l by assumption. rewrite (Nat.div_small c) by lia.
    replace (a * d1 + b + 0) with (b + a * d1) by lia. rewrite Nat.mod_add by assumption.
    apply Nat.mod_small; lia.
  - replace (a * (d1 * d2) + b * d2 + c) with (c + (a * d1 + b) * d2) by lia.
    rewrite Nat.mod_add by assumption. apply Nat.mod_small; lia.
Qed.

Lemma flat_co d1 d2 k : 0 < d1 -> 0 < d2 -> flat3 d1 d2 (co0 d1 d2 k) (co1 d1 d2 k) (co2 d2 k) = k.
Proof.
  intros H1 H2. unfold co0, co1, co2, flat3.
  assert (d1 <> 0) by lia. assert (d2 <> 0) by lia.
  rewrite (Nat.mul_comm d1 d2) at 1. rewrite <- Nat.div_div by assumption.
  pose proof (Nat.div_mod k d2 ltac:(assumption)) as E1.
  pose proof (Nat.div_mod (k / d2) d1 ltac:(assumption)) as E2.
  set (q := k / d2) in *. set (q1 := q / d1) in *. set (r1 := q mod d1) in *. set (r := k mod d2) in *.
  nia.
Qed.

Lemma co1_lt d1 d2 k : 0 < d1 -> co1 d1 d2 k < d1.
Proof. intros; unfold co1; apply Nat.mod_upper_bound; lia. Qed.
Lemma co2_lt d2 k : 0 < d2 -> co2 d2 k < d2.
Proof. intros; unfold co2; apply Nat.mod_upper_bound; lia. Qed.

Lemma pow2_pos n : 0 < 2 ^ n.
Proof. pose proof (Nat.pow_nonzero 2 n); lia. Qed.
Lemma qrest_pos N n : 0 < qrest N n.
Proof. apply pow2_pos. Qed.
Lemma pow_split N n : n < N -> 2 ^ N = 2 ^ n * (2 * qrest N n).
Proof.
  intros. unfold qrest. replace N with (n + (1 + (N - n - 1))) at 1 by lia.
  rewrite !Nat.pow_add_r. simpl (2 ^ 1). lia.
Qed.

Lemma bit_lt N n k : bit N n k < 2.
Proof. unfold bit. apply Nat.mod_upper_bound; lia. Qed.
Lemma bit_co1 N n k : bit N n k = co1 2 (qrest N n) k.
Proof. reflexivity. Qed.

Lemma co0_lt N n k : n < N -> k < 2 ^ N -> co0 2 (qrest N n) k < 2 ^ n.
Proof.
  intros Hn Hk. unfold co0. apply Nat.div_lt_upper_bound.
  - pose proof (qrest_pos N n); lia.
  - rewrite (pow_split N n Hn) in Hk. lia.
Qed.

Lemma setbit_lt N n k b : n < N -> k < 2 ^ N -> b < 2 -> setbit N n k b < 2 ^ N.
Proof.
  intros Hn Hk Hb. unfold setbit, flat3.
  pose proof (co0_lt N n k Hn Hk). pose proof (co2_lt (qrest N n) k (qrest_pos N n)).
  rewrite (pow_split N n Hn). pose proof (qrest_pos N n). nia.
Qed.

Lemma bit_setbit N n k b : b < 2 -> bit N n (setbit N n k b) = b.
Proof.
  intros. rewrite bit_co1. unfold setbit.
  apply (co_flat 2 (qrest N n)); auto. apply co2_lt, qrest_pos.
Qed.
Lemma co0_setbit N n k b : b < 2 -> co0 2 (qrest N n) (setbit N n k b) = co0 2 (qrest N n) k.
Proof. intros. unfold setbit. apply (co_flat 2 (qrest N n)); auto. apply co2_lt, qrest_pos. Qed.
Lemma co2_setbit N n k b : b < 2 -> co2 (qrest N n) (setbit N n k b) = co2 (qrest N n) k.
Proof. intros. unfold setbit. apply (co_flat 2 (qrest N n)); auto. apply co2_lt, qrest_pos. Qed.
Lemma setbit_bit N n k : setbit N n k (bit N n k) = k.
Proof. unfold setbit. rewrite bit_co1. apply flat_co; [lia | apply qrest_pos]. Qed.
Lemma setbit_setbit N n k b b' : b < 2 -> setbit N n (setbit N n k b) b' = setbit N n k b'.
Proof. intros. unfold setbit at 1. rewrite co0_setbit, co2_setbit by assumption. reflexivity. Qed.

(* k and k' agree on every qubit except possibly qubit n *)
Definition same_except (N n k k' : nat) : bool :=
  (co0 2 (qrest N n) k =? co0 2 (qrest N n) k') && (co2 (qrest N n) k =? co2 (qrest N n) k').

Lemma same_except_iff N n k k' : same_except N n k k' = true <-> k' = setbit N n k (bit N n k').
Proof.
  unfold same_except. rewrite andb_true_iff, !Nat.eqb_eq. split.
  - intros [E0 E2]. unfold setbit. rewrite E0, E2. symmetry. rewrite bit_co1. apply flat_co; [lia|apply qrest_pos].
  - intros E. rewrite E. rewrite co0_setbit, co2_setbit by apply bit_lt. auto.
Qed.

Lemma same_except_setbit N n k b : b < 2 -> same_except N n k (setbit N n k b) = true.
Proof. intros. apply same_except_iff. rewrite bit_setbit by assumption. reflexivity. Qed.

Lemma same_except_sym N n k k' : same_except N n k k' = same_except N n k' k.
Proof. unfold same_except. rewrite (Nat.eqb_sym (co0 _ _ k)), (Nat.eqb_sym (co2 _ k)). reflexivity. Qed.

(* ---- ring-valued lemmas ------------------------------------------------------------------------------ *)
Section Base.
Variable o : Kops.
Hypothesis laws : Klaws o.
Add Ring Kr : (K_ring o laws).
Open Scope K_scope.
Notation zero := (k0 o).
Notation one := (k1 o).
Notation cj := (kconj o).

Lemma conj_0 : cj zero = zero.
Proof.
  assert (H : cj zero = cj zero + cj zero).
  { rewrite <- (conj_add o laws). f_equal. ring. }
  transitivity ((cj zero + cj zero) - cj zero). ring. rewrite <- H. ring.
Qed.
Lemma conj_opp x : cj (- x) = - cj x.
Proof.
  assert (H : cj (- x) + cj x = zero).
  { rewrite <- (conj_add o laws). replace (- x + x) with zero by ring. apply conj_0. }
  transitivity ((cj (- x) + cj x) - cj x). ring. rewrite H. ring.
Qed.
Lemma conj_sub x y : cj (x - y) = cj x - cj y.
Proof. replace (x - y) with (x + - y) by ring. rewrite (conj_add o laws), conj_opp. ring. Qed.
Lemma conj_1 : cj one = one.
Proof.
  transitivity (cj (one * cj one)).
  - rewrite (conj_mul o laws), (conj_inv o laws). ring.
  - replace (one * cj one) with (cj one) by ring. apply (conj_inv o laws).
Qed.

Lemma length_tab n (f : nat -> o) : length (tab n f) = n.
Proof. unfold tab. rewrite map_length, seq_length. reflexivity. Qed.
Lemma get_tab n (f : nat -> o) k : k < n -> get (tab n f) k = f k.
Proof.
  intros. unfold get, tab. rewrite (nth_indep _ zero (f 0)) by (rewrite map_length, seq_length; lia).
  rewrite map_nth, seq_nth by lia. reflexivity.
Qed.
Lemma get_zeros n k : get (@zeros o n) k = zero.
Proof.
  destruct (Nat.lt_ge_cases k n).
  - unfold zeros. rewrite get_tab by assumption. reflexivity.
  - unfold get. apply nth_overflow. unfold zeros. rewrite length_tab. lia.
Qed.
Lemma get_overflow (l : list o) k : length l <= k -> get l k = zero.
Proof. intros. unfold get. apply nth_overflow. assumption. Qed.

(* sums *)
Lemma ksum_ext {A} (l : list A) (f g : A -> o) : (forall a, In a l -> f a = g a) -> ksum l f = ksum l g.
Proof.
  induction l as [|a l IH]; simpl; intros H; [reflexivity|].
  rewrite H by auto. rewrite IH by auto. reflexivity.
Qed.
Lemma ksum_add {A} (l : list A) (f g : A -> o) : ksum l (fun a => f a + g a) = ksum l f + ksum l g.
Proof. induction l as [|a l IH]; simpl; [ring | rewrite IH; ring]. Qed.
Lemma ksum_sub {A} (l : list A) (f g : A -> o) : ksum l (fun a => f a - g a) = ksum l f - ksum l g.
Proof. induction l as [|a l IH]; simpl; [ring | rewrite IH; ring]. Qed.
Lemma ksum_zero {A} (l : list A) : ksum l (fun _ => zero) = zero.
Proof. induction l as [|a l IH]; simpl; [reflexivity | rewrite IH; ring]. Qed.
Lemma ksum_mul_l {A} (l : list A) c (f : A -> o) : ksum l (fun a => c * f a) = c * ksum l f.
Proof. induction l as [|a l IH]; simpl; [ring | rewrite IH; ring]. Qed.
Lemma ksum_mul_r {A} (l : list A) c (f : A -> o) : ksum l (fun a => f a * c) = ksum l f * c.
Proof. induction l as [|a l IH]; simpl; [ring | rewrite IH; ring]. Qed.
Lemma ksum_conj {A} (l : list A) (f : A -> o) : cj (ksum l f) = ksum l (fun a => cj (f a)).
Proof. induction l as [|a l IH]; simpl; [apply conj_0 | rewrite (conj_add o laws), IH; reflexivity]. Qed.
Lemma ksum_app {A} (l m : list A) (f : A -> o) : ksum (l ++ m) f = ksum l f + ksum m f.
Proof. induction l as [|a l IH]; simpl; [ring | rewrite IH; ring]. Qed.
Lemma ksum_swap {A B} (l : list A) (m : list B) (f : A -> B -> o) :
  ksum l (fun a => ksum m (fun b => f a b)) = ksum m (fun b => ksum l (fun a => f a b)).
Proof.
  induction l as [|a l IH]; simpl.
  - rewrite ksum_zero. reflexivity.
  - rewrite IH, <- ksum_add. reflexivity.
Qed.

Lemma ksum_single_seq s n a (f : nat -> o) : s <= a < s + n ->
  ksum (seq s n) (fun k => kif (k =? a) (f k)) = f a.
Proof.
  revert s. induction n as [|n IH]; intros s H; [lia|]. simpl.
  destruct (Nat.eqb_spec s a) as [E|E].
  - subst. simpl. rewrite (ksum_ext _ _ (fun _ => zero)). rewrite ksum_zero; ring.
    intros k Hk. apply in_seq in Hk. destruct (Nat.eqb_spec k a); [lia|reflexivity].
  - simpl. rewrite IH by lia. ring.
Qed.
Lemma ksumn_single n a (f : nat -> o) : a < n -> ksumn n (fun k => kif (k =? a) (f k)) = f a.
Proof. intros. apply ksum_single_seq. lia. Qed.

Lemma ksumn_ext n (f g : nat -> o) : (forall k, k < n -> f k = g k) -> ksumn n f = ksumn n g.
Proof. intros H. apply ksum_ext. intros a Ha. apply in_seq in Ha. apply H. lia. Qed.

Lemma ksumn_add n (f g : nat -> o) : ksumn n (fun a => f a + g a) = ksumn n f + ksumn n g.
Proof. apply ksum_add. Qed.

Lemma kif_mul b (x y : o) : kif b x * y = kif b (x * y).
Proof. destruct b; simpl; ring. Qed.

(* a loop whose body adds, at every index, something that does not depend on the accumulator *)
Lemma fold_additive {A} (body : list o -> A -> list o) (F : A -> nat -> o) :
  (forall d a, length (body d a) = length d) ->
  (forall d a k, k < length d -> get (body d a) k = get d k + F a k) ->
  forall (xs : list A) d,
    length (fold_left body xs d) = length d /\
    forall k, k < length d -> get (fold_left body xs d) k = get d k + ksum xs (fun a => F a k).
Proof.
  intros Hl Hg. induction xs as [|a xs IH]; intros d; simpl.
  - split; [reflexivity | intros; ring].
  - destruct (IH (body d a)) as [L G]. split.
    + rewrite L. apply Hl.
    + intros k Hk. rewrite G by (rewrite Hl; assumption). rewrite Hg by assumption. ring.
Qed.

Lemma inplace_add_where_spec p x (l : list o) :
  length (inplace_add_where p x l) = length l /\
  forall k, k < length l -> get (inplace_add_where p x l) k = get l k + kif (p k) x.
Proof.
  unfold inplace_add_where. split; [apply length_tab|].
  intros k Hk. rewrite get_tab by assumption. destruct (p k); simpl; ring.
Qed.

(* elementwise operations *)
Lemma vadd_spec (x y : list o) : length (vadd x y) = length x /\
  forall k, k < length x -> get (vadd x y) k = get x k + get y k.
Proof. unfold vadd. split; [apply length_tab | intros; apply get_tab; assumption]. Qed.
Lemma vsub_spec (x y : list o) : length (vsub x y) = length x /\
  forall k, k < length x -> get (vsub x y) k = get x k - get y k.
Proof. unfold vsub. split; [apply length_tab | intros; apply get_tab; assumption]. Qed.
Lemma vmul_spec (x y : list o) : length (vmul x y) = length x /\
  forall k, k < length x -> get (vmul x y) k = get x k * get y k.
Proof. unfold vmul. split; [apply length_tab | intros; apply get_tab; assumption]. Qed.
Lemma vscale_spec a (x : list o) : length (vscale a x) = length x /\
  forall k, k < length x -> get (vscale a x) k = a * get x k.
Proof. unfold vscale. split; [apply length_tab | intros; apply get_tab; assumption]. Qed.

(* ---- single-site operators ------------------------------------------------------------------------ *)
(* entry (k,k') of  1 (x) ... (x) h (x) ... (x) 1  with the 2x2 matrix h on qubit n of an N-qubit register *)
Definition site (N n : nat) (h : M2 o) (k k' : nat) : o :=
  kif (same_except N n k k') (m2 h (bit N n k) (bit N n k')).

(* what the index-map code computes: two terms *)
Definition site_apply (N n : nat) (h : M2 o) (v : nat -> o) (k : nat) : o :=
  m2 h (bit N n k) 0 * v (setbit N n k 0) + m2 h (bit N n k) 1 * v (setbit N n k 1).

Lemma site_apply_dense N n h v k : n < N -> k < 2 ^ N ->
  ksumn (2 ^ N) (fun k' => site N n h k k' * v k') = site_apply N n h v k.
Proof.
  intros Hn Hk. unfold site_apply.
  rewrite (ksumn_ext _ _ (fun k' =>
      kif (k' =? setbit N n k 0) (m2 h (bit N n k) 0 * v k') +
      kif (k' =? setbit N n k 1) (m2 h (bit N n k) 1 * v k'))).
  - rewrite ksumn_add.
    rewrite (ksumn_single _ (setbit N n k 0) (fun k' => m2 h (bit N n k) 0 * v k')) by (apply setbit_lt; auto).
    rewrite (ksumn_single _ (setbit N n k 1) (fun k' => m2 h (bit N n k) 1 * v k')) by (apply setbit_lt; auto).
    reflexivity.
  - intros k' _. unfold site. rewrite kif_mul.
    destruct (same_except N n k k') eqn:E.
    + apply same_except_iff in E. pose proof (bit_lt N n k') as Hb.
      destruct (bit N n k') as [|[|b]] eqn:Eb; [| |lia].
      * rewrite <- E, Nat.eqb_refl. simpl.
        destruct (Nat.eqb_spec k' (setbit N n k 1)) as [E1|E1]; simpl; [|ring].
        exfalso. rewrite E1 in Eb. rewrite bit_setbit in Eb; lia.
      * rewrite <- E, Nat.eqb_refl. simpl.
        destruct (Nat.eqb_spec k' (setbit N n k 0)) as [E1|E1]; simpl; [|ring].
        exfalso. rewrite E1 in Eb. rewrite bit_setbit in Eb; lia.
    + destruct (Nat.eqb_spec k' (setbit N n k 0)) as [E0|E0].
      { rewrite E0, same_except_setbit in E by lia. discriminate. }
      destruct (Nat.eqb_spec k' (setbit N n k 1)) as [E1|E1].
      { rewrite E1, same_except_setbit in E by lia. discriminate. }
      simpl. ring.
Qed.

End Base.
