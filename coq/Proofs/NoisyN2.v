(* C18, two-site corner case of the quantum-jump stepping machine: one progress() call per "sweep"
   (a single pair evolution), same invariant as for N >= 3. *)
From Coq Require Import ZArith List Bool Lia Reals Lra.
From EV Require Import Base.Arith Gen.Brent Model.BrentLoop Model.MpsMachine Proofs.BrentProofs
  Proofs.MpsStep Proofs.MpsPhase Proofs.MpsSweep.
From EV Require Import Proofs.MpsSweepComplete Proofs.NoisyInv Proofs.NoisyBranches Proofs.NoisyComplete
  Proofs.NoisySweep Proofs.NoisyRun Proofs.MpsRunLoop.
Import ListNotations.
Open Scope Z_scope.

Ltac sp := cbn [m_kind m_N m_steps m_times m_sweep m_l2r m_tidx m_cur m_tgt m_nl m_nr m_oc m_thr m_gap m_rf
  m_prevE m_curE m_sweeps m_etol m_maxsw o_norm o_unif o_energy o_same m_ev
  emit set_sweep set_l2r set_tidx set_cur set_tgt set_nl set_nr set_oc set_thr set_gap set_rf set_prevE
  set_curE set_sweeps set_onorm set_ounif set_oenergy set_osame].

Definition start2 (s : ms) : Prop := pos R s 0 true 1 1 0.

Definition after_pair2 (s : ms) : ms :=
  set_oc (emit s (EvPair 0 1 (a_sub ar (m_tgt s) (m_cur s)) false)) 0.

Lemma noisy_progress_n2 (s : ms) :
  m_kind s = Noisy -> m_N s = 2 -> start2 s -> m_tidx s < m_steps s ->
  progress ar s = res_bind (sweep_complete ar (after_pair2 s)) (fun s => Ok (emit s (EvSave R))).
Proof.
  intros Hk HN (Hsw & Hl & Hnl & Hnr & Hoc) Hlt.
  unfold progress. rewrite Hk. unfold progress_tdvp, is_finished.
  rewrite HN, Hl, Hsw.
  replace (m_steps s <=? m_tidx s) with false by (symmetry; apply Z.leb_gt; lia).
  cbn [Z.ltb Z.leb Z.eqb Z.compare Pos.compare Pos.compare_cont negb andb].
  unfold evolve_pair. rewrite Hnl, Hnr, Hoc.
  cbn [Z.leb Z.compare Z.eqb Z.add Pos.add negb andb orb res_bind].
  reflexivity.
Qed.

(* one progress() call of the two-site noisy solver preserves the invariant *)
Theorem noisy_step_inv2 (s : ms) :
  wf s -> m_N s = 2 -> start2 s -> tinv s ->
  match progress ar s with
  | Ok s' => wf s' /\ m_N s' = 2 /\ m_steps s' = m_steps s /\ m_times s' = m_times s /\
             start2 s' /\ (is_finished s' = true \/ tinv s') /\ step_effect s s'
  | Err m => allowed_err m
  | OutOfFuel => False
  end.
Proof.
  intros Hwf HN HS Hti.
  pose proof Hwf as (Hk & HN2 & Hlen & Hsort). pose proof Hti as (Ht & Hcur & Hrf).
  rewrite (noisy_progress_n2 s Hk HN HS) by lia.
  destruct HS as (Hsw & Hl & Hnl & Hnr & Hoc).
  set (s2 := after_pair2 s).
  assert (B : m_kind s2 = m_kind s /\ m_N s2 = m_N s /\ m_steps s2 = m_steps s /\ m_times s2 = m_times s /\
              m_tidx s2 = m_tidx s /\ m_cur s2 = m_cur s /\ m_tgt s2 = m_tgt s /\ m_rf s2 = m_rf s /\
              m_sweep s2 = m_sweep s /\ m_oc s2 = 0 /\ m_nl s2 = m_nl s /\ m_nr s2 = m_nr s /\ m_l2r s2 = m_l2r s /\
              m_ev s2 = EvPair 0 1 (a_sub ar (m_tgt s) (m_cur s)) false :: m_ev s)
    by (unfold s2, after_pair2; sp; repeat split; reflexivity).
  destruct B as (Bk & BN & Bst & Bti & Btx & Bcur & Btg & Brf & Bsw & Boc & Bnl & Bnr & Bl & Bev).
  clearbody s2.
  assert (T2 : forall k, tm s2 k = tm s k) by (intros k; unfold tm; rewrite Bti; reflexivity).
  assert (Hwf2 : wf s2).
  { unfold wf. rewrite Bk, BN, Bti, Bst. repeat split; try assumption.
    intros k Hk'. rewrite !T2. apply Hsort. exact Hk'. }
  assert (Hc2 : cpos s2) by (unfold cpos; rewrite Bsw, Boc, Bnl, Bnr, Hsw, Hnl, Hnr, BN, HN; repeat split; lia).
  assert (Hti2 : tinv s2).
  { unfold tinv, rfinv. rewrite Btx, Bst, Bcur, Btg, Brf, !T2. exact Hti. }
  pose proof (noisy_sweep_complete_inv s2 Hwf2 Hc2 Hti2) as Hsc.
  unfold sweep_complete. rewrite Bk, Hk.
  destruct (sweep_complete_noisy ar s2) as [s3| m |]; cbn [res_bind]; [|exact Hsc|exact Hsc].
  destruct Hsc as (F3 & C3 & Fin3 & (new & Ev3 & Jn3 & Fl3)).
  destruct F3 as (Gk & GN & Gst & Gti & Gl & Gsw). destruct C3 as (Csw & Coc & Cnl & Cnr).
  sp. split.
  { unfold wf. sp. rewrite Gk, Bk, GN, BN, Gti, Bti, Gst, Bst. repeat split; try assumption.
    intros k Hk'. unfold tm. sp. rewrite Gti, Bti. apply Hsort. exact Hk'. }
  split; [rewrite GN, BN; exact HN|].
  split; [rewrite Gst, Bst; reflexivity|]. split; [rewrite Gti, Bti; reflexivity|].
  split.
  { unfold start2, pos. sp. rewrite Csw, Gl, Bl, Hl, Cnl, Cnr, Coc, GN, BN, HN. repeat split; reflexivity. }
  split.
  { destruct Fin3 as [Hf|Hi]; [left; unfold is_finished in *; sp; exact Hf|right].
    unfold tinv, rfinv in *. sp. unfold tm in *. sp. exact Hi. }
  unfold step_effect. sp.
  exists (EvSave R :: new ++ [EvPair 0 1 (a_sub ar (m_tgt s) (m_cur s)) false]).
  split.
  { rewrite Ev3, Bev. cbn [app]. rewrite <- app_assoc. reflexivity. }
  cbn [flat_map fill_of jump_of app]. rewrite !flat_map_app'. cbn [flat_map fill_of jump_of app]. rewrite !app_nil_r.
  rewrite Btx, !T2 in Jn3. rewrite Btx, !T2 in Fl3.
  split; [exact Jn3| exact Fl3].
Qed.

Definition RunInv2 (s : ms) : Prop :=
  wf s /\ m_N s = 2 /\ start2 s /\ 0 <= m_tidx s <= m_steps s /\
  (is_finished s = true \/ tinv s) /\ fills_ok s /\ jumps_ok s.

Lemma run_inv_step2 (s : ms) :
  RunInv2 s ->
  match progress ar s with
  | Ok s' => RunInv2 s'
  | Err m => allowed_err m
  | OutOfFuel => False
  end.
Proof.
  intros (Hwf & HN & HS & Htr & Hfin & Hfl & Hj).
  destruct Hfin as [Hf|Hti].
  { rewrite (finished_progress s (proj1 Hwf) Hf). unfold RunInv2.
    split; [exact Hwf|]. split; [exact HN|]. split; [exact HS|]. split; [exact Htr|].
    split; [left; exact Hf|]. split; assumption. }
  pose proof (noisy_step_inv2 s Hwf HN HS Hti) as H.
  destruct (progress ar s) as [s'| m |]; [|exact H|exact H].
  destruct H as (Hwf' & HN' & Hst & Htm & HS' & Hfin' & (new & Ev & Jn & Fl)).
  pose proof (tm_eq s s' Htm) as T.
  destruct Hti as (Ht & _ & _).
  unfold RunInv2. split; [exact Hwf'|]. split; [exact HN'|]. split; [exact HS'|].
  assert (Hlen1 : (length (flat_map fill_of new) <= 1)%nat) by (destruct Fl as [[_ ->]|[_ ->]]; cbn; lia).
  split; [destruct Fl as [[-> _]|[-> _]]; rewrite Hst; lia|].
  split; [exact Hfin'|]. split.
  - unfold fills_ok in *. rewrite Ev, rev_app_distr, flat_map_app', Hfl, (flat_map_rev_le1 _ _ Hlen1).
    destruct Fl as [[-> ->]|[-> ->]].
    + rewrite app_nil_r. unfold fills_upto. f_equal. apply map_ext. intros i. rewrite T. reflexivity.
    + replace (Z.to_nat (m_tidx s + 1)) with (Datatypes.S (Z.to_nat (m_tidx s))) by lia.
      unfold fills_upto. rewrite seq_S, map_app. cbn [map app Nat.add].
      rewrite Z2Nat.id by lia. f_equal. f_equal; [apply map_ext; intros i; rewrite T; reflexivity|].
      rewrite T. reflexivity.
  - unfold jumps_ok in *. rewrite Ev, rev_app_distr, flat_map_app'. apply Forall_app. split.
    + eapply Forall_impl; [|exact Hj]. intros t (k & Hk & Hb). exists k. rewrite Hst, !T. split; assumption.
    + apply Forall_flat_map_rev. eapply Forall_impl; [|exact Jn]. intros t Hb.
      exists (m_tidx s). rewrite Hst, !T. split; [lia| exact Hb].
Qed.

Theorem noisy_run_inv2 : forall (m : nat) (s : ms),
  RunInv2 s ->
  match iter_progress ar m s with
  | Ok s' => RunInv2 s'
  | Err e => allowed_err e
  | OutOfFuel => False
  end.
Proof.
  induction m as [|m IH]; intros s HR; [exact HR|].
  cbn [iter_progress].
  pose proof (run_inv_step2 s HR) as H1.
  destruct (progress ar s) as [s1| e |]; cbn [res_bind]; [|exact H1|exact H1].
  apply IH. exact H1.
Qed.

Corollary finished_run_fills2 (s : ms) :
  RunInv2 s -> is_finished s = true ->
  flat_map fill_of (rev (m_ev s)) = (0, 0%R) :: fills_upto s (Z.to_nat (m_steps s)) /\ jumps_ok s.
Proof.
  intros (Hwf & _ & _ & Htr & _ & Hfl & Hj) Hf. unfold is_finished in Hf. apply Z.leb_le in Hf.
  replace (m_steps s) with (m_tidx s) by lia. split; assumption.
Qed.

Lemma noisy_init2 (t1 : R) (rest : list R) etol maxsw onorm ounif oenergy osame :
  (forall k, 0 <= k < 1 + Z.of_nat (length rest) ->
             (tmL (0%R :: t1 :: rest) k < tmL (0%R :: t1 :: rest) (k + 1))%R) ->
  match mk_initial ar Noisy 2 (1 + Z.of_nat (length rest)) (0%R :: t1 :: rest) etol maxsw
                   onorm ounif oenergy osame with
  | Ok s0 => RunInv2 s0
  | Err e => e = E_ORACLE
  | OutOfFuel => False
  end.
Proof.
  intros Hs. unfold mk_initial. cbn [nthZ Z.ltb Z.compare Z.to_nat nth_error].
  unfold query_U, init_baths. sp. change (Z.max 1 (2 - 1)) with 1. change (1 =? 2 - 1) with true.
  cbn [negb res_bind]. unfold set_jump_threshold, take_unif, take_norm. sp.
  destruct ounif as [|u ru]; cbn [res_bind]; [reflexivity|]. sp.
  destruct onorm as [|nn rn]; cbn [res_bind]; [reflexivity|]. sp.
  match goal with |- match ?X with _ => _ end => set (s0 := X) end.
  assert (Q : exists st, s0 = Ok st /\ m_kind st = Noisy /\ m_N st = 2 /\
                m_steps st = 1 + Z.of_nat (length rest) /\ m_times st = 0%R :: t1 :: rest /\
                m_sweep st = 0 /\ m_l2r st = true /\ m_nl st = 1 /\ m_nr st = 1 /\ m_oc st = 0 /\
                m_tidx st = 0 /\ m_cur st = 0%R /\ m_tgt st = t1 /\ m_rf st = None /\
                m_ev st = [EvInitBaths R; EvUpdateH R 0 true; EvFill 0 0%R; EvUpdateH R 0 false; EvMakeH R;
                           EvQueryU (midpoint ar 0%R t1)]).
  { eexists. split; [reflexivity|]. sp. repeat split; reflexivity. }
  destruct Q as (st & -> & Qk & QN & Qst & Qti & Qsw & Ql & Qnl & Qnr & Qoc & Qtx & Qcur & Qtg & Qrf & Qev).
  assert (T : forall k, tm st k = tmL (0%R :: t1 :: rest) k) by (intros k; unfold tm, tmL; rewrite Qti; reflexivity).
  assert (H0 := Hs 0 ltac:(lia)). unfold tmL in H0. cbn in H0.
  unfold RunInv2. split.
  { unfold wf. rewrite Qk, QN, Qst, Qti. split; [reflexivity|]. split; [lia|]. split; [cbn [length]; lia|].
    intros k Hk. rewrite !T. apply (Hs k Hk). }
  split; [exact QN|].
  split; [unfold start2, pos; rewrite Qsw, Ql, Qnl, Qnr, Qoc; repeat split; reflexivity|].
  split; [rewrite Qtx, Qst; lia|].
  split.
  { right. unfold tinv, rfinv. rewrite Qtx, Qst, Qcur, Qrf, Qtg, !T. split; [lia|].
    unfold tmL. cbn. split; [lra| reflexivity]. }
  split.
  { unfold fills_ok. rewrite Qev, Qtx. reflexivity. }
  unfold jumps_ok. rewrite Qev. cbn. constructor.
Qed.

(* API level, two sites: whatever the oracle streams, after any number of progress() calls the invariant holds or
   the run stopped with one of the three explicit errors; and whenever the loop of MPSBackend._run returns, the
   state is finished and every time step was recorded exactly once, in order, at its end time. *)
Theorem noisy_whole_run2 (t1 : R) (rest : list R) etol maxsw onorm ounif oenergy osame (m : nat) :
  (forall k, 0 <= k < 1 + Z.of_nat (length rest) ->
             (tmL (0%R :: t1 :: rest) k < tmL (0%R :: t1 :: rest) (k + 1))%R) ->
  match mk_initial ar Noisy 2 (1 + Z.of_nat (length rest)) (0%R :: t1 :: rest) etol maxsw
                   onorm ounif oenergy osame with
  | Ok s0 =>
      match iter_progress ar m s0 with
      | Ok s' => RunInv2 s'
      | Err e => allowed_err e
      | OutOfFuel => False
      end
  | Err e => e = E_ORACLE
  | OutOfFuel => False
  end.
Proof.
  intros Hs. pose proof (noisy_init2 t1 rest etol maxsw onorm ounif oenergy osame Hs) as Hi.
  destruct (mk_initial ar Noisy _ _ _ _ _ _ _ _ _) as [s0| e |]; [|exact Hi|exact Hi].
  apply noisy_run_inv2. exact Hi.
Qed.

Theorem noisy_run_loop2 (t1 : R) (rest : list R) etol maxsw onorm ounif oenergy osame (fuel : nat) :
  (forall k, 0 <= k < 1 + Z.of_nat (length rest) ->
             (tmL (0%R :: t1 :: rest) k < tmL (0%R :: t1 :: rest) (k + 1))%R) ->
  forall s0 sf,
    mk_initial ar Noisy 2 (1 + Z.of_nat (length rest)) (0%R :: t1 :: rest) etol maxsw
               onorm ounif oenergy osame = Ok s0 ->
    run ar fuel s0 = Ok sf ->
    is_finished sf = true /\ RunInv2 sf /\
    flat_map fill_of (rev (m_ev sf)) = (0, 0%R) :: fills_upto sf (Z.to_nat (m_steps sf)) /\ jumps_ok sf.
Proof.
  intros Hs s0 sf H0 Hrun.
  pose proof (run_result_finished R ar fuel s0 sf Hrun) as Hf.
  pose proof (run_is_iter R ar fuel s0 sf Hrun) as Hi.
  pose proof (noisy_whole_run2 t1 rest etol maxsw onorm ounif oenergy osame fuel Hs) as HW.
  rewrite H0, Hi in HW.
  split; [exact Hf|]. split; [exact HW|]. apply (finished_run_fills2 sf HW Hf).
Qed.
