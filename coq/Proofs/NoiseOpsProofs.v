(* C24 — proofs about Model/NoiseOps.v.  Everything is proved for an arbitrary commutative ring with
   conjugation and imaginary unit ([CRing_ok]); Z[i] and the complex numbers R*R are instances. *)
From Coq Require Import String.
From Coq Require Import ZArith List Bool Arith Ring Lia Reals.
From EV Require Import Base.Arith Model.NoiseOps.
Import ListNotations.
Open Scope string_scope.
Open Scope nat_scope.

Record CRing_ok {A : Type} (K : CRing A) : Prop := MkOk {
  ok_ring : ring_theory (r0 K) (r1 K) (radd K) (rmul K) (fun x y => radd K x (ropp K y)) (ropp K) eq;
  ok_conj_add : forall x y, rconj K (radd K x y) = radd K (rconj K x) (rconj K y);
  ok_conj_mul : forall x y, rconj K (rmul K x y) = rmul K (rconj K x) (rconj K y);
  ok_conj_opp : forall x, rconj K (ropp K x) = ropp K (rconj K x);
  ok_conj_0 : rconj K (r0 K) = r0 K;
  ok_conj_1 : rconj K (r1 K) = r1 K;
  ok_conj_invol : forall x, rconj K (rconj K x) = x;
  ok_ii : rmul K (ri K) (ri K) = ropp K (r1 K);
  ok_conj_i : rconj K (ri K) = ropp K (ri K)
}.

(* ---- instances: the premises are satisfiable ------------------------------------------------ *)
Ltac pair_ring T :=
  intros; repeat match goal with x : T |- _ => destruct x end;
  cbn [r0 r1 radd rmul ropp rconj ri fst snd]; f_equal; ring.

Lemma zi_ok : CRing_ok zi_ring.
Proof.
  constructor; [constructor|..]; unfold zi_ring; pair_ring Zi.
Qed.

Definition C_ring : CRing (R * R) := {|
  r0 := (0, 0)%R; r1 := (1, 0)%R;
  radd := fun x y => (fst x + fst y, snd x + snd y)%R;
  rmul := fun x y => (fst x * fst y - snd x * snd y, fst x * snd y + snd x * fst y)%R;
  ropp := fun x => (- fst x, - snd x)%R;
  rconj := fun x => (fst x, - snd x)%R;
  ri := (0, 1)%R |}.

Lemma C_ok : CRing_ok C_ring.
Proof.
  constructor; [constructor|..]; unfold C_ring; pair_ring (R * R)%type.
Qed.

(* ---- shapes ------------------------------------------------------------------------------------ *)
Lemma has_shape_2 {A} (m : @mat A) : has_shape 2 m = true ->
  exists a b c d, m = [[a; b]; [c; d]].
Proof.
  unfold has_shape; intro H; apply andb_true_iff in H; destruct H as [Hl Hr].
  destruct m as [|r1 [|r2 [|r3 m]]]; try discriminate.
  simpl in Hr. repeat (apply andb_true_iff in Hr; destruct Hr as [? Hr]).
  destruct r1 as [|a [|b [|? ?]]]; try discriminate.
  destruct r2 as [|c [|d [|? ?]]]; try discriminate.
  now exists a, b, c, d.
Qed.

Lemma has_shape_3 {A} (m : @mat A) : has_shape 3 m = true ->
  exists a b c d e f g h i, m = [[a; b; c]; [d; e; f]; [g; h; i]].
Proof.
  unfold has_shape; intro H; apply andb_true_iff in H; destruct H as [Hl Hr].
  destruct m as [|r1 [|r2 [|r3 [|r4 m]]]]; try discriminate.
  simpl in Hr. repeat (apply andb_true_iff in Hr; destruct Hr as [? Hr]).
  destruct r1 as [|a [|b [|c [|? ?]]]]; try discriminate.
  destruct r2 as [|d [|e [|f [|? ?]]]]; try discriminate.
  destruct r3 as [|g [|h [|i [|? ?]]]]; try discriminate.
  now exists a, b, c, d, e, f, g, h, i.
Qed.

Section Proofs.
Variable A : Type.
Variable K : CRing A.
Hypothesis Hok : CRing_ok K.

Add Ring Aring : (ok_ring K Hok).

Notation "0" := (r0 K). Notation "1" := (r1 K).
Infix "+" := (radd K). Infix "*" := (rmul K). Notation "- x" := (ropp K x).

Ltac conj_norm :=
  repeat (rewrite ?(ok_conj_add K Hok), ?(ok_conj_mul K Hok), ?(ok_conj_opp K Hok), ?(ok_conj_0 K Hok),
            ?(ok_conj_1 K Hok), ?(ok_conj_invol K Hok), ?(ok_conj_i K Hok)).

Ltac norm := cbv - [r0 r1 radd rmul ropp rconj ri].
Ltac abs_entries :=
  repeat match goal with
  | |- context[@nth A ?j (@nth (list A) ?i ?M []) (r0 K)] =>
      let x := fresh "e" in generalize (@nth A j (@nth (list A) i M []) (r0 K)); intro x
  end.
Ltac shape_destruct H :=
  first [ apply has_shape_2 in H; destruct H as (?a & ?b & ?c & ?d & ->)
        | apply has_shape_3 in H; destruct H as (?a & ?b & ?c & ?d & ?e & ?f & ?g & ?h & ?i & ->) ].
Ltac mat_eq :=
  repeat match goal with
  | |- cons _ _ = cons _ _ => apply f_equal2
  | |- nil = nil => reflexivity
  | |- Ok _ = Ok _ => apply f_equal
  end; try ring.

(* ================= channel table ================= *)

Definition dim_ok (dim : nat) : Prop := dim = 2 \/ dim = 3.

(* relaxation: one operator, c at [0][1] = c |g><r| in emulator order (g, r[, x]); it is exactly the
   operator Pulser defines (c * sigma_gr) moved to the emulator's basis *)
Lemma relaxation_table : forall rb (nm : @noise_model A) dim, dim_ok dim ->
  str_in "relaxation" (nm_types nm) = true ->
  get_lindblad_operators K rb "relaxation" nm true dim = Ok [unit_mat K dim 0 1 (nm_c_relax nm)] /\
  [unit_mat K dim 0 1 (nm_c_relax nm)] =
    map (to_emu_basis K true dim) (pulser_ops K "relaxation" nm true dim) /\
  mget K (unit_mat K dim 0 1 (nm_c_relax nm)) (emu_index Lg) (emu_index Lr) = nm_c_relax nm.
Proof.
  intros rb nm dim [-> | ->] H; unfold get_lindblad_operators; rewrite H; simpl; repeat split.
Qed.

(* dephasing: c(|g><g| - |r><r|) in emulator order, c = sqrt(rate/2); Pulser defines 2c |r><r| (ising)
   resp. 2c |d><d| (XY): the emulator operator is  c*Id - (that operator in emulator order)  for dim 2 *)
Definition dephasing_emu (dim : nat) (c : A) : @mat A :=
  mbuild dim (fun a b => if Nat.eqb a b then (if Nat.eqb a 1 then - c else c) else 0).

Lemma dephasing_table : forall rb (nm : @noise_model A) ising dim, dim_ok dim ->
  str_in "dephasing" (nm_types nm) = true ->
  get_lindblad_operators K rb "dephasing" nm ising dim =
    if nm_hyperfine_nonzero nm then Err E_NOTIMPL else Ok [dephasing_emu dim (nm_c_deph nm)].
Proof.
  intros rb nm ising dim [-> | ->] H; unfold get_lindblad_operators; rewrite H; simpl;
    destruct (nm_hyperfine_nonzero nm); reflexivity.
Qed.

Definition pulser_deph (ising : bool) (dim : nat) (c : A) : list (@mat A) :=
  let s := if ising then 0%nat else 1%nat in [unit_mat K dim s s (two K * c)].

Lemma pulser_ops_deph : forall (nm : @noise_model A) ising dim,
  pulser_ops K "dephasing" nm ising dim = pulser_deph ising dim (nm_c_deph nm).
Proof. reflexivity. Qed.

Lemma dephasing_shift_c : forall c ising dim, dim_ok dim ->
  [dephasing_emu dim c] =
  map (fun P => msub K dim (mscale K dim c (mid K dim)) (to_emu_basis K ising dim P)) (pulser_deph ising dim c).
Proof.
  intros c [|] dim [-> | ->]; norm; mat_eq.
Qed.

Lemma dephasing_shift : forall (nm : @noise_model A) ising dim, dim_ok dim ->
  [dephasing_emu dim (nm_c_deph nm)] =
  map (fun P => msub K dim (mscale K dim (nm_c_deph nm) (mid K dim)) (to_emu_basis K ising dim P))
      (pulser_ops K "dephasing" nm ising dim).
Proof. intros; rewrite pulser_ops_deph; now apply dephasing_shift_c. Qed.

Lemma dephasing_same_dissipator_c : forall c ising dim rho, dim_ok dim ->
  rconj K c = c -> has_shape dim rho = true ->
  dissip2_sum K dim [dephasing_emu dim c] rho =
  dissip2_sum K dim (map (to_emu_basis K ising dim) (pulser_deph ising dim c)) rho.
Proof.
  intros c ising dim rho [-> | ->] Hc Hs; shape_destruct Hs;
  destruct ising; norm; conj_norm; rewrite ?Hc; mat_eq.
Qed.

(* same Lindblad dissipator (dims 2 and 3, every rho), c real *)
Lemma dephasing_same_dissipator : forall (nm : @noise_model A) ising dim rho, dim_ok dim ->
  rconj K (nm_c_deph nm) = nm_c_deph nm -> has_shape dim rho = true ->
  dissip2_sum K dim [dephasing_emu dim (nm_c_deph nm)] rho =
  dissip2_sum K dim (map (to_emu_basis K ising dim) (pulser_ops K "dephasing" nm ising dim)) rho.
Proof. intros; rewrite pulser_ops_deph; now apply dephasing_same_dissipator_c. Qed.

(* depolarizing: three operators c*{sx, sy, sz} on the first two levels *)
Definition depol_emu (dim : nat) (c : A) : list (@mat A) :=
  let ci := c * ri K in
  [mset K dim (mset K dim (zeros K dim) 0 1 c) 1 0 c;
   mset K dim (mset K dim (zeros K dim) 0 1 (- ci)) 1 0 ci;
   mset K dim (mset K dim (zeros K dim) 0 0 c) 1 1 (- c)].

Lemma depolarizing_table : forall rb (nm : @noise_model A) ising dim, dim_ok dim ->
  str_in "depolarizing" (nm_types nm) = true ->
  get_lindblad_operators K rb "depolarizing" nm ising dim = Ok (depol_emu dim (nm_c_depol nm)).
Proof.
  intros rb nm ising dim [-> | ->] H; unfold get_lindblad_operators; rewrite H; reflexivity.
Qed.

(* relation to Pulser's three operators: sx identical; sy, sz identical for XY and negated for ising *)
Definition sgn_op (dim : nat) (neg : bool) (m : @mat A) : @mat A := if neg then mopp K dim m else mscale K dim 1 m.

Lemma depolarizing_vs_pulser : forall (nm : @noise_model A) ising dim, dim_ok dim ->
  map (mscale K dim 1) (depol_emu dim (nm_c_depol nm)) =
  map (fun sP => sgn_op dim (fst sP) (to_emu_basis K ising dim (snd sP)))
      (combine [false; ising; ising] (pulser_ops K "depolarizing" nm ising dim)).
Proof.
  intros nm ising dim [-> | ->]; destruct ising; norm; mat_eq.
Qed.

(* a global sign of a jump operator is unobservable: D[-L] = D[L] (dims 2 and 3, every L and rho) *)
Lemma dissip2_opp : forall dim L rho, dim_ok dim -> has_shape dim L = true -> has_shape dim rho = true ->
  dissip2 K dim (mopp K dim L) rho = dissip2 K dim L rho.
Proof.
  intros dim L rho [-> | ->] HL Hr; shape_destruct HL; shape_destruct Hr; norm; conj_norm; mat_eq.
Qed.

Lemma dissip2_scale1 : forall dim L rho, dim_ok dim -> has_shape dim L = true -> has_shape dim rho = true ->
  dissip2 K dim (mscale K dim 1 L) rho = dissip2 K dim L rho.
Proof.
  intros dim L rho [-> | ->] HL Hr; shape_destruct HL; shape_destruct Hr; norm; conj_norm; mat_eq.
Qed.

Lemma depolarizing_same_dissipators : forall (nm : @noise_model A) ising dim rho, dim_ok dim ->
  has_shape dim rho = true ->
  map (fun L => dissip2 K dim L rho) (depol_emu dim (nm_c_depol nm)) =
  map (fun P => dissip2 K dim (to_emu_basis K ising dim P) rho) (pulser_ops K "depolarizing" nm ising dim).
Proof.
  intros nm ising dim rho Hd Hr.
  transitivity (map (fun L => dissip2 K dim L rho) (map (mscale K dim 1) (depol_emu dim (nm_c_depol nm)))).
  - unfold depol_emu; cbn [map]. rewrite !dissip2_scale1; auto; destruct Hd as [-> | ->]; reflexivity.
  - rewrite (depolarizing_vs_pulser nm ising dim Hd).
    unfold pulser_ops; cbn [String.eqb Ascii.eqb Bool.eqb combine map fst snd]. unfold sgn_op.
    destruct ising; rewrite ?dissip2_opp, ?dissip2_scale1; auto; destruct Hd as [-> | ->]; reflexivity.
Qed.

(* ================= effective noise: the basis change ================= *)

Definition eff_scaled (dim : nat) (nm : @noise_model A) : list (@mat A) :=
  map (fun co => mscale K dim (fst co) (snd co)) (combine (nm_eff_c nm) (nm_eff_ops nm)).

Lemma pulser_ops_eff : forall (nm : @noise_model A) ising dim,
  pulser_ops K "eff_noise" nm ising dim = eff_scaled dim nm.
Proof. reflexivity. Qed.

Lemma eff_noise_eval : forall rb (nm : @noise_model A) ising dim,
  str_in "eff_noise" (nm_types nm) = true ->
  get_lindblad_operators K rb "eff_noise" nm ising dim =
    if forallb (has_shape dim) (nm_eff_ops nm)
    then Ok (if ising then map (rebase_op K rb dim) (eff_scaled dim nm) else eff_scaled dim nm)
    else Err E_SHAPE.
Proof.
  intros; unfold get_lindblad_operators; rewrite H; simpl.
  destruct (forallb (has_shape dim) (nm_eff_ops nm)); reflexivity.
Qed.

(* the spec [to_emu_basis] really is "every entry keeps its meaning" *)
Lemma to_emu_basis_meaning : forall dim (m : @mat A) a b, dim_ok dim ->
  level_in_dim dim a = true -> level_in_dim dim b = true ->
  mget K (to_emu_basis K true dim m) (emu_index a) (emu_index b) = mget K m (pulser_index a) (pulser_index b).
Proof.
  intros dim m a b [-> | ->] Ha Hb; destruct a, b; try discriminate; reflexivity.
Qed.

Lemma rebase_dim2 : forall rb c (m : @mat A),
  rebase_op K rb 2 (mscale K 2 c m) = to_emu_basis K true 2 (mscale K 2 c m).
Proof. intros [|] c m; reflexivity. Qed.

Lemma rebase_permute_dim3 : forall c (m : @mat A),
  rebase_op K RebasePermute 3 (mscale K 3 c m) = to_emu_basis K true 3 (mscale K 3 c m).
Proof. intros c m; reflexivity. Qed.

(* all 2x2 operators, both variants of the source; all 3x3 operators for the permuting variant;
   XY: unchanged for every dim *)
Lemma eff_noise_basis_change : forall rb (nm : @noise_model A) ising dim,
  (ising = false \/ dim = 2 \/ (dim = 3 /\ rb = RebasePermute)) ->
  str_in "eff_noise" (nm_types nm) = true ->
  forallb (has_shape dim) (nm_eff_ops nm) = true ->
  get_lindblad_operators K rb "eff_noise" nm ising dim =
    Ok (map (to_emu_basis K ising dim) (pulser_ops K "eff_noise" nm ising dim)).
Proof.
  intros rb nm ising dim Hcase Hin Hsh. rewrite eff_noise_eval by assumption. rewrite Hsh.
  rewrite pulser_ops_eff. f_equal.
  destruct ising.
  - destruct Hcase as [Hf | [-> | [-> ->]]]; [discriminate | |];
      unfold eff_scaled; rewrite !map_map; apply map_ext; intros [c m]; simpl.
    + apply rebase_dim2.
    + apply rebase_permute_dim3.
  - unfold to_emu_basis. now rewrite map_id.
Qed.

(* entry-level reading: <a| L_k |b> (emulator order) = c_k * <a| A_k |b> (Pulser order) *)
Lemma eff_noise_entries : forall rb (nm : @noise_model A) dim ops,
  (dim = 2 \/ (dim = 3 /\ rb = RebasePermute)) ->
  str_in "eff_noise" (nm_types nm) = true ->
  forallb (has_shape dim) (nm_eff_ops nm) = true ->
  get_lindblad_operators K rb "eff_noise" nm true dim = Ok ops ->
  Forall2 (fun L co => forall a b, level_in_dim dim a = true -> level_in_dim dim b = true ->
             mget K L (emu_index a) (emu_index b) = fst co * mget K (snd co) (pulser_index a) (pulser_index b))
          ops (combine (nm_eff_c nm) (nm_eff_ops nm)).
Proof.
  intros rb nm dim ops Hcase Hin Hsh Hget.
  rewrite eff_noise_basis_change in Hget by (auto; destruct Hcase; auto).
  injection Hget as <-. rewrite pulser_ops_eff. unfold eff_scaled.
  assert (Hd : dim_ok dim) by (destruct Hcase as [-> | [-> _]]; [left | right]; reflexivity).
  induction (combine (nm_eff_c nm) (nm_eff_ops nm)) as [|[c m] l IH]; cbn [map]; constructor; auto.
  intros a b Ha Hb. cbn [fst snd]. rewrite to_emu_basis_meaning by assumption.
  destruct Hd as [-> | ->]; destruct a, b; try discriminate; reflexivity.
Qed.

(* ================= the filter ================= *)

Fixpoint seq_concat {T} (l : list (res (list T))) : res (list T) :=
  match l with
  | [] => Ok []
  | r :: rs => res_bind r (fun ops => res_bind (seq_concat rs) (fun rest => Ok (List.app ops rest)))
  end.

Lemma all_ops_is_filter : forall rb types (nm : @noise_model A) ising dim,
  all_ops_from K rb types nm ising dim =
  seq_concat (map (fun t => get_lindblad_operators K rb t nm ising dim)
                  (filter (fun t => negb (str_in t non_lindbladian)) types)).
Proof.
  induction types as [|t ts IH]; intros; [reflexivity|].
  change (all_ops_from K rb (t :: ts) nm ising dim) with
    (if str_in t non_lindbladian then all_ops_from K rb ts nm ising dim
     else res_bind (get_lindblad_operators K rb t nm ising dim) (fun ops =>
          res_bind (all_ops_from K rb ts nm ising dim) (fun rest => Ok (List.app ops rest)))).
  change (filter (fun t0 => negb (str_in t0 non_lindbladian)) (t :: ts)) with
    (if negb (str_in t non_lindbladian) then t :: filter (fun t0 => negb (str_in t0 non_lindbladian)) ts
     else filter (fun t0 => negb (str_in t0 non_lindbladian)) ts).
  destruct (str_in t non_lindbladian); cbn [negb map seq_concat]; rewrite IH; reflexivity.
Qed.

Definition lindbladian_kinds : list string :=
  ["relaxation"; "dephasing"; "depolarizing"; "eff_noise"; "leakage"].

Lemma unknown_raises : forall rb t (nm : @noise_model A) ising dim,
  str_in t lindbladian_kinds = false ->
  exists e, get_lindblad_operators K rb t nm ising dim = Err e.
Proof.
  intros rb t nm ising dim H. unfold get_lindblad_operators.
  destruct (negb (str_in t (nm_types nm))); [eexists; reflexivity|].
  unfold lindbladian_kinds, str_in in H; simpl in H.
  repeat (apply orb_false_iff in H; destruct H as [?E H]).
  rewrite E, E0, E1, E2, E3. eexists; reflexivity.
Qed.

Lemma leakage_no_operator : forall rb (nm : @noise_model A) ising dim,
  str_in "leakage" (nm_types nm) = true ->
  get_lindblad_operators K rb "leakage" nm ising dim = Ok [].
Proof. intros; unfold get_lindblad_operators; rewrite H; reflexivity. Qed.

Lemma skipped_iff_seven : forall t,
  str_in t non_lindbladian = true <->
  (t = "SPAM" \/ t = "doppler" \/ t = "amplitude" \/ t = "detuning" \/ t = "register" \/
   t = "dmm_sigma" \/ t = "dmm_crosstalk").
Proof.
  intro t; unfold str_in, non_lindbladian; simpl. rewrite !orb_true_iff, !String.eqb_eq.
  intuition congruence.
Qed.

(* a skipped kind never reaches get_lindblad_operators; a non-skipped kind is never dropped *)
Lemma skipped_contributes_nothing : forall rb t ts (nm : @noise_model A) ising dim,
  str_in t non_lindbladian = true ->
  all_ops_from K rb (t :: ts) nm ising dim = all_ops_from K rb ts nm ising dim.
Proof. intros; cbn [all_ops_from]; now rewrite H. Qed.

Lemma kept_contributes_in_order : forall rb t ts (nm : @noise_model A) ising dim ops rest,
  str_in t non_lindbladian = false ->
  get_lindblad_operators K rb t nm ising dim = Ok ops ->
  all_ops_from K rb ts nm ising dim = Ok rest ->
  all_ops_from K rb (t :: ts) nm ising dim = Ok (List.app ops rest).
Proof. intros; cbn [all_ops_from]; rewrite H, H0, H1; reflexivity. Qed.

Lemma kept_error_propagates : forall rb t ts (nm : @noise_model A) ising dim e,
  str_in t non_lindbladian = false ->
  get_lindblad_operators K rb t nm ising dim = Err e ->
  all_ops_from K rb (t :: ts) nm ising dim = Err e.
Proof. intros; cbn [all_ops_from]; rewrite H, H0; reflexivity. Qed.

End Proofs.

(* ================= refutations on the faithful (current-source) model, at Z[i] ================= *)

(* Pulser's |x><r| (entry [2][0] in Pulser order (r,g,x)), rate 1 *)
Definition witness_xr : @noise_model Zi :=
  mk_nm ["eff_noise"; "leakage"] (0,0)%Z (0,0)%Z false (0,0)%Z [(1,0)%Z]
        [ unit_mat zi_ring 3 2 0 (1,0)%Z ].

Lemma eff_noise_3x3_flip_block_wrong :
  str_in "eff_noise" (nm_types witness_xr) = true /\
  forallb (has_shape 3) (nm_eff_ops witness_xr) = true /\
  exists L,
    get_lindblad_operators zi_ring RebaseFlipBlock "eff_noise" witness_xr true 3 = Ok [L] /\
    (* the emulator operator is |x><g| ... *)
    mget zi_ring L (emu_index Lx) (emu_index Lg) = (1,0)%Z /\
    mget zi_ring L (emu_index Lx) (emu_index Lr) = (0,0)%Z /\
    (* ... although Pulser's operator is |x><r| *)
    mget zi_ring (hd [] (nm_eff_ops witness_xr)) (pulser_index Lx) (pulser_index Lr) = (1,0)%Z /\
    [L] <> map (to_emu_basis zi_ring true 3) (pulser_ops zi_ring "eff_noise" witness_xr true 3).
Proof.
  split; [reflexivity|]. split; [reflexivity|].
  eexists; split; [vm_compute; reflexivity|].
  repeat split; try reflexivity. vm_compute. discriminate.
Qed.

(* regression (fixed in /repo 6810dc4): the FORMER qutrit operator c(|g><g|-|r><r|) with 0 on x was not the
   process Pulser defines: the coherence <g|rho|x> was damped by it, untouched by Pulser's 2c|r><r|; the
   current operator (c on x) leaves it untouched as well *)
Definition witness_deph : @noise_model Zi :=
  mk_nm ["dephasing"; "eff_noise"; "leakage"] (0,0)%Z (1,0)%Z false (0,0)%Z [] [].

Lemma dephasing_qutrit_regression :
  let rho := unit_mat zi_ring 3 0 2 (1,0)%Z in
  let old_op := mset zi_ring 3 (mset zi_ring 3 (zeros zi_ring 3) 0 0 (1,0)%Z) 1 1 (-1,0)%Z in
  dissip2_sum zi_ring 3 (map (to_emu_basis zi_ring true 3) (pulser_ops zi_ring "dephasing" witness_deph true 3)) rho
    = zeros zi_ring 3 /\
  dissip2_sum zi_ring 3 [old_op] rho <> zeros zi_ring 3 /\
  (exists L, get_lindblad_operators zi_ring RebaseFlipBlock "dephasing" witness_deph true 3 = Ok [L] /\
             dissip2_sum zi_ring 3 [L] rho = zeros zi_ring 3).
Proof.
  cbv zeta. split; [vm_compute; reflexivity|]. split; [vm_compute; discriminate|].
  eexists; split; [vm_compute; reflexivity | vm_compute; reflexivity].
Qed.
