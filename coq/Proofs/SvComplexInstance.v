(* The laws [Klaws] are satisfiable: the complex numbers R x R (so every C06/C12 theorem holds over C). *)
From Coq Require Import Reals Lra.
From EV Require Import Model.SvBase Proofs.SvBaseProofs.
Open Scope R_scope.

Definition CK : Kops :=
  MkKops (R * R) (0, 0) (1, 0)
    (fun x y => (fst x + fst y, snd x + snd y))
    (fun x y => (fst x * fst y - snd x * snd y, fst x * snd y + snd x * fst y))
    (fun x y => (fst x - fst y, snd x - snd y))
    (fun x => (- fst x, - snd x))
    (fun x => (fst x, - snd x))
    (0, 1) (1 / 2, 0).

Lemma CK_laws : Klaws CK.
Proof.
  constructor; [constructor|..]; simpl; intros;
    repeat match goal with x : (R * R)%type |- _ => destruct x end; simpl; f_equal; lra || ring.
Qed.
