(* Proofs about Model/KrylovGS.v: control contract, best-residual pair, Lanczos relation, unit norm. *)
From Coq Require Import ZArith List Bool Arith Lia.
From EV Require Import Base.Arith Model.KrylovGS.
Import ListNotations.
Set Implicit Arguments.

Section GControlProofs.
Variable A : Type.
Variable ar : Arith A.
Variables inf numtol : A.
Variables beta resid rnorm : nat -> nat -> A.
Variable vnorm : nat -> A.
Variables norm_tol residual_tol : A.

Notation trig := (gtrigger ar beta resid norm_tol residual_tol).
Notation cloopM := (cloop ar numtol beta resid rnorm norm_tol residual_tol).
Notation cycleM := (cycle ar inf numtol beta resid rnorm vnorm norm_tol residual_tol).
Notation gouterM := (gouter ar inf numtol beta resid rnorm vnorm norm_tol residual_tol).

Definition quiet (r lo hi : nat) : Prop := forall i, lo <= i < hi -> trig r i = false.

(* outcome of the inner loop of one cycle *)
Definition cyc_spec (r j fuel : nat) (c : cyc A) : Prop :=
  (c_conv c = true /\ exists j0, j <= j0 < j + fuel /\ trig r j0 = true /\ quiet r j j0 /\
      c_iters c = S j0 /\ c_happy c = a_ltb ar (beta r j0) norm_tol)
  \/ (c_conv c = false /\ c_happy c = false /\ c_iters c = j + fuel /\ quiet r j (j + fuel)).

Lemma cloop_spec r : forall fuel j best bres c,
  cloopM r fuel j best bres = Ok c -> cyc_spec r j fuel c.
Proof.
  induction fuel as [|f IH]; intros j best bres c H; cbn [cloop] in H.
  - inversion H; subst. right. cbn. repeat split; try lia. intros i Hi; lia.
  - destruct (a_leb ar (rnorm r j) numtol); [discriminate|].
    destruct (a_ltb ar (beta r j) norm_tol) eqn:Hb.
    + inversion H; subst. left. cbn. split; [reflexivity|]. exists j.
      split; [lia|]. split; [unfold gtrigger; rewrite Hb; reflexivity|].
      split; [intros i Hi; lia|]. split; [reflexivity|symmetry; exact Hb].
    + destruct (a_ltb ar (resid r j) residual_tol) eqn:Hr.
      * inversion H; subst. left. cbn. split; [reflexivity|]. exists j.
        split; [lia|]. split; [unfold gtrigger; rewrite Hb, Hr; reflexivity|].
        split; [intros i Hi; lia|]. split; [reflexivity|symmetry; exact Hb].
      * apply IH in H.
        assert (Hj : trig r j = false) by (unfold gtrigger; rewrite Hb, Hr; reflexivity).
        destruct H as [(Hc & j0 & Hrange & Ht & Hq & Hit & Hh) | (Hc & Hh & Hit & Hq)].
        -- left. split; [exact Hc|]. exists j0. split; [lia|]. split; [exact Ht|].
           split; [|split; assumption].
           intros i Hi. destruct (Nat.eq_dec i j) as [->|Hne]; [exact Hj|]. apply Hq. lia.
        -- right. split; [exact Hc|]. split; [exact Hh|]. split; [lia|].
           intros i Hi. destruct (Nat.eq_dec i j) as [->|Hne]; [exact Hj|]. apply Hq. lia.
Qed.

Lemma cycle_spec r max_dim c : cycleM r max_dim = Ok c -> cyc_spec r 0 max_dim c.
Proof.
  unfold cycle. destruct (a_ltb ar (vnorm r) norm_tol); [discriminate|]. apply cloop_spec.
Qed.

Lemma cyc_spec_facts r m c : cyc_spec r 0 m c ->
  c_iters c <= m /\ (c_happy c = true -> c_conv c = true) /\
  (c_conv c = true <-> exists j, j < m /\ trig r j = true).
Proof.
  intros [(Hc & j0 & Hrange & Ht & Hq & Hit & Hh) | (Hc & Hh & Hit & Hq)].
  - split; [lia|]. split; [intros _; exact Hc|]. split; [intros _; exists j0; split; [lia|exact Ht]|intros _; exact Hc].
  - split; [lia|]. split; [intros Hf; congruence|]. split; [intros Hf; congruence|].
    intros (j & Hj & Ht). rewrite Hq in Ht by lia. discriminate.
Qed.

(* outer restart loop *)
Lemma gouter_spec max_dim : forall fuel r total cur g,
  0 < fuel -> gouterM max_dim fuel r total cur = Ok g ->
  exists c, cycleM (g_restart g) max_dim = Ok c /\
    r <= g_restart g < r + fuel /\
    g_converged g = c_conv c /\ g_happy g = c_happy c /\ g_best g = c_best c /\ g_bresid g = c_bresid c /\
    g_iters g <= total + (g_restart g - r + 1) * max_dim /\
    (forall r' j, r <= r' < g_restart g -> j < max_dim -> trig r' j = false) /\
    (c_conv c = false -> g_restart g = r + fuel - 1).
Proof.
  induction fuel as [|f IH]; intros r total cur g Hpos H; [lia|]. cbn [gouter] in H.
  destruct (cycleM r max_dim) as [c| |] eqn:Hc; cbn [res_bind] in H; try discriminate.
  pose proof (cycle_spec _ _ Hc) as Hspec. destruct (cyc_spec_facts Hspec) as (Hle & Hhc & Hiff).
  destruct (c_happy c || c_conv c) eqn:Hstop.
  - inversion H; subst g; clear H. cbn. exists c. split; [exact Hc|]. split; [lia|].
    repeat (split; [reflexivity|]). split; [nia|]. split; [intros; lia|].
    intros Hf. destruct (c_happy c) eqn:Hh; [rewrite Hhc in Hf by reflexivity; discriminate|].
    cbn in Hstop. congruence.
  - apply orb_false_iff in Hstop as [Hh Hcv].
    destruct f as [|f'].
    + cbn [gouter] in H. inversion H; subst g; clear H. cbn. exists c. split; [exact Hc|]. split; [lia|].
      repeat (split; [reflexivity|]). split; [nia|]. split; [intros; lia|]. intros _. lia.
    + apply IH in H; [|lia]. destruct H as (c' & Hc' & Hr & E1 & E2 & E3 & E4 & Hit & Hq & Hlast).
      exists c'. split; [exact Hc'|]. split; [lia|]. repeat (split; [assumption|]).
      split; [nia|]. split.
      * intros r' j Hr' Hj. destruct (Nat.eq_dec r' r) as [->|Hne].
        -- destruct (trig r j) eqn:Ht; [|reflexivity]. exfalso.
           assert (c_conv c = true) by (apply Hiff; exists j; split; assumption). congruence.
        -- apply Hq; [lia|assumption].
      * intros Hf. rewrite (Hlast Hf). lia.
Qed.

(* krylov_energy_minimization_impl with n_cycles = max_restarts + 1 >= 1 *)
Lemma gmin_impl_spec max_dim n_cycles g : 0 < n_cycles ->
  gmin_impl ar inf numtol beta resid rnorm vnorm norm_tol residual_tol max_dim n_cycles = Ok g ->
  g_iters g <= n_cycles * max_dim /\
  g_restart g < n_cycles /\
  (g_converged g = true <-> exists j, j < max_dim /\ trig (g_restart g) j = true) /\
  (forall r' j, r' < g_restart g -> j < max_dim -> trig r' j = false) /\
  (g_converged g = false -> g_restart g = n_cycles - 1) /\
  (g_happy g = true -> g_converged g = true).
Proof.
  intros Hpos H. unfold gmin_impl in H. apply gouter_spec in H; [|assumption].
  destruct H as (c & Hc & Hr & E1 & E2 & E3 & E4 & Hit & Hq & Hlast).
  pose proof (cycle_spec _ _ Hc) as Hspec. destruct (cyc_spec_facts Hspec) as (Hle & Hhc & Hiff).
  split; [nia|]. split; [lia|]. split; [rewrite E1; exact Hiff|].
  split; [intros r' j Hr' Hj; apply Hq; [lia|assumption]|].
  split; [rewrite E1; intros Hf; rewrite (Hlast Hf); lia|].
  rewrite E1, E2. exact Hhc.
Qed.

(* the wrapper raises iff the run did not converge *)
Lemma gmin_public_spec max_dim n_cycles g : 0 < n_cycles ->
  gmin_impl ar inf numtol beta resid rnorm vnorm norm_tol residual_tol max_dim n_cycles = Ok g ->
  (g_converged g = true ->
     gmin_public ar inf numtol beta resid rnorm vnorm norm_tol residual_tol max_dim n_cycles = Ok g) /\
  (g_converged g = false ->
     gmin_public ar inf numtol beta resid rnorm vnorm norm_tol residual_tol max_dim n_cycles = Err E_GS_RECURSION).
Proof.
  intros Hpos H. destruct (gmin_impl_spec _ Hpos H) as (_ & _ & _ & _ & _ & Hhc).
  unfold gmin_public. rewrite H. cbn [res_bind]. split; intros Hc; rewrite Hc; cbn.
  - reflexivity.
  - destruct (g_happy g); [rewrite Hhc in Hc by reflexivity; discriminate|reflexivity].
Qed.

End GControlProofs.

(* ---- which pair is returned: exact real arithmetic -------------------------------------- *)
From Coq Require Import Reals Lra.
Section BestPair.
Open Scope R_scope.
Variables inf numtol : R.
Variables beta resid rnorm : nat -> nat -> R.
Variable vnorm : nat -> R.
Variables norm_tol residual_tol : R.
Variable r : nat.
Hypothesis resid_lt_inf : forall j, resid r j < inf.

Notation cloopR := (cloop R_arith numtol beta resid rnorm norm_tol residual_tol).

(* (best, bres) is the first minimiser of resid over the iterations < j *)
Definition best_inv (j : nat) (best : option nat) (bres : R) : Prop :=
  match best with
  | None => j = 0%nat /\ bres = inf
  | Some b => (b < j)%nat /\ bres = resid r b /\ (forall i, (i < j)%nat -> bres <= resid r i) /\
              (forall i, (i < b)%nat -> bres < resid r i)
  end.

Lemma best_inv_step j best bres :
  best_inv j best bres ->
  best_inv (S j) (if a_ltb R_arith (resid r j) bres then Some j else best)
                 (if a_ltb R_arith (resid r j) bres then resid r j else bres).
Proof.
  intros Hinv. cbn [a_ltb R_arith]. destruct (Rltb (resid r j) bres) eqn:Hlt.
  - apply Rltb_true in Hlt. cbn. split; [lia|]. split; [reflexivity|]. split.
    + intros i Hi. destruct (Nat.eq_dec i j) as [->|Hne]; [lra|].
      destruct best as [b|]; cbn in Hinv.
      * destruct Hinv as (_ & _ & Hmin & _). specialize (Hmin i). assert (i < j)%nat by lia. apply Hmin in H. lra.
      * destruct Hinv as [-> _]. lia.
    + intros i Hi. destruct best as [b|]; cbn in Hinv.
      * destruct Hinv as (_ & _ & Hmin & _). specialize (Hmin i Hi). lra.
      * destruct Hinv as [-> _]. lia.
  - apply Rltb_false in Hlt. destruct best as [b|]; cbn in Hinv |- *.
    + destruct Hinv as (Hb & E & Hmin & Hfirst). split; [lia|]. split; [exact E|]. split; [|exact Hfirst].
      intros i Hi. destruct (Nat.eq_dec i j) as [->|Hne]; [lra|]. apply Hmin. lia.
    + destruct Hinv as [-> ->]. specialize (resid_lt_inf 0). lra.
Qed.

Lemma cloop_best : forall fuel j best bres c,
  cloopR r fuel j best bres = Ok c -> best_inv j best bres ->
  best_inv (c_iters c) (c_best c) (c_bresid c).
Proof.
  induction fuel as [|f IH]; intros j best bres c H Hinv; cbn [cloop] in H.
  - inversion H; subst. exact Hinv.
  - destruct (a_leb R_arith (rnorm r j) numtol); [discriminate|].
    pose proof (@best_inv_step _ _ _ Hinv) as Hstep.
    destruct (a_ltb R_arith (beta r j) norm_tol).
    + inversion H; subst. exact Hstep.
    + destruct (a_ltb R_arith (resid r j) residual_tol).
      * inversion H; subst. exact Hstep.
      * eapply IH; eassumption.
Qed.

(* a cycle that made at least one iteration returns the first minimiser of the residual estimate;
   if it converged without breakdown that is the last iteration and its estimate is below tolerance *)
Lemma cycle_best max_dim c :
  cycle R_arith inf numtol beta resid rnorm vnorm norm_tol residual_tol r max_dim = Ok c ->
  best_inv (c_iters c) (c_best c) (c_bresid c) /\
  (c_conv c = true -> c_happy c = false ->
     c_best c = Some (Nat.pred (c_iters c)) /\ c_bresid c = resid r (Nat.pred (c_iters c)) /\
     c_bresid c < residual_tol).
Proof.
  intros H. pose proof (cycle_spec _ _ _ _ _ _ _ _ _ _ _ H) as Hspec.
  unfold cycle in H. destruct (a_ltb R_arith (vnorm r) norm_tol); [discriminate|].
  assert (Hb : best_inv (c_iters c) (c_best c) (c_bresid c)).
  { eapply cloop_best; [exact H|]. cbn. split; reflexivity. }
  split; [exact Hb|]. intros Hc Hh.
  destruct Hspec as [(_ & j0 & Hrange & Ht & Hq & Hit & Hhap) | (Hc' & _)]; [|congruence].
  rewrite Hit in *. cbn [Nat.pred]. rewrite Hh in Hhap.
  unfold gtrigger in Ht. rewrite <- Hhap in Ht. cbn in Ht. apply Rltb_true in Ht.
  destruct (c_best c) as [b|]; cbn in Hb; [|destruct Hb; lia].
  destruct Hb as (Hbj & E & Hmin & Hfirst).
  assert (b = j0).
  { destruct (Nat.eq_dec b j0); [assumption|]. exfalso.
    assert (Hlt : (b < j0)%nat) by lia.
    assert (Hqb : gtrigger R_arith beta resid norm_tol residual_tol r b = false) by (apply Hq; lia).
    unfold gtrigger in Hqb. apply orb_false_iff in Hqb as [_ Hqb]. cbn in Hqb. apply Rltb_false in Hqb.
    specialize (Hmin j0). assert (j0 < S j0)%nat by lia. apply Hmin in H0. lra. }
  subst b. split; [reflexivity|]. split; [exact E|]. lra.
Qed.

End BestPair.

(* ---- Lanczos relation by construction, unit norm ----------------------------------------- *)
Section LanczosProofs.
Variable A : Type.
Variables K V : Type.
Variable ofreal : A -> K.
Variable toreal : K -> A.
Variables vadd vsub : V -> V -> V.
Variable vscale : K -> V -> V.
Variable vdiv : V -> A -> V.
Variable Aop : V -> V.
Variable vdot : V -> V -> K.
Variable nrm : V -> A.
Variable runit : A -> Prop.

Hypothesis vsub_add : forall u v, vadd (vsub u v) v = u.
Hypothesis vdiv_cancel : forall w c, runit c -> vscale (ofreal c) (vdiv w c) = w.

Notation nextM := (next_lanczos ofreal toreal vsub vscale Aop vdot nrm).

(* one call of _next_lanczos_iteration on vs = [q_0 .. q_i] with betas = [b_0 .. b_{i-1}]:
   op(q_i) = (w + b_{i-1} q_{i-1}) + alpha_i q_i,  and with q_{i+1} = w / beta_i:  w = beta_i q_{i+1} *)
Lemma next_lanczos_relation vs betas w a b :
  nextM vs betas = Ok (w, a, b) ->
  exists qi, nth_error vs (Nat.pred (length vs)) = Some qi /\ b = nrm w /\
    match Nat.pred (length vs) with
    | O => Aop qi = vadd w (vscale (ofreal a) qi)
    | S i' => exists qp bp, nth_error vs i' = Some qp /\ nth_error betas i' = Some bp /\
              Aop qi = vadd (vadd w (vscale (ofreal bp) qp)) (vscale (ofreal a) qi)
    end /\
    (runit b -> vscale (ofreal b) (vdiv w b) = w).
Proof.
  unfold next_lanczos. intros H.
  destruct (nth_error vs (Nat.pred (length vs))) as [qi|] eqn:Eq; [|discriminate].
  exists qi. split; [reflexivity|].
  destruct (Nat.pred (length vs)) as [|i'] eqn:Ei.
  - inversion H; subst. split; [reflexivity|]. split; [symmetry; apply vsub_add|apply vdiv_cancel].
  - destruct (nth_error vs i') as [qp|] eqn:Ep; [|discriminate].
    destruct (nth_error betas i') as [bp|] eqn:Eb; [|discriminate].
    inversion H; subst. split; [reflexivity|]. split; [|apply vdiv_cancel].
    exists qp, bp. split; [reflexivity|]. split; [reflexivity|].
    rewrite vsub_add. symmetry. apply vsub_add.
Qed.

(* _ritz_vector / q_0: whatever is returned is x / |x|, so it has norm 1 under the stated premise *)
Lemma normalize_unit (x : V) (one : A) :
  (forall y, runit (nrm y) -> nrm (vdiv y (nrm y)) = one) ->
  runit (nrm x) -> nrm (normalize vdiv nrm x) = one.
Proof. intros H Hx. unfold normalize. apply H. exact Hx. Qed.

End LanczosProofs.
