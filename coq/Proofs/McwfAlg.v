(* C17: generic algebra of the Monte-Carlo wave-function method over ANY commutative ring with involution
   (Klaws), every dimension D, matrices nat -> nat -> K used on [0,D)^2, vectors nat -> K.
   H_eff = H - (i/2) sum_J J^dagger J;  first-order no-jump step phi = (1 - i H_eff dt) psi;
   the average of |phi><phi| and the jump branches dt * J|psi><psi|J^dagger reproduces one Euler step of the
   Lindblad equation up to an explicit dt^2 term. *)
From Coq Require Import List Arith Bool Lia Ring.
From EV Require Import Model.SvBase Model.SvHam Proofs.SvBaseProofs Proofs.SvHamProofs Proofs.SvLindProofs Proofs.LindbladAlg.
Import ListNotations.

Section Mcwf.
Variable o : Kops.
Hypothesis laws : Klaws o.
Add Ring KrMC : (K_ring o laws).
Open Scope K_scope.
Notation zero := (k0 o).
Notation one := (k1 o).
Notation cj := (kconj o).
Notation Mat := (nat -> nat -> o).
Notation Vec := (nat -> o).

Definition mv (D : nat) (A : Mat) (v : Vec) : Vec := fun r => ksumn D (fun k => A r k * v k).
Definition ip (D : nat) (u v : Vec) : o := ksumn D (fun k => cj (u k) * v k).          (* <u|v> *)
Definition outer (u v : Vec) : Mat := fun r c => u r * cj (v c).                        (* |u><v| *)
(* lindblad_noise summed over all jump operators: -(i/2) sum_J J^dagger J *)
Definition noise_mat (D : nat) (Js : list Mat) : Mat := fun r c => - (khalf o * kI o) * JdJ o D Js r c.
Definition heff (D : nat) (H : Mat) (Js : list Mat) : Mat := fun r c => H r c + noise_mat D Js r c.
(* first-order no-jump propagation (1 - i H_eff dt) psi *)
Definition nojump (D : nat) (H : Mat) (Js : list Mat) (dt : o) (psi : Vec) : Vec :=
  fun r => psi r - kI o * dt * mv D (heff D H Js) psi r.

(* ---- T1: anti-Hermitian part of H_eff ------------------------------------------------------------------ *)
Lemma JdJ_hermitian D Js r c : cj (JdJ o D Js c r) = JdJ o D Js r c.
Proof.
  unfold JdJ, mmul, dag, ksumn. rewrite (ksum_conj o laws).
  apply (ksum_ext o). intros J _. rewrite (ksum_conj o laws).
  apply (ksum_ext o). intros k _. rewrite (conj_mul o laws), (conj_inv o laws). ring.
Qed.

Theorem heff_antihermitian_part D H Js : herm_on o D H ->
  forall r c, r < D -> c < D ->
    heff D H Js r c - dag o (heff D H Js) r c = - (kI o * JdJ o D Js r c).
Proof.
  intros Hh r c Hr Hc. unfold heff, dag, noise_mat.
  rewrite (conj_add o laws), (conj_mul o laws), (conj_opp o laws), (conj_mul o laws),
          (conj_half o laws), (conj_I o laws), JdJ_hermitian.
  rewrite <- (Hh r c Hr Hc).
  set (X := JdJ o D Js r c). set (h := H r c).
  transitivity (- ((khalf o + khalf o) * kI o * X)); [ring|].
  rewrite (half_half o laws). ring.
Qed.

(* ---- T2: jump weights ------------------------------------------------------------------------------------ *)
Lemma mv_mmul D (A B : Mat) (v : Vec) r : mv D (mmul o D A B) v r = mv D A (mv D B v) r.
Proof. exact (mmul_assoc o laws D A B (fun k _ => v k) r 0). Qed.

Lemma ip_ext_r D (u v w : Vec) : (forall k, k < D -> v k = w k) -> ip D u v = ip D u w.
Proof. intros H. unfold ip. apply (ksumn_ext o). intros k Hk. rewrite H by assumption. reflexivity. Qed.

(* <u | A^dagger v> = <A u | v> *)
Lemma ip_adj D (A : Mat) (u v : Vec) : ip D u (mv D (dag o A) v) = ip D (mv D A u) v.
Proof.
  unfold ip, mv, dag, ksumn.
  rewrite (ksum_ext o (seq 0 D) (fun k => cj (u k) * ksum (seq 0 D) (fun k0 => cj (A k0 k) * v k0))
             (fun k => ksum (seq 0 D) (fun k0 => cj (u k) * cj (A k0 k) * v k0))).
  2:{ intros k _. rewrite <- (ksum_mul_l o laws). apply (ksum_ext o). intros j _. ring. }
  rewrite (ksum_swap o laws). apply (ksum_ext o). intros j _.
  rewrite (ksum_conj o laws), <- (ksum_mul_r o laws). apply (ksum_ext o). intros k _.
  rewrite (conj_mul o laws). ring.
Qed.

Theorem jump_weight_is_norm D (J : Mat) (psi : Vec) :
  ip D psi (mv D (mmul o D (dag o J) J) psi) = ip D (mv D J psi) (mv D J psi).
Proof.
  rewrite (ip_ext_r D psi _ (mv D (dag o J) (mv D J psi))).
  - apply ip_adj.
  - intros k _. apply mv_mmul.
Qed.

Lemma mv_ksum {A} D (l : list A) (F : A -> Mat) (v : Vec) r :
  mv D (fun r' c' => ksum l (fun a => F a r' c')) v r = ksum l (fun a => mv D (F a) v r).
Proof. exact (mmul_ksum_l o laws D l F (fun k _ => v k) r 0). Qed.

Lemma ip_ksum_r {A} D (l : list A) (u : Vec) (G : A -> Vec) :
  ip D u (fun r => ksum l (fun a => G a r)) = ksum l (fun a => ip D u (G a)).
Proof.
  unfold ip, ksumn.
  rewrite (ksum_ext o (seq 0 D) (fun k => cj (u k) * ksum l (fun a => G a k))
             (fun k => ksum l (fun a => cj (u k) * G a k))).
  2:{ intros k _. rewrite (ksum_mul_l o laws). reflexivity. }
  apply (ksum_swap o laws).
Qed.

Theorem jump_weights_sum D (Js : list Mat) (psi : Vec) :
  ip D psi (mv D (JdJ o D Js) psi) = ksum Js (fun J => ip D (mv D J psi) (mv D J psi)).
Proof.
  rewrite (ip_ext_r D psi _ (fun r => ksum Js (fun J => mv D (mmul o D (dag o J) J) psi r))).
  2:{ intros k _. unfold JdJ. apply (mv_ksum D Js (fun J => mmul o D (dag o J) J)). }
  rewrite ip_ksum_r. apply (ksum_ext o). intros J _. apply jump_weight_is_norm.
Qed.

(* ---- products with rank-one matrices ------------------------------------------------------------------ *)
Lemma mmul_outer_r D (A : Mat) (u v : Vec) r c : mmul o D A (outer u v) r c = mv D A u r * cj (v c).
Proof.
  unfold mmul, outer, mv, ksumn. rewrite <- (ksum_mul_r o laws). apply (ksum_ext o). intros k _. ring.
Qed.

Lemma mmul_outer_l_dag D (A : Mat) (u v : Vec) r c :
  mmul o D (outer u v) (dag o A) r c = u r * cj (mv D A v c).
Proof.
  unfold mmul, outer, mv, dag, ksumn. rewrite (ksum_conj o laws), <- (ksum_mul_l o laws).
  apply (ksum_ext o). intros k _. rewrite (conj_mul o laws). ring.
Qed.

Lemma sandwich_outer D (A B : Mat) (u v : Vec) r c :
  mmul o D (mmul o D A (outer u v)) (dag o B) r c = mv D A u r * cj (mv D B v c).
Proof.
  transitivity (mmul o D (outer (mv D A u) v) (dag o B) r c).
  - unfold mmul at 1 3. apply (ksumn_ext o). intros k _. rewrite mmul_outer_r. reflexivity.
  - apply mmul_outer_l_dag.
Qed.

(* ---- T4: one MCWF step averaged over the branches = Euler step of the Lindblad equation + O(dt^2) ----- *)
Theorem mcwf_first_order D (H : Mat) (Js : list Mat) (dt : o) (psi : Vec) : cj dt = dt ->
  let rho := outer psi psi in
  let phi := nojump D H Js dt psi in
  let Heff := heff D H Js in
  forall r c,
    outer phi phi r c + dt * ksum Js (fun J => outer (mv D J psi) (mv D J psi) r c) =
    rho r c + dt * lindL o D Heff Js rho r c + dt * dt * mmul o D (mmul o D Heff rho) (dag o Heff) r c.
Proof.
  intros Hdt rho phi Heff r c. unfold lindL, lindG, jump_sum, rho.
  rewrite mmul_outer_r, mmul_outer_l_dag, sandwich_outer.
  rewrite (ksum_ext o Js (fun J => mmul o D (mmul o D J (outer psi psi)) (dag o J) r c)
             (fun J => outer (mv D J psi) (mv D J psi) r c)).
  2:{ intros J _. apply sandwich_outer. }
  set (s := ksum Js (fun J => outer (mv D J psi) (mv D J psi) r c)).
  unfold outer, phi, nojump. fold Heff.
  rewrite (conj_sub o laws), !(conj_mul o laws), (conj_I o laws), Hdt.
  set (a := psi r). set (ac := cj (psi c)). set (b := mv D Heff psi r). set (bc := cj (mv D Heff psi c)).
  transitivity (a * ac + dt * (- kI o * (b * ac - a * bc + kI o * s)) + dt * dt * (b * bc)
                + (kI o * kI o + one) * (dt * s - dt * dt * (b * bc))); [ring|].
  rewrite (I_sq o laws). ring.
Qed.

(* ---- T5: the first-order term is trace free --------------------------------------------------------- *)
Theorem mcwf_first_order_trace D (H : Mat) (Js : list Mat) (rho : Mat) : herm_on o D H ->
  tr o D (lindL o D (heff D H Js) Js rho) = zero.
Proof.
  intros Hh. apply (lindblad_generator_trace_free o laws). apply heff_antihermitian_part. exact Hh.
Qed.

(* ---- T6: trace of the averaged state ---------------------------------------------------------------- *)
Lemma tr_outer D (u v : Vec) : tr o D (outer u v) = ip D v u.
Proof. unfold tr, outer, ip. apply (ksumn_ext o). intros k _. ring. Qed.

Lemma tr_average {A} D (l : list A) (dt : o) (u : Vec) (w : A -> Vec) :
  tr o D (fun r c => outer u u r c + dt * ksum l (fun a => outer (w a) (w a) r c)) =
  ip D u u + dt * ksum l (fun a => ip D (w a) (w a)).
Proof.
  unfold tr, ksumn. rewrite (ksum_add o laws), (ksum_mul_l o laws), (ksum_swap o laws).
  f_equal; [apply tr_outer|]. f_equal. apply (ksum_ext o). intros a _. apply tr_outer.
Qed.

Theorem mcwf_average_trace D (H : Mat) (Js : list Mat) (dt : o) (psi : Vec) :
  herm_on o D H -> cj dt = dt ->
  let phi := nojump D H Js dt psi in
  let Heff := heff D H Js in
  tr o D (fun r c => outer phi phi r c + dt * ksum Js (fun J => outer (mv D J psi) (mv D J psi) r c)) =
  ip D psi psi + dt * dt * ip D (mv D Heff psi) (mv D Heff psi).
Proof.
  intros Hh Hdt phi Heff.
  pose proof (mcwf_first_order D H Js dt psi Hdt) as E. cbv zeta in E. fold phi Heff in E.
  unfold tr at 1.
  rewrite (ksumn_ext o D _ (fun k => outer psi psi k k + dt * lindL o D Heff Js (outer psi psi) k k
                                   + dt * dt * outer (mv D Heff psi) (mv D Heff psi) k k)).
  2:{ intros k _. rewrite E. rewrite sandwich_outer. reflexivity. }
  unfold ksumn. rewrite !(ksum_add o laws), !(ksum_mul_l o laws).
  change (ksum (seq 0 D) (fun a => outer psi psi a a)) with (tr o D (outer psi psi)).
  change (ksum (seq 0 D) (fun a => lindL o D Heff Js (outer psi psi) a a))
    with (tr o D (lindL o D Heff Js (outer psi psi))).
  change (ksum (seq 0 D) (fun a => outer (mv D Heff psi) (mv D Heff psi) a a))
    with (tr o D (outer (mv D Heff psi) (mv D Heff psi))).
  unfold Heff. rewrite (mcwf_first_order_trace D H Js (outer psi psi) Hh), !tr_outer. ring.
Qed.

(* ---- T3: decay of the norm of the no-jump branch ------------------------------------------------------- *)
Theorem norm_decay_first_order D (H : Mat) (Js : list Mat) (dt : o) (psi : Vec) :
  herm_on o D H -> cj dt = dt ->
  ip D (nojump D H Js dt psi) (nojump D H Js dt psi) =
  ip D psi psi - dt * ip D psi (mv D (JdJ o D Js) psi)
  + dt * dt * ip D (mv D (heff D H Js) psi) (mv D (heff D H Js) psi).
Proof.
  intros Hh Hdt.
  pose proof (mcwf_average_trace D H Js dt psi Hh Hdt) as E. cbv zeta in E.
  rewrite (tr_average D Js dt (nojump D H Js dt psi) (fun J => mv D J psi)) in E.
  rewrite jump_weights_sum.
  set (S := ksum Js (fun J => ip D (mv D J psi) (mv D J psi))) in *.
  set (n := ip D (nojump D H Js dt psi) (nojump D H Js dt psi)) in *.
  transitivity ((n + dt * S) - dt * S); [ring|]. rewrite E. ring.
Qed.

End Mcwf.
