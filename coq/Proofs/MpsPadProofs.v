(* Proofs about Model/MpsPad.v (C13): amplitudes / elements of the dark-atom-padded chain, for every mask
   (leading, trailing, adjacent dark atoms included: induction over the mask), and the extended site index. *)
From Coq Require Import List Arith Lia Ring Bool ZArith.
From EV Require Import Model.TransferMat Model.MPSAlg Model.MpsPad Proofs.TransferMat Proofs.MPSAlg.
Import ListNotations.

(* every dark site carries an index inside the padded physical dimension *)
Fixpoint dark_inrange (p : nat) (mask : list bool) (b : list nat) : bool :=
  match mask, b with
  | true :: m, _ :: b' => dark_inrange p m b'
  | false :: m, s :: b' => (s <? p) && dark_inrange p m b'
  | _, _ => true
  end.

Section PadProofs.
Variable K : Type.
Variable Ko : RingOps K.
Hypothesis Kring : ring_theory (k0 Ko) (k1 Ko) (kadd Ko) (kmul Ko) (ksub Ko) (kopp Ko) (@eq K).
Add Ring KRing13 : Kring.
Local Notation "'zero'" := (k0 Ko).
Local Notation "'one'" := (k1 Ko).
Local Infix "[+]" := (kadd Ko) (at level 50, left associativity).
Local Infix "[*]" := (kmul Ko) (at level 40, left associativity).
Local Notation dotf := (dotf Ko).
Local Notation vscale := (vscale Ko).
Local Notation vstep := (vstep Ko).
Local Notation ampv := (ampv Ko).
Local Notation amp := (amp Ko).
Local Notation T3 := (T3 K).

Definition zvec (n : nat) : list K := repeat zero n.

Lemma all_zero_eq (l : list K) : (forall x, In x l -> x = zero) -> l = zvec (length l).
Proof.
  induction l as [|a l IH]; intros H; [reflexivity|]. simpl. unfold zvec in *. simpl.
  rewrite (H a (or_introl eq_refl)). f_equal. apply IH. intros x Hx. apply H. right; assumption.
Qed.

Lemma vscale_zero v : vscale zero v = zvec (length v).
Proof.
  rewrite <- (length_vscale K Ko zero v). apply all_zero_eq. intros x Hx.
  unfold TransferMat.vscale in Hx. apply in_map_iff in Hx. destruct Hx as (y & <- & _). ring.
Qed.

(* sum_l v[l] * delta(l, r) = v[r] *)
Lemma dotf_delta v : forall r, r < length v ->
  dotf v (fun l => if l =? r then one else zero) = nth r v zero.
Proof.
  induction v as [|a v IH]; intros r Hr; [simpl in Hr; lia|]. simpl.
  destruct r as [|r].
  - simpl. rewrite (dotf_zero K Ko Kring) by (intros; reflexivity). ring.
  - simpl. rewrite IH by (simpl in Hr; lia). ring.
Qed.

Lemma map_nth_seq (v : list K) : map (fun r => nth r v zero) (seq 0 (length v)) = v.
Proof.
  apply (nth_ext _ _ zero zero).
  - rewrite map_length, seq_length. reflexivity.
  - intros n Hn. rewrite map_length, seq_length in Hn.
    rewrite (nth_indep _ zero (nth 0 v zero)) by (rewrite map_length, seq_length; assumption).
    rewrite (map_nth (fun r => nth r v zero)), seq_nth by assumption. reflexivity.
Qed.

Lemma vstep_pad_keep v bd p keep s : length v = bd -> keep s = true ->
  vstep v (pad_factor Ko bd p bd keep) s = v.
Proof.
  intros Hl Hk. unfold TransferMat.vstep, pad_factor. simpl. rewrite Hk. simpl. subst bd.
  transitivity (map (fun r => nth r v zero) (seq 0 (length v))); [|apply map_nth_seq]. apply map_ext_in. intros r Hr. apply in_seq in Hr.
  apply dotf_delta. lia.
Qed.

Lemma vstep_pad_drop v bd p keep s : keep s = false ->
  vstep v (pad_factor Ko bd p bd keep) s = zvec bd.
Proof.
  intros Hk. unfold TransferMat.vstep, pad_factor. simpl. rewrite Hk. simpl.
  set (l := map _ _). replace bd with (length l) by (unfold l; rewrite map_length, seq_length; reflexivity).
  apply all_zero_eq. intros x Hx. unfold l in Hx. apply in_map_iff in Hx. destruct Hx as (r & <- & _).
  apply (dotf_zero K Ko Kring). intros; reflexivity.
Qed.

(* a defined amplitude stays defined, with value 0, when the boundary vector is replaced by zeros *)
Lemma ampv_zvec v Ts b x : ampv v Ts b = Some x -> ampv (zvec (length v)) Ts b = Some zero.
Proof.
  intros H. rewrite <- vscale_zero. rewrite (ampv_vscale K Ko Kring), H. simpl. f_equal. ring.
Qed.

Lemma length_zvec n : length (zvec n) = n.
Proof. apply repeat_length. Qed.

(* ---- the padded chain: amplitude of an index string ---------------------------------------------------- *)
Theorem pad_ampv p keep : forall mask fs bd v b Ts x,
  pad_go Ko p keep bd fs mask = Some Ts ->
  length v = bd ->
  length b = length mask ->
  dark_inrange p mask b = true ->
  ampv v fs (restrict mask b) = Some x ->
  ampv v Ts b = Some (if dark_ok keep mask b then x else zero).
Proof.
  induction mask as [|g m IH]; intros fs bd v b Ts x Hp Hv Hb Hr Ha.
  - destruct b; [|discriminate]. simpl in Hp. injection Hp as <-. simpl in Ha |- *.
    destruct fs; [exact Ha | discriminate].
  - destruct b as [|s b']; [discriminate|]. simpl in Hb. injection Hb as Hb.
    destruct g.
    + (* a well-prepared site: the real factor is copied *)
      simpl in Hp. destruct fs as [|f fs']; [discriminate|].
      destruct (pad_go Ko p keep (dr f) fs' m) as [Ts'|] eqn:Hp'; [|discriminate].
      simpl in Hp. injection Hp as <-. simpl in Ha, Hr |- *.
      destruct ((length v =? dl f) && (s <? dp f)); [|discriminate].
      apply (IH fs' (dr f)); auto. apply (length_vstep K Ko).
    + (* a dark site *)
      simpl in Hr. apply andb_true_iff in Hr. destruct Hr as [Hs Hr]. simpl in Ha.
      assert (Hp2 : exists Ts', Ts = pad_factor Ko bd p bd keep :: Ts' /\ pad_go Ko p keep bd fs m = Some Ts').
      { simpl in Hp. destruct fs as [|f0 fs0].
        - destruct (ampv_nil_inv K Ko _ _ _ Ha) as (_ & ->). simpl in Hv. subst bd.
          destruct (pad_go Ko p keep 1 [] m) as [Ts'|]; [|discriminate]. simpl in Hp. injection Hp as <-.
          exists Ts'. split; reflexivity.
        - destruct (pad_go Ko p keep bd (f0 :: fs0) m) as [Ts'|]; [|discriminate]. simpl in Hp.
          injection Hp as <-. exists Ts'. split; reflexivity. }
      destruct Hp2 as (Ts' & -> & Hp').
      cbn [TransferMat.ampv]. change (dl (pad_factor Ko bd p bd keep)) with bd.
      change (dp (pad_factor Ko bd p bd keep)) with p.
      rewrite Hv, Nat.eqb_refl, Hs. cbn [andb dark_ok].
      destruct (keep s) eqn:Hk.
      * rewrite (vstep_pad_keep v bd p keep s Hv Hk). cbn [andb]. apply (IH fs bd); auto.
      * rewrite (vstep_pad_drop v bd p keep s Hk). cbn [andb].
        pose proof (ampv_zvec _ _ _ _ Ha) as Hz. rewrite Hv in Hz.
        rewrite (IH fs bd (zvec bd) b' Ts' zero Hp' (length_zvec bd) Hb Hr Hz).
        destruct (dark_ok keep m b'); reflexivity.
Qed.

(* the loop succeeds exactly under the assert, and returns one factor per mask entry *)
Lemma pad_go_some p keep : forall mask fs bd, length fs = count_true mask ->
  exists Ts, pad_go Ko p keep bd fs mask = Some Ts /\ length Ts = length mask.
Proof.
  induction mask as [|g m IH]; intros fs bd Hl.
  - exists []. split; reflexivity.
  - destruct g; unfold count_true in Hl; simpl in Hl; fold (count_true m) in Hl.
    + destruct fs as [|f fs']; [discriminate|]. simpl in Hl. injection Hl as Hl.
      destruct (IH fs' (dr f) Hl) as (Ts' & E & L). exists (f :: Ts'). simpl. rewrite E. simpl. split; [reflexivity|lia].
    + destruct fs as [|f0 fs0].
      * destruct (IH [] 1 Hl) as (Ts' & E & L). eexists. simpl. rewrite E. simpl. split; [reflexivity|simpl; lia].
      * destruct (IH (f0 :: fs0) bd Hl) as (Ts' & E & L). eexists. simpl. rewrite E. simpl. split; [reflexivity|simpl; lia].
Qed.

Theorem pad_factors_defined p keep fs mask :
  (exists Ts, pad_factors Ko p keep fs mask = Some Ts /\ length Ts = length mask) <-> length fs = count_true mask.
Proof.
  unfold pad_factors. destruct (Nat.eqb_spec (length fs) (count_true mask)) as [E|E].
  - split; [intros _; exact E | intros _; apply pad_go_some; exact E].
  - split; [intros (Ts & H & _); discriminate | intros H; contradiction].
Qed.

Theorem pad_amp p keep mask fs b Ts x :
  pad_factors Ko p keep fs mask = Some Ts ->
  length b = length mask ->
  dark_inrange p mask b = true ->
  amp fs (restrict mask b) = Some x ->
  amp Ts b = Some (if dark_ok keep mask b then x else zero).
Proof.
  unfold pad_factors. destruct (length fs =? count_true mask); [|discriminate].
  intros Hp Hb Hr Ha. unfold TransferMat.amp in *. apply (pad_ampv p keep mask fs 1); auto.
Qed.

(* a chain of uniform physical dimension p padded with dimension p is uniform *)
Lemma pad_go_uniform p keep : forall mask fs bd Ts, uniform_dim p fs = true ->
  pad_go Ko p keep bd fs mask = Some Ts -> uniform_dim p Ts = true.
Proof.
  induction mask as [|g m IH]; intros fs bd Ts Hu Hp.
  - simpl in Hp. injection Hp as <-. reflexivity.
  - destruct g; simpl in Hp.
    + destruct fs as [|f fs']; [discriminate|]. simpl in Hu. apply andb_true_iff in Hu. destruct Hu as [Hf Hu].
      destruct (pad_go Ko p keep (dr f) fs' m) as [Ts'|] eqn:E; [|discriminate]. simpl in Hp. injection Hp as <-.
      simpl. rewrite Hf. simpl. apply (IH fs' (dr f)); assumption.
    + destruct fs as [|f0 fs0].
      * destruct (pad_go Ko p keep 1 [] m) as [Ts'|] eqn:E; [|discriminate]. simpl in Hp. injection Hp as <-.
        simpl. rewrite Nat.eqb_refl. simpl. apply (IH [] 1); [reflexivity | assumption].
      * destruct (pad_go Ko p keep bd (f0 :: fs0) m) as [Ts'|] eqn:E; [|discriminate]. simpl in Hp. injection Hp as <-.
        simpl. rewrite Nat.eqb_refl. simpl. apply (IH (f0 :: fs0) bd); assumption.
Qed.

Theorem pad_factors_uniform p keep fs mask Ts : uniform_dim p fs = true ->
  pad_factors Ko p keep fs mask = Some Ts -> uniform_dim p Ts = true.
Proof.
  unfold pad_factors. destruct (length fs =? count_true mask); [|discriminate]. apply pad_go_uniform.
Qed.

End PadProofs.

(* ---- get_extended_site_index ----------------------------------------------------------------------------- *)
Lemma count_true_cons g m : count_true (g :: m) = (if g then 1 else 0) + count_true m.
Proof. unfold count_true. destruct g; reflexivity. Qed.

Lemma ext_index_go_sound : forall mask k seen pos e, seen <= k ->
  ext_index_go mask k seen pos = Some e ->
  exists e', e = pos + e' /\ e' < length mask /\ nth e' mask false = true /\
             seen + count_true (firstn e' mask) = k.
Proof.
  induction mask as [|g m IH]; intros k seen pos e Hs H; [discriminate|].
  destruct g; simpl in H.
  - destruct (Nat.eqb_spec seen k) as [E|E].
    + injection H as <-. exists 0. simpl. repeat split; try lia. unfold count_true. simpl. lia.
    + destruct (IH k (S seen) (S pos) e ltac:(lia) H) as (e' & -> & L & Nn & C).
      exists (S e'). simpl. rewrite count_true_cons. repeat split; try lia. assumption.
  - destruct (IH k seen (S pos) e Hs H) as (e' & -> & L & Nn & C).
    exists (S e'). simpl. rewrite count_true_cons. repeat split; try lia. assumption.
Qed.

Lemma ext_index_go_none : forall mask k seen pos, seen <= k ->
  (ext_index_go mask k seen pos = None <-> seen + count_true mask <= k).
Proof.
  induction mask as [|g m IH]; intros k seen pos Hs.
  - simpl. unfold count_true. simpl. split; [intros _; lia | reflexivity].
  - rewrite count_true_cons. destruct g; simpl.
    + destruct (Nat.eqb_spec seen k) as [E|E].
      * split; [discriminate | intros; lia].
      * rewrite (IH k (S seen) (S pos)) by lia. lia.
    + rewrite (IH k seen (S pos)) by lia. lia.
Qed.

(* the returned position is the position of the k-th (0-based) True entry of the mask *)
Theorem ext_index_sound mask k e : ext_index mask k = Some e ->
  e < length mask /\ nth e mask false = true /\ count_true (firstn e mask) = k.
Proof.
  intros H. destruct (ext_index_go_sound mask k 0 0 e (Nat.le_0_l k) H) as (e' & -> & L & Nn & C).
  simpl. auto.
Qed.

(* the ValueError branch is taken exactly when the mask has at most k True entries *)
Theorem ext_index_none mask k : ext_index mask k = None <-> count_true mask <= k.
Proof. unfold ext_index. rewrite (ext_index_go_none mask k 0 0) by lia. simpl. reflexivity. Qed.

(* the position with the stated properties is unique, so [ext_index_sound] determines the result *)
Lemma kth_true_unique : forall mask e1 e2,
  e1 < length mask -> e2 < length mask -> nth e1 mask false = true -> nth e2 mask false = true ->
  count_true (firstn e1 mask) = count_true (firstn e2 mask) -> e1 = e2.
Proof.
  induction mask as [|g m IH]; intros e1 e2 L1 L2 N1 N2 C; [simpl in L1; lia|].
  destruct e1 as [|e1], e2 as [|e2]; try reflexivity; simpl in *.
  - rewrite count_true_cons, N1 in C. unfold count_true in C at 1. simpl in C. lia.
  - rewrite count_true_cons, N2 in C. unfold count_true in C at 2. simpl in C. lia.
  - rewrite !count_true_cons in C. f_equal. apply IH; try lia; assumption.
Qed.

(* ---- the premises are satisfiable, with leading, adjacent and trailing dark atoms ---------------------- *)
Definition ex_mask : list bool := [false; true; false; false; true; false].
Definition ex_fs : list (T3 GI) :=
  [ of_list3 gi_ops 1 2 2 [[[(1,0)%Z; (0,1)%Z]; [(2,0)%Z; (1,-1)%Z]]];
    of_list3 gi_ops 2 2 1 [[[(1,0)%Z]; [(0,1)%Z]]; [[(3,0)%Z]; [(2,0)%Z]]] ].
Lemma pad_example :
  match extended_mps_factors gi_ops ex_fs ex_mask with
  | Some Ts =>
      forallb (fun b => match amp gi_ops Ts b, amp gi_ops ex_fs (restrict ex_mask b) with
                        | Some y, Some x => gi_eqb y (if dark_ok keep_mps ex_mask b then x else (0, 0)%Z)
                        | _, _ => false end)
              (strings [2; 2; 2; 2; 2; 2])
  | None => false
  end = true.
Proof. vm_compute. reflexivity. Qed.

(* finding F-14: a qutrit chain (leakage level, physical dimension 3) with one dark atom is padded with a factor
   of physical dimension 2, so the padded list is not a valid dimension-3 MPS (the constructor's assertion fails) *)
Definition ex_qutrit : list (T3 GI) :=
  [ of_list3 gi_ops 1 3 1 [[[(1,0)%Z]; [(0,1)%Z]; [(2,0)%Z]]];
    of_list3 gi_ops 1 3 1 [[[(1,0)%Z]; [(1,0)%Z]; [(0,-1)%Z]]] ].
Lemma qutrit_padding_not_uniform :
  exists Ts, extended_mps_factors gi_ops ex_qutrit [true; true; false] = Some Ts /\
             uniform_dim 3 ex_qutrit = true /\ uniform_dim 3 Ts = false.
Proof. eexists. split; [vm_compute; reflexivity | split; vm_compute; reflexivity]. Qed.
