(* C02: the kernel schedule of a TDVP time step is a time-symmetric composition.  Over an arbitrary monoid of
   propagators in which every local kernel satisfies K(p,i,-t) = K(p,i,t)^-1 (as exponentials do), the step taken
   backwards in time undoes the step: Phi(tgt -> cur) o Phi(cur -> tgt) = id.  (A one-step method with this
   property is self-adjoint, hence of even order.)  The hypothesis is an idealisation of the real kernels
   (projected exponentials with truncation); it is a premise of the theorem, not a claim about the code. *)
From Coq Require Import ZArith List Bool Lia Reals Lra.
From EV Require Import Base.Arith Gen.Brent Model.MpsMachine Proofs.MpsStep Proofs.MpsPhase Proofs.MpsSweep
  Proofs.MpsTdvpComplete Proofs.MpsTdvpStep Proofs.MpsTdvpTrace.
Import ListNotations.
Open Scope Z_scope.

Section S.
Variable M : Type.
Variable mul : M -> M -> M.
Variable one : M.
Hypothesis mul_assoc : forall a b c, mul a (mul b c) = mul (mul a b) c.
Hypothesis one_l : forall a, mul one a = a.
Hypothesis one_r : forall a, mul a one = a.
Variable K : bool -> Z -> R -> M.          (* propagator of a kernel call: (two-site?, left site, dt) *)
Hypothesis K_inv : forall p i t, mul (K p i (- t)) (K p i t) = one.

Notation call := (bool * Z * R)%type.
Definition prop_of (c : call) : M := let '(p, i, t) := c in K p i t.
Definition back (c : call) : call := let '(p, i, t) := c in (p, i, (- t)%R).

(* chronological composition: the first call of the list is applied first (innermost) *)
Fixpoint compose (l : list call) : M :=
  match l with [] => one | c :: l' => mul (compose l') (prop_of c) end.

Lemma compose_app l1 l2 : compose (l1 ++ l2) = mul (compose l2) (compose l1).
Proof.
  induction l1 as [|c l1 IH]; cbn [app compose]; [rewrite one_r; reflexivity|].
  rewrite IH, mul_assoc. reflexivity.
Qed.

Lemma compose_back_rev (l : list call) : mul (compose (map back (rev l))) (compose l) = one.
Proof.
  induction l as [|c l IH]; cbn [rev map compose]; [apply one_l|].
  rewrite map_app, compose_app. cbn [map compose]. rewrite one_l.
  rewrite <- mul_assoc. rewrite (mul_assoc (compose (map back (rev l)))), IH, one_l.
  destruct c as [[p i] t]. cbn [back prop_of]. apply K_inv.
Qed.

Theorem palindrome_time_symmetric (l : list call) :
  rev l = l -> mul (compose (map back l)) (compose l) = one.
Proof. intros H. rewrite <- H at 1. apply compose_back_rev. Qed.

(* the kernel list of the step taken backwards in time is the forward list with every dt negated *)
Lemma half_neg (x : R) : half R_arith (a_neg R_arith x) = (- half R_arith x)%R.
Proof. unfold half, two. cbn. lra. Qed.

Lemma kernels_backwards (n : nat) (k k' : Z) (cur tgt : R) (sm sm' : bool) (next next' : option R) :
  flat_map (@kernel_of R) (step_events R R_arith n k' tgt cur sm' next') =
  map back (flat_map (@kernel_of R) (step_events R R_arith n k cur tgt sm next)).
Proof.
  rewrite !step_kernels. cbv zeta.
  set (dt := a_sub R_arith tgt cur).
  assert (E : a_sub R_arith cur tgt = (- dt)%R) by (unfold dt; cbn; lra).
  rewrite E. rewrite !map_app.
  assert (L : forall l, flat_map (kernels_l2r R R_arith (- dt)%R) l = map back (flat_map (kernels_l2r R R_arith dt) l)).
  { induction l as [|i l IH]; [reflexivity|]. cbn [flat_map]. rewrite map_app, IH.
    unfold kernels_l2r. cbn [map back app].
    change (- dt)%R with (a_neg R_arith dt). rewrite !half_neg.
    replace (half R_arith (a_neg R_arith (a_neg R_arith dt))) with (- half R_arith (a_neg R_arith dt))%R
      by (rewrite <- half_neg; reflexivity).
    reflexivity. }
  assert (Rr : forall l, flat_map (kernels_r2l R R_arith (- dt)%R) l = map back (flat_map (kernels_r2l R R_arith dt) l)).
  { induction l as [|i l IH]; [reflexivity|]. cbn [flat_map]. rewrite map_app, IH.
    unfold kernels_r2l. cbn [map back app].
    change (- dt)%R with (a_neg R_arith dt). rewrite !half_neg.
    replace (half R_arith (a_neg R_arith (a_neg R_arith dt))) with (- half R_arith (a_neg R_arith dt))%R
      by (rewrite <- half_neg; reflexivity).
    reflexivity. }
  rewrite L, Rr. reflexivity.
Qed.

(* Time symmetry of one TDVP step, for every N = n+3 >= 3 and every step: composing the kernel calls of the step
   cur -> tgt and then those of the step tgt -> cur gives the identity. *)
Theorem tdvp_step_time_symmetric (n : nat) (k k' : Z) (cur tgt : R) (sm sm' : bool) (next next' : option R) :
  mul (compose (flat_map (@kernel_of R) (step_events R R_arith n k' tgt cur sm' next')))
      (compose (flat_map (@kernel_of R) (step_events R R_arith n k cur tgt sm next))) = one.
Proof.
  rewrite (kernels_backwards n k k' cur tgt sm sm' next next').
  apply palindrome_time_symmetric. apply step_kernels_symmetric.
Qed.
End S.
