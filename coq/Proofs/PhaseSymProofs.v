(* C29: covariance of the dense Rydberg Hamiltonian of C06 under a constant phase offset and under phase negation,
   for every N, every drive data and every coefficient ring with involution. *)
From Coq Require Import List Arith Bool Lia Ring.
From EV Require Import Model.SvBase Model.SvHam Model.PhaseSym Proofs.SvBaseProofs Proofs.SvHamProofs Proofs.BitIndex.
Import ListNotations.

(* ---- popcount changes only through the flipped bit ---------------------------------------------------------- *)
Definition nsum (f : nat -> nat) (l : list nat) : nat := fold_right (fun i acc => f i + acc) 0 l.

Lemma nsum_differ_at (f g : nat -> nat) n : forall l, NoDup l -> (forall i, In i l -> i <> n -> f i = g i) ->
  (In n l -> nsum f l + g n = nsum g l + f n) /\ (~ In n l -> nsum f l = nsum g l).
Proof.
  induction l as [|a l IH]; intros ND H.
  - split; [intros []|reflexivity].
  - inversion ND as [|? ? Ha ND']; subst. destruct (IH ND') as [I1 I2]; [intros; apply H; simpl; auto|].
    simpl. split.
    + intros [->|Hin].
      * rewrite (I2 Ha). lia.
      * assert (a <> n) by (intros ->; contradiction). rewrite (H a) by (simpl; auto). specialize (I1 Hin). lia.
    + intros Hn. rewrite (H a), I2; auto. simpl; auto.
Qed.

Lemma popcount_same_except N n k k' : n < N -> same_except N n k k' = true ->
  popcount N k + bit N n k' = popcount N k' + bit N n k.
Proof.
  intros Hn E. unfold popcount.
  destruct (nsum_differ_at (fun i => bit N i k) (fun i => bit N i k') n (seq 0 N) (seq_NoDup N 0)) as [I _].
  - intros i Hi Hne. apply in_seq in Hi. apply (same_except_bits_fwd N n); try assumption. lia.
  - apply I. apply in_seq. lia.
Qed.

Section Phase.
Variable o : Kops.
Hypothesis laws : Klaws o.
Add Ring Kr29 : (K_ring o laws).
Open Scope K_scope.
Notation zero := (k0 o).
Notation one := (k1 o).
Notation cj := (kconj o).

Variable u : o.
Hypothesis unit_u : u * cj u = one.

Lemma conj_upow n : cj (upow o u n) = upow o (cj u) n.
Proof. induction n; simpl; [apply (conj_1 o laws) | rewrite (conj_mul o laws), IHn; reflexivity]. Qed.

Lemma upow_unit n : upow o u n * cj (upow o u n) = one.
Proof.
  rewrite conj_upow. induction n; simpl; [ring|].
  transitivity ((u * cj u) * (upow o u n * upow o (cj u) n)); [ring|]. rewrite unit_u, IHn. ring.
Qed.

Lemma get_shift_e (e : list o) n : get (shift_e o u e) n = get e n * u.
Proof.
  unfold shift_e. destruct (Nat.lt_ge_cases n (length e)).
  - apply (get_map o). assumption.
  - rewrite !(get_overflow o) by (rewrite ?map_length; assumption). ring.
Qed.

Lemma get_conj_e (e : list o) n : get (conj_e o e) n = cj (get e n).
Proof.
  unfold conj_e. destruct (Nat.lt_ge_cases n (length e)).
  - apply (get_map o). assumption.
  - rewrite !(get_overflow o) by (rewrite ?map_length; assumption). symmetry. apply (conj_0 o laws).
Qed.

Lemma kif_scale b (a c x : o) : a * kif b x * c = kif b (a * x * c).
Proof. destruct b; simpl; ring. Qed.

(* one site term *)
Lemma site_offset N n omega delta e k k' : n < N ->
  site o N n (ham_site o omega delta (shift_e o u e) n) k k' =
  Du o u N k * site o N n (ham_site o omega delta e n) k k' * cj (Du o u N k').
Proof.
  intros Hn. unfold site. rewrite kif_scale. destruct (same_except N n k k') eqn:E; [|reflexivity]. simpl.
  pose proof (popcount_same_except N n k k' Hn E) as P.
  pose proof (bit_lt N n k) as B. pose proof (bit_lt N n k') as B'.
  unfold ham_site, hop, Du. rewrite get_shift_e.
  set (c := get omega n * khalf o * get e n).
  destruct (bit N n k) as [|[|?]] eqn:Ek; [| |lia]; destruct (bit N n k') as [|[|?]] eqn:Ek'; try lia; cbn [m2].
  - ring.
  - assert (P' : popcount N k' = S (popcount N k)) by lia. rewrite P'. simpl upow.
    rewrite !(conj_mul o laws).
    transitivity (cj c * cj u * (upow o u (popcount N k) * cj (upow o u (popcount N k)))).
    + rewrite upow_unit. unfold c. rewrite !(conj_mul o laws). ring.
    + ring.
  - assert (P' : popcount N k = S (popcount N k')) by lia. rewrite P'. simpl upow.
    transitivity (c * u * (upow o u (popcount N k') * cj (upow o u (popcount N k')))).
    + rewrite upow_unit. unfold c. ring.
    + unfold c. ring.
  - assert (P' : popcount N k = popcount N k') by lia. rewrite P'.
    transitivity (- get delta n * (upow o u (popcount N k') * cj (upow o u (popcount N k')))); [|ring].
    rewrite upow_unit. ring.
Qed.

Theorem Du_inverse N k : Du o u N k * cj (Du o u N k) = one.
Proof. unfold Du. apply upow_unit. Qed.

Theorem phase_offset_covariance N omega delta e U k k' :
  Hdense o N (ham_site o omega delta (shift_e o u e)) (Uint o N U) k k' =
  Du o u N k * Hdense o N (ham_site o omega delta e) (Uint o N U) k k' * cj (Du o u N k').
Proof.
  unfold Hdense.
  rewrite (ksumn_ext o N _ (fun n => Du o u N k * (site o N n (ham_site o omega delta e n) k k' * cj (Du o u N k')))).
  2:{ intros n Hn. rewrite site_offset by assumption. ring. }
  unfold ksumn. rewrite (ksum_mul_l o laws). rewrite (ksum_mul_r o laws).
  destruct (Nat.eqb_spec k k') as [->|Hne]; simpl.
  - transitivity (Uint o N U k' * (Du o u N k' * cj (Du o u N k')) +
                  Du o u N k' * (ksum (seq 0 N) (fun a => site o N a (ham_site o omega delta e a) k' k') * cj (Du o u N k'))); [|ring].
    rewrite Du_inverse. ring.
  - ring.
Qed.

(* D_u is diagonal with unit entries: weights of basis states (hence every diagonal observable, occupations,
   correlations, bitstring probabilities) are unchanged *)
Theorem Du_preserves_weights N (v : nat -> o) k :
  cj (Du o u N k * v k) * (Du o u N k * v k) = cj (v k) * v k.
Proof.
  rewrite (conj_mul o laws).
  transitivity ((Du o u N k * cj (Du o u N k)) * (cj (v k) * v k)); [ring|].
  rewrite Du_inverse. ring.
Qed.

End Phase.

Section Negation.
Variable o : Kops.
Hypothesis laws : Klaws o.
Add Ring Kr29b : (K_ring o laws).
Open Scope K_scope.
Notation zero := (k0 o).
Notation cj := (kconj o).

Theorem phase_negation_conjugate N omega delta e U :
  (forall n, cj (get omega n) = get omega n) -> (forall n, cj (get delta n) = get delta n) ->
  (forall i j, cj (getU o U i j) = getU o U i j) ->
  forall k k', Hdense o N (ham_site o omega delta (conj_e o e)) (Uint o N U) k k' =
               cj (Hdense o N (ham_site o omega delta e) (Uint o N U) k k').
Proof.
  intros Ho Hd HU k k'. unfold Hdense.
  rewrite (conj_add o laws), (conj_kif o laws), (Uint_real o laws N U HU k).
  f_equal. unfold ksumn. rewrite (ksum_conj o laws). apply (ksum_ext o). intros n _.
  unfold site. rewrite (conj_kif o laws). f_equal.
  unfold ham_site, hop. rewrite (get_conj_e o laws).
  pose proof (bit_lt N n k) as B. pose proof (bit_lt N n k') as B'.
  destruct (bit N n k) as [|[|?]]; [| |lia]; destruct (bit N n k') as [|[|?]]; try lia; cbn [m2].
  - symmetry. apply (conj_0 o laws).
  - repeat (rewrite (conj_mul o laws) || rewrite (conj_inv o laws) || rewrite Ho || rewrite (conj_half o laws)). reflexivity.
  - repeat (rewrite (conj_mul o laws) || rewrite (conj_inv o laws) || rewrite Ho || rewrite (conj_half o laws)). reflexivity.
  - rewrite (conj_opp o laws), Hd. reflexivity.
Qed.
End Negation.
