(* C28's thin algebraic layer: in a commutative ring with involution and imaginary unit (the Kops/Klaws
   structure of C06), (-i * real) * (Hermitian matrix) is anti-Hermitian.  This is the operator handed to
   krylov_exp by EvolveStateVector.evolve (-1j * dt * (ham * x)), solver_utils.evolve_pair
   (time_step = -1j * _TIME_CONVERSION_COEFF * dt) and evolve_single (-_TIME_CONVERSION_COEFF * 1j * dt).
   Hermiticity of the two Hamiltonians: C06_H_hermitian (matrix-free emu-sv Hamiltonian) and
   MpoHamProofs.mpo_hermitian (emu-mps MPO). *)
From Coq Require Import List Ring.
From EV Require Import Model.SvBase Model.SvHam Proofs.SvBaseProofs Proofs.SvHamProofs.
Import ListNotations.

Section AH.
Variable o : Kops.
Hypothesis laws : Klaws o.
Add Ring KringAH : (K_ring o laws).
Open Scope K_scope.

Definition is_real (x : o) : Prop := kconj o x = x.
Definition is_antireal (s : o) : Prop := kconj o s = - s.
Definition hermitian {I : Type} (H : I -> I -> o) : Prop := forall a b, H a b = kconj o (H b a).
Definition antihermitian {I : Type} (G : I -> I -> o) : Prop := forall a b, G a b = - kconj o (G b a).

Lemma conj_zero : kconj o (k0 o) = k0 o.
Proof.
  pose proof (conj_add o laws (k0 o) (k0 o)) as H.
  replace (k0 o + k0 o) with (k0 o) in H by ring.
  transitivity (kconj o (k0 o) + kconj o (k0 o) - kconj o (k0 o)); [ring|].
  rewrite <- H. ring.
Qed.

Lemma conj_opp : forall x : o, kconj o (- x) = - kconj o x.
Proof.
  intros x. pose proof (conj_add o laws x (- x)) as H.
  replace (x + - x) with (k0 o) in H by ring. rewrite conj_zero in H.
  transitivity (k0 o - kconj o x); [rewrite H; ring|ring].
Qed.

Lemma real_mul : forall x y : o, is_real x -> is_real y -> is_real (x * y).
Proof. unfold is_real. intros x y Hx Hy. now rewrite (conj_mul o laws), Hx, Hy. Qed.

Lemma antireal_times_real : forall s r : o, is_antireal s -> is_real r -> is_antireal (s * r).
Proof.
  unfold is_antireal, is_real. intros s r Hs Hr. rewrite (conj_mul o laws), Hs, Hr. ring.
Qed.

Lemma minus_i_antireal : is_antireal (- kI o).
Proof. unfold is_antireal. rewrite conj_opp, (conj_I o laws). ring. Qed.

(* the algebra lemma: anti-real scalar times Hermitian matrix is anti-Hermitian *)
Lemma scale_antihermitian : forall (I : Type) (s : o) (H : I -> I -> o),
  is_antireal s -> hermitian H -> antihermitian (fun a b => s * H a b).
Proof.
  unfold is_antireal, hermitian, antihermitian. intros I s H Hs HH a b.
  rewrite (conj_mul o laws), Hs, <- (HH a b). ring.
Qed.

(* EvolveStateVector.evolve:  op(x) = -1j * dt * (ham * x) *)
Lemma generator_sv : forall (I : Type) (dt : o) (H : I -> I -> o),
  is_real dt -> hermitian H -> antihermitian (fun a b => (- kI o * dt) * H a b).
Proof. intros. apply scale_antihermitian; auto. apply antireal_times_real; auto. apply minus_i_antireal. Qed.

(* evolve_pair:  time_step = -1j * coeff * dt ;  op(x) = time_step * eff_h(x) *)
Lemma generator_pair : forall (I : Type) (coeff dt : o) (H : I -> I -> o),
  is_real coeff -> is_real dt -> hermitian H -> antihermitian (fun a b => ((- kI o * coeff) * dt) * H a b).
Proof.
  intros. apply scale_antihermitian; auto.
  apply antireal_times_real; auto. apply antireal_times_real; auto. apply minus_i_antireal.
Qed.

(* evolve_single:  time_step = -coeff * 1j * dt *)
Lemma generator_single : forall (I : Type) (coeff dt : o) (H : I -> I -> o),
  is_real coeff -> is_real dt -> hermitian H -> antihermitian (fun a b => ((- coeff * kI o) * dt) * H a b).
Proof.
  intros I coeff dt H Hc Hd HH. apply scale_antihermitian; auto.
  apply antireal_times_real; auto.
  unfold is_antireal, is_real in *. rewrite (conj_mul o laws), conj_opp, Hc, (conj_I o laws). ring.
Qed.

(* with C06's dense form of the matrix-free emu-sv Hamiltonian *)
Lemma sv_generator_antihermitian : forall N (omega delta e : list o) (U : list (list o)) (dt : o),
  (forall n, kconj o (get delta n) = get delta n) -> (forall i j, kconj o (getU o U i j) = getU o U i j) ->
  is_real dt ->
  antihermitian (fun k k' => (- kI o * dt) * Hdense o N (ham_site o omega delta e) (Uint o N U) k k').
Proof.
  intros N omega delta e U dt Hd HU Hr. apply generator_sv; auto.
  intros a b. apply (H_hermitian o laws N omega delta e U Hd HU).
Qed.
End AH.
