(* Proofs about the emu-mps stepping machine (Model/MpsMachine.v); see Properties/C02.v. *)
From Coq Require Import ZArith List Bool Lia.
From EV Require Import Base.Arith Gen.Brent Model.MpsMachine.
From EV Require Import Proofs.MpsStep Proofs.MpsPhase Proofs.MpsSweep Proofs.MpsTdvpComplete Proofs.MpsTdvpStep Proofs.MpsTdvpRun.
Import ListNotations.
Open Scope Z_scope.
Section P.
Variable A : Type.
Variable ar : Arith A.
Notation mstate := (mstate A).
Notation event := (event A).
Notation progress_l2r_mid := (@progress_l2r_mid A ar).
Notation progress_r2l_mid := (@progress_r2l_mid A ar).
Notation same_frame := (@same_frame A).
Notation pos := (@pos A).
Notation tdvp_like := (@tdvp_like A).
Notation l2r_block := (@l2r_block A ar).
Notation r2l_block := (@r2l_block A ar).
Notation hdt := (@hdt A ar). Notation nhdt := (@nhdt A ar). Notation dt_of := (@dt_of A ar).
Notation same_frame_refl := (@same_frame_refl A).
Notation same_frame_trans := (@same_frame_trans A).
Notation same_frame_dt := (@same_frame_dt A ar).
Notation l2r_phase := (@l2r_phase A ar).
Notation r2l_phase := (@r2l_phase A ar).
Notation progress_l2r_last := (@progress_l2r_last A ar).
Notation progress_r2l_last := (@progress_r2l_last A ar).
Notation iter_progress_app := (@iter_progress_app A ar).
Notation tdvp_like_frame := (@tdvp_like_frame A).
Notation mid_block := (@mid_block A ar).
Notation r2l_call := (@r2l_call A ar).
Notation before_complete := (@before_complete A ar).

Notation sweep_body := (@sweep_body A ar).
Notation sweep_prefix := (@sweep_prefix A ar).
Notation sweep_start := (@sweep_start A).

Ltac sp := cbn [m_kind m_N m_steps m_times m_sweep m_l2r m_tidx m_cur m_tgt m_nl m_nr m_oc m_thr m_gap m_rf
  m_prevE m_curE m_sweeps m_etol m_maxsw o_norm o_unif o_energy o_same m_ev
  emit set_sweep set_l2r set_tidx set_cur set_tgt set_nl set_nr set_oc set_thr set_gap set_rf set_prevE
  set_curE set_sweeps set_onorm set_ounif set_oenergy set_osame].
Ltac zt := repeat match goal with
  | |- context [(?a <? ?b)%Z] =>
      first [ replace (a <? b)%Z with true by (symmetry; apply Z.ltb_lt; lia)
            | replace (a <? b)%Z with false by (symmetry; apply Z.ltb_ge; lia) ]
  | |- context [(?a <=? ?b)%Z] =>
      first [ replace (a <=? b)%Z with true by (symmetry; apply Z.leb_le; lia)
            | replace (a <=? b)%Z with false by (symmetry; apply Z.leb_gt; lia) ]
  | |- context [(?a =? ?b)%Z] =>
      first [ replace (a =? b)%Z with true by (symmetry; apply Z.eqb_eq; lia)
            | replace (a =? b)%Z with false by (symmetry; apply Z.eqb_neq; lia) ]
  end.
Ltac step := sp; zt; cbn [negb andb orb res_bind].

Notation complete_events := (@complete_events A ar).
Notation tdvp_sweep_complete := (@tdvp_sweep_complete A ar).

Notation step_events := (@step_events A ar).
Notation run_events := (@run_events A ar).
Notation kernel_l2r := (@kernel_l2r A ar).
Notation kernel_r2l := (@kernel_r2l A ar).

(* ---- projections of the closed-form trace ------------------------------------------------ *)
Definition fill_of (e : event) : list (Z * A) := match e with EvFill k t => [(k, t)] | _ => [] end.
Definition update_of (e : event) : list (Z * bool) := match e with EvUpdateH _ r b => [(r, b)] | _ => [] end.
(* kernel calls: (is_pair, left site, dt) *)
Definition kernel_of (e : event) : list (bool * Z * A) :=
  match e with EvPair l _ dt _ => [(true, l, dt)] | EvSingle i dt => [(false, i, dt)] | _ => [] end.

Lemma flat_map_app {X Y} (f : X -> list Y) l1 l2 : flat_map f (l1 ++ l2) = flat_map f l1 ++ flat_map f l2.
Proof. induction l1; cbn; [reflexivity|]. rewrite IHl1, app_assoc. reflexivity. Qed.

Lemma flat_map_nil {X Y Z'} (g : Y -> list Z') (f : X -> list Y) (l : list X) :
  (forall x, flat_map g (f x) = []) -> flat_map g (flat_map f l) = [].
Proof. intros H. induction l; cbn; [reflexivity|]. rewrite flat_map_app, H, IHl. reflexivity. Qed.

Lemma step_fills n k cur tgt sm next : flat_map fill_of (step_events n k cur tgt sm next) = [(k, tgt)].
Proof.
  unfold step_events, MpsTdvpStep.step_events. rewrite !flat_map_app.
  rewrite (flat_map_nil fill_of) by (intros; reflexivity).
  rewrite (flat_map_nil fill_of) by (intros; reflexivity).
  unfold MpsTdvpComplete.complete_events. destruct sm, next; reflexivity.
Qed.

Lemma step_updates n k cur tgt sm next :
  flat_map update_of (step_events n k cur tgt sm next) =
  match next with Some _ => [(k + 1, true)] | None => [] end.
Proof.
  unfold step_events, MpsTdvpStep.step_events. rewrite !flat_map_app.
  rewrite (flat_map_nil update_of) by (intros; reflexivity).
  rewrite (flat_map_nil update_of) by (intros; reflexivity).
  unfold MpsTdvpComplete.complete_events. destruct sm, next; reflexivity.
Qed.

(* times at which results are filled: step k is filled exactly once, at its end time *)
Fixpoint expected_fills (k : Z) (ts : list A) : list (Z * A) :=
  match ts with [] => [] | t :: ts' => (k, t) :: expected_fills (k + 1) ts' end.

Lemma run_fills n : forall ts k cur same, (length ts <= length same)%nat ->
  flat_map fill_of (run_events n k cur ts same) = expected_fills k ts.
Proof.
  induction ts as [|t ts IH]; intros k cur same Hl; [reflexivity|].
  destruct same as [|sm same]; [cbn in Hl; lia|].
  cbn [MpsTdvpStep.run_events expected_fills]. rewrite flat_map_app, step_fills, IH by (cbn in Hl; lia). reflexivity.
Qed.

(* rows of drive parameters installed for the following step: step k+1 reads row k+1, and nothing
   is installed after the last step *)
Fixpoint expected_updates (k : Z) (ts : list A) : list (Z * bool) :=
  match ts with [] => [] | [_] => [] | _ :: ts' => (k + 1, true) :: expected_updates (k + 1) ts' end.

Lemma run_updates n : forall ts k cur same, (length ts <= length same)%nat ->
  flat_map update_of (run_events n k cur ts same) = expected_updates k ts.
Proof.
  induction ts as [|t ts IH]; intros k cur same Hl; [reflexivity|].
  destruct same as [|sm same]; [cbn in Hl; lia|].
  cbn [MpsTdvpStep.run_events]. rewrite flat_map_app, step_updates, IH by (cbn in Hl; lia).
  destruct ts; reflexivity.
Qed.

(* ---- the kernel schedule of one step is symmetric (second-order splitting) ------------------ *)
Definition kernels_l2r (dt : A) (i : Z) : list (bool * Z * A) :=
  [(true, i, half ar dt); (false, i + 1, half ar (a_neg ar dt))].
Definition kernels_r2l (dt : A) (i : Z) : list (bool * Z * A) :=
  [(false, i, half ar (a_neg ar dt)); (true, i - 1, half ar dt)].

Lemma step_kernels n k cur tgt sm next :
  flat_map kernel_of (step_events n k cur tgt sm next) =
  let dt := a_sub ar tgt cur in
  flat_map (kernels_l2r dt) (zup 0 (S n)) ++ [(true, Z.of_nat n + 1, dt)] ++
  flat_map (kernels_r2l dt) (zdown (Z.of_nat n + 1) (S n)).
Proof.
  unfold step_events, MpsTdvpStep.step_events. cbv zeta. rewrite !flat_map_app.
  assert (E1 : forall l, flat_map kernel_of (flat_map (kernel_l2r (a_sub ar tgt cur)) l) =
                         flat_map (kernels_l2r (a_sub ar tgt cur)) l).
  { induction l as [|i l IHl]; cbn [flat_map]; [reflexivity|]. rewrite flat_map_app, IHl. reflexivity. }
  assert (E2 : forall l, flat_map kernel_of (flat_map (fun i => kernel_r2l (a_sub ar tgt cur) i ++ [EvSave A]) l) =
                         flat_map (kernels_r2l (a_sub ar tgt cur)) l).
  { induction l as [|i l IHl]; cbn [flat_map]; [reflexivity|]. rewrite flat_map_app, IHl. reflexivity. }
  rewrite E1, E2.
  assert (E3 : flat_map kernel_of (@MpsTdvpComplete.complete_events A ar k tgt sm next) = []) by (destruct sm, next; reflexivity).
  rewrite E3.
  assert (E4 : forall m i, zdown i (S m) = zdown i m ++ [i - Z.of_nat m]).
  { induction m as [|m IHm]; intros i; [cbn; f_equal; lia|].
    change (zdown i (S (S m))) with (i :: zdown (i - 1) (S m)). rewrite IHm. cbn [zdown app]. 
    f_equal. f_equal. f_equal. lia. }
  rewrite (E4 n). rewrite flat_map_app. cbn [flat_map app].
  replace (Z.of_nat n + 1 - Z.of_nat n) with 1 by lia. rewrite <- !app_assoc. reflexivity.
Qed.

(* mirror: reading the kernel calls of a step backwards gives the same (kind, left site, dt)
   sequence, where a two-site call on (l, l+1) mirrors itself and a one-site call on i mirrors itself *)
Lemma zdown_rev_zup : forall m i, zdown (i + Z.of_nat m) (S m) = rev (zup i (S m)).
Proof.
  induction m as [|m IH]; intros i; [cbn; f_equal; lia|].
  change (zup i (S (S m))) with (i :: zup (i + 1) (S m)). cbn [rev]. rewrite <- IH.
  assert (E4 : forall m i, zdown i (S m) = zdown i m ++ [i - Z.of_nat m]).
  { clear. induction m as [|m IHm]; intros i; [cbn; f_equal; lia|].
    change (zdown i (S (S m))) with (i :: zdown (i - 1) (S m)). rewrite IHm. cbn [zdown app].
    f_equal. f_equal. f_equal. lia. }
  rewrite (E4 (S m)). f_equal; [f_equal; lia|]. f_equal. lia.
Qed.

Theorem step_kernels_symmetric n k cur tgt sm next :
  rev (flat_map kernel_of (step_events n k cur tgt sm next)) =
  flat_map kernel_of (step_events n k cur tgt sm next).
Proof.
  rewrite step_kernels. cbv zeta. set (dt := a_sub ar tgt cur).
  replace (Z.of_nat n + 1) with (1 + Z.of_nat n) at 2 by lia.
  rewrite (zdown_rev_zup n 1).
  assert (E : forall l, rev (flat_map (kernels_l2r dt) l) = flat_map (kernels_r2l dt) (rev (map (fun i => i + 1) l))).
  { induction l as [|i l IHl]; [reflexivity|]. cbn [flat_map map rev]. rewrite rev_app_distr, IHl, flat_map_app.
    cbn [flat_map kernels_l2r kernels_r2l rev app]. replace (i + 1 - 1) with i by lia. reflexivity. }
  assert (M : forall m i, map (fun i => i + 1) (zup i m) = zup (i + 1) m).
  { induction m as [|m IHm]; intros i; [reflexivity|]. cbn [zup map]. rewrite IHm. reflexivity. }
  rewrite !rev_app_distr. rewrite E, M. cbn [rev app].
  assert (E' : forall l, rev (flat_map (kernels_r2l dt) (rev l)) = flat_map (kernels_l2r dt) (map (fun i => i - 1) l)).
  { induction l as [|i l IHl]; [reflexivity|]. cbn [rev map flat_map]. rewrite flat_map_app, rev_app_distr, IHl.
    cbn [flat_map kernels_l2r kernels_r2l rev app]. replace (i - 1 + 1) with i by lia. reflexivity. }
  rewrite E'.
  assert (M' : forall m i, map (fun i => i - 1) (zup (i + 1) m) = zup i m).
  { induction m as [|m IHm]; intros i; [reflexivity|]. cbn [zup map]. rewrite IHm. f_equal. lia. }
  change (zup 1 (S n)) with (zup (0 + 1) (S n)). rewrite (M' (S n) 0).
  replace (Z.of_nat n + 1) with (1 + Z.of_nat n) by lia. rewrite (zdown_rev_zup n 1).
  rewrite <- !app_assoc. reflexivity.
Qed.
End P.
