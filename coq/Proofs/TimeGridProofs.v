(* Proofs about Model/TimeGrid.v at the R instance (C21: the time grid; the step loop; the
   trajectory repetition), plus the binary64 witness of finding F-08. *)
From Coq Require Import ZArith List Bool Reals Lra Lia Sorted.
From EV Require Import Base.Arith Model.TimeGrid.
Import ListNotations.
Open Scope R_scope.

Local Notation RA := R_arith.

Lemma ltb_R x y : a_ltb RA x y = Rltb x y. Proof. reflexivity. Qed.
Lemma eqb_R x y : a_eqb RA x y = Reqb x y. Proof. reflexivity. Qed.

Lemma insert_In x l y : In y (insert RA x l) <-> y = x \/ In y l.
Proof.
  induction l as [|h t IH]; simpl.
  - intuition.
  - try rewrite ltb_R; try rewrite eqb_R. destruct (Rltb x h) eqn:E1.
    + simpl. intuition.
    + destruct (Reqb x h) eqn:E2.
      * apply Reqb_true in E2. subst. simpl. intuition.
      * simpl. rewrite IH. intuition.
Qed.

Lemma insert_sorted x l : StronglySorted Rlt l -> StronglySorted Rlt (insert RA x l).
Proof.
  induction l as [|h t IH]; simpl; intros S.
  - constructor; constructor.
  - try rewrite ltb_R; try rewrite eqb_R. inversion S as [|? ? St Hall]; subst.
    destruct (Rltb x h) eqn:E1.
    + apply Rltb_true in E1. constructor; auto. constructor; auto.
      eapply Forall_impl; [|exact Hall]. intros; simpl in *; lra.
    + apply Rltb_false in E1. destruct (Reqb x h) eqn:E2; auto.
      apply Reqb_false in E2. constructor; auto.
      apply Forall_forall. intros y Hy. apply insert_In in Hy. destruct Hy as [->|Hy].
      * lra.
      * rewrite Forall_forall in Hall. auto.
Qed.

Lemma sort_dedup_In l y : In y (sort_dedup RA l) <-> In y l.
Proof.
  induction l; simpl; [tauto|]. unfold sort_dedup in *. simpl. rewrite insert_In, IHl. intuition.
Qed.

Lemma sort_dedup_sorted l : StronglySorted Rlt (sort_dedup RA l).
Proof.
  induction l; simpl. constructor. unfold sort_dedup in *; simpl. now apply insert_sorted.
Qed.
(* ---- the candidate points --------------------------------------------------------------- *)
Lemma grid_rel_In dur dt n x :
  In x (grid_rel RA dur dt n) <-> exists i : Z, (0 <= i <= n)%Z /\ x = IZR i * dt / dur.
Proof.
  unfold grid_rel. rewrite in_map_iff. split.
  - intros (i & <- & Hi). apply in_seq in Hi. exists (Z.of_nat i). split; [lia|reflexivity].
  - intros (i & Hi & ->). exists (Z.to_nat i). split.
    + simpl. rewrite Z2Nat.id by lia. reflexivity.
    + apply in_seq. lia.
Qed.

Definition requested_by (obs : list (option (list R))) (dflt : option (list R)) (t : R) : Prop :=
  exists o, In o obs /\
    match o with
    | Some ts => In t ts
    | None => match dflt with Some d => In t d | None => False end
    end.

Lemma uot_spec (obs : list (option (list R))) dflt : forall req,
  unique_observable_times obs dflt = Ok req -> forall t, In t req <-> requested_by obs dflt t.
Proof.
  induction obs as [|o r IH]; simpl; intros req H t.
  - inversion H; subst. split; [intros []|intros (o & [] & _)].
  - destruct (obs_times dflt o) as [ts| |] eqn:E; simpl in H; try discriminate.
    destruct (unique_observable_times r dflt) as [l| |] eqn:E2; simpl in H; try discriminate.
    inversion H; subst. rewrite in_app_iff, (IH l eq_refl t). unfold requested_by. split.
    + intros [Ht|(o' & Ho' & Hm)].
      * exists o. split; [now left|]. destruct o; simpl in E.
        -- inversion E; subst; auto.
        -- destruct dflt; inversion E; subst; auto.
      * exists o'. split; [now right|auto].
    + intros (o' & [->|Ho'] & Hm).
      * left. destruct o'; simpl in E.
        -- inversion E; subst; auto.
        -- destruct dflt; inversion E; subst; auto.
      * right. exists o'. auto.
Qed.

Lemma uot_ok (obs : list (option (list R))) dflt :
  (dflt = None -> Forall (fun o => o <> None) obs) ->
  exists req, unique_observable_times obs dflt = Ok req.
Proof.
  intros H. induction obs as [|o r IH]; simpl; [eauto|].
  destruct IH as (l & ->).
  { intros E. specialize (H E). now inversion H. }
  destruct o as [ts|]; simpl; [eauto|].
  destruct dflt as [d|]; simpl; [eauto|].
  specialize (H eq_refl). inversion H; subst. congruence.
Qed.

Lemma Int_part_small r : 0 <= r < 1 -> Int_part r = 0%Z.
Proof.
  intros H. destruct (base_Int_part r) as [H1 H2].
  assert (-1 < Int_part r < 1)%Z; [|lia].
  split; apply lt_IZR; simpl; lra.
Qed.

Lemma sorted_hd g m : StronglySorted Rlt g -> In m g -> (forall x, In x g -> m <= x) ->
  hd_error g = Some m.
Proof.
  intros S Hin Hmin. destruct g as [|h t]; [easy|]. simpl. f_equal.
  destruct Hin as [->|Hin]; [reflexivity|].
  inversion S; subst. rewrite Forall_forall in H2. specialize (H2 _ Hin).
  specialize (Hmin h (or_introl eq_refl)). lra.
Qed.

Lemma sorted_last g m d : StronglySorted Rlt g -> In m g -> (forall x, In x g -> x <= m) ->
  last g d = m.
Proof.
  induction g as [|h t IH]; intros S Hin Hmax; [easy|].
  inversion S; subst. destruct t as [|h2 t2].
  - simpl. destruct Hin as [->|[]]. reflexivity.
  - change (last (h :: h2 :: t2) d) with (last (h2 :: t2) d). apply IH; auto.
    + destruct Hin as [->|Hin]; auto. rewrite Forall_forall in H2.
      specialize (H2 h2 (or_introl eq_refl)). specialize (Hmax h2 (or_intror (or_introl eq_refl))). lra.
    + intros x Hx. apply Hmax. now right.
Qed.

Definition is_candidate dur dt obs dflt (x : R) : Prop :=
  x = dur \/ (exists i, (0 <= i <= Int_part (dur / dt))%Z /\ x = IZR i * dt) \/
  (exists t, requested_by obs dflt t /\ x = t * dur).

(* the sorted, deduplicated candidate points (before near-duplicates are merged) *)
Lemma candidates_spec dur dt (obs : list (option (list R))) dflt req :
  0 < dur -> 0 < dt ->
  (forall t, requested_by obs dflt t -> 0 <= t <= 1) ->
  unique_observable_times obs dflt = Ok req ->
  let S := candidates RA dur dt (Int_part (dur / dt)) req in
  StronglySorted Rlt S /\ hd_error S = Some 0 /\ last S 0 = dur /\
  (forall x, In x S <-> is_candidate dur dt obs dflt x) /\
  (forall x, is_candidate dur dt obs dflt x -> 0 <= x <= dur).
Proof.
  intros Hdur Hdt Hreq Ereq S.
  pose proof (uot_spec _ _ _ Ereq) as Hspec.
  set (n := Int_part (dur / dt)) in *.
  assert (Hn : 0 <= IZR n <= dur / dt /\ (0 <= n)%Z).
  { destruct (base_Int_part (dur / dt)) as [B1 B2]. fold n in B1, B2.
    assert (0 < dur / dt) by (apply Rdiv_lt_0_compat; lra).
    assert (-1 < n)%Z by (apply lt_IZR; simpl; lra).
    split; [split; [apply IZR_le; lia|lra]|lia]. }
  assert (Hmem : forall x, In x S <-> is_candidate dur dt obs dflt x).
  { intros x. unfold S, candidates. rewrite sort_dedup_In, in_map_iff. unfold is_candidate. fold n. split.
    - intros (t & <- & Ht). apply in_app_iff in Ht. destruct Ht as [Ht|[<-|Ht]].
      + apply grid_rel_In in Ht. destruct Ht as (i & Hi & ->). right; left. exists i. split; auto.
        simpl. field. lra.
      + left. unfold one. simpl. lra.
      + right; right. exists t. split; [now apply Hspec|reflexivity].
    - intros [->|[(i & Hi & ->)|(t & Ht & ->)]].
      + exists 1. split; [simpl; lra|]. apply in_app_iff. right. now left.
      + exists (IZR i * dt / dur). split; [simpl; field; lra|].
        apply in_app_iff. left. apply grid_rel_In. eauto.
      + exists t. split; [reflexivity|]. apply in_app_iff. right. right. now apply Hspec. }
  assert (Hbnd : forall x, is_candidate dur dt obs dflt x -> 0 <= x <= dur).
  { intros x [->|[(i & Hi & ->)|(t & Ht & ->)]].
    - lra.
    - fold n in Hi. assert (0 <= IZR i <= IZR n) by (split; apply IZR_le; lia).
      assert (IZR i * dt <= dur / dt * dt) by (apply Rmult_le_compat_r; lra).
      replace (dur / dt * dt) with dur in * by (field; lra).
      split; [apply Rmult_le_pos; lra|lra].
    - specialize (Hreq _ Ht). split; [apply Rmult_le_pos; lra|].
      replace dur with (1 * dur) at 2 by lra. apply Rmult_le_compat_r; lra. }
  pose proof (sort_dedup_sorted (map (fun t => a_mul RA t dur) (grid_rel RA dur dt n ++ one RA :: req))) as Hs.
  fold (candidates RA dur dt n req) in Hs. fold S in Hs.
  split; [exact Hs|]. split; [|split; [|split; [exact Hmem|exact Hbnd]]].
  - apply sorted_hd; auto.
    + apply Hmem. right; left. exists 0%Z. split; [lia|simpl; lra].
    + intros x Hx. apply Hmem in Hx. apply Hbnd in Hx. lra.
  - apply sorted_last; auto.
    + apply Hmem. now left.
    + intros x Hx. apply Hmem in Hx. apply Hbnd in Hx. lra.
Qed.

(* ---- merging of near-duplicates (fix of finding F-08) ------------------------------------- *)
Fixpoint adjP (P : R -> R -> Prop) (l : list R) : Prop :=
  match l with
  | a :: t => match t with b :: _ => P a b /\ adjP P t | [] => True end
  | [] => True
  end.

Section Merge.
Variables dur tau : R.
Hypothesis Hdur : 0 < dur.
Hypothesis Htau : 0 < tau.

Definition sepP (a b : R) : Prop := a + tau <= b.
Local Notation rel := (map (fun t => t / dur)).

Lemma div_mono a b : a <= b -> a / dur <= b / dur.
Proof. intros. unfold Rdiv. apply Rmult_le_compat_r; [apply Rlt_le, Rinv_0_lt_compat; lra|lra]. Qed.
Lemma div_mono_lt a b : a / dur < b / dur -> a < b.
Proof.
  intros H. apply (Rmult_lt_reg_r (/ dur)); [apply Rinv_0_lt_compat; lra|]. exact H.
Qed.

Lemma sorted_drop2 a b l : StronglySorted Rlt (a :: b :: l) -> StronglySorted Rlt (a :: l).
Proof.
  intros S. inversion S as [|? ? S1 F1]; subst. inversion S1; subst. inversion F1; subst.
  constructor; auto.
Qed.

Lemma merge_from_spec : forall l prev, StronglySorted Rlt (prev :: l) ->
  (forall x, In x (merge_from RA tau dur prev l) -> In x l) /\
  adjP sepP (rel (prev :: merge_from RA tau dur prev l)) /\
  (forall x, In x (prev :: l) ->
     exists g, In g (prev :: merge_from RA tau dur prev l) /\ g <= x /\ x / dur - g / dur < tau).
Proof.
  induction l as [|t r IH]; intros prev S.
  - simpl. split; [tauto|]. split; [exact I|]. intros x [<-|[]]. exists prev.
    split; [now left|]. split; [lra|]. rewrite Rminus_diag_eq by reflexivity. exact Htau.
  - assert (Hpt : prev < t).
    { inversion S as [|? ? _ F]; subst. now inversion F. }
    simpl merge_from. change (a_ltb RA (a_sub RA (a_div RA t dur) (a_div RA prev dur)) tau)
      with (Rltb (t / dur - prev / dur) tau).
    destruct (Rltb (t / dur - prev / dur) tau) eqn:E.
    + apply Rltb_true in E. destruct (IH prev (sorted_drop2 _ _ _ S)) as (A & B & C).
      split; [intros x Hx; right; now apply A|]. split; [exact B|].
      intros x [<-|[<-|Hx]].
      * apply C. now left.
      * exists prev. split; [now left|]. split; [lra|exact E].
      * apply C. now right.
    + apply Rltb_false in E. inversion S as [|? ? S1 _]; subst.
      destruct (IH t S1) as (A & B & C).
      split; [intros x [<-|Hx]; [now left|right; now apply A]|]. split.
      * change (rel (prev :: t :: merge_from RA tau dur t r))
          with (prev / dur :: rel (t :: merge_from RA tau dur t r)).
        simpl. split; [unfold sepP; lra|exact B].
      * intros x [<-|Hx].
        -- exists prev. split; [now left|]. split; [lra|]. rewrite Rminus_diag_eq by reflexivity. exact Htau.
        -- destruct (C x Hx) as (g & Hg & H1 & H2). exists g. split; [now right|auto].
Qed.

Lemma set_last_In (d : R) : forall (l : list R) (x : R), In x (set_last d l) -> x = d \/ In x l.
Proof.
  induction l as [|a r IH]; intros x H; [destruct H|]. destruct r as [|b r'].
  - destruct H as [<-|[]]. now left.
  - change (set_last d (a :: b :: r')) with (a :: set_last d (b :: r')) in H.
    destruct H as [<-|H]; [right; now left|]. destruct (IH x H); auto. right. now right.
Qed.

Lemma set_last_last (d d0 : R) : forall l : list R, l <> [] -> last (set_last d l) d0 = d.
Proof.
  induction l as [|a r IH]; intros H; [congruence|]. destruct r as [|b r']; [reflexivity|].
  change (set_last d (a :: b :: r')) with (a :: set_last d (b :: r')).
  assert (E : set_last d (b :: r') <> []) by (destruct r'; discriminate).
  destruct (set_last d (b :: r')) eqn:E2; [congruence|]. rewrite <- E2 in *.
  change (last (a :: set_last d (b :: r')) d0) with
    (match set_last d (b :: r') with [] => a | _ :: _ => last (set_last d (b :: r')) d0 end).
  rewrite E2. rewrite <- E2. apply IH. discriminate.
Qed.

Lemma set_last_In_d (d : R) : forall l : list R, l <> [] -> In d (set_last d l).
Proof.
  induction l as [|a r IH]; intros H; [congruence|]. destruct r as [|b r']; [now left|].
  change (set_last d (a :: b :: r')) with (a :: set_last d (b :: r')). right. apply IH. discriminate.
Qed.

Lemma set_last_sep (d : R) : forall l : list R, (forall x, In x l -> x <= d) ->
  adjP sepP (rel l) -> adjP sepP (rel (set_last d l)).
Proof.
  induction l as [|a r IH]; intros Hb H; [exact I|]. destruct r as [|b r']; [exact I|].
  change (set_last d (a :: b :: r')) with (a :: set_last d (b :: r')).
  simpl in H. destruct H as [H1 H2].
  assert (IH' : adjP sepP (rel (set_last d (b :: r')))).
  { apply IH; [intros x Hx; apply Hb; now right|exact H2]. }
  destruct r' as [|c r''].
  - simpl. split; [|exact I]. unfold sepP in *.
    assert (b / dur <= d / dur) by (apply div_mono, Hb; right; now left). lra.
  - change (set_last d (b :: c :: r'')) with (b :: set_last d (c :: r'')) in *.
    simpl. split; [exact H1|exact IH'].
Qed.

Lemma set_last_keep (d : R) : forall (l : list R) (g : R), StronglySorted Rlt l -> In g l ->
  In g (set_last d l) \/ (forall y, In y l -> y <= g).
Proof.
  induction l as [|a r IH]; intros g S Hg; [destruct Hg|]. destruct r as [|b r'].
  - right. destruct Hg as [<-|[]]. intros y [<-|[]]. lra.
  - change (set_last d (a :: b :: r')) with (a :: set_last d (b :: r')).
    inversion S as [|? ? S1 F]; subst. destruct Hg as [<-|Hg]; [left; now left|].
    destruct (IH g S1 Hg) as [H|H]; [left; now right|]. right.
    intros y [<-|Hy]; [|now apply H]. rewrite Forall_forall in F. specialize (F g Hg). lra.
Qed.

Lemma adjP_sorted : forall l, adjP sepP (rel l) -> StronglySorted Rlt l.
Proof.
  intros l H. apply Sorted_StronglySorted; [intros x y z; apply Rlt_trans|].
  induction l as [|a r IH]; [constructor|]. destruct r as [|b r'].
  - constructor; constructor.
  - simpl in H. destruct H as [H1 H2]. constructor; [apply IH; exact H2|].
    constructor. apply div_mono_lt. unfold sepP in H1. lra.
Qed.

(* The merged grid of a sorted candidate list s0 :: r that ends at d (with s0 < d): separated,
   made of candidates, covers every candidate within tau, keeps s0 first and d last. *)
Lemma last_In : forall (l : list R) (a d : R), In (last (a :: l) d) (a :: l).
Proof.
  induction l as [|b l IH]; intros a d; [now left|].
  change (last (a :: b :: l) d) with (last (b :: l) d). right. apply IH.
Qed.

Lemma merged_spec s0 r d : tau < 1 -> s0 = 0 -> d = dur ->
  StronglySorted Rlt (s0 :: r) -> last (s0 :: r) 0 = d -> (forall x, In x (s0 :: r) -> 0 <= x <= d) ->
  let G := set_last d (merge_close RA tau dur (s0 :: r)) in
  hd_error G = Some s0 /\ last G 0 = d /\ adjP sepP (rel G) /\
  (forall x, In x G -> In x (s0 :: r)) /\
  (forall x, In x (s0 :: r) -> exists g, In g G /\ Rabs (x / dur - g / dur) < tau).
Proof.
  intros Ht1 -> -> S Hlast Hb G.
  destruct (merge_from_spec r 0 S) as (A & B & C).
  set (m := merge_from RA tau dur 0 r) in *.
  assert (Hd_in : In dur (0 :: r)).
  { rewrite <- Hlast. apply last_In. }
  assert (SM : StronglySorted Rlt (0 :: m)) by (apply adjP_sorted; exact B).
  assert (HM : forall x, In x (0 :: m) -> In x (0 :: r)).
  { intros x [<-|Hx]; [now left|right; now apply A]. }
  destruct (C dur Hd_in) as (gd & Hgd & Hgd1 & Hgd2).
  assert (Hdd : dur / dur = 1) by (field; lra).
  assert (Hm : m <> []).
  { intros E. rewrite E in Hgd. destruct Hgd as [<-|[]]. unfold Rdiv in Hgd2. rewrite Rmult_0_l in Hgd2.
    fold (dur / dur) in Hgd2. lra. }
  unfold G, merge_close. fold m.
  destruct m as [|y m'] eqn:Em; [congruence|]. rewrite <- Em in *.
  assert (EG : set_last dur (0 :: m) = 0 :: set_last dur m) by (rewrite Em; reflexivity).
  rewrite EG. split; [reflexivity|]. rewrite <- EG.
  split; [apply set_last_last; discriminate|].
  split; [apply set_last_sep; [intros x Hx; apply (Hb x), HM, Hx|exact B]|].
  split.
  - intros x Hx. apply set_last_In in Hx. destruct Hx as [->|Hx]; [exact Hd_in|now apply HM].
  - intros x Hx. destruct (C x Hx) as (g & Hg & Hg1 & Hg2).
    destruct (set_last_keep dur (0 :: m) g SM Hg) as [Hk|Hmax].
    + exists g. split; [exact Hk|]. rewrite Rabs_right; [exact Hg2|].
      assert (g / dur <= x / dur) by now apply div_mono. lra.
    + exists dur. split.
      * apply set_last_In_d. discriminate.
      * specialize (Hmax gd Hgd). specialize (Hb x Hx).
        assert (gd / dur <= g / dur) by now apply div_mono.
        assert (g / dur <= x / dur) by now apply div_mono.
        assert (x / dur <= dur / dur) by (apply div_mono; lra).
        rewrite Rabs_left1 by lra. lra.
Qed.
End Merge.

(* The grid after the F-08 fix. *)
Theorem grid_spec tolu dur dt (obs : list (option (list R))) dflt :
  0 < dur -> 0 < dt -> 0 < tolu < 1 ->
  (forall t, requested_by obs dflt t -> 0 <= t <= 1) ->
  (dflt = None -> Forall (fun o => o <> None) obs) ->
  exists g, get_target_times RA R_floor tolu dur dt obs dflt = Ok g /\
    StronglySorted Rlt g /\ hd_error g = Some 0 /\ last g 0 = dur /\
    adjP (fun a b => a + tolu <= b) (map (fun t => t / dur) g) /\
    (forall x, In x g -> is_candidate dur dt obs dflt x /\ 0 <= x <= dur) /\
    (forall x, is_candidate dur dt obs dflt x ->
       exists y, In y g /\ Rabs (x / dur - y / dur) < tolu).
Proof.
  intros Hdur Hdt [Hu0 Hu1] Hreq Hfull.
  destruct (uot_ok obs dflt Hfull) as (req & Ereq).
  destruct (candidates_spec dur dt obs dflt req Hdur Hdt Hreq Ereq) as (S1 & S2 & S3 & S4 & S5).
  unfold get_target_times, n_steps. simpl.
  assert (E1 : Reqb dt 0 = false) by (apply Reqb_false; lra).
  assert (E2 : Reqb dur 0 = false) by (apply Reqb_false; lra).
  unfold zero. simpl. rewrite E1. simpl. rewrite E2, andb_false_r, Ereq. simpl.
  unfold target_times_of.
  set (S := candidates RA dur dt (Int_part (dur / dt)) req) in *.
  destruct S as [|s0 r] eqn:ES; [discriminate|]. simpl in S2. inversion S2; subst s0.
  destruct (merged_spec dur tolu Hdur Hu0 0 r dur Hu1 eq_refl eq_refl S1 S3) as (G1 & G2 & G3 & G4 & G5).
  { intros x Hx. apply S5, S4, Hx. }
  set (G := set_last dur (merge_close RA tolu dur (0 :: r))) in *.
  destruct G as [|g0 G'] eqn:EG; [discriminate|].
  eexists. split; [reflexivity|]. rewrite <- EG in *. clear EG.
  split; [apply (adjP_sorted dur tolu Hdur Hu0); exact G3|].
  split; [exact G1|]. split; [exact G2|]. split; [exact G3|]. split.
  - intros x Hx. assert (C : is_candidate dur dt obs dflt x) by (apply S4, G4, Hx). split; [exact C|apply S5, C].
  - intros x Hx. apply G5, S4, Hx.
Qed.
Theorem grid_spec_large_dt dur dt obs dflt x :
  0 < dur -> dur < dt ->
  (is_candidate dur dt obs dflt x <->
   x = 0 \/ x = dur \/ exists t, requested_by obs dflt t /\ x = t * dur).
Proof.
  intros Hdur Hdt. unfold is_candidate.
  assert (E : Int_part (dur / dt) = 0%Z).
  { apply Int_part_small. split.
    - apply Rlt_le, Rdiv_lt_0_compat; lra.
    - apply (Rmult_lt_reg_r dt); [lra|]. replace (dur / dt * dt) with dur by (field; lra). lra. }
  rewrite E. split.
  - intros [->|[(i & Hi & ->)|H]]; auto. left. assert (i = 0%Z) by lia. subst. simpl. lra.
  - intros [->|[->|H]]; auto. right; left. exists 0%Z. split; [lia|simpl; lra].
Qed.

(* consecutive points of a strictly sorted list whose members are pairwise equal-or-separated *)
Lemma sorted_gap (sep : R) g :
  StronglySorted Rlt g ->
  (forall x y, In x g -> In y g -> x < y -> sep < y - x) ->
  forall pre a b suf, g = pre ++ a :: b :: suf -> sep < b - a.
Proof.
  intros S Hsep pre a b suf ->. apply Hsep.
  - apply in_app_iff. right. now left.
  - apply in_app_iff. right. right. now left.
  - clear Hsep. induction pre; simpl in S.
    + inversion S; subst. inversion H2; subst. auto.
    + inversion S; auto.
Qed.

(* ---- one solver step per interval ------------------------------------------------------- *)
Fixpoint intervals (l : list R) : list (R * R) :=
  match l with
  | a :: t => match t with b :: _ => (a, b - a) :: intervals t | [] => [] end
  | [] => []
  end.

Lemma intervals_length l : length (intervals l) = (length l - 1)%nat.
Proof.
  induction l as [|a t IH]; [reflexivity|]. destruct t as [|b t']; [reflexivity|].
  change (intervals (a :: b :: t')) with ((a, b - a) :: intervals (b :: t')).
  simpl length in *. rewrite IH. lia.
Qed.

Lemma nth_error_mid (pre : list R) cur suf :
  nth_error (pre ++ cur :: suf) (S (length pre)) = nth_error suf 0.
Proof.
  rewrite nth_error_app2 by lia. replace (S (length pre) - length pre)%nat with 1%nat by lia.
  reflexivity.
Qed.

Lemma loop_S tolb tt obs dflt T tolp rel n step cur st :
  loop RA tolb tt obs dflt T tolp rel (S n) step cur st =
  match nth_error tt (S step) with
  | None => Err 30%Z
  | Some t1 =>
      res_bind (apply_obs RA tolb dflt tolp (t1 / T) (S step) obs (r_recs st)) (fun recs =>
      res_bind (if in_times RA (t1 / T) rel tolp then store RA (r_stat st) (t1 / T) (S step)
                else Ok (r_stat st))
        (fun sts => loop RA tolb tt obs dflt T tolp rel n (S step) t1
                      (MkR recs sts ((cur, t1 - cur) :: r_steps st))))
  end.
Proof. reflexivity. Qed.

Lemma loop_steps tolb obs dflt T tolp rel : forall n pre cur suf st st',
  loop RA tolb (pre ++ cur :: suf) obs dflt T tolp rel n (length pre) cur st = Ok st' ->
  (n <= length suf)%nat /\
  rev (r_steps st') = rev (r_steps st) ++ intervals (cur :: firstn n suf).
Proof.
  induction n as [|n IH]; intros pre cur suf st st' H.
  - simpl in H. inversion H; subst. simpl. rewrite app_nil_r. split; [lia|reflexivity].
  - rewrite loop_S, nth_error_mid in H. destruct suf as [|t1 suf']; [discriminate|].
    simpl nth_error in H; cbv beta iota in H.
    destruct (apply_obs RA tolb dflt tolp (t1 / T) (S (length pre)) obs (r_recs st)) as [recs| |];
      simpl in H; try discriminate.
    match type of H with context [if ?c then _ else _] => destruct c end.
    + destruct (store RA (r_stat st) (t1 / T) (S (length pre))) as [sts| |]; simpl in H; try discriminate.
      replace (pre ++ cur :: t1 :: suf') with ((pre ++ [cur]) ++ t1 :: suf') in H
        by (rewrite <- app_assoc; reflexivity).
      replace (S (length pre)) with (length (pre ++ [cur])) in H by (rewrite app_length; simpl; lia).
      apply IH in H. destruct H as [Hn Hs]. split; [simpl; lia|].
      rewrite Hs. simpl r_steps. simpl rev. rewrite <- app_assoc. reflexivity.
    + simpl in H.
      replace (pre ++ cur :: t1 :: suf') with ((pre ++ [cur]) ++ t1 :: suf') in H
        by (rewrite <- app_assoc; reflexivity).
      replace (S (length pre)) with (length (pre ++ [cur])) in H by (rewrite app_length; simpl; lia).
      apply IH in H. destruct H as [Hn Hs]. split; [simpl; lia|].
      rewrite Hs. simpl r_steps. simpl rev. rewrite <- app_assoc. reflexivity.
Qed.

(* A run that completes on a grid starting at 0 (any backend flavour) with one row of drive
   samples per interval performed exactly the steps (t_k, t_{k+1} - t_k), in order. *)
Theorem run_steps tolb tol0 tolu mps tt obs dflt st :
  hd_error tt = Some 0 ->
  run RA R_floor tolb tol0 tolu mps tt (length tt - 1) obs dflt = Ok st ->
  rev (r_steps st) = intervals tt /\ length (r_steps st) = (length tt - 1)%nat.
Proof.
  intros Hhd H. destruct tt as [|t0 suf]; [discriminate|]. simpl in Hhd. inversion Hhd; subst.
  assert (rev (r_steps st) = intervals (0 :: suf)).
  { assert (Hc : (if mps then zero RA else 0) = 0) by (destruct mps; reflexivity).
    unfold run in H. cbv zeta in H. rewrite Hc in H. clear Hc.
    destruct (R_floor (last (0 :: suf) (zero RA))) as [td|]; [|discriminate].
    match type of H with res_bind ?v _ = _ => destruct v as [u| |] end; try discriminate.
    cbv beta iota delta [res_bind] in H.
    match type of H with match ?v with _ => _ end = _ => destruct v as [recs| |] end; try discriminate.
    change (0 :: suf) with ([] ++ 0 :: suf) in H at 1.
    change 0%nat with (@length R []) in H.
    apply loop_steps in H. destruct H as [_ H]. simpl in H.
    replace (length suf - 0)%nat with (length suf) in H by lia.
    rewrite firstn_all in H. exact H. }
  split; [assumption|]. rewrite <- rev_length, H0. apply intervals_length.
Qed.

(* ---- trajectories: reps consecutive copies per trajectory -------------------------------- *)
Lemma get_sequences_length (T : Type) (samples : list (T * nat)) :
  length (get_sequences samples) = fold_right (fun s acc => (snd s + acc)%nat) 0%nat samples.
Proof.
  induction samples as [|s r IH]; simpl; [reflexivity|].
  unfold get_sequences in *. simpl. rewrite app_length, repeat_length, IH. reflexivity.
Qed.

Lemma get_sequences_count (T : Type) (eq_dec : forall a b : T, {a = b} + {a <> b})
      (samples : list (T * nat)) (x : T) :
  count_occ eq_dec (get_sequences samples) x =
  fold_right (fun s acc => ((if eq_dec (fst s) x then snd s else 0) + acc)%nat) 0%nat samples.
Proof.
  induction samples as [|s r IH]; simpl; [reflexivity|].
  unfold get_sequences in *. simpl. rewrite count_occ_app, IH. f_equal.
  destruct s as [t k]. simpl. induction k; simpl.
  - destruct (eq_dec t x); reflexivity.
  - destruct (eq_dec t x); simpl; rewrite IHk; destruct (eq_dec t x); congruence.
Qed.


(* ---- binary64: the former witness of finding F-08 now passes (regression) ------------------ *)
Section FloatWitness.
Import PrimFloat.
Local Open Scope float_scope.
Definition w_tolb := 0x1.b7cdfd9d7bdbbp-34.   (* 1e-10 *)
Definition w_tol0 := 0x1.0c6f7a0b5ed8dp-20.   (* 1e-6  *)
Definition w_tolu := 0x1.19799812dea11p-40.   (* 1e-12 *)
Definition w08_dur := 10.
Definition w08_dt := 0x1.999999999999ap-4.     (* 0.1  *)
Definition w08_ts := [0x1.eb851eb851eb8p-6; 1]. (* 0.03, 1.0 *)

Lemma f08_witness_merged_float :
  exists g,
    get_target_times float_arith float_floor w_tolu w08_dur w08_dt [Some w08_ts] (Some [1]) = Ok g /\
    length g = 101%nat /\
    PrimFloat.ltb (min_rel_gap w08_dur g 1) w_tolu = false /\
    (forall mps, exists st,
       run float_arith float_floor w_tolb w_tol0 w_tolu mps g (length g - 1)
           [Some w08_ts] (Some [1]) = Ok st /\
       map fst (rev (nth 0 (r_recs st) [])) = w08_ts).
Proof.
  eexists. split; [vm_compute; reflexivity|]. split; [vm_compute; reflexivity|].
  split; [vm_compute; reflexivity|].
  intros [|]; eexists; (split; [vm_compute; reflexivity|vm_compute; reflexivity]).
Qed.
End FloatWitness.

Example grid_spec_premises_satisfiable :
  exists dur dt obs dflt, 0 < dur /\ 0 < dt /\
    (forall t, requested_by obs dflt t -> 0 <= t <= 1) /\
    (dflt = None -> Forall (fun o => o <> None) obs) /\ requested_by obs dflt (1/2).
Proof.
  exists 10, 3, [Some [1/2]; None], (Some [1]). repeat split; try lra.
  - destruct H as (o & [<-|[<-|[]]] & Hm); simpl in Hm; destruct Hm as [<-|[]]; lra.
  - destruct H as (o & [<-|[<-|[]]] & Hm); simpl in Hm; destruct Hm as [<-|[]]; lra.
  - discriminate.
  - exists (Some [1/2]). split; [now left|now left].
Qed.
