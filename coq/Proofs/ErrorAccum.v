(* Accumulation of per-step errors along a product of isometries (formalism F6 of DESIGN.md):
   an abstract (pseudo-)normed space over R given by a distance and a norm.  Used by C01: the state
   computed by n approximate steps stays within an explicit bound of the exact product. *)
From Coq Require Import Reals List Lra.
Import ListNotations.
Open Scope R_scope.

Section ErrorAccum.
Variable V : Type.
Variable d : V -> V -> R.          (* distance, d a b = |a - b| *)
Variable nrm : V -> R.             (* norm *)
Hypothesis d_tri : forall a b c, d a c <= d a b + d b c.
Hypothesis nrm_tri : forall a b, nrm a <= nrm b + d a b.
Hypothesis nrm_pos : forall a, 0 <= nrm a.

Definition apply_all (fs : list (V -> V)) (v : V) : V := fold_left (fun s f => f s) fs v.

(* one step: the map actually applied, the exact propagator, the relative error of the former *)
Definition good_step (x : (V -> V) * (V -> V) * R) : Prop :=
  0 <= snd x /\
  (forall v, d (fst (fst x) v) (snd (fst x) v) <= snd x * nrm v) /\
  (forall a b, d (snd (fst x) a) (snd (fst x) b) <= d a b) /\
  (forall a, nrm (snd (fst x) a) = nrm a).

(* b_{k+1} = eps_k N + (1 + eps_k) b_k *)
Fixpoint bound (N : R) (eps : list R) (b : R) : R :=
  match eps with [] => b | e :: r => bound N r (e * N + (1 + e) * b) end.

Fixpoint prod1 (eps : list R) : R :=
  match eps with [] => 1 | e :: r => (1 + e) * prod1 r end.

Lemma bound_closed : forall eps N b, bound N eps b = N * (prod1 eps - 1) + prod1 eps * b.
Proof. induction eps; intros; simpl; [ring|]. rewrite IHeps. ring. Qed.

Theorem error_accumulation : forall (steps : list ((V -> V) * (V -> V) * R)) (phi psi : V) (b : R),
  Forall good_step steps -> 0 <= b -> d phi psi <= b ->
  d (apply_all (map (fun x => fst (fst x)) steps) phi) (apply_all (map (fun x => snd (fst x)) steps) psi)
  <= bound (nrm psi) (map (@snd _ _) steps) b.
Proof.
  induction steps as [|[[S E] e] r IH]; intros phi psi b G Hb Hd; simpl.
  - exact Hd.
  - inversion G as [|x l [He [Hs [Hi Hn]]] Gr]; subst. simpl in *.
    rewrite <- (Hn psi). apply IH; [exact Gr| |].
    + rewrite (Hn psi). pose proof (nrm_pos psi).
      assert (0 <= e * nrm psi) by (apply Rmult_le_pos; lra).
      assert (0 <= e * b) by (apply Rmult_le_pos; lra). lra.
    + rewrite (Hn psi).
      pose proof (d_tri (S phi) (E phi) (E psi)) as T.
      pose proof (Hs phi) as H1. pose proof (Hi phi psi) as H2. pose proof (nrm_tri phi psi) as H3.
      assert (e * nrm phi <= e * (nrm psi + b)) by (apply Rmult_le_compat_l; lra).
      lra.
Qed.

(* explicit form: N (prod (1 + eps_k) - 1) when the runs start from the same vector *)
Corollary error_accumulation_closed : forall steps phi,
  Forall good_step steps -> d phi phi <= 0 ->
  d (apply_all (map (fun x => fst (fst x)) steps) phi) (apply_all (map (fun x => snd (fst x)) steps) phi)
  <= nrm phi * (prod1 (map (@snd _ _) steps) - 1).
Proof.
  intros steps phi G H0.
  pose proof (error_accumulation steps phi phi 0 G (Rle_refl 0) H0) as H.
  rewrite bound_closed in H. lra.
Qed.
End ErrorAccum.

(* the premises are satisfiable: V = R, exact step = negation (an isometry), actual step = -(1+e) v *)
Example error_accumulation_instance :
  Rabs (apply_all R [fun v => - (1 + / 4) * v; fun v => - (1 + / 8) * v] 1 -
        apply_all R [fun v => - v; fun v => - v] 1) <= Rabs 1 * (prod1 [/ 4; / 8] - 1).
Proof.
  pose proof (error_accumulation_closed R (fun a b => Rabs (a - b)) Rabs) as H.
  assert (T0 : forall a b c, Rabs (a - c) <= Rabs (a - b) + Rabs (b - c)).
  { intros. replace (a - c) with ((a - b) + (b - c)) by ring. apply Rabs_triang. }
  specialize (H T0).
  assert (T : forall a b, Rabs a <= Rabs b + Rabs (a - b)).
  { intros. replace a with (b + (a - b)) at 1 by ring. apply Rabs_triang. }
  specialize (H T Rabs_pos
    [((fun v => - (1 + / 4) * v), (fun v => - v), / 4); ((fun v => - (1 + / 8) * v), (fun v => - v), / 8)] 1).
  simpl in H. apply H.
  - constructor; [|constructor; [|constructor]]; unfold good_step; simpl; (split; [lra|split; [|split]]); intros.
    + replace (- (1 + / 4) * v - - v) with (- (/ 4 * v)) by field.
      rewrite Rabs_Ropp, Rabs_mult, (Rabs_right (/ 4)); lra.
    + replace (- a - - b) with (- (a - b)) by ring. rewrite Rabs_Ropp. lra.
    + apply Rabs_Ropp.
    + replace (- (1 + / 8) * v - - v) with (- (/ 8 * v)) by field.
      rewrite Rabs_Ropp, Rabs_mult, (Rabs_right (/ 8)); lra.
    + replace (- a - - b) with (- (a - b)) by ring. rewrite Rabs_Ropp. lra.
    + apply Rabs_Ropp.
  - replace (1 - 1) with 0 by ring. rewrite Rabs_R0. lra.
Qed.
