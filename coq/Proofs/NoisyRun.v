(* Invariant proofs for the noisy (quantum-jump) emu-mps stepping machine; see Properties/C18.v. *)
From Coq Require Import ZArith List Bool Lia Reals Lra.
From EV Require Import Base.Arith Gen.Brent Model.BrentLoop Model.MpsMachine Proofs.BrentProofs
  Proofs.MpsStep Proofs.MpsPhase Proofs.MpsSweep.
From EV Require Import Proofs.MpsSweepComplete Proofs.NoisyInv Proofs.NoisyBranches Proofs.NoisyComplete Proofs.NoisySweep.
Import ListNotations.
Open Scope Z_scope.

Ltac sp := cbn [m_kind m_N m_steps m_times m_sweep m_l2r m_tidx m_cur m_tgt m_nl m_nr m_oc m_thr m_gap m_rf
  m_prevE m_curE m_sweeps m_etol m_maxsw o_norm o_unif o_energy o_same m_ev
  emit set_sweep set_l2r set_tidx set_cur set_tgt set_nl set_nr set_oc set_thr set_gap set_rf set_prevE
  set_curE set_sweeps set_onorm set_ounif set_oenergy set_osame].

(* chronological record of fill_results calls expected after k completed time steps *)
Definition fills_upto (s : ms) (k : nat) : list (Z * R) :=
  map (fun i => (Z.of_nat i, tm s (Z.of_nat i + 1))) (seq 0 k).

Definition fills_ok (s : ms) : Prop :=
  flat_map fill_of (rev (m_ev s)) = (0, 0%R) :: fills_upto s (Z.to_nat (m_tidx s)).

Definition in_some_step (s : ms) (t : R) : Prop :=
  exists k, 0 <= k < m_steps s /\ (tm s k <= t <= tm s (k + 1))%R.

Definition jumps_ok (s : ms) : Prop := Forall (in_some_step s) (flat_map jump_of (rev (m_ev s))).

Definition RunInv (n : nat) (s : ms) : Prop :=
  wf s /\ m_N s = Z.of_nat n + 3 /\ sweep_start R s /\ 0 <= m_tidx s <= m_steps s /\
  (is_finished s = true \/ tinv s) /\ fills_ok s /\ jumps_ok s.

Lemma flat_map_rev_le1 {X Y} (f : X -> list Y) (l : list X) :
  (length (flat_map f l) <= 1)%nat -> flat_map f (rev l) = flat_map f l.
Proof.
  induction l as [|a l IH]; [reflexivity|]. cbn [flat_map rev]. rewrite app_length. intros H.
  rewrite flat_map_app'. cbn [flat_map]. rewrite app_nil_r, IH by lia.
  destruct (f a) as [|y [|y' fa]]; cbn [length] in H.
  - rewrite app_nil_r. reflexivity.
  - destruct (flat_map f l); [reflexivity| cbn [length] in H; lia].
  - lia.
Qed.

Lemma Forall_flat_map_rev {X Y} (P : Y -> Prop) (f : X -> list Y) (l : list X) :
  Forall P (flat_map f l) -> Forall P (flat_map f (rev l)).
Proof.
  induction l as [|a l IH]; [auto|]. cbn [flat_map rev]. intros H. apply Forall_app in H as [H1 H2].
  rewrite flat_map_app'. cbn [flat_map]. rewrite app_nil_r. apply Forall_app. split; auto.
Qed.

Lemma finished_progress (s : ms) : m_kind s = Noisy -> is_finished s = true -> progress ar s = Ok s.
Proof. intros Hk Hf. unfold progress. rewrite Hk. unfold progress_tdvp. rewrite Hf. reflexivity. Qed.

Lemma finished_iter (s : ms) k : m_kind s = Noisy -> is_finished s = true -> iter_progress ar k s = Ok s.
Proof.
  intros Hk Hf. induction k as [|k IH]; [reflexivity|]. cbn [iter_progress].
  rewrite (finished_progress s Hk Hf). cbn [res_bind]. exact IH.
Qed.

Lemma tm_eq (s s' : ms) : m_times s' = m_times s -> forall k, tm s' k = tm s k.
Proof. intros H k. unfold tm. rewrite H. reflexivity. Qed.

(* one sweep preserves the run invariant *)
Lemma run_inv_sweep (n : nat) (s : ms) :
  RunInv n s ->
  match iter_progress ar (Datatypes.S n + 1 + n + 1) s with
  | Ok s' => RunInv n s'
  | Err m => allowed_err m
  | OutOfFuel => False
  end.
Proof.
  intros (Hwf & HN & HS & Htr & Hfin & Hfl & Hj).
  destruct Hfin as [Hf|Hti].
  { rewrite (finished_iter s _ (proj1 Hwf) Hf). unfold RunInv.
    split; [exact Hwf|]. split; [exact HN|]. split; [exact HS|]. split; [exact Htr|].
    split; [left; exact Hf|]. split; assumption. }
  pose proof (noisy_sweep_inv s n Hwf HN HS Hti) as H.
  destruct (iter_progress ar (Datatypes.S n + 1 + n + 1) s) as [s'| m |]; [|exact H|exact H].
  destruct H as (Hwf' & HN' & Hst & Htm & HS' & Hfin' & (new & Ev & Jn & Fl)).
  pose proof (tm_eq s s' Htm) as T.
  destruct Hti as (Ht & _ & _).
  unfold RunInv. split; [exact Hwf'|]. split; [rewrite HN'; exact HN|]. split; [exact HS'|].
  assert (Hlen1 : (length (flat_map fill_of new) <= 1)%nat) by (destruct Fl as [[_ ->]|[_ ->]]; cbn; lia).
  split; [destruct Fl as [[-> _]|[-> _]]; rewrite Hst; lia|].
  split; [exact Hfin'|]. split.
  - unfold fills_ok in *. rewrite Ev, rev_app_distr, flat_map_app', Hfl, (flat_map_rev_le1 _ _ Hlen1).
    destruct Fl as [[-> ->]|[-> ->]].
    + rewrite app_nil_r. unfold fills_upto. f_equal. apply map_ext. intros i. rewrite T. reflexivity.
    + replace (Z.to_nat (m_tidx s + 1)) with (Datatypes.S (Z.to_nat (m_tidx s))) by lia.
      unfold fills_upto. rewrite seq_S, map_app. cbn [map app Nat.add].
      rewrite Z2Nat.id by lia. f_equal. f_equal; [apply map_ext; intros i; rewrite T; reflexivity|].
      rewrite T. reflexivity.
  - unfold jumps_ok in *. rewrite Ev, rev_app_distr, flat_map_app'. apply Forall_app. split.
    + eapply Forall_impl; [|exact Hj]. intros t (k & Hk & Hb). exists k. rewrite Hst, !T. split; assumption.
    + apply Forall_flat_map_rev. eapply Forall_impl; [|exact Jn]. intros t Hb.
      exists (m_tidx s). rewrite Hst, !T. split; [lia| exact Hb].
Qed.

(* any number of sweeps *)
Theorem noisy_run_inv (n : nat) : forall (m : nat) (s : ms),
  RunInv n s ->
  match iter_progress ar (m * (Datatypes.S n + 1 + n + 1)) s with
  | Ok s' => RunInv n s'
  | Err e => allowed_err e
  | OutOfFuel => False
  end.
Proof.
  induction m as [|m IH]; intros s HR; [exact HR|].
  cbn [Nat.mul]. rewrite iter_progress_app.
  pose proof (run_inv_sweep n s HR) as H1.
  destruct (iter_progress ar (Datatypes.S n + 1 + n + 1) s) as [s1| e |]; cbn [res_bind]; [|exact H1|exact H1].
  apply IH. exact H1.
Qed.

(* what the invariant says once the run is finished: every time step was recorded exactly once, in
   order, at its end time, and every quantum jump happened inside some time step *)
Corollary finished_run_fills (n : nat) (s : ms) :
  RunInv n s -> is_finished s = true ->
  flat_map fill_of (rev (m_ev s)) = (0, 0%R) :: fills_upto s (Z.to_nat (m_steps s)) /\ jumps_ok s.
Proof.
  intros (Hwf & _ & _ & Htr & _ & Hfl & Hj) Hf. unfold is_finished in Hf. apply Z.leb_le in Hf.
  replace (m_steps s) with (m_tidx s) by lia. split; assumption.
Qed.

(* ---- from the constructor ------------------------------------------------------------------ *)
Definition tmL (l : list R) (k : Z) : R := match nthZ l k with Some t => t | None => 0%R end.

Lemma noisy_init (n : nat) (t1 : R) (rest : list R) etol maxsw onorm ounif oenergy osame :
  (forall k, 0 <= k < 1 + Z.of_nat (length rest) ->
             (tmL (0%R :: t1 :: rest) k < tmL (0%R :: t1 :: rest) (k + 1))%R) ->
  match mk_initial ar Noisy (Z.of_nat n + 3) (1 + Z.of_nat (length rest)) (0%R :: t1 :: rest) etol maxsw
                   onorm ounif oenergy osame with
  | Ok s0 => RunInv n s0
  | Err e => e = E_ORACLE
  | OutOfFuel => False
  end.
Proof.
  intros Hs. unfold mk_initial. cbn [nthZ Z.ltb Z.compare Z.to_nat nth_error].
  replace (Z.of_nat n + 3 <? 2) with false by (symmetry; apply Z.ltb_ge; lia).
  unfold query_U, init_baths. sp.
  replace (Z.max 1 (Z.of_nat n + 3 - 1)) with (Z.of_nat n + 3 - 1) by lia.
  replace (Z.of_nat n + 3 - 1 =? Z.of_nat n + 3 - 1) with true by (symmetry; apply Z.eqb_eq; lia).
  cbn [negb res_bind]. unfold set_jump_threshold, take_unif, take_norm. sp.
  destruct ounif as [|u ru]; cbn [res_bind]; [reflexivity|]. sp.
  destruct onorm as [|nn rn]; cbn [res_bind]; [reflexivity|]. sp.
  match goal with |- match ?X with _ => _ end => set (s0 := X) end.
  assert (Q : exists st, s0 = Ok st /\ m_kind st = Noisy /\ m_N st = Z.of_nat n + 3 /\
                m_steps st = 1 + Z.of_nat (length rest) /\ m_times st = 0%R :: t1 :: rest /\
                m_sweep st = 0 /\ m_l2r st = true /\ m_nl st = 1 /\ m_nr st = Z.of_nat n + 3 - 1 /\ m_oc st = 0 /\
                m_tidx st = 0 /\ m_cur st = 0%R /\ m_tgt st = t1 /\ m_rf st = None /\
                m_ev st = [EvInitBaths R; EvUpdateH R 0 true; EvFill 0 0%R; EvUpdateH R 0 false; EvMakeH R;
                           EvQueryU (midpoint ar 0%R t1)]).
  { eexists. split; [reflexivity|]. sp. repeat split; reflexivity. }
  destruct Q as (st & -> & Qk & QN & Qst & Qti & Qsw & Ql & Qnl & Qnr & Qoc & Qtx & Qcur & Qtg & Qrf & Qev).

  assert (T : forall k, tm st k = tmL (0%R :: t1 :: rest) k) by (intros k; unfold tm, tmL; rewrite Qti; reflexivity).
  assert (H0 := Hs 0 ltac:(lia)). unfold tmL in H0. cbn in H0.
  unfold RunInv. split.
  { unfold wf. rewrite Qk, QN, Qst, Qti. split; [reflexivity|]. split; [lia|]. split; [cbn [length]; lia|].
    intros k Hk. rewrite !T. apply (Hs k Hk). }
  split; [exact QN|].
  split; [unfold sweep_start, pos; rewrite Qsw, Ql, Qnl, Qnr, Qoc, QN; repeat split; reflexivity|].
  split; [rewrite Qtx, Qst; lia|].
  split.
  { right. unfold tinv, rfinv. rewrite Qtx, Qst, Qcur, Qrf, Qtg, !T. split; [lia|].
    unfold tmL. cbn. split; [lra| reflexivity]. }
  split.
  { unfold fills_ok. rewrite Qev, Qtx. reflexivity. }
  unfold jumps_ok. rewrite Qev. cbn. constructor.
Qed.

(* API level: a noisy run on N = n+3 sites over target times 0 < t1 < ... : whatever the norm /
   random / matrix-change oracle streams, after any number of sweeps the run invariant holds or the
   run stopped with one of three explicit errors (an oracle stream ran out; the root-finder constructor
   was handed a norm gap that is exactly zero; the renormalised state's norm was not 1). *)
Theorem noisy_whole_run (n : nat) (t1 : R) (rest : list R) etol maxsw onorm ounif oenergy osame (m : nat) :
  (forall k, 0 <= k < 1 + Z.of_nat (length rest) ->
             (tmL (0%R :: t1 :: rest) k < tmL (0%R :: t1 :: rest) (k + 1))%R) ->
  match mk_initial ar Noisy (Z.of_nat n + 3) (1 + Z.of_nat (length rest)) (0%R :: t1 :: rest) etol maxsw
                   onorm ounif oenergy osame with
  | Ok s0 =>
      match iter_progress ar (m * (2 * n + 3)) s0 with
      | Ok s' => RunInv n s'
      | Err e => allowed_err e
      | OutOfFuel => False
      end
  | Err e => e = E_ORACLE
  | OutOfFuel => False
  end.
Proof.
  intros Hs. pose proof (noisy_init n t1 rest etol maxsw onorm ounif oenergy osame Hs) as Hi.
  destruct (mk_initial ar Noisy _ _ _ _ _ _ _ _ _) as [s0| e |]; [|exact Hi|exact Hi].
  replace (2 * n + 3)%nat with (Datatypes.S n + 1 + n + 1)%nat by lia.
  apply noisy_run_inv. exact Hi.
Qed.
