(* C29: time reversal.  Negating the phases alone conjugates H (PhaseSymProofs.phase_negation_conjugate); together with
   delta -> -delta and U -> -U it gives  H' = - conj H(phi + pi), so exp(-i H' t) = conj (exp(-i H(phi+pi) t)): the evolved
   state is the complex conjugate of the state of the pi-shifted (equivalent) sequence, weights equal, energy negated. *)
From Coq Require Import List Arith Bool Lia Ring.
From EV Require Import Model.SvBase Model.SvHam Model.PhaseSym Proofs.SvBaseProofs Proofs.SvHamProofs Proofs.BitIndex
  Proofs.PhaseSymProofs.
Import ListNotations.

Section TimeRev.
Variable o : Kops.
Hypothesis laws : Klaws o.
Add Ring Kr29c : (K_ring o laws).
Open Scope K_scope.
Notation zero := (k0 o).
Notation one := (k1 o).
Notation cj := (kconj o).

Definition neg_l (l : list o) : list o := map (kopp o) l.
Definition negU (U : list (list o)) : list (list o) := map neg_l U.

Lemma get_neg_l (l : list o) n : get (neg_l l) n = - get l n.
Proof.
  unfold neg_l. destruct (Nat.lt_ge_cases n (length l)).
  - apply (get_map o). assumption.
  - rewrite !(get_overflow o) by (rewrite ?map_length; assumption). ring.
Qed.

Lemma getU_negU U i j : getU o (negU U) i j = - getU o U i j.
Proof.
  unfold getU, negU. destruct (Nat.lt_ge_cases i (length U)).
  - rewrite (nth_indep _ [] (neg_l [])) by (rewrite map_length; assumption). rewrite map_nth. apply get_neg_l.
  - rewrite !(nth_overflow _ []) by (rewrite ?map_length; assumption).
    rewrite !(get_overflow o) by (simpl; lia). ring.
Qed.

Lemma ksum_opp {A} (l : list A) (f : A -> o) : ksum l (fun a => - f a) = - ksum l f.
Proof.
  rewrite (ksum_ext o l _ (fun a => (- one) * f a)) by (intros; ring).
  rewrite (ksum_mul_l o laws). ring.
Qed.

Lemma kif_opp b (x : o) : kif b (- x) = - kif b x.
Proof. destruct b; simpl; ring. Qed.

Lemma Uint_negU N U k : Uint o N (negU U) k = - Uint o N U k.
Proof.
  unfold Uint, ksumn. rewrite <- ksum_opp. apply (ksum_ext o). intros i _.
  rewrite <- ksum_opp. apply (ksum_ext o). intros j _. rewrite getU_negU. apply kif_opp.
Qed.

Lemma H_all_negated N omega delta e U k k' :
  Hdense o N (ham_site o omega (neg_l delta) e) (Uint o N (negU U)) k k' =
  - Hdense o N (ham_site o omega delta (neg_l e)) (Uint o N U) k k'.
Proof.
  unfold Hdense. rewrite Uint_negU, kif_opp.
  transitivity (- kif (k =? k') (Uint o N U k) + - ksumn N (fun n => site o N n (ham_site o omega delta (neg_l e) n) k k')); [|ring].
  f_equal. unfold ksumn. rewrite <- ksum_opp. apply (ksum_ext o). intros n _.
  unfold site. rewrite <- kif_opp. f_equal.
  unfold ham_site, hop. rewrite !get_neg_l.
  pose proof (bit_lt N n k) as B. pose proof (bit_lt N n k') as B'.
  destruct (bit N n k) as [|[|?]]; [| |lia]; destruct (bit N n k') as [|[|?]]; try lia; cbn [m2].
  - ring.
  - rewrite <- (conj_opp o laws). f_equal. ring.
  - ring.
  - ring.
Qed.

Lemma minus_one_unit : (- one) * cj (- one) = one.
Proof. rewrite (conj_opp o laws), (conj_1 o laws). ring. Qed.

Theorem time_reversal N omega delta e U :
  (forall n, cj (get omega n) = get omega n) -> (forall n, cj (get delta n) = get delta n) ->
  (forall i j, cj (getU o U i j) = getU o U i j) ->
  forall k k',
  Hdense o N (ham_site o omega (neg_l delta) (conj_e o e)) (Uint o N (negU U)) k k' =
  - cj (Hdense o N (ham_site o omega delta (shift_e o (- one) e)) (Uint o N U) k k').
Proof.
  intros Ho Hd HU k k'. rewrite H_all_negated.
  rewrite <- (phase_negation_conjugate o laws N omega delta (shift_e o (- one) e) U Ho Hd HU).
  f_equal. unfold Hdense. f_equal. apply (ksumn_ext o). intros n _. unfold site. f_equal.
  unfold ham_site. rewrite get_neg_l, !(get_conj_e o laws), (get_shift_e o laws).
  replace (- cj (get e n)) with (cj (get e n * - one)); [reflexivity|].
  rewrite (conj_mul o laws), (conj_opp o laws), (conj_1 o laws). ring.
Qed.
End TimeRev.
