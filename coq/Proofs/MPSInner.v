(* inner_spec: the left-to-right transfer contraction of MPS.inner equals sum_b conj(amp A b) * amp B b,
   for every commutative ring with a ring involution. *)
From Coq Require Import List Arith Lia Ring Bool ZArith.
From EV Require Import Model.TransferMat Model.MPSAlg Proofs.TransferMat Proofs.MPSAlg.
Import ListNotations.

Section InnerProofs.
Variable K : Type.
Variable Ko : RingOps K.
Hypothesis Kring : ring_theory (k0 Ko) (k1 Ko) (kadd Ko) (kmul Ko) (ksub Ko) (kopp Ko) (@eq K).
Hypothesis conj_add : forall a b, kconj Ko (kadd Ko a b) = kadd Ko (kconj Ko a) (kconj Ko b).
Hypothesis conj_mul : forall a b, kconj Ko (kmul Ko a b) = kmul Ko (kconj Ko a) (kconj Ko b).
Hypothesis conj_zero : kconj Ko (k0 Ko) = k0 Ko.
Hypothesis conj_one : kconj Ko (k1 Ko) = k1 Ko.
Add Ring KRing3 : Kring.
Local Notation "'zero'" := (k0 Ko).
Local Notation "'one'" := (k1 Ko).
Local Infix "[+]" := (kadd Ko) (at level 50, left associativity).
Local Infix "[*]" := (kmul Ko) (at level 40, left associativity).
Local Notation sumn := (sumn Ko).
Local Notation sumL := (sumL Ko).
Local Notation dotf := (dotf Ko).
Local Notation vstep := (vstep Ko).
Local Notation ampv := (ampv Ko).
Local Notation amp := (amp Ko).
Local Notation cj := (kconj Ko).
Local Notation T3 := (T3 K).
Local Notation sumn_ext := (sumn_ext K Ko).
Local Notation sumn_swap := (sumn_swap K Ko Kring).

(* amplitude seen from the right: ramp Ts b l = entry l of (product of the bond matrices) *)
Fixpoint ramp (Ts : list T3) (b : list nat) (l : nat) : K :=
  match Ts, b with
  | [], _ => one
  | T :: Ts', s :: b' => sumn (dr T) (fun r => tf T l s r [*] ramp Ts' b' r)
  | _ :: _, [] => zero
  end.

(* right environment of the inner-product network *)
Fixpoint renv (As Bs : list T3) (a l : nat) : K :=
  match As, Bs with
  | [], [] => one
  | A :: As', B :: Bs' =>
      sumn (dp A) (fun s => sumn (dr A) (fun a' => sumn (dr B) (fun r =>
        cj (tf A a s a') [*] tf B l s r [*] renv As' Bs' a' r)))
  | _, _ => zero
  end.

Lemma dotf_map_seq : forall n (h g : nat -> K),
  dotf (map h (seq 0 n)) g = sumn n (fun r => h r [*] g r).
Proof.
  induction n; intros h g; [reflexivity|].
  rewrite seq_S, map_app, (dotf_app K Ko Kring). rewrite IHn. simpl.
  rewrite map_length, seq_length, Nat.add_0_r. ring.
Qed.

Lemma dotf_scale_both v : forall c e (f : nat -> K),
  dotf v (fun l => c [*] f l [*] e) = c [*] dotf v f [*] e.
Proof. induction v; simpl; intros c e f; [ring|]. rewrite IHv. ring. Qed.

Lemma dotf_scale_rr v : forall e (f : nat -> K), dotf v (fun l => f l [*] e) = dotf v f [*] e.
Proof. induction v; simpl; intros e f; [ring|]. rewrite IHv. ring. Qed.

Lemma nth_map_seq (X : Type) (F : nat -> X) d : forall n i, i < n -> nth i (map F (seq 0 n)) d = F i.
Proof.
  intros n i H. rewrite (nth_indep _ d (F 0)) by (rewrite map_length, seq_length; assumption).
  rewrite map_nth. rewrite seq_nth by assumption. reflexivity.
Qed.

Lemma conj_sumn n (f : nat -> K) : cj (sumn n f) = sumn n (fun i => cj (f i)).
Proof. induction n; simpl; [apply conj_zero|]. rewrite conj_add, IHn. reflexivity. Qed.

Lemma sumn_mul_sumn n m (f g : nat -> K) :
  sumn n f [*] sumn m g = sumn n (fun i => sumn m (fun j => f i [*] g j)).
Proof.
  rewrite <- (sumn_scale_r K Ko Kring). apply sumn_ext. intros i _.
  rewrite (sumn_scale K Ko Kring). reflexivity.
Qed.

Lemma sumn_reorder4 n1 n2 n3 n4 (f : nat -> nat -> nat -> nat -> K) :
  sumn n1 (fun i => sumn n2 (fun j => sumn n3 (fun k => sumn n4 (fun l => f i j k l)))) =
  sumn n3 (fun k => sumn n4 (fun l => sumn n1 (fun i => sumn n2 (fun j => f i j k l)))).
Proof.
  transitivity (sumn n1 (fun i => sumn n3 (fun k => sumn n2 (fun j => sumn n4 (fun l => f i j k l))))).
  { apply sumn_ext; intros i _. apply (sumn_swap n2 n3 (fun j k => sumn n4 (fun l => f i j k l))). }
  transitivity (sumn n3 (fun k => sumn n1 (fun i => sumn n2 (fun j => sumn n4 (fun l => f i j k l))))).
  { apply (sumn_swap n1 n3 (fun i k => sumn n2 (fun j => sumn n4 (fun l => f i j k l)))). }
  apply sumn_ext; intros k _.
  transitivity (sumn n1 (fun i => sumn n4 (fun l => sumn n2 (fun j => f i j k l)))).
  { apply sumn_ext; intros i _. apply (sumn_swap n2 n4 (fun j l => f i j k l)). }
  apply (sumn_swap n1 n4 (fun i l => sumn n2 (fun j => f i j k l))).
Qed.

(* ---- left-to-right amplitude = boundary vector against the right amplitude ---- *)
Lemma ampv_ramp : forall Ts v b x, ampv v Ts b = Some x -> x = dotf v (ramp Ts b).
Proof.
  induction Ts as [|T Ts IH]; intros v b x H.
  - destruct (ampv_nil_inv K Ko _ _ _ H) as (-> & ->). simpl. ring.
  - destruct (ampv_cons_inv K Ko _ _ _ _ _ H) as (s & b' & -> & L & Hs & H').
    rewrite (IH _ _ _ H'). unfold TransferMat.vstep. rewrite dotf_map_seq. simpl.
    rewrite (dotf_sumn_r K Ko Kring). apply sumn_ext. intros r _.
    rewrite dotf_scale_rr. reflexivity.
Qed.

Lemma amp_ramp : forall Ts b x, amp Ts b = Some x -> x = ramp Ts b 0.
Proof. intros Ts b x H. rewrite (ampv_ramp _ _ _ _ H). simpl. ring. Qed.

(* ---- the transfer contraction against the right environment ---- *)
Lemma acc_shape_len (acc : list (list K)) n m : acc_shape_ok acc n m = true -> length acc = n.
Proof. unfold acc_shape_ok. intros H. apply andb_true_iff in H. destruct H as (H & _). apply Nat.eqb_eq; assumption. Qed.

Lemma inner_go_renv : forall As Bs acc x, inner_go Ko acc As Bs = Some x ->
  x = sumn (length acc) (fun a => dotf (nth a acc []) (fun l => renv As Bs a l)) /\ map (@dp K) As = map (@dp K) Bs.
Proof.
  induction As as [|A As IH]; intros Bs acc x H.
  - destruct Bs; simpl in H; [|discriminate].
    destruct acc as [|[|y [|z r]] [|r2 acc]]; try discriminate. injection H as <-. split; [simpl; ring | reflexivity].
  - destruct Bs as [|B Bs]; simpl in H; [discriminate|].
    destruct (acc_shape_ok acc (dl A) (dl B)) eqn:Esh; simpl in H; [|discriminate].
    destruct (Nat.eqb_spec (dp A) (dp B)) as [Edp|]; [|discriminate].
    destruct (IH _ _ _ H) as (Hx & Hm). split; [|simpl; congruence].
    rewrite Hx. clear Hx H IH. rewrite (acc_shape_len _ _ _ Esh).
    unfold inner_step at 1. rewrite map_length, seq_length.
    (* left side: sum over a', r of (sum over a, s) * R *)
    transitivity (sumn (dr A) (fun a' => sumn (dr B) (fun r => sumn (dl A) (fun a => sumn (dp A) (fun s =>
        cj (tf A a s a') [*] dotf (nth a acc []) (fun l => tf B l s r) [*] renv As Bs a' r))))).
    { apply sumn_ext; intros a' Ha'. unfold inner_step. rewrite nth_map_seq by assumption.
      rewrite dotf_map_seq. apply sumn_ext; intros r _.
      rewrite <- (sumn_scale_r K Ko Kring). apply sumn_ext; intros a _.
      rewrite <- (sumn_scale_r K Ko Kring). reflexivity. }
    rewrite (sumn_reorder4 (dr A) (dr B) (dl A) (dp A)
      (fun a' r a s => cj (tf A a s a') [*] dotf (nth a acc []) (fun l => tf B l s r) [*] renv As Bs a' r)).
    apply sumn_ext; intros a _. simpl.
    rewrite (dotf_sumn_r K Ko Kring). apply sumn_ext; intros s _.
    rewrite (dotf_sumn_r K Ko Kring). apply sumn_ext; intros a' _.
    rewrite (dotf_sumn_r K Ko Kring). apply sumn_ext; intros r _.
    rewrite dotf_scale_both. reflexivity.
Qed.

(* ---- the right environment is the sum over index strings ---- *)
Lemma renv_strings : forall As Bs a l, map (@dp K) As = map (@dp K) Bs ->
  renv As Bs a l = sumL (strings (map (@dp K) As)) (fun b => cj (ramp As b a) [*] ramp Bs b l).
Proof.
  induction As as [|A As IH]; intros Bs a l Hm.
  - destruct Bs; [|discriminate]. simpl. rewrite conj_one. ring.
  - destruct Bs as [|B Bs]; [discriminate|]. simpl in Hm. injection Hm as Edp Hm.
    change (strings (map (@dp K) (A :: As))) with
      (flat_map (fun s => map (cons s) (strings (map (@dp K) As))) (seq 0 (dp A))).
    rewrite (sumL_flat_map K Ko Kring), (sumL_seq K Ko Kring). simpl renv.
    apply sumn_ext; intros s _. rewrite (sumL_map K Ko). simpl ramp.
    transitivity (sumn (dr A) (fun a' => sumn (dr B) (fun r => sumL (strings (map (@dp K) As)) (fun b' =>
        (cj (tf A a s a') [*] cj (ramp As b' a')) [*] (tf B l s r [*] ramp Bs b' r))))).
    { apply sumn_ext; intros a' _. apply sumn_ext; intros r _. rewrite (IH Bs a' r Hm).
      rewrite <- (sumL_scale K Ko Kring). apply (sumL_ext K Ko). intros b' _. ring. }
    transitivity (sumL (strings (map (@dp K) As)) (fun b' => sumn (dr A) (fun a' => sumn (dr B) (fun r =>
        (cj (tf A a s a') [*] cj (ramp As b' a')) [*] (tf B l s r [*] ramp Bs b' r))))).
    { rewrite (sumL_sumn_swap K Ko Kring). apply sumn_ext; intros a' _.
      rewrite (sumL_sumn_swap K Ko Kring). reflexivity. }
    apply (sumL_ext K Ko). intros b' _. rewrite conj_sumn.
    rewrite sumn_mul_sumn. apply sumn_ext; intros a' _. apply sumn_ext; intros r _.
    rewrite conj_mul. reflexivity.
Qed.

Theorem inner_spec : forall (A B : list T3) (x : K) (fa fb : list nat -> K),
  inner Ko A B = Some x ->
  (forall b, In b (strings (map (@dp K) A)) -> amp A b = Some (fa b)) ->
  (forall b, In b (strings (map (@dp K) A)) -> amp B b = Some (fb b)) ->
  x = sumL (strings (map (@dp K) A)) (fun b => cj (fa b) [*] fb b).
Proof.
  intros A B x fa fb H HA HB. unfold inner in H.
  destruct (inner_go_renv _ _ _ _ H) as (Hx & Hm).
  rewrite Hx. simpl. rewrite (renv_strings A B 0 0 Hm).
  transitivity (sumL (strings (map (@dp K) A)) (fun b => cj (ramp A b 0) [*] ramp B b 0)); [ring|].
  apply (sumL_ext K Ko). intros b Hb.
  rewrite (amp_ramp _ _ _ (HA b Hb)), (amp_ramp _ _ _ (HB b Hb)). reflexivity.
Qed.

End InnerProofs.

Lemma gi_conj_one : kconj gi_ops (k1 gi_ops) = k1 gi_ops.
Proof. reflexivity. Qed.

(* the premises of inner_spec are satisfiable: a concrete 3-site Gaussian-integer chain on which the inner
   product and every amplitude are defined *)
Definition ex_chain : list (T3 GI) :=
  [ of_list3 gi_ops 1 2 2 [[[(1,0)%Z; (0,1)%Z]; [(2,0)%Z; (0,0)%Z]]];
    of_list3 gi_ops 2 2 2 [[[(1,1)%Z; (0,0)%Z]; [(0,0)%Z; (1,0)%Z]]; [[(0,-1)%Z; (1,0)%Z]; [(1,0)%Z; (1,0)%Z]]];
    of_list3 gi_ops 2 2 1 [[[(1,0)%Z]; [(0,1)%Z]]; [[(1,0)%Z]; [(2,0)%Z]]] ].
Lemma inner_spec_example :
  inner gi_ops ex_chain ex_chain <> None /\
  forallb (fun b => match amp gi_ops ex_chain b with Some _ => true | None => false end)
          (strings (map (@dp GI) ex_chain)) = true.
Proof. split; [vm_compute; discriminate | vm_compute; reflexivity]. Qed.
