(* Invariant proofs for the noisy (quantum-jump) emu-mps stepping machine; see Properties/C18.v. *)
From Coq Require Import ZArith List Bool Lia Reals Lra.
From EV Require Import Base.Arith Gen.Brent Model.BrentLoop Model.MpsMachine Proofs.BrentProofs.
From EV Require Import Proofs.NoisyInv.
Import ListNotations.
Open Scope Z_scope.

Lemma cons_split {T} (a : T) l new t : l = new ++ t -> a :: l = (a :: new) ++ t.
Proof. intros ->. reflexivity. Qed.
Lemma nil_split {T} (t : list T) : t = [] ++ t.
Proof. reflexivity. Qed.
Ltac split_new := repeat apply cons_split; apply nil_split.

Definition fill_of (e : event R) : list (Z * R) := match e with EvFill k t => [(k, t)] | _ => [] end.
Definition jump_of (e : event R) : list R := match e with EvJump t => [t] | _ => [] end.

(* what one sweep_complete may do to the trace and the step counter *)
Definition step_effect (s s' : ms) : Prop :=
  exists new, m_ev s' = new ++ m_ev s /\
    Forall (fun t => (tm s (m_tidx s) <= t <= tm s (m_tidx s + 1))%R) (flat_map jump_of new) /\
    ((m_tidx s' = m_tidx s /\ flat_map fill_of new = []) \/
     (m_tidx s' = m_tidx s + 1 /\ flat_map fill_of new = [(m_tidx s, tm s (m_tidx s + 1))])).

Definition frame0 (s s' : ms) : Prop :=
  m_kind s' = m_kind s /\ m_N s' = m_N s /\ m_steps s' = m_steps s /\ m_times s' = m_times s /\
  m_l2r s' = m_l2r s /\ m_sweep s' = m_sweep s.

Definition allowed_err (m : Z) : Prop :=
  m = E_ORACLE \/ m = (E_ROOT + 21)%Z \/ m = E_ASSERT_NORM.

Lemma tm_frame s s' k : m_times s' = m_times s -> tm s' k = tm s k.
Proof. intros H. unfold tm. rewrite H. reflexivity. Qed.

(* branch A: no search running and the norm is still above the threshold: the time step completes *)
Lemma noisy_timestep_complete (s : ms) :
  wf s -> cpos s -> 0 <= m_tidx s < m_steps s -> m_rf s = None ->
  m_cur s = tm s (m_tidx s + 1) ->
  match timestep_complete ar s with
  | Ok s' => frame0 s s' /\ cpos s' /\ m_rf s' = None /\ m_cur s' = m_cur s /\ m_tidx s' = m_tidx s + 1 /\
             (is_finished s' = true \/ m_tgt s' = tm s (m_tidx s + 2)) /\
             exists new, m_ev s' = new ++ m_ev s /\ flat_map jump_of new = [] /\
                         flat_map fill_of new = [(m_tidx s, m_cur s)]
  | Err m => m = E_ORACLE
  | OutOfFuel => False
  end.
Proof.
  intros (Hk & HN & Hlen & Hsort) (Csw & Coc & Cnl & Cnr) Ht Hrf Hcur.
  unfold timestep_complete. rewrite Hk. unfold timestep_complete_base, query_U. sp.
  destruct (o_same s) as [|same rest] eqn:Es; [reflexivity|].
  unfold is_finished. sp.
  destruct (Z.lt_ge_cases (m_tidx s + 1) (m_steps s)) as [Hlt|Hge].
  - destruct same; sp; zt; rewrite (tm_some s (m_tidx s + 1 + 1)) by lia;
      unfold init_baths; sp; zt; replace (Z.max 1 (m_N s - 1)) with (m_N s - 1) by lia; zt;
      cbn [negb res_bind]; sp; unfold frame0, cpos; sp;
      (split; [repeat split; reflexivity|]; split; [repeat split; try assumption; try reflexivity; lia|];
       split; [assumption|]; split; [reflexivity|]; split; [reflexivity|];
       split; [right; f_equal; lia|]; eexists; split; [split_new|]; split; reflexivity).
  - destruct same; sp; zt; cbn [res_bind]; sp; unfold frame0, cpos; sp;
      (split; [repeat split; reflexivity|]; split; [repeat split; try assumption; try reflexivity; lia|];
       split; [assumption|]; split; [reflexivity|]; split; [reflexivity|];
       split; [left; apply Z.leb_le; lia|]; eexists; split; [split_new|]; split; reflexivity).
Qed.

(* do_random_quantum_jump *)
Lemma do_jump_spec (s : ms) :
  2 <= m_N s -> m_sweep s = 0 ->
  match do_jump ar s with
  | Ok s' => frame0 s s' /\ cpos s' /\ m_rf s' = m_rf s /\ m_cur s' = m_cur s /\ m_tgt s' = m_tgt s /\
             m_tidx s' = m_tidx s /\
             exists new, m_ev s' = new ++ m_ev s /\ flat_map jump_of new = [m_cur s] /\ flat_map fill_of new = []
  | Err m => m = E_ORACLE \/ m = E_ASSERT_NORM
  | OutOfFuel => False
  end.
Proof.
  intros HN Hsw. unfold do_jump, take_norm. sp.
  destruct (o_norm s) as [|n0 r0] eqn:E0; cbn [res_bind]; [left; reflexivity|]. sp.
  unfold init_baths. sp. zt. replace (Z.max 1 (m_N s - 1)) with (m_N s - 1) by lia. zt. cbn [negb res_bind]. sp.
  destruct r0 as [|n1 r1]; cbn [res_bind]; [left; reflexivity|]. sp.
  cbn [a_eqb a_ofZ R_arith]. destruct (Reqb n1 (IZR 1)) eqn:E1; cbn [negb]; [|right; reflexivity].
  unfold set_jump_threshold, take_unif, take_norm. sp.
  destruct (o_unif s) as [|u ru]; cbn [res_bind]; [left; reflexivity|]. sp.
  destruct r1 as [|n2 r2]; cbn [res_bind]; [left; reflexivity|]. sp.
  unfold frame0, cpos. sp.
  split; [repeat split; reflexivity|]. split; [repeat split; try reflexivity; try assumption|].
  split; [reflexivity|]. split; [reflexivity|]. split; [reflexivity|]. split; [reflexivity|].
  eexists; split; [split_new|]; split; reflexivity.
Qed.
