From Coq Require Import Reals Lra ZArith List Bool Psatz.
From EV Require Import Base.Arith Gen.Brent Model.BrentLoop.
Open Scope R_scope.
Notation S := (st R).
Notation ar := R_arith.

Definition Inv (s : S) : Prop :=
  0 < f_epsilon s /\
  (f_fa s * f_fb s < 0 \/ f_fb s = 0) /\
  (f_fa s = 0 -> f_fb s = 0) /\
  Rabs (f_fb s) <= Rabs (f_fa s) /\
  f_current_guess s = f_b s.
Definition live (s : S) := ~ (f_fa s = 0 /\ f_fb s = 0).

Definition step_ok (a b dx : R) (bis : bool) : Prop :=
  (bis = true /\ dx = (a - b) / 2) \/
  (bis = false /\ Rabs dx < Rabs (3 * (a - b) / 4) /\ 0 <= dx * (a - b)).

Lemma gna_spec (s : S) : Inv s -> live s ->
  exists dx bis,
    get_next_abscissa ar s =
      Ok (MkSt (f_epsilon s) (f_a s) (f_b s) (f_fa s) (f_fb s) (f_b s) (f_c s) (f_fb s) bis
               (f_current_guess s) (Some (f_b s + dx)), Some (f_b s + dx))
    /\ step_ok (f_a s) (f_b s) dx bis.
Proof.
  destruct s as [eps a b fa fb c d fc bis cg na]; unfold Inv, live; cbn [f_epsilon f_a f_b f_fa f_fb f_c f_d f_fc f_bisection f_current_guess f_next_abscissa].
  intros (Heps & Hsign & Hfa0 & Habs & Hcg) Hlive.
  unfold get_next_abscissa; cbn.
  assert (Hab : fa <> fb) by (intros ->; destruct Hsign as [H|H]; [nra| apply Hlive; split; [exact H|exact H]]).
  assert (Hfa : fa <> 0) by (intros ->; apply Hlive; split; auto).
  match goal with |- exists dx bis0, res_bind ?X ?K = _ /\ _ =>
    assert (Hfirst : exists dx0, X = Ok dx0) end.
  { destruct (Rltb (Rabs (fc - fa)) eps || (Rltb (Rabs (fc - fb)) eps || Reqb fc 0)) eqn:Hc.
    - assert (Reqb (fa - fb) 0 = false) as -> by (apply Reqb_false; lra). eauto.
    - apply orb_false_iff in Hc as [H1 Hc]. apply orb_false_iff in Hc as [H2 H3].
      apply Rltb_false in H1, H2. apply Reqb_false in H3.
      assert (Reqb fa 0 = false) as -> by (apply Reqb_false; assumption).
      assert (Reqb fc 0 = false) as -> by (apply Reqb_false; assumption).
      assert (Hq : (fa / fc - 1) * (fb / fa - 1) * (fb / fc - 1) <> 0).
      { assert (fa / fc - 1 <> 0).
        { intro E. assert (fa = fc) by (apply Rminus_diag_uniq in E; field_simplify_eq in E; auto; lra).
          subst. rewrite Rminus_diag_eq, Rabs_R0 in H1; lra. }
        assert (fb / fc - 1 <> 0).
        { intro E. assert (fb = fc) by (apply Rminus_diag_uniq in E; field_simplify_eq in E; auto; lra).
          subst. rewrite Rminus_diag_eq, Rabs_R0 in H2; lra. }
        assert (fb / fa - 1 <> 0).
        { intro E. assert (fb = fa) by (apply Rminus_diag_uniq in E; field_simplify_eq in E; auto; lra). congruence. }
        repeat apply Rmult_integral_contrapositive_currified; assumption. }
      apply Reqb_false in Hq. rewrite Hq. eauto. }
  destruct Hfirst as [dx0 ->]. cbn [res_bind].
  match goal with |- context [if ?c then _ else _] => destruct c eqn:Hc end.
  - exists ((a - b) / 2), true. split; [reflexivity| left; split; reflexivity].
  - exists dx0, false. split; [reflexivity|]. right.
    apply orb_false_iff in Hc as [Hc _]. apply orb_false_iff in Hc as [H1 H2].
    apply Rleb_false in H1. apply Rltb_false in H2. repeat split; lra.
Qed.

Ltac simp_proj := cbn [f_epsilon f_a f_b f_fa f_fb f_c f_d f_fc f_bisection f_current_guess f_next_abscissa] in *.
Definition between (a b x : R) : Prop := (a <= x <= b) \/ (b <= x <= a).
Definition Tracks (f : R -> R) (s : S) : Prop := f_fa s = f (f_a s) /\ f_fb s = f (f_b s).

Lemma step_ok_between a b dx bis : step_ok a b dx bis -> between a b (b + dx).
Proof.
  unfold step_ok, between. intros [[_ ->] | [_ [H1 H2]]]; [destruct (Rle_dec a b); [left|right]; lra|].
  destruct (Rle_dec a b) as [Hab|Hab].
  - left. assert (a - b <= 0) by lra. rewrite (Rabs_left1 (3 * (a - b) / 4)) in H1 by lra.
    destruct (Rle_dec dx 0) as [Hd|Hd].
    + rewrite Rabs_left1 in H1 by lra. lra.
    + assert (a - b = 0) by nra. rewrite Rabs_right in H1 by lra. lra.
  - right. assert (0 < a - b) by lra. rewrite (Rabs_right (3 * (a - b) / 4)) in H1 by lra.
    assert (0 <= dx) by nra. rewrite Rabs_right in H1 by lra. lra.
Qed.

Lemma abs_half u v : (u = v / 2 \/ u = - (v / 2)) -> Rabs u = Rabs v / 2.
Proof.
  intros [-> | ->]; rewrite ?Rabs_Ropp; unfold Rdiv; rewrite Rabs_mult, (Rabs_right (/ 2)) by lra; reflexivity.
Qed.

Lemma round_spec (s : S) (yf : R -> R) : Inv s -> live s ->
  exists s' x,
    round ar s yf = Ok (s', x) /\ Inv s' /\ between (f_a s) (f_b s) x /\
    f_epsilon s' = f_epsilon s /\
    ((f_a s' = x /\ (f_b s' = f_a s \/ f_b s' = f_b s)) \/
     (f_b s' = x /\ (f_a s' = f_a s \/ f_a s' = f_b s))) /\
    (forall f, Tracks f s -> yf x = f x -> Tracks f s') /\
    (f_bisection s' = true -> Rabs (f_b s' - f_a s') = Rabs (f_b s - f_a s) / 2).
Proof.
  intros HI HL. destruct (gna_spec s HI HL) as (dx & bis & Hg & Hstep).
  unfold round. rewrite Hg. cbn [res_bind].
  destruct s as [eps a b fa fb c d fc bs cg na]; unfold Inv, live, Tracks in *;
    cbn [f_epsilon f_a f_b f_fa f_fb f_c f_d f_fc f_bisection f_current_guess f_next_abscissa] in *.
  destruct HI as (Heps & Hsign & Hfa0 & Habs & Hcg).
  set (x := b + dx) in *. set (y := yf x).
  unfold provide_ordinate; cbn.
  assert (Reqb x x = true) as -> by (apply Reqb_true; reflexivity). cbn.
  pose proof (step_ok_between _ _ _ _ Hstep) as Hbt. fold x in Hbt.
  assert (Hfa : fa <> 0) by (intros ->; apply HL; split; auto).
  clear Hg.
  destruct (Rltb (fa * y) 0) eqn:E1; [apply Rltb_true in E1|apply Rltb_false in E1].
  - (* b := x *)
    destruct (Rltb (Rabs fa) (Rabs y)) eqn:E2; [apply Rltb_true in E2|apply Rltb_false in E2];
    eexists; exists x; cbn; (split; [reflexivity|]); simp_proj; repeat split; auto; try lra; try nra;
    try (intros f [? ?] ?; fold y in *; split; congruence);
    try (intros Hb; destruct Hstep as [[_ Hdx]|[Hf _]]; [|congruence]; apply abs_half; unfold x; rewrite Hdx;
         first [left; lra | right; lra]).
  - (* a := x *)
    destruct (Rltb (Rabs y) (Rabs fb)) eqn:E2; [apply Rltb_true in E2|apply Rltb_false in E2];
    eexists; exists x; cbn; (split; [reflexivity|]); simp_proj; repeat split; auto; try lra;
    try (intros f [? ?] ?; fold y in *; split; congruence);
    try (intros Hb; destruct Hstep as [[_ Hdx]|[Hf _]]; [|congruence]; apply abs_half; unfold x; rewrite Hdx;
         first [left; lra | right; lra]).
    + destruct Hsign as [Hs|Hs]; [|subst fb; rewrite Rabs_R0 in E2; pose proof (Rabs_pos y); lra].
      destruct (Req_dec y 0) as [Hy|Hy]; [right; exact Hy|left]. nra.
    + intros Hfb. rewrite Hfb, Rabs_R0 in E2. pose proof (Rabs_pos y). lra.
    + destruct Hsign as [Hs|Hs]; [|right; exact Hs].
      destruct (Req_dec y 0) as [Hy|Hy].
      * rewrite Hy, Rabs_R0 in E2. right.
        destruct (Req_dec fb 0) as [|Hn]; auto. apply Rabs_no_R0 in Hn. pose proof (Rabs_pos fb). lra.
      * left. nra.
    + intros Hy. destruct Hsign as [Hs|Hs]; auto. rewrite Hy, Rabs_R0 in E2.
      destruct (Req_dec fb 0) as [|Hn]; auto. apply Rabs_no_R0 in Hn. pose proof (Rabs_pos fb). lra.
Qed.

(* ---- init ---------------------------------------------------------------------- *)
Lemma init_spec (start end_ fs fe eps : R) :
  start <= end_ -> fs * fe < 0 -> 0 < eps ->
  exists s, init ar start end_ fs fe eps = Ok s /\ Inv s /\ live s /\
    ((f_a s = start /\ f_b s = end_) \/ (f_a s = end_ /\ f_b s = start)) /\
    (forall f, fs = f start -> fe = f end_ -> Tracks f s).
Proof.
  intros H1 H2 H3. unfold init; cbn.
  assert (Rleb start end_ = true) as -> by (apply Rleb_true; exact H1).
  assert (Rltb (fs * fe) 0 = true) as -> by (apply Rltb_true; exact H2).
  unfold Inv, live, Tracks.
  destruct (Rltb (Rabs fs) (Rabs fe)) eqn:E; [apply Rltb_true in E|apply Rltb_false in E];
    eexists; (split; [reflexivity|]); simp_proj; repeat split; auto; try lra; try nra;
    try (intros ->; nra); try (intros [-> _]; nra); try (intros; congruence).
Qed.

Lemma init_ok_inv (start end_ fs fe eps : R) s :
  init ar start end_ fs fe eps = Ok s -> start <= end_ /\ fs * fe < 0.
Proof.
  unfold init; cbn. destruct (Rleb start end_) eqn:E1; [|discriminate].
  destruct (Rltb (fs * fe) 0) eqn:E2; [|discriminate]. intros _.
  apply Rleb_true in E1. apply Rltb_true in E2. auto.
Qed.

(* ---- is_converged -------------------------------------------------------------- *)
Definition converged (s : S) (tol : R) : Prop :=
  (f_fa s = 0 /\ f_fb s = 0) \/ Rabs (f_b s - f_a s) < tol.

Lemma is_converged_spec (s : S) tol :
  exists c, is_converged ar s tol = Ok (s, c) /\ (c = true <-> converged s tol).
Proof.
  destruct s as [eps a b fa fb c d fc bs cg na]; unfold is_converged, converged; cbn.
  destruct (Reqb fa 0) eqn:E1; [apply Reqb_true in E1|apply Reqb_false in E1];
  destruct (Reqb fb 0) eqn:E2; [apply Reqb_true in E2|apply Reqb_false in E2| |]; cbn;
  try (eexists; split; [reflexivity|]; split; [intros _; left; auto| reflexivity]);
  (destruct (Rltb (Rabs (b - a)) tol) eqn:E3; [apply Rltb_true in E3|apply Rltb_false in E3];
   eexists; (split; [reflexivity|]); split; try tauto; try discriminate;
   intros [[? ?]|?]; try contradiction; try lra).
Qed.

Lemma converged_dead (s : S) tol : ~ converged s tol -> live s.
Proof. unfold converged, live. tauto. Qed.

(* ---- the loop ------------------------------------------------------------------ *)
Definition in_box (lo hi : R) (s : S) : Prop := lo <= f_a s <= hi /\ lo <= f_b s <= hi.

Lemma between_box lo hi a b x :
  lo <= a <= hi -> lo <= b <= hi -> between a b x -> lo <= x <= hi.
Proof. unfold between. intros ? ? [?|?]; lra. Qed.

Lemma round_box (s : S) yf lo hi s' x :
  Inv s -> live s -> in_box lo hi s -> round ar s yf = Ok (s', x) ->
  Inv s' /\ in_box lo hi s' /\ lo <= x <= hi /\ (forall f, Tracks f s -> yf x = f x -> Tracks f s').
Proof.
  intros HI HL [Ha Hb] Hr.
  destruct (round_spec s yf HI HL) as (s1 & x1 & Hr1 & HI1 & Hbt & _ & Hends & Htr & _).
  rewrite Hr in Hr1. injection Hr1 as <- <-.
  pose proof (between_box _ _ _ _ _ Ha Hb Hbt) as Hx.
  split; [exact HI1|]. split; [|split; [exact Hx| exact Htr]].
  unfold in_box. destruct Hends as [[E1 [E2 | E2]] | [E1 [E2 | E2]]]; rewrite E1, E2; lra.
Qed.

Theorem loop_spec fuel f tol lo hi : forall s,
  Inv s -> Tracks f s -> in_box lo hi s ->
  match find_root_loop ar fuel f tol s with
  | Ok s' => Inv s' /\ Tracks f s' /\ in_box lo hi s' /\ converged s' tol
  | Err _ => False
  | OutOfFuel => True
  end.
Proof.
  induction fuel as [|n IH]; intros s HI HT HB; cbn [find_root_loop]; [exact I|].
  destruct (is_converged_spec s tol) as (c & -> & Hc). cbn [res_bind].
  destruct c.
  - split; [exact HI|]. split; [exact HT|]. split; [exact HB| tauto].
  - assert (HL : live s) by (apply (converged_dead s tol); intro; assert (false = true) by tauto; discriminate).
    destruct (round_spec s f HI HL) as (s1 & x1 & Hr1 & _).
    rewrite Hr1. cbn [res_bind].
    destruct (round_box s f lo hi s1 x1 HI HL HB Hr1) as (HI1 & HB1 & _ & HT1).
    apply IH; auto.
Qed.

Theorem script_spec tol lo hi : forall ys s,
  Inv s -> in_box lo hi s ->
  Forall (fun x => lo <= x <= hi) (fst (run_script ar ys tol s)) /\
  match snd (run_script ar ys tol s) with
  | Ok s' => Inv s' /\ in_box lo hi s' /\ converged s' tol
  | Err _ => False
  | OutOfFuel => True
  end.
Proof.
  induction ys as [|y ys IH]; intros s HI HB; cbn [run_script];
    destruct (is_converged_spec s tol) as (c & -> & Hc); destruct c; cbn [fst snd];
    try (split; [constructor| first [exact I | split; [exact HI| split; [exact HB| tauto]]]]).
  assert (HL : live s) by (apply (converged_dead s tol); intro; assert (false = true) by tauto; discriminate).
  destruct (round_spec s (fun _ => y) HI HL) as (s1 & x1 & Hr1 & _).
  rewrite Hr1.
  destruct (round_box s (fun _ => y) lo hi s1 x1 HI HL HB Hr1) as (HI1 & HB1 & Hx & _).
  specialize (IH s1 HI1 HB1). destruct (run_script ar ys tol s1) as [xs r]. cbn [fst snd] in *.
  destruct IH as [IH1 IH2]. split; [constructor; assumption| exact IH2].
Qed.

(* ---- feeding ordinates one at a time == the driver loop --------------------------- *)
Lemma round_ext (s : S) (g h : R -> R) s' x :
  round ar s g = Ok (s', x) -> g x = h x -> round ar s h = Ok (s', x).
Proof.
  unfold round. destruct (get_next_abscissa ar s) as [[s1 [x1|]]| |]; cbn [res_bind]; try discriminate.
  destruct (provide_ordinate ar s1 x1 (g x1)) as [s2| |] eqn:E; cbn [res_bind]; try discriminate.
  intros H. injection H as <- <-. intros Hg. rewrite <- Hg, E. reflexivity.
Qed.

Theorem loop_eq_script f tol : forall ys s xs s',
  run_script ar ys tol s = (xs, Ok s') ->
  Forall2 (fun x y => y = f x) xs (firstn (length xs) ys) ->
  find_root_loop ar (Datatypes.S (length xs)) f tol s = Ok s'.
Proof.
  induction ys as [|y ys IH]; intros s xs s' Hrun Hys; cbn [run_script] in Hrun;
    destruct (is_converged_spec s tol) as (c & Hic & Hc); rewrite Hic in Hrun; destruct c;
    try (injection Hrun as <- <-; cbn; rewrite Hic; reflexivity); try discriminate.
  destruct (round ar s (fun _ => y)) as [[s2 x]| |] eqn:Er; try discriminate.
  destruct (run_script ar ys tol s2) as [xs2 r2] eqn:E2. injection Hrun as <- ->.
  cbn [length firstn] in Hys. inversion Hys as [|? ? ? ? Hy Hrest]; subst.
  cbn [find_root_loop]. rewrite Hic. cbn [res_bind].
  rewrite (round_ext s (fun _ => f x) f s2 x Er eq_refl). cbn [res_bind].
  apply (IH s2 xs2 s' E2 Hrest).
Qed.

(* ---- API-level corollaries -------------------------------------------------------- *)
Theorem find_root_sound fuel (f : R -> R) start end_ tol eps :
  start <= end_ -> f start * f end_ < 0 -> 0 < eps ->
  match find_root ar fuel f start end_ tol eps with
  | Ok r => exists a, start <= a <= end_ /\ start <= r <= end_ /\ f a * f r <= 0 /\
                      (Rabs (r - a) < tol \/ (f a = 0 /\ f r = 0))
  | Err _ => False
  | OutOfFuel => True
  end.
Proof.
  intros H1 H2 H3. unfold find_root.
  destruct (init_spec start end_ (f start) (f end_) eps H1 H2 H3) as (s & -> & HI & _ & Hends & HT).
  cbn [res_bind]. specialize (HT f eq_refl eq_refl).
  assert (HB : in_box start end_ s) by (unfold in_box; destruct Hends as [[-> ->]|[-> ->]]; lra).
  pose proof (loop_spec fuel f tol start end_ s HI HT HB) as HL.
  destruct (find_root_loop ar fuel f tol s) as [s'| |]; cbn [res_bind]; auto.
  destruct HL as ((_ & Hs & _ & _ & Hcg) & (Hfa & Hfb) & (Ha & Hb) & Hc).
  exists (f_a s'). rewrite Hcg, <- Hfa, <- Hfb. repeat split; try lra.
  - destruct Hs as [Hs|Hs]; [lra| rewrite Hs; lra].
  - destruct Hc as [[? ?]|?]; auto.
Qed.

Theorem incremental_sound (ys : list R) start end_ fs fe tol eps :
  start <= end_ -> fs * fe < 0 -> 0 < eps ->
  exists s, init ar start end_ fs fe eps = Ok s /\
    Forall (fun x => start <= x <= end_) (fst (run_script ar ys tol s)) /\
    match snd (run_script ar ys tol s) with
    | Ok s' => Inv s' /\ in_box start end_ s' /\ converged s' tol
    | Err _ => False
    | OutOfFuel => True
    end.
Proof.
  intros H1 H2 H3.
  destruct (init_spec start end_ fs fe eps H1 H2 H3) as (s & Hi & HI & _ & Hends & _).
  exists s. split; [exact Hi|].
  assert (HB : in_box start end_ s) by (unfold in_box; destruct Hends as [[-> ->]|[-> ->]]; lra).
  apply script_spec; assumption.
Qed.

Example premises_satisfiable :
  exists s, init ar 0 1 (-1) 1 1 = Ok s /\ Inv s /\ live s.
Proof.
  destruct (init_spec 0 1 (-1) 1 1) as (s & H & HI & HL & _); try lra. exists s; auto.
Qed.
