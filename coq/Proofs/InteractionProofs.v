(* C23 — proofs about Model/Interaction.v; every statement is for matrices of every size. *)
From Coq Require Import ZArith List Bool Arith Lia.
From EV Require Import Model.Interaction.
Import ListNotations.
Open Scope Z_scope.

(* ---- cutoff ---- *)
Lemma cutoff_entry_0 : forall c, cutoff_entry c 0 = 0.
Proof. intro c; unfold cutoff_entry; destruct (Z.abs 0 <? c); reflexivity. Qed.

Lemma cutoff_get : forall c m i j, mget (apply_cutoff c m) i j = cutoff_entry c (mget m i j).
Proof.
  intros c m i j. unfold mget, apply_cutoff.
  change (@nil Z) with (map (cutoff_entry c) []) at 1. rewrite map_nth.
  rewrite <- (cutoff_entry_0 c) at 1. now rewrite map_nth.
Qed.

Lemma cutoff_entry_spec : forall c x,
  (Z.abs x < c -> cutoff_entry c x = 0) /\ (c <= Z.abs x -> cutoff_entry c x = x).
Proof. intros c x; unfold cutoff_entry; destruct (Z.ltb_spec (Z.abs x) c); split; intros; lia. Qed.

Lemma cutoff_shape : forall c m,
  length (apply_cutoff c m) = length m /\
  forall i, length (nth i (apply_cutoff c m) []) = length (nth i m []).
Proof.
  intros c m; unfold apply_cutoff; split; [apply map_length|].
  intro i. change (@nil Z) with (map (cutoff_entry c) []) at 1. now rewrite map_nth, map_length.
Qed.

Definition symmetric (m : mat) : Prop := forall i j, mget m i j = mget m j i.
Definition zero_diag (m : mat) : Prop := forall i, mget m i i = 0.

Lemma cutoff_symmetric : forall c m, symmetric m -> symmetric (apply_cutoff c m).
Proof. intros c m H i j. now rewrite !cutoff_get, H. Qed.

Lemma cutoff_zero_diag : forall c m, zero_diag m -> zero_diag (apply_cutoff c m).
Proof. intros c m H i. now rewrite cutoff_get, H, cutoff_entry_0. Qed.

(* ---- masking ---- *)
Lemma nth_mapi_from : forall {T U} (f : nat -> T -> U) (l : list T) k n d d',
  nth n (mapi_from k f l) d' = if (n <? length l)%nat then f (k + n)%nat (nth n l d) else d'.
Proof.
  induction l as [|x xs IH]; intros k n d d'; simpl.
  - destruct n; reflexivity.
  - destruct n; simpl.
    + now rewrite Nat.add_0_r.
    + rewrite (IH (S k) n d d'). replace (S k + n)%nat with (k + S n)%nat by lia. reflexivity.
Qed.

Lemma nth_const_row : forall (r : list Z) j, nth j (map (fun _ => 0) r) 0 = 0.
Proof. intros r j. exact (map_nth (fun _ : Z => 0) r 0 j). Qed.

Lemma nth_nil : forall {T} j (d : T), nth j [] d = d.
Proof. destruct j; reflexivity. Qed.

Lemma zero_row_get : forall t m i j, mget (zero_row t m) i j = if Nat.eqb i t then 0 else mget m i j.
Proof.
  intros t m i j. unfold mget, zero_row. rewrite (nth_mapi_from _ m 0 i [] []). simpl.
  destruct (Nat.ltb_spec i (length m)).
  - destruct (Nat.eqb i t); [apply nth_const_row | reflexivity].
  - rewrite (nth_overflow m) by lia. rewrite nth_nil. now destruct (Nat.eqb i t).
Qed.

Lemma zero_col_get : forall t m i j, mget (zero_col t m) i j = if Nat.eqb j t then 0 else mget m i j.
Proof.
  intros t m i j. unfold mget, zero_col.
  change (@nil Z) with ((fun r => mapi_from 0 (fun j x => if Nat.eqb j t then 0 else x) r) []) at 1.
  rewrite map_nth. rewrite (nth_mapi_from _ (nth i m []) 0 j 0 0). simpl.
  destruct (Nat.ltb_spec j (length (nth i m []))).
  - reflexivity.
  - rewrite (nth_overflow (nth i m [])) by lia. now destruct (Nat.eqb j t).
Qed.

Definition in_b (i : nat) (l : list nat) : bool := existsb (Nat.eqb i) l.

Lemma mask_get : forall targets m i j,
  mget (mask_targets targets m) i j = if in_b i targets || in_b j targets then 0 else mget m i j.
Proof.
  unfold mask_targets. induction targets as [|t ts IH]; intros m i j; simpl; [reflexivity|].
  rewrite IH. rewrite zero_col_get, zero_row_get.
  destruct (Nat.eqb i t), (Nat.eqb j t), (in_b i ts), (in_b j ts); reflexivity.
Qed.

Lemma zero_row_shape : forall t m, length (zero_row t m) = length m.
Proof.
  intros t m; unfold zero_row. generalize 0%nat. induction m; intro k; simpl; auto.
Qed.

Lemma mask_symmetric : forall targets m, symmetric m -> symmetric (mask_targets targets m).
Proof.
  intros ts m H i j. rewrite !mask_get, H. now rewrite orb_comm.
Qed.

Lemma mask_zero_diag : forall targets m, zero_diag m -> zero_diag (mask_targets targets m).
Proof. intros ts m H i. rewrite mask_get, H. now destruct (in_b i ts || in_b i ts). Qed.

(* ---- the callable and the whole pipeline ---- *)
Lemma callable_spec : forall full masked slm_end t,
  (t < slm_end -> callable full masked slm_end t = masked) /\
  (slm_end <= t -> callable full masked slm_end t = full).
Proof. intros; unfold callable; destruct (Z.ltb_spec t slm_end); split; intros; try reflexivity; lia. Qed.

Lemma interaction_at_entries : forall user traj c targets slm_end t src,
  source_matrix user traj = Some src ->
  exists M, interaction_at user traj c targets slm_end t = Some M /\
    forall i j, mget M i j =
      if (t <? slm_end) && (in_b i targets || in_b j targets) then 0
      else cutoff_entry c (mget src i j).
Proof.
  intros user traj c targets slm_end t src Hs. unfold interaction_at. rewrite Hs.
  eexists; split; [reflexivity|]. intros i j. unfold callable, masked_matrix, full_matrix.
  destruct (t <? slm_end); simpl.
  - rewrite mask_get, cutoff_get. reflexivity.
  - apply cutoff_get.
Qed.

Lemma interaction_at_symmetric_zero_diag : forall user traj c targets slm_end t src M,
  source_matrix user traj = Some src -> symmetric src -> zero_diag src ->
  interaction_at user traj c targets slm_end t = Some M ->
  symmetric M /\ zero_diag M.
Proof.
  intros user traj c targets slm_end t src M Hs Hsym Hd. unfold interaction_at. rewrite Hs.
  intro H; injection H as <-. unfold callable, masked_matrix, full_matrix.
  destruct (t <? slm_end); split.
  - apply mask_symmetric, cutoff_symmetric, Hsym.
  - apply mask_zero_diag, cutoff_zero_diag, Hd.
  - apply cutoff_symmetric, Hsym.
  - apply cutoff_zero_diag, Hd.
Qed.

Lemma source_spec : forall user traj,
  (forall u, user = Some u -> source_matrix user traj = Some u) /\
  (user = None -> forall m, traj = Plain m -> source_matrix user traj = Some m) /\
  (user = None -> forall m ms, traj = Packed (m :: ms) -> source_matrix user traj = Some m).
Proof. intros user traj; repeat split; intros; subst; reflexivity. Qed.

(* ---- all trajectories ---- *)
Lemma map_repeat_ev : forall {A B} (f : A -> B) x n, map f (repeat x n) = repeat (f x) n.
Proof. intros A B f x n; induction n; simpl; [reflexivity | now rewrite IHn]. Qed.

Lemma sequences_at_own_trajectory : forall user trajs c targets slm_end t,
  sequences_at user trajs c targets slm_end t =
    map (fun tr => interaction_at user tr c targets slm_end t) (expand_trajs trajs) /\
  length (sequences_at user trajs c targets slm_end t) = length (expand_trajs trajs) /\
  forall k tr, nth_error (expand_trajs trajs) k = Some tr ->
    nth_error (sequences_at user trajs c targets slm_end t) k = Some (interaction_at user tr c targets slm_end t).
Proof.
  intros user trajs c targets slm_end t.
  assert (H : sequences_at user trajs c targets slm_end t =
              map (fun tr => interaction_at user tr c targets slm_end t) (expand_trajs trajs)).
  { unfold sequences_at, expand_trajs. induction trajs as [|[m r] rest IH]; simpl; [reflexivity|].
    rewrite map_app, map_repeat_ev, IH. reflexivity. }
  split; [exact H|]. split.
  - rewrite H. apply map_length.
  - intros k tr Hk. rewrite H.
    exact (map_nth_error (fun tr0 => interaction_at user tr0 c targets slm_end t) k (expand_trajs trajs) Hk).
Qed.

Lemma expand_trajs_length : forall trajs,
  length (expand_trajs trajs) = fold_right (fun tr acc => (snd tr + acc)%nat) 0%nat trajs.
Proof.
  induction trajs as [|[m r] rest IH]; simpl; [reflexivity|].
  unfold expand_trajs in *. simpl. rewrite app_length, repeat_length, IH. reflexivity.
Qed.

(* ---- query times ---- *)
Definition sorted_times (times : list Z) : Prop :=
  forall k, (S k < length times)%nat -> tnth times k <= tnth times (S k).

Lemma mps_query_in_step : forall times k, sorted_times times -> (S k < length times)%nat ->
  2 * tnth times k <= mps_query_time_x2 times k <= 2 * tnth times (S k).
Proof.
  intros times k Hs Hk. specialize (Hs k Hk). unfold mps_query_time_x2. destruct k; lia.
Qed.

Lemma sv_query_in_step : forall times k, sorted_times times -> (S k < length times)%nat ->
  2 * tnth times k <= sv_query_time_x2 times k <= 2 * tnth times (S k).
Proof. intros times k Hs Hk. specialize (Hs k Hk). unfold sv_query_time_x2; lia. Qed.

(* consequence: a step that ends before slm_end uses the masked matrix, a step that starts at or after
   slm_end uses the full matrix — on both backends (q2 is the doubled query time) *)
Lemma step_uses_right_matrix : forall times k q2 slm_end,
  2 * tnth times k <= q2 <= 2 * tnth times (S k) ->
  (tnth times (S k) < slm_end -> q2 < 2 * slm_end) /\
  (slm_end <= tnth times k -> 2 * slm_end <= q2).
Proof. intros; lia. Qed.

Example sorted_times_satisfiable : sorted_times [0; 10; 20; 25].
Proof. intros k Hk; simpl in Hk. unfold tnth. do 3 (destruct k; [simpl; lia|]). lia. Qed.
