(* Proofs about Model/Sampling.v (C15). *)
From Coq Require Import List Arith Bool Lia Ring ZArith QArith.
From EV Require Import Model.TransferMat Model.MPSAlg Model.Sampling Proofs.TransferMat Proofs.MPSAlg Proofs.MPSInner.
Import ListNotations.
Local Open Scope nat_scope.

(* ---- readout ---------------------------------------------------------------------------------------------- *)
Lemma Qltb_iff a b : Qltb a b = true <-> (a < b)%Q.
Proof.
  unfold Qltb. rewrite negb_true_iff. split.
  - intros H. apply Qnot_le_lt. intros L. apply Qle_bool_iff in L. congruence.
  - intros H. destruct (Qle_bool b a) eqn:E; [|reflexivity]. apply Qle_bool_iff in E.
    exfalso. apply (Qlt_not_le _ _ H E).
Qed.

(* the flip events: with r the fresh uniform draw, '0' is read as '1' exactly when r < p_false_pos, '1' is read as
   '0' exactly when r < p_false_neg, and any other character is returned unchanged *)
Theorem readout_flip_law r pfp pfn :
  (readout 0 r pfp pfn = 1 <-> (r < pfp)%Q) /\
  (readout 0 r pfp pfn = 0 <-> ~ (r < pfp)%Q) /\
  (readout 1 r pfp pfn = 0 <-> (r < pfn)%Q) /\
  (readout 1 r pfp pfn = 1 <-> ~ (r < pfn)%Q) /\
  (forall c, 2 <= c -> readout c r pfp pfn = c).
Proof.
  unfold readout. repeat split; simpl.
  - destruct (Qltb r pfp) eqn:E; [intros _; apply Qltb_iff; exact E | discriminate].
  - intros H. apply Qltb_iff in H. rewrite H. reflexivity.
  - destruct (Qltb r pfp) eqn:E; [discriminate|]. intros _ H. apply Qltb_iff in H. congruence.
  - intros H. destruct (Qltb r pfp) eqn:E; [|reflexivity]. apply Qltb_iff in E. contradiction.
  - destruct (Qltb r pfn) eqn:E; [intros _; apply Qltb_iff; exact E | discriminate].
  - intros H. apply Qltb_iff in H. rewrite H. reflexivity.
  - destruct (Qltb r pfn) eqn:E; [discriminate|]. intros _ H. apply Qltb_iff in H. congruence.
  - intros H. destruct (Qltb r pfn) eqn:E; [|reflexivity]. apply Qltb_iff in E. contradiction.
  - intros c Hc. destruct c as [|[|c]]; try lia. reflexivity.
Qed.

(* on the grid of random.random() (k / M, k < M): exactly a of the M equally likely draws are below a / M *)
Lemma count_below M a : a <= M -> length (filter (fun k => k <? a) (seq 0 M)) = a.
Proof.
  intros H. replace M with (a + (M - a)) by lia. rewrite seq_app, filter_app, app_length.
  assert (E1 : forall s n, (forall k, In k (seq s n) -> (k <? a) = true) -> length (filter (fun k => k <? a) (seq s n)) = n).
  { intros s n. revert s. induction n; intros s Hk; [reflexivity|]. simpl.
    rewrite (Hk s) by (left; reflexivity). simpl. f_equal. apply IHn. intros k Hin. apply Hk. right; assumption. }
  assert (E2 : forall s n, (forall k, In k (seq s n) -> (k <? a) = false) -> length (filter (fun k => k <? a) (seq s n)) = 0).
  { intros s n. revert s. induction n; intros s Hk; [reflexivity|]. simpl.
    rewrite (Hk s) by (left; reflexivity). apply IHn. intros k Hin. apply Hk. right; assumption. }
  rewrite E1, E2; [lia | |].
  - intros k Hk. apply in_seq in Hk. apply Nat.ltb_ge. lia.
  - intros k Hk. apply in_seq in Hk. apply Nat.ltb_lt. lia.
Qed.

Lemma Qltb_grid (k a M : nat) : 0 < M ->
  Qltb (Z.of_nat k # Pos.of_nat M) (Z.of_nat a # Pos.of_nat M) = (k <? a).
Proof.
  intros HM. destruct (Nat.ltb_spec k a) as [L|L].
  - apply Qltb_iff. unfold Qlt. simpl. apply Z.mul_lt_mono_pos_r; [reflexivity | lia].
  - destruct (Qltb _ _) eqn:E; [|reflexivity]. apply Qltb_iff in E. unfold Qlt in E. simpl in E.
    apply Z.mul_lt_mono_pos_r in E; [lia | reflexivity].
Qed.

(* P(0 -> 1) = p_false_pos on the grid: the number of draws k/M (k < M) that flip a '0' is exactly a when
   p_false_pos = a/M; likewise for '1' -> '0' *)
Theorem readout_flip_probability (M a : nat) pfn : 0 < M -> a <= M ->
  length (filter (fun k => readout 0 (Z.of_nat k # Pos.of_nat M) (Z.of_nat a # Pos.of_nat M) pfn =? 1) (seq 0 M)) = a.
Proof.
  intros HM Ha. transitivity (length (filter (fun k => k <? a) (seq 0 M))); [|apply count_below; assumption]. f_equal. apply filter_ext_in. intros k _.
  unfold readout. simpl. rewrite Qltb_grid by assumption. destruct (k <? a); reflexivity.
Qed.
Theorem readout_flip_probability_neg (M a : nat) pfp : 0 < M -> a <= M ->
  length (filter (fun k => readout 1 (Z.of_nat k # Pos.of_nat M) pfp (Z.of_nat a # Pos.of_nat M) =? 0) (seq 0 M)) = a.
Proof.
  intros HM Ha. transitivity (length (filter (fun k => k <? a) (seq 0 M))); [|apply count_below; assumption]. f_equal. apply filter_ext_in. intros k _.
  unfold readout. simpl. rewrite Qltb_grid by assumption. destruct (k <? a); reflexivity.
Qed.

(* one string: character i is decided by stream element i (a fresh draw per character), lengths are preserved *)
Lemma readout_string_spec pfp pfn : forall s rs t rest,
  readout_string pfp pfn s rs = Some (t, rest) ->
  t = map (fun cr => readout (fst cr) (snd cr) pfp pfn) (combine s rs) /\
  rest = skipn (length s) rs /\ length s <= length rs /\ length t = length s.
Proof.
  induction s as [|c s IH]; intros rs t rest H; simpl in H.
  - injection H as <- <-. simpl. repeat split; lia.
  - destruct rs as [|r rs']; [discriminate|].
    destruct (readout_string pfp pfn s rs') as [[t' rest']|] eqn:E; [|discriminate].
    injection H as <- <-. destruct (IH _ _ _ E) as (-> & -> & L & Lt). simpl. repeat split; try lia.
Qed.

Lemma readout_string_defined pfp pfn : forall s rs, length s <= length rs ->
  exists t rest, readout_string pfp pfn s rs = Some (t, rest).
Proof.
  induction s as [|c s IH]; intros rs H; simpl; [eauto|].
  destruct rs as [|r rs']; [simpl in H; lia|]. destruct (IH rs' ltac:(simpl in H; lia)) as (t & rest & ->). eauto.
Qed.

Lemma readout_repeat_spec pfp pfn s : forall count rs ts rest,
  readout_repeat pfp pfn s count rs = Some (ts, rest) ->
  map (@length nat) ts = repeat (length s) count /\ length rs = count * length s + length rest.
Proof.
  induction count as [|n IH]; intros rs ts rest H; simpl in H.
  - injection H as <- <-. simpl. split; reflexivity.
  - destruct (readout_string pfp pfn s rs) as [[t r1]|] eqn:E1; [|discriminate].
    destruct (readout_repeat pfp pfn s n r1) as [[ts' r2]|] eqn:E2; [|discriminate].
    injection H as <- <-. destruct (readout_string_spec _ _ _ _ _ _ E1) as (_ & Hr & Hl & Ht).
    destruct (IH _ _ _ E2) as (Hm & Hc). simpl. rewrite Ht, Hm. split; [reflexivity|].
    rewrite Hr, skipn_length in Hc. lia.
Qed.

(* the whole bag: one output string per input shot, in order, each of the length of its source string; the stream
   supplies exactly one draw per character *)
Theorem errors_preserve_count pfp pfn : forall items rs out rest,
  apply_measurement_errors pfp pfn items rs = Some (out, rest) ->
  map (@length nat) out = flat_map (fun it => repeat (length (fst it)) (snd it)) items /\
  length out = total_count items /\
  length rs = fold_right (fun it acc => snd it * length (fst it) + acc) 0 items + length rest.
Proof.
  induction items as [|[s count] items IH]; intros rs out rest H; simpl in H.
  - injection H as <- <-. simpl. repeat split; reflexivity.
  - destruct (readout_repeat pfp pfn s count rs) as [[ts r1]|] eqn:E1; [|discriminate].
    destruct (apply_measurement_errors pfp pfn items r1) as [[us r2]|] eqn:E2; [|discriminate].
    injection H as <- <-. destruct (readout_repeat_spec _ _ _ _ _ _ _ E1) as (Hm & Hc).
    destruct (IH _ _ _ E2) as (Hm2 & Hl2 & Hc2). simpl.
    rewrite map_app, Hm, Hm2, app_length, Hl2. repeat split; try lia.
    f_equal. rewrite <- (map_length (@length nat) ts), Hm, repeat_length. reflexivity.
Qed.

(* ---- the gates -------------------------------------------------------------------------------------------- *)
(* the written condition `pfn > 0 or pfp > 0 and dim == 2` differs from `(pfn > 0 or pfp > 0) and dim == 2`
   exactly when pfn > 0 and dim != 2 *)
Theorem error_gate_table pfn_pos pfp_pos dim :
  gate_applies pfn_pos pfp_pos dim <> gate_intended pfn_pos pfp_pos dim <-> (pfn_pos = true /\ dim <> 2).
Proof.
  unfold gate_applies, gate_intended. destruct (Nat.eqb_spec dim 2) as [E|E];
    destruct pfn_pos, pfp_pos; simpl; split; intros H; try congruence; try (destruct H; congruence); auto.
Qed.

(* with more than two levels a positive false-positive rate always ends in NotImplementedError, so the only
   non-qubit configuration in which errors are applied and returned is pfn > 0, pfp = 0 *)
Theorem error_gate_qutrit pfn_pos pfp_pos dim : 2 < dim ->
  gate_raises pfp_pos dim = pfp_pos /\
  (gate_applies pfn_pos pfp_pos dim = true /\ gate_raises pfp_pos dim = false <-> pfn_pos = true /\ pfp_pos = false).
Proof.
  intros H. unfold gate_raises, gate_applies. destruct (Nat.ltb_spec 2 dim); [|lia].
  destruct (Nat.eqb_spec dim 2); [lia|]. destruct pfn_pos, pfp_pos; simpl; repeat split; intros; intuition congruence.
Qed.

(* ---- the batch loop ---------------------------------------------------------------------------------------- *)
Definition sum_list (l : list nat) : nat := fold_right Nat.add 0 l.

Theorem batch_total : forall fuel mb done n, 0 < mb -> n - done <= fuel ->
  exists l, batches fuel mb done n = LOk l /\ done + sum_list l = Nat.max done n /\
            Forall (fun b => 1 <= b <= mb) l /\ length l = (n - done + mb - 1) / mb.
Proof.
  induction fuel as [|f IH]; intros mb done n Hmb Hf.
  - exists []. simpl. destruct (Nat.ltb_spec done n); [lia|]. repeat split; auto; simpl; try lia.
    replace (n - done + mb - 1) with (mb - 1) by lia. symmetry. apply Nat.div_small. lia.
  - simpl. destruct (Nat.ltb_spec done n) as [L|L].
    + set (b := Nat.min mb (n - done)).
      assert (Hb : 1 <= b <= mb /\ b <= n - done) by (unfold b; lia).
      destruct (IH mb (done + b) n Hmb ltac:(lia)) as (l & -> & Hs & Hall & Hlen).
      exists (b :: l). repeat split.
      * simpl. lia.
      * constructor; [lia | assumption].
      * simpl. rewrite Hlen. destruct (Nat.le_gt_cases mb (n - done)) as [C|C].
        -- assert (b = mb) by (unfold b; lia).
           replace (n - done + mb - 1) with ((n - (done + b) + mb - 1) + 1 * mb) by lia.
           rewrite Nat.div_add by lia. lia.
        -- assert (b = n - done) by (unfold b; lia).
           replace (n - (done + b) + mb - 1) with (mb - 1) by lia. rewrite (Nat.div_small (mb - 1)) by lia.
           replace (n - done + mb - 1) with ((n - done - 1) + 1 * mb) by lia.
           rewrite Nat.div_add by lia. rewrite (Nat.div_small (n - done - 1)) by lia. reflexivity.
    + exists []. repeat split; auto; simpl; try lia.
      replace (n - done + mb - 1) with (mb - 1) by lia. symmetry. apply Nat.div_small. lia.
Qed.

(* ---- sequential conditional sampling ---------------------------------------------------------------------- *)
(* whatever the oracle answers, the rows it is shown are the conditional weight rows along the string it produced,
   the chosen weights are the running weights and the row sums the denominators of the chain rule *)
Lemma sample_shot_rows (K : Type) (Ko : RingOps K) (pick : list K -> nat) : forall Ts v b wss,
  sample_shot Ko pick v Ts = Some (b, wss) ->
  wss = weight_rows Ko v Ts b /\ length b = length Ts /\
  map (fun w => sumL Ko w (fun x => x)) wss = run_denoms Ko v Ts b /\
  map (fun sw => nth (fst sw) (snd sw) (k0 Ko)) (combine b wss) = run_weights Ko v Ts b /\
  (forall q, q < length b -> nth q b 0 = pick (nth q wss [])).
Proof.
  induction Ts as [|T Ts IH]; intros v b wss H; simpl in H.
  - injection H as <- <-. repeat split; auto. intros q Hq. simpl in Hq. lia.
  - destruct (Nat.ltb_spec (pick (site_weights Ko v T)) (dp T)) as [L|L]; [|discriminate].
    destruct (sample_shot Ko pick (vstep Ko v T (pick (site_weights Ko v T))) Ts) as [[b' wss']|] eqn:E; [|discriminate].
    injection H as <- <-. destruct (IH _ _ _ E) as (-> & Hl & Hd & Hw & Hp). simpl. repeat split.
    + lia.
    + rewrite Hd. reflexivity.
    + rewrite Hw. f_equal. unfold site_weights.
      rewrite (nth_indep _ (k0 Ko) ((fun s => norm2 Ko (vstep Ko v T s)) 0)) by (rewrite map_length, seq_length; assumption).
      rewrite (map_nth (fun s => norm2 Ko (vstep Ko v T s))), seq_nth by assumption. reflexivity.
    + intros [|q] Hq; [reflexivity|]. simpl. apply Hp. simpl in Hq. lia.
Qed.

Section ChainRule.
Variable K : Type.
Variable Ko : RingOps K.
Hypothesis Kring : ring_theory (k0 Ko) (k1 Ko) (kadd Ko) (kmul Ko) (ksub Ko) (kopp Ko) (@eq K).
Hypothesis conj_add : forall a b, kconj Ko (kadd Ko a b) = kadd Ko (kconj Ko a) (kconj Ko b).
Hypothesis conj_mul : forall a b, kconj Ko (kmul Ko a b) = kmul Ko (kconj Ko a) (kconj Ko b).
Hypothesis conj_zero : kconj Ko (k0 Ko) = k0 Ko.
Add Ring KRing15 : Kring.
Local Notation "'zero'" := (k0 Ko).
Local Notation "'one'" := (k1 Ko).
Local Infix "[+]" := (kadd Ko) (at level 50, left associativity).
Local Infix "[*]" := (kmul Ko) (at level 40, left associativity).
Local Notation sumn := (sumn Ko).
Local Notation sumL := (sumL Ko).
Local Notation dotf := (dotf Ko).
Local Notation vstep := (vstep Ko).
Local Notation ampv := (ampv Ko).
Local Notation cj := (kconj Ko).
Local Notation T3 := (T3 K).
Local Notation norm2 := (norm2 Ko).

(* the rows of the matrix T[l, (s, r)] are orthonormal: what MPS.orthogonalize(0) establishes for every factor to
   the right of site 0 *)
Definition right_orth (T : T3) : Prop :=
  forall l l', l < dl T -> l' < dl T ->
    sumn (dp T) (fun s => sumn (dr T) (fun r => cj (tf T l s r) [*] tf T l' s r)) = if l =? l' then one else zero.

Lemma norm2_sumn (v : list K) : norm2 v = sumn (length v) (fun l => cj (nth l v zero) [*] nth l v zero).
Proof.
  unfold Sampling.norm2. induction v as [|a v IH]; [reflexivity|].
  change (length (a :: v)) with (1 + length v). rewrite (sumn_split K Ko Kring). simpl. rewrite IH. ring.
Qed.

Lemma norm2_map_seq n (h : nat -> K) : norm2 (map h (seq 0 n)) = sumn n (fun r => cj (h r) [*] h r).
Proof.
  rewrite norm2_sumn, map_length, seq_length. apply (sumn_ext K Ko). intros i Hi.
  rewrite (nth_map_seq K h zero n i Hi). reflexivity.
Qed.

Lemma sumn_delta n (f : nat -> K) l : l < n ->
  sumn n (fun l' => f l' [*] (if l =? l' then one else zero)) = f l.
Proof.
  induction n as [|n IH]; intros H; [lia|]. simpl.
  destruct (Nat.eqb_spec l n) as [->|E].
  - rewrite (sumn_ext K Ko n _ (fun _ => zero)).
    + rewrite (sumn_zero K Ko Kring). ring.
    + intros i Hi. destruct (Nat.eqb_spec n i); [lia|]. ring.
  - rewrite IH by lia. ring.
Qed.

(* the conditional weights of a site sum to the running weight *)
Theorem cond_weights_sum (v : list K) (T : T3) : length v = dl T -> right_orth T ->
  sumL (site_weights Ko v T) (fun w => w) = norm2 v.
Proof.
  intros Hl Ho. unfold site_weights. rewrite (sumL_map K Ko), (sumL_seq K Ko Kring).
  transitivity (sumn (dp T) (fun s => sumn (dr T) (fun r =>
      sumn (dl T) (fun l => sumn (dl T) (fun l' =>
        cj (nth l v zero) [*] nth l' v zero [*] (cj (tf T l s r) [*] tf T l' s r)))))).
  - apply (sumn_ext K Ko). intros s _. unfold TransferMat.vstep. rewrite norm2_map_seq.
    apply (sumn_ext K Ko). intros r _. rewrite !(dotf_sumn K Ko Kring), Hl.
    rewrite (conj_sumn K Ko conj_add conj_zero). rewrite (sumn_mul_sumn K Ko Kring).
    apply (sumn_ext K Ko). intros l _. apply (sumn_ext K Ko). intros l' _. rewrite conj_mul. ring.
  - rewrite (sumn_reorder4 K Ko Kring). rewrite norm2_sumn, Hl.
    apply (sumn_ext K Ko). intros l Hlt.
    transitivity (sumn (dl T) (fun l' => cj (nth l v zero) [*] nth l' v zero [*] (if l =? l' then one else zero))).
    + apply (sumn_ext K Ko). intros l' Hl'. rewrite <- (Ho l l' Hlt Hl').
      rewrite <- (sumn_scale K Ko Kring). apply (sumn_ext K Ko). intros s _.
      rewrite <- (sumn_scale K Ko Kring). reflexivity.
    + rewrite (sumn_delta (dl T) (fun l' => cj (nth l v zero) [*] nth l' v zero) l Hlt). reflexivity.
Qed.

(* the last running weight is |amplitude|^2 *)
Lemma final_weight : forall Ts v b x d, Ts <> [] -> ampv v Ts b = Some x ->
  last (run_weights Ko v Ts b) d = cj x [*] x.
Proof.
  induction Ts as [|T Ts IH]; intros v b x d Hne H; [contradiction|].
  destruct (ampv_cons_inv K Ko _ _ _ _ _ H) as (s & b' & -> & L & Hs & H').
  simpl. destruct Ts as [|T' Ts'].
  - destruct (ampv_nil_inv K Ko _ _ _ H') as (-> & E). simpl. rewrite E. unfold Sampling.norm2. simpl. ring.
  - specialize (IH (vstep v T s) b' x d ltac:(discriminate) H').
    destruct (ampv_cons_inv K Ko _ _ _ _ _ H') as (s' & b'' & -> & _ & _ & _). simpl in IH |- *. exact IH.
Qed.

(* every denominator after the first is the previous running weight *)
Lemma denoms_shift : forall Ts v b x, Forall right_orth Ts -> ampv v Ts b = Some x ->
  run_denoms Ko v Ts b = removelast (norm2 v :: run_weights Ko v Ts b).
Proof.
  induction Ts as [|T Ts IH]; intros v b x Ho H.
  - destruct (ampv_nil_inv K Ko _ _ _ H) as (-> & _). reflexivity.
  - destruct (ampv_cons_inv K Ko _ _ _ _ _ H) as (s & b' & -> & L & Hs & H').
    inversion Ho as [|T0 Ts0 HoT HoTs]; subst.
    cbn [run_denoms run_weights]. rewrite (cond_weights_sum v T L HoT).
    rewrite (IH _ _ _ HoTs H'). reflexivity.
Qed.

Lemma prodL_removelast (l : list K) d : l <> [] -> prodL Ko l = prodL Ko (removelast l) [*] last l d.
Proof.
  induction l as [|a l IH]; intros H; [contradiction|].
  destruct l as [|a' l']; [simpl; ring|].
  change (removelast (a :: a' :: l')) with (a :: removelast (a' :: l')).
  change (last (a :: a' :: l') d) with (last (a' :: l') d).
  change (prodL Ko (a :: a' :: l')) with (a [*] prodL Ko (a' :: l')).
  change (prodL Ko (a :: removelast (a' :: l'))) with (a [*] prodL Ko (removelast (a' :: l'))).
  rewrite (IH ltac:(discriminate)). ring.
Qed.

(* Chain rule / Born rule, division-free: for a chain T0 :: Ts whose factors right of site 0 are right-orthonormal
   (T0 arbitrary: the orthogonality centre), along any outcome string b with amplitude x:
     - the first denominator is D0 = sum_s w_0(s)  (the squared norm of the centre factor),
     - every later denominator equals the previous running weight,
     - the last running weight is |x|^2,
   hence  (prod_q W_q) * D0 = |x|^2 * (prod_q D_q),  i.e.  prod_q (W_q / D_q) = |<b|psi>|^2 / D0. *)
Theorem mps_chain_rule (T0 : T3) (Ts : list T3) (s : nat) (b : list nat) (x : K) :
  Forall right_orth Ts -> ampv [one] (T0 :: Ts) (s :: b) = Some x ->
  let ws := run_weights Ko [one] (T0 :: Ts) (s :: b) in
  let ds := run_denoms Ko [one] (T0 :: Ts) (s :: b) in
  let D0 := sumL (site_weights Ko [one] T0) (fun w => w) in
  ds = D0 :: removelast ws /\
  last ws zero = cj x [*] x /\
  prodL Ko ws [*] D0 = (cj x [*] x) [*] prodL Ko ds.
Proof.
  intros Ho H ws ds D0.
  destruct (ampv_cons_inv K Ko _ _ _ _ _ H) as (s0 & b0 & E & L & Hs & H'). injection E as <- <-.
  assert (Eds : ds = D0 :: removelast ws).
  { unfold ds, ws. cbn [run_denoms run_weights]. rewrite (denoms_shift _ _ _ _ Ho H'). reflexivity. }
  assert (Elast : last ws zero = cj x [*] x) by (apply final_weight; [discriminate | exact H]).
  repeat split; try assumption.
  rewrite Eds. change (prodL Ko (D0 :: removelast ws)) with (D0 [*] prodL Ko (removelast ws)).
  rewrite (prodL_removelast ws zero) by (unfold ws; simpl; discriminate).
  rewrite Elast. ring.
Qed.

End ChainRule.

(* the premises are satisfiable: a 3-site Gaussian-integer chain whose factors right of site 0 have orthonormal rows *)
Definition ex_orth : list (T3 GI) :=
  [ of_list3 gi_ops 2 2 2 [[[(0,0)%Z; (1,0)%Z]; [(0,0)%Z; (0,0)%Z]]; [[(0,0)%Z; (0,0)%Z]; [(0,1)%Z; (0,0)%Z]]];
    of_list3 gi_ops 2 2 1 [[[(0,1)%Z]; [(0,0)%Z]]; [[(0,0)%Z]; [(1,0)%Z]]] ].
Definition ex_centre : T3 GI := of_list3 gi_ops 1 2 2 [[[(1,2)%Z; (0,-1)%Z]; [(3,0)%Z; (1,1)%Z]]].
Definition right_orth_b (T : T3 GI) : bool :=
  forallb (fun l => forallb (fun l' =>
    gi_eqb (TransferMat.sumn gi_ops (dp T) (fun s => TransferMat.sumn gi_ops (dr T) (fun r =>
              kmul gi_ops (kconj gi_ops (tf T l s r)) (tf T l' s r))))
           (if l =? l' then k1 gi_ops else k0 gi_ops)) (seq 0 (dl T))) (seq 0 (dl T)).
Lemma chain_rule_example :
  forallb right_orth_b ex_orth = true /\ amp gi_ops (ex_centre :: ex_orth) [1; 0; 1] <> None.
Proof. split; [vm_compute; reflexivity | vm_compute; discriminate]. Qed.
