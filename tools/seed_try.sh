#!/bin/bash
# usage: seed_try.sh <seed-id> <check>...   -- runs the given checks against a private copy of /repo with the seed's patch
sid=$1; shift
d=/var/tmp/seed_try_$sid
rm -rf $d; rsync -a --exclude .git /repo/ $d/ && patch -s -p1 -d $d < /verif/seeded/$sid/patch.diff || exit 2
for p in "$@"; do
  VERIF_REPO=$d /verif/check $p 2>&1 | grep -E "^VIOLATION|^KNOWN-FINDING|\] tier|BROKEN" | cut -c1-300
done
rm -rf $d
