#!/bin/bash
# usage: seed_try.sh <seed-id> <check>...   -- runs the given checks against a private copy of /repo with the seed's patch
sid=$1; shift
d=/var/tmp/seed_try_$sid
rm -rf $d; rsync -a --exclude .git /repo/ $d/ && patch -s -p1 -d $d < /verif/seeded/$sid/patch.diff || exit 2
for p in "$@"; do
  VERIF_REPO=$d /verif/check $p > /var/tmp/seed_try_$sid.$p.log 2>&1 || rc=1; grep -E "^VIOLATION|^KNOWN-FINDING|\] tier|BROKEN" /var/tmp/seed_try_$sid.$p.log | cut -c1-300; rm -f /var/tmp/seed_try_$sid.$p.log
done
rm -rf $d /verif/build/alt/$(printf %s "$d" | sha1sum | cut -c1-10); exit ${rc:-0}
