"""Emit the 'as built' per-property table for DESIGN.md from the property modules and Properties/*.v."""
import importlib, json, os, re, sys
sys.path.insert(0, os.path.dirname(__file__))
HERE = os.path.dirname(os.path.dirname(os.path.abspath(__file__)))
props = [json.loads(l) for l in open(os.path.join(HERE, "properties.jsonl"))]
out = []
for p in props:
    pid = p["id"]
    try:
        mod = importlib.import_module("props." + pid.lower()); meta = mod.META
    except Exception as ex:
        out.append(f"### {pid} — not built ({ex})\n"); continue
    v = os.path.join(HERE, "coq", "Properties", pid + ".v")
    text = re.sub(r"\(\*.*?\*\)", "", open(v).read(), flags=re.S) if os.path.exists(v) else ""
    thms = re.findall(r"^\s*(?:Theorem|Corollary)\s+([A-Za-z0-9_']+)", text, flags=re.M)
    out.append(f"### {pid} — {p['title']}\n")
    out.append(f"*Technique.* {meta['technique']}\n")
    out.append(f"*Claim.* {meta['text']}\n")
    out.append(f"*Trusted / assumed.* {meta['note']}\n")
    out.append("*Theorems (`coq/Properties/%s.v`).* %s\n" % (pid, ", ".join(f"`{t}`" for t in thms)))
print("\n".join(out))
