"""Evaluate a seeded mutation: usage  seed_eval.py <seed-id> <worktree> <prop> [<other props>...]
Creates /verif/seeded/<seed-id>/{patch.diff, demo.py, meta.json}; runs the demo on pristine and mutated copies of
/repo (never /repo itself) and the given checks with VERIF_REPO pointing at the mutated copy."""
import json
import os
import shutil
import subprocess
import sys
import time

sid, wt, props = sys.argv[1], sys.argv[2], sys.argv[3:]
out = f"/verif/seeded/{sid}"
os.makedirs(out, exist_ok=True)
if os.path.isdir(wt):
    patch = subprocess.run(["git", "-C", wt, "diff", "--", "emu_base", "emu_mps", "emu_sv"], capture_output=True, text=True).stdout
    open(f"{out}/patch.diff", "w").write(patch)
    for f in ("demo.py", "NOTES.md"):
        if os.path.exists(f"{wt}/{f}"):
            shutil.copy(f"{wt}/{f}", f"{out}/{f}")
else:  # the scratch worktree is gone: re-evaluate from what was kept under seeded/<id>/
    patch = open(f"{out}/patch.diff").read()
scratch = f"/var/tmp/seed_eval_{sid}"
shutil.rmtree(scratch, ignore_errors=True)
os.makedirs(scratch)
res = {"seed": sid, "props": props, "patch_lines": len(patch.splitlines())}
for kind in ("orig", "mut"):
    d = f"{scratch}/{kind}"
    subprocess.run(["rsync", "-a", "--exclude", ".git", "/repo/", d + "/"], check=True)
    if kind == "mut":
        r = subprocess.run(["patch", "-p1", "-d", d], input=patch, text=True, capture_output=True)
        res["patch_applies"] = r.returncode == 0
        if r.returncode != 0:
            res["patch_error"] = r.stdout + r.stderr
    if os.path.exists(f"{out}/demo.py"):
        shutil.copy(f"{out}/demo.py", d + "/demo.py")
        env = dict(os.environ, PYTHONPATH=d, PYTHONHASHSEED="0")
        try:
            r = subprocess.run(["/venv/bin/python", "demo.py"], cwd=d, env=env, capture_output=True, text=True, timeout=900)
            res[f"demo_{kind}"] = {"rc": r.returncode, "tail": (r.stdout + r.stderr)[-600:]}
        except subprocess.TimeoutExpired:
            res[f"demo_{kind}"] = {"rc": "timeout"}
checks = {}
for p in props:
    t0 = time.time()
    env = dict(os.environ, VERIF_REPO=f"{scratch}/mut")
    r = subprocess.run(["./check", p], cwd="/verif", env=env, capture_output=True, text=True, timeout=3000)
    lines = [l for l in r.stdout.splitlines() if l.startswith(("VIOLATION", "KNOWN-FINDING", f"[{p}] tier", f"[{p}] BROKEN"))]
    checks[p] = {"rc": r.returncode, "wall_s": round(time.time() - t0, 1), "lines": [l[:300] for l in lines][:12]}
    # replay files are transient: keep a copy of the first one
    for l in lines:
        if l.startswith("VIOLATION") and "replay=" in l:
            rp = l.split("replay=")[1].split()[0]
            if os.path.exists(rp):
                shutil.copy(rp, f"{out}/replay_{p}.json")
            break
res["checks"] = checks
res["detected_by"] = [p for p, c in checks.items() if c["rc"] != 0]
json.dump(res, open(f"{out}/result.json", "w"), indent=1)
print(json.dumps(res, indent=1)[:3000])
shutil.rmtree(scratch, ignore_errors=True)
import hashlib
shutil.rmtree(f"/verif/build/alt/{hashlib.sha1((scratch + '/mut').encode()).hexdigest()[:10]}", ignore_errors=True)
# restore the evidence of the real tree for the props we just ran against a mutated copy
