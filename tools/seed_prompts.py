"""Write the prompts for a round of seeded-change sub-agents (one per property) and create their scratch
worktrees of /repo under /tmp.  The prompt contains the property text only (nothing from /verif's machinery);
for a second round it also quotes the diff the first-round agent produced, so that a different mechanism is chosen.
usage: seed_prompts.py <round-prefix e.g. seed2> [ids...]"""
import json
import os
import subprocess
import sys

prefix = sys.argv[1]
want = sys.argv[2:]
out = "/var/tmp/seedprompts"
os.makedirs(out, exist_ok=True)
for line in open("/verif/properties.jsonl"):
    p = json.loads(line)
    pid = p["id"]
    if want and pid not in want:
        continue
    wt = f"/tmp/{prefix}_{pid}"
    if not os.path.exists(wt):
        subprocess.run(["git", "-C", "/repo", "worktree", "add", "--detach", wt, "HEAD"], check=True, capture_output=True)
    prev = ""
    for old in sorted(os.listdir("/verif/seeded")):
        if old.endswith("-" + pid) and not old.startswith(prefix + "-"):
            d = open(f"/verif/seeded/{old}/patch.diff").read().splitlines()
            prev += f"\n--- change already tried in an earlier round ({old}) ---\n" + "\n".join(d[:70]) + "\n"
    anchors = json.dumps(p["anchors"], indent=1)
    text = f"""You are helping to test a verification effort for the Python project pasqal-io/emulators (PyTorch-based
neutral-atom quantum emulators for Pulser sequences: packages emu_base, emu_mps, emu_sv). You have your own scratch git
worktree of the project at {wt} (detached HEAD). Work ONLY there. Never read or write anything under /repo or /verif.
Python is /venv/bin/python; the packages are otherwise importable from /repo, so ALWAYS run with
PYTHONPATH={wt} and verify once with `cd {wt} && PYTHONPATH={wt} /venv/bin/python -c "import emu_mps, emu_sv, emu_base; print(emu_mps.__file__)"`.
There is no network. Keep CPU use moderate: export OMP_NUM_THREADS=2 MKL_NUM_THREADS=2 for everything you run.

THE PROPERTY ({pid}): {p['title']}
Statement: {p['statement']}
Quantified over: {p['quantifier']['text']}
Anchored in: {anchors}

YOUR TASK: make ONE realistic change to the project's source (under emu_base/, emu_mps/ or emu_sv/ only, never the
tests) of the kind that could plausibly slip through code review -- a refactor, an optimisation or shortcut, a
"simplification", an off-by-one, a wrong index / ordering / transpose, a stale cache, a tolerance change, a swapped
argument, a dropped special case, a changed default... -- such that

 1. the project still imports and the EXISTING test suite still passes with your change
    (cd {wt} && OMP_NUM_THREADS=2 PYTHONPATH={wt} /venv/bin/python -m pytest -q -p no:cacheprovider --timeout=900 ;
    it takes 2-10 minutes; run only the relevant test files while iterating and the whole suite ONCE at the end (other agents share the machine);
    test/emu_mps/test_end_to_end.py::test_XY_3atoms and ::test_XY_3atomswith_slm already fail on the unchanged code:
    ignore exactly these two);
 2. the property above is violated for some inputs: write {wt}/demo.py, a stand-alone script using only the public
    behaviour of the packages (no imports from test/), that prints PASS and exits 0 on the unchanged code and prints
    FAIL and exits 1 with your change, in well under 5 minutes;
 3. the change is subtle: not a crash or wrong result on every input, not in dead code, but a behaviour change that
    shows only for some class of inputs -- say precisely which.
{("A different mechanism than before is required. " + prev) if prev else ""}
To run the demo on the unchanged code use:  cd {wt} && git diff -- emu_base emu_mps emu_sv > my.patch && git apply -R my.patch && <run demo> ; git apply my.patch
Never use git stash, git checkout, git reset or git commit (the worktrees of several agents share one repository).

DELIVER, all inside {wt}: your change applied and uncommitted; demo.py; NOTES.md (the change and why it looks innocent,
which clause of the property it breaks, exactly which inputs trigger it and which do not, the test commands you ran with
pass counts, the demo output on unchanged and changed code). As the very last step, when everything is verified, create
the empty file {wt}/DONE. Then reply with a short report.
"""
    open(f"{out}/{prefix}_{pid}.txt", "w").write(text)
    print(pid, wt, len(text))
