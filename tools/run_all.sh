#!/bin/bash
# Run every check of the MANIFEST (tier $1, default quick) against /repo; summary in build/run_all_<tier>.txt
tier=${1:-quick}; par=${2:-4}
cd "$(dirname "$0")/.."
mkdir -p build/run_all
ids=$(python3 -c "import json; print(' '.join(c['property_id'] for c in json.load(open('MANIFEST.json'))['checks']))")
echo $ids | tr ' ' '\n' | xargs -P $par -I{} sh -c "start=\$(date +%s); ./check {} --tier $tier > build/run_all/{}_$tier.log 2>&1; echo {} rc=\$? \$((\$(date +%s)-start))s"
