"""Regenerate MANIFEST.json from the META dictionaries of tools/props/cXX.py."""
import importlib
import json
import os
import sys

sys.path.insert(0, os.path.dirname(__file__))
HERE = os.path.dirname(os.path.dirname(os.path.abspath(__file__)))
props = [json.loads(l) for l in open(os.path.join(HERE, "properties.jsonl"))]
checks, na = [], []
for p in props:
    pid = p["id"]
    path = os.path.join(HERE, "tools", "props", pid.lower() + ".py")
    meta = None
    if os.path.exists(path):
        try:
            mod = importlib.import_module("props." + pid.lower())
            meta = getattr(mod, "META", None)
        except Exception as ex:  # module still being written
            print(f"{pid}: not importable yet ({ex})")
            meta = None
    if not meta or meta.get("not_applicable"):
        na.append({"property_id": pid, "reason": (meta or {}).get(
            "not_applicable", "check not built yet in this session; see DESIGN.md section 4 for the planned model")})
        continue
    checks.append({
        "property_id": pid,
        "quick_cmd": f"./check {pid} --tier quick",
        "thorough_cmd": f"./check {pid} --tier thorough",
        "evidence_file": f"/verif/evidence/{pid}.json",
        "replay_cmd_template": f"./check {pid} --replay {{path}}",
        "engine": "coq-proof+correspondence",
        "level_claimed": {"category": meta.get("category", "proof"), "text": meta["text"],
                          "design_ref": f"DESIGN.md section 4, {pid}"},
        "level_note": meta["note"],
        "technique": meta["technique"],
    })
man = {
    "version": 1,
    "setup_cmd": "./check --setup",
    "hooks": {
        "guard": "PASQAL_IO_EMULATORS_VERIF",
        "enable": "export PASQAL_IO_EMULATORS_VERIF=1 (set by ./check; no source hooks are compiled in: the harness rebinds module-level names of the running interpreter)",
        "baseline_off_cmd": "cd /repo && env -u PASQAL_IO_EMULATORS_VERIF /venv/bin/python -m pytest -ra -q -p no:cacheprovider --timeout=900 --continue-on-collection-errors",
        "source_commits": [],
        "add_only": True,
    },
    "engines": [{
        "name": "coq-proof+correspondence", "path": "/verif/check",
        "serves_properties": [c["property_id"] for c in checks],
        "kind_free_text": "Coq 8.16 theorems over models tied to /repo on every run by a Python-ast translator (coq/Gen) or by a vm_compute correspondence against the real code; falsifier search on the real code for the replay",
    }],
    "checks": checks,
    "not_applicable": na,
    "notes": "See DESIGN.md. Fix commits in /repo are listed in known_findings.json.",
}
json.dump(man, open(os.path.join(HERE, "MANIFEST.json"), "w"), indent=1)
print(f"{len(checks)} checks, {len(na)} not claimed")
