"""C03 — results are independent of the internal qubit reordering; results list atoms in register order.

Coq: Model/QubitOrder.v (bookkeeping of MPSBackendImpl.__init__/_get_interaction_matrix/init_dark_qubits/
update_H, permute_results, the exits run/resume, the whitelist) with one switch per place where the code
was found to deviate; theorems in Properties/C03.v hold for every permutation/size/result set.
Tie (checked every run): the real code is driven with forced permutations (rebinding
`emu_mps.optimatrix.minimize_bandwidth`; `make_H`/`update_H` of emu_mps.mps_backend_impl are wrapped
by recorders) and compared exactly with the model; the comparison also *determines* which variant
(legacy/fixed switch values) the code follows.  The property holds iff every switch is on; otherwise
concrete end-to-end witnesses are reported as VIOLATION (finding keys F-03-*, F-04-*, F-10-*).
"""
import json
import math
import os
import tempfile
from collections import Counter
from types import SimpleNamespace

from vlib import common

HEADER = """From Coq Require Import String Ascii ZArith List Bool.
Import ListNotations.
From EV Require Import Base.Arith Model.Permutations Model.Optimiser Model.QubitOrder.
Open Scope Z_scope."""


def zl(xs):
    return "[" + "; ".join(str(int(x)) if x >= 0 else f"({int(x)})" for x in xs) + "]"


def nl(xs):
    return "([" + "; ".join(str(int(x)) for x in xs) + "]%nat)"


def zm(m):
    return "[" + "; ".join(zl(r) for r in m) + "]"


def bl(xs):
    return "[" + "; ".join("true" if x else "false" for x in xs) + "]"


def sl(xs):
    return "[" + "; ".join(f'"{x}"%string' for x in xs) + "]"


def okv(v):
    return v[1] if isinstance(v, tuple) and v[0] == "Ok" else None


# ---- driving the real backend ---------------------------------------------------------------
class Forced:
    """minimize_bandwidth -> forced permutation (perm=None: the real optimiser runs and its choice is recorded in
    .chosen); make_H / update_H recorded."""

    def __init__(self, perm):
        self.perm = perm
        self.chosen = None
        self.make_H, self.update_H = [], []

    def __enter__(self):
        import torch
        import emu_mps.optimatrix as optimat
        import emu_mps.mps_backend_impl as impl_mod

        self.mods = (optimat, impl_mod)
        self.saved = (optimat.minimize_bandwidth, impl_mod.make_H, impl_mod.update_H)
        me = self
        real_minimize = optimat.minimize_bandwidth

        def minimize(m, *a, **k):
            if me.perm is not None:
                return torch.tensor(me.perm)
            me.chosen = real_minimize(m, *a, **k)  # the REAL optimiser, on the very tensor the backend passes in
            return me.chosen

        optimat.minimize_bandwidth = minimize
        real_make_H, real_update_H = impl_mod.make_H, impl_mod.update_H

        def make_H(**kw):
            me.make_H.append(kw["interaction_matrix"].clone())
            return real_make_H(**kw)

        def update_H(**kw):
            me.update_H.append({k: kw[k].clone() for k in ("omega", "delta", "phi")})
            return real_update_H(**kw)

        impl_mod.make_H, impl_mod.update_H = make_H, update_H
        return self

    def __exit__(self, *a):
        optimat, impl_mod = self.mods
        optimat.minimize_bandwidth, impl_mod.make_H, impl_mod.update_H = self.saved


class ConstMatrix:
    """picklable time-independent interaction matrix"""

    def __init__(self, m):
        self.m = m

    def __call__(self, t):
        return self.m


class SwitchMatrix:
    """picklable time-dependent interaction matrix (as with an SLM mask): m1 while t < t_switch, m2 afterwards"""

    def __init__(self, m1, m2, t_switch):
        self.m1, self.m2, self.t_switch = m1, m2, t_switch

    def __call__(self, t):
        return self.m1 if t < self.t_switch else self.m2


def masked(inter, atoms):
    """interaction matrix with the rows/columns of the SLM-masked atoms zeroed"""
    return [[0 if (i in atoms or j in atoms) else inter[i][j] for j in range(len(inter))] for i in range(len(inter))]


def make_data(n, omega_rows, delta_rows, phi_rows, inter, bad=None, spe=0.0, dt=10, switch=None):
    """hand-built SequenceData: one row of omega/delta/phi per time step, one column per atom"""
    import torch
    from emu_base import SequenceData, HamiltonianType

    c = torch.complex128
    steps = len(omega_rows)
    M = torch.tensor(inter, dtype=torch.float64).reshape(n, n)
    return SequenceData(
        omega=torch.tensor(omega_rows, dtype=c).reshape(steps, n), delta=torch.tensor(delta_rows, dtype=c).reshape(steps, n),
        phi=torch.tensor(phi_rows, dtype=c).reshape(steps, n),
        interaction_matrix=ConstMatrix(M) if switch is None else SwitchMatrix(
            torch.tensor(switch[0], dtype=torch.float64).reshape(n, n), M, float(switch[1])),
        qubit_ids=tuple(f"q{a}" for a in range(n)), bad_atoms=tuple(bad or [False] * n), lindblad_ops=[],
        state_prep_error=spe, target_times=[float(dt * k) for k in range(steps + 1)], eigenstates=["r", "g"],
        hamiltonian_type=HamiltonianType.Rydberg)


def make_config(obs, **kw):
    import logging
    from emu_mps import MPSConfig

    return MPSConfig(observables=obs, dt=10, log_level=logging.ERROR, precision=1e-9, **kw)


# ---- A. routing --------------------------------------------------------------------------------
def gen_routing_case(rng, with_bad):
    n = rng.randint(4, 6) if with_bad else rng.randint(2, 6)
    perm = list(range(n))
    if rng.random() < 0.85:
        rng.shuffle(perm)
    inter = [[0] * n for _ in range(n)]
    k = 1
    for i in range(n):
        for j in range(i):
            inter[i][j] = inter[j][i] = k
            k += 1
    bad = [False] * n
    if with_bad:
        for b in rng.sample(range(n), rng.randint(1, n - 3) if n > 3 else 1):
            bad[b] = True
    steps = 3
    mask_atoms = rng.sample(range(n), rng.randint(1, max(1, n // 2)))
    return {"n": n, "perm": perm, "inter": inter, "bad": bad, "with_bad": with_bad,
            # SLM-like: masked matrix during the first step (midpoint 5 < 12), full matrix afterwards
            "inter_masked": masked(inter, mask_atoms), "t_switch": 12.0,
            # pairwise distinct per atom, different in every row (time step), different between the arrays
            "omega": [[10 + 3 * a + 100 * t for a in range(n)] for t in range(steps)],
            "delta": [[-(20 + a) - 50 * t for a in range(n)] for t in range(steps)],
            "phi": [[40 + 2 * a + 7 * t for a in range(n)] for t in range(steps)]}


DRIVES = ("omega", "delta", "phi")


def real_routing(c):
    """what make_H and update_H actually receive (all three drive arrays, every time step)"""
    from pulser.backend import Occupation
    from emu_mps.mps_backend_impl import create_impl

    data = make_data(c["n"], c["omega"], c["delta"], c["phi"], c["inter"], bad=c["bad"],
                     spe=0.1 if c["with_bad"] else 0.0, switch=(c["inter_masked"], c["t_switch"]))
    cfg = make_config([Occupation(evaluation_times=[1.0])], optimize_qubit_ordering=True)
    rows = {k: [] for k in DRIVES}
    with Forced(c["perm"]) as f:
        impl = create_impl(data, cfg)
        impl.init()
        filt = impl.well_prepared_qubits_filter
        inter_steps = []
        for t in range(len(c["omega"])):  # the matrix the stepping asks for, step after step, on the same object
            impl.current_time, impl.target_time = 10.0 * t, 10.0 * (t + 1)
            inter_steps.append([[int(round(float(x))) for x in row] for row in impl._get_interaction_matrix()])
        impl.current_time, impl.target_time = 0.0, 10.0
        for t in range(len(c["omega"])):
            for which in ("update_H", "update_H_no_noise"):
                impl._timestep_index = t
                f.update_H.clear()
                getattr(impl, which)()
                got = {k: [int(round(x.real)) for x in f.update_H[-1][k].tolist()] for k in DRIVES}
                if which == "update_H":
                    for k in DRIVES:
                        rows[k].append(got[k])
                elif any(got[k] != rows[k][-1] for k in DRIVES):
                    rows["omega"][-1] = ["update_H and update_H_no_noise disagree", got]
    return {"inter": [[int(round(float(x))) for x in row] for row in f.make_H[0]], "inter_steps": inter_steps,
            "omega": rows["omega"], "delta": rows["delta"], "phi": rows["phi"],
            "filter": None if filt is None else [bool(x) for x in filt]}


def routing_expr(c):
    p = nl(c["perm"])
    allrows = [r for k in DRIVES for r in c[k]]
    leg = "[" + "; ".join(f"site_drive legacy {p} {zl(r)}" for r in allrows) + "]"
    fix = "[" + "; ".join(f"site_drive fixed {p} {zl(r)}" for r in allrows) + "]"
    return (f"(site_interaction {p} {zm(c['inter'])}, {leg}, {fix}, "
            f"site_bad legacy {p} {bl(c['bad'])}, site_bad fixed {p} {bl(c['bad'])}, site_interaction {p} {zm(c['inter_masked'])})")


def routing_compare(c, real, mv, flags):
    """narrow the set of switch values compatible with the observation; returns error text or None.
    ALL rows of omega, delta and phi must follow the same switch value."""
    inter, b_l, b_f, inter_m = okv(mv[0]), okv(mv[3]), okv(mv[4]), okv(mv[5])
    d_l, d_f = [okv(x) for x in mv[1]], [okv(x) for x in mv[2]]
    if inter is None or inter_m is None or b_l is None or b_f is None or any(x is None for x in d_l + d_f):
        return f"model raised: {mv}"
    real_rows = [r for k in DRIVES for r in real[k]]
    ok = set()
    for mask_v, bad in ((False, b_l), (True, b_f)):
        keep = [not b for b in bad]
        if c["with_bad"]:
            if real["filter"] != keep:
                continue
        else:
            keep = [True] * c["n"]
        def filt(m):
            return [[m[i][j] for j in range(c["n"]) if keep[j]] for i in range(c["n"]) if keep[i]]

        # time-dependent matrix: masked at make_H and during step 0 (midpoint 5 < t_switch), full afterwards
        steps_expected = [filt(inter_m if 10.0 * t + 5.0 < c["t_switch"] else inter) for t in range(len(c["omega"]))]
        if filt(inter_m) != real["inter"] or steps_expected != real["inter_steps"]:
            continue
        for drive_v, rows in ((False, d_l), (True, d_f)):
            if len(rows) == len(real_rows) and all([x for x, k in zip(m, keep) if k] == r for m, r in zip(rows, real_rows)):
                ok.add((drive_v, mask_v))
    if not ok:
        flags["routing"] = set()
        return (f"no variant reproduces the observed routing (interaction matrix at make_H and at every step, every row of omega/delta/phi, "
                f"bad-atom filter): case={c} real={real}")
    flags["routing"] = ok if flags["routing"] is None else (flags["routing"] & ok)
    if not flags["routing"]:
        return f"variants inconsistent across cases at {c}"
    return None


# ---- B. permute_results on real Results objects ---------------------------------------------------
# pulser puts no restriction on tag_suffix: draw from a hostile alphabet
HOSTILE = ["", "-", "t-end", "t=1.0", "0.5", ".", " ", "a b", "/", "+", "/+", "é", "量子", "_", "__", "a_b", "x", "x_y",
           "matrix", "occupation", "bitstrings", "correlation_matrix", "energy", "probe", "b", "s" * 200, "(1)", "a\\b",
           "t:1", "#", "%d", "*", "?", "[0]", "^$", "\\w+", "A", "0", "ü_1", "-_-"]
CUSTOM_BASES = ["occupation_probe", "bitstrings_raw", "correlation_matrix_x", "occupationx", "probe"]


def custom_observable(base, times, suffix):
    """an observable type unknown to emu-mps whose base tag merely starts with (or resembles) a per-atom tag"""
    from pulser.backend import Observable

    class Probe(Observable):
        @property
        def _base_tag(self):
            return base

        def apply(self, **kw):
            return None

    from pulser.backend.observable import AggregationMethod

    return Probe(evaluation_times=times, tag_suffix=suffix, default_aggregation_method=AggregationMethod.SKIP_WARN)


def coq_str(x):
    return '"' + x.replace('"', '""') + '"%string'


def gen_results_case(rng):
    n = rng.randint(2, 6)
    perm = list(range(n))
    rng.shuffle(perm)
    entries = []
    used = set()
    for _ in range(rng.randint(1, 6)):
        base = rng.choice(["occupation", "correlation_matrix", "bitstrings", "energy", "occupation", "correlation_matrix",
                           "occupation", "custom"])
        if base == "custom":
            base = rng.choice(CUSTOM_BASES)
        suffix = rng.choice([None, None, "b", "x"] + [rng.choice(HOSTILE) for _ in range(6)])
        tag = base if suffix is None else f"{base}_{suffix}"
        if tag in used:
            continue
        used.add(tag)
        times = sorted(rng.sample([0.25, 0.5, 0.75, 1.0], rng.randint(1, 3)))
        data = []
        for _t in times:
            if base == "occupation" or (base in CUSTOM_BASES and not base.startswith(("bitstrings", "correlation"))):
                data.append(("vec", [rng.randint(0, 9) for _ in range(n)]))
            elif base.startswith("correlation_matrix"):
                data.append(("mat", [[rng.randint(0, 9) for _ in range(n)] for _ in range(n)]))
            elif base.startswith("bitstrings"):
                keys = sorted({"".join(rng.choice("01") for _ in range(n)) for _ in range(rng.randint(1, 4))})
                data.append(("bits", keys))
            else:
                data.append(("other", rng.randint(-5, 5)))
        entries.append({"base": base, "suffix": suffix, "times": times, "data": data})
    return {"n": n, "perm": perm, "entries": entries}


def real_permute_results(c):
    import torch
    from pulser.backend import Results, Occupation, CorrelationMatrix, BitStrings, Energy
    from emu_mps.mps_backend_impl import MPSBackendImpl

    cls = {"occupation": Occupation, "correlation_matrix": CorrelationMatrix, "bitstrings": BitStrings, "energy": Energy}
    n = c["n"]
    res = Results(atom_order=tuple(f"a{i}" for i in range(n)), total_duration=100)
    obs = []
    for e in c["entries"]:
        if e["base"] in cls:
            o = cls[e["base"]](evaluation_times=e["times"], tag_suffix=e["suffix"])
        else:
            o = custom_observable(e["base"], e["times"], e["suffix"])
        obs.append(o)
        for t, (kind, v) in zip(e["times"], e["data"]):
            if kind == "vec":
                val = torch.tensor(v, dtype=torch.float64)
            elif kind == "mat":
                val = torch.tensor(v, dtype=torch.float64)
            elif kind == "bits":
                val = Counter({k: i + 1 for i, k in enumerate(v)})
            else:
                val = torch.tensor(float(v), dtype=torch.float64)
            res._store(observable=o, time=t, value=val)
    out = MPSBackendImpl.permute_results(SimpleNamespace(qubit_permutation=torch.tensor(c["perm"])), res, True)
    got = []
    for e, o in zip(c["entries"], obs):
        vals = []
        for t, (kind, v) in zip(e["times"], e["data"]):
            r = out.get_result(o, t)
            if kind == "vec":
                vals.append(("PVec", [int(x) for x in torch.as_tensor(r).tolist()]))
            elif kind == "mat":
                vals.append(("PMat", [[int(x) for x in row] for row in torch.as_tensor(r).tolist()]))
            elif kind == "bits":
                inv = {cnt: k for k, cnt in r.items()}
                vals.append(("PBits", [inv[i + 1] for i in range(len(v))] if len(inv) == len(v) else sorted(r)))
            else:
                vals.append(("POther", int(float(r))))
        got.append(vals)
    return {"atom_order": list(out.atom_order), "entries": got}


def payload_lit(kind, v):
    if kind == "vec":
        return f"PVec {zl(v)}"
    if kind == "mat":
        return f"PMat {zm(v)}"
    if kind == "bits":
        return f"PBits {sl(v)}"
    return f"POther ({int(v)})"


def results_expr(c, variant):
    es = "[" + "; ".join(
        "MkEntry \"%s\"%%string %s [%s]" % (e["base"], "None" if e["suffix"] is None else f'(Some {coq_str(e["suffix"])})',
                                             "; ".join(payload_lit(k, v) for k, v in e["data"]))
        for e in c["entries"]) + "]"
    ao = sl([f"a{i}" for i in range(c["n"])])
    return (f"match permute_results {variant} {nl(c['perm'])} true ({ao}, {es}) with "
            f"Ok (ao, es) => Some (ao, map (fun e => e_data e) es) | _ => None end")


def decode_results(v):
    if not (isinstance(v, tuple) and v[0] == "Some"):
        return None
    ao, es = v[1]
    return {"atom_order": list(ao), "entries": [[(p[0], p[1]) for p in data] for data in es]}


# ---- C. end-to-end scenario with analytic expectation ------------------------------------------
T_STEP = 0.01  # one 10 ns step, in us


def scenario(n, perm, a_pi, a_half):
    """atom a_pi gets a pi pulse, a_half a pi/2 pulse, no interactions: occupations 1, 0.5, 0 exactly"""
    T = 2 * T_STEP
    omega = [0.0] * n
    omega[a_pi] = math.pi / T
    omega[a_half] = math.pi / (2 * T)
    return {"n": n, "perm": perm, "a_pi": a_pi, "a_half": a_half, "omega": omega}


def ramsey_scenario(n, perm, phis):
    """every atom gets two pi/2 pulses (one per 10 ns step); the second pulse of atom a has phase phis[a]
    (per-atom, time-varying phi), no interactions, no detuning: occupation of atom a = cos^2(phis[a]/2)"""
    w = (math.pi / 2) / T_STEP
    return {"kind": "ramsey", "n": n, "perm": perm, "phis": list(phis),
            "omega_rows": [[w] * n, [w] * n], "phi_rows": [[0.0] * n, list(phis)],
            "expected_occ": [math.cos(p / 2) ** 2 for p in phis]}


def norm_scenario(sc):
    """all scenario kinds -> omega_rows / phi_rows / expected_occ (older corpus entries have only `omega`)"""
    sc = dict(sc)
    n = sc["n"]
    if "omega_rows" not in sc:
        sc["kind"] = "pulse"
        sc["omega_rows"] = [list(sc["omega"]), list(sc["omega"])]
        sc["phi_rows"] = [[0.0] * n, [0.0] * n]
        occ = [0.0] * n
        occ[sc["a_pi"]] = 1.0
        occ[sc["a_half"]] = 0.5
        sc["expected_occ"] = occ
    return sc


SCENARIO_SUFFIXES = {"occupation": ["b", "", "t-end", "t=1.0", "0.5", " ", "matrix", "x", "x_y", "é", "/+", "s" * 120],
                     "correlation_matrix": ["x", "0.5", "", "a-b"],
                     "bitstrings": ["s", "t=1.0", "", "-"]}


def observables():
    from pulser.backend import Occupation, CorrelationMatrix, BitStrings, Energy

    obs = [Occupation(evaluation_times=[1.0]), CorrelationMatrix(evaluation_times=[1.0]),
           BitStrings(evaluation_times=[1.0], num_shots=64), Energy(evaluation_times=[1.0]),
           Energy(evaluation_times=[1.0], tag_suffix="t-end")]
    obs += [Occupation(evaluation_times=[1.0], tag_suffix=x) for x in SCENARIO_SUFFIXES["occupation"]]
    obs += [CorrelationMatrix(evaluation_times=[1.0], tag_suffix=x) for x in SCENARIO_SUFFIXES["correlation_matrix"]]
    obs += [BitStrings(evaluation_times=[1.0], num_shots=64, tag_suffix=x) for x in SCENARIO_SUFFIXES["bitstrings"]]
    return obs


def summarize(res):
    import torch

    def vec(x):
        return [round(float(v), 6) for v in torch.as_tensor(x).real.flatten().tolist()]

    tg = res.get_tagged_results()
    out = {"atom_order": list(res.atom_order), "occupation": vec(tg["occupation"][-1]),
           "corr": vec(tg["correlation_matrix"][-1]), "bits": dict(tg["bitstrings"][-1]),
           "energy": round(float(torch.as_tensor(tg["energy"][-1]).real), 6),
           # every suffixed twin, by full tag
           "occ_tags": {f"occupation_{x}": vec(tg[f"occupation_{x}"][-1]) for x in SCENARIO_SUFFIXES["occupation"]},
           "corr_tags": {f"correlation_matrix_{x}": vec(tg[f"correlation_matrix_{x}"][-1])
                         for x in SCENARIO_SUFFIXES["correlation_matrix"]},
           "bits_tags": {f"bitstrings_{x}": dict(tg[f"bitstrings_{x}"][-1]) for x in SCENARIO_SUFFIXES["bitstrings"]}}
    out["occupation_b"] = out["occ_tags"]["occupation_b"]
    return out


def run_scenario(sc, mode):
    """mode: 'run' = MPSBackend._run_from_sequence_data ; 'resume' = interrupt, autosave, MPSBackend.resume"""
    from emu_mps import MPSBackend
    from emu_mps.mps_backend_impl import create_impl
    import pathlib

    sc = norm_scenario(sc)
    n = sc["n"]
    data = make_data(n, sc["omega_rows"], [[0.0] * n for _ in sc["omega_rows"]], sc["phi_rows"],
                     [[0.0] * n for _ in range(n)])
    cfg = make_config(observables(), optimize_qubit_ordering=True, **({} if mode == "run" else {"autosave_dt": 1e6}))
    with Forced(sc["perm"]):
        if mode == "run":
            return summarize(MPSBackend._run_from_sequence_data(data, cfg))
        cwd = os.getcwd()
        with tempfile.TemporaryDirectory(prefix="c03_", dir="/var/tmp") as td:
            os.chdir(td)
            try:
                impl = create_impl(data, cfg)
                impl.init()
                for _ in range(3):
                    impl.progress()
                impl.autosave_file = pathlib.Path(td) / "c03_autosave.dat"
                impl.last_save_time = 0.0
                impl.save_simulation()
                return summarize(MPSBackend.resume(impl.autosave_file))
            finally:
                os.chdir(cwd)


def expected_summary(sc):
    sc = norm_scenario(sc)
    n = sc["n"]
    occ = list(sc["expected_occ"])
    corr = [[(occ[i] if i == j else occ[i] * occ[j]) for j in range(n)] for i in range(n)]
    return {"atom_order": [f"q{a}" for a in range(n)], "occupation": occ, "corr": [x for r in corr for x in r]}


def close(a, b, tol=1e-4):
    return len(a) == len(b) and all(abs(x - y) <= tol for x, y in zip(a, b))


def bits_ok(bits, sc):
    """atoms whose occupation is exactly 1 (0) must read '1' ('0') in every sampled bitstring"""
    occ = norm_scenario(sc)["expected_occ"]
    for k in bits:
        for i, p in enumerate(occ):
            if p > 1 - 1e-9 and k[i] != "1":
                return False
            if p < 1e-9 and k[i] != "0":
                return False
    return True


def judge_scenario(ctx, sc, mode, s, run_summary=None):
    """report concrete violations, attributed to their cause"""
    exp = expected_summary(sc)
    rp = {"scenario": sc, "mode": mode, "observed": s, "expected": exp, "stage": "scenario"}
    if mode == "resume" and run_summary is not None:
        same = (s["atom_order"] == run_summary["atom_order"] and close(s["occupation"], run_summary["occupation"])
                and close(s["corr"], run_summary["corr"]))
        if not same:
            ctx.violation("MPSBackend.resume returns results in the internal qubit order (atom_order/occupation differ "
                          "from what run() returns for the same simulation)",
                          dict(rp, run_observed=run_summary, finding_key="F-10-resume-not-unpermuted"))
        return
    if s["atom_order"] != exp["atom_order"]:
        ctx.violation("atom_order is not the register order", dict(rp, finding_key="atom-order-not-register-order"))
    if not close(s["occupation"], exp["occupation"]) or not close(s["corr"], exp["corr"]) or not bits_ok(s["bits"], sc):
        ctx.violation("with qubit reordering a per-atom drive (amplitude, detuning or phase) acts on the wrong atom: "
                      "occupation / correlations / bitstrings differ from the analytic register-order values",
                      dict(rp, finding_key="F-03-drives-not-permuted"))
    wrong = [t for t, v in s["occ_tags"].items() if not close(v, s["occupation"])]
    wrong += [t for t, v in s["corr_tags"].items() if not close(v, s["corr"])]
    wrong += [t for t, v in s["bits_tags"].items() if bits_ok(v, sc) != bits_ok(s["bits"], sc)]
    if wrong:
        ctx.violation("observables with a tag_suffix are reported in a different atom order than the same observable "
                      f"without suffix (suffixed tags not un-permuted): {wrong[:6]}",
                      dict(rp, tags_not_unpermuted=wrong, finding_key="F-04-suffixed-tag-not-unpermuted"))


# ---- E. reported values with reordering on vs off, for every observable the CODE lets through ----
def observable_zoo(sc):
    """one instance of every observable class pulser offers (plus suffix twins), with user data written
    in REGISTER order; returns [(name, observable, analytic value or None)]"""
    import inspect
    import pulser.backend as pb
    from emu_mps import MPS, MPO

    sc = norm_scenario(sc)
    n, occ = sc["n"], sc["expected_occ"]
    # asymmetric product target: 'r' where the atom is (mostly) excited
    bits = "".join("r" if p > 0.75 else "g" for p in occ)
    fid = 1.0
    for p, b in zip(occ, bits):
        fid *= p if b == "r" else 1 - p
    a_max = max(range(n), key=lambda a: occ[a])
    a_min = min(range(n), key=lambda a: occ[a])
    zoo = []

    def target():
        return MPS.from_state_amplitudes(eigenstates=("r", "g"), amplitudes={bits: 1.0})

    def n_op(a):
        return MPO.from_operator_repr(eigenstates=("r", "g"), n_qudits=n, operations=[(1.0, [({"rr": 1.0}, {a})])])

    known = {
        "Fidelity": lambda: [("fidelity", pb.Fidelity(target(), evaluation_times=[1.0]), fid)],
        "Expectation": lambda: [("expectation", pb.Expectation(n_op(a_max), evaluation_times=[1.0]), occ[a_max]),
                                ("expectation_lo", pb.Expectation(n_op(a_min), evaluation_times=[1.0], tag_suffix="lo"),
                                 occ[a_min])],
    }
    skipped = []
    for name in sorted(dir(pb)):
        cls = getattr(pb, name)
        if not (inspect.isclass(cls) and issubclass(cls, pb.Observable) and cls is not pb.Observable):
            continue
        try:
            if name in known:
                zoo += known[name]()
            else:
                zoo.append((cls(evaluation_times=[1.0])._base_tag, cls(evaluation_times=[1.0]), None))
        except Exception as ex:  # noqa: BLE001  an observable this harness cannot construct
            skipped.append(f"{name}: {type(ex).__name__}")
    return zoo, skipped, {"target_bits": bits, "fidelity": fid}


def code_lets_through(obs):
    """does the RUNNING code keep optimize_qubit_ordering on with this observable?"""
    import logging
    from emu_mps import MPSConfig

    return bool(MPSConfig(observables=[obs], optimize_qubit_ordering=True, log_level=logging.CRITICAL).optimize_qubit_ordering)


def canon_value(v, sc, info):
    import torch
    from emu_mps import MPS

    if isinstance(v, MPS):  # a state in chain order must still be the register-order state
        tgt = MPS.from_state_amplitudes(eigenstates=("r", "g"), amplitudes={info["target_bits"]: 1.0})
        return ["state-fidelity", round(float(abs(tgt.inner(v)) ** 2), 6)]
    if isinstance(v, (Counter, dict)) and all(isinstance(k, str) for k in v):
        n = norm_scenario(sc)["n"]
        return ["bits"] + ["".join(sorted({k[i] for k in v})) for i in range(n)]
    if isinstance(v, dict):
        return ["untracked-dict"]
    try:
        t = torch.as_tensor(v)
        return [round(float(x), 6) for x in torch.view_as_real(t.to(torch.complex128)).flatten().tolist()]
    except Exception:  # noqa: BLE001
        return ["untracked", type(v).__name__]


def num_close(a, b, tol=1e-4):
    if len(a) != len(b):
        return False
    for x, y in zip(a, b):
        if isinstance(x, float) and isinstance(y, float):
            if abs(x - y) > tol:
                return False
        elif x != y:
            return False
    return True


def value_search(ctx, sc, hist):
    """run the scenario with every let-through observable, reordering forced on vs off"""
    from emu_mps import MPSBackend

    scn = norm_scenario(sc)
    n = scn["n"]
    zoo, skipped, info = observable_zoo(sc)
    through = [(nm, o, ana) for nm, o, ana in zoo if code_lets_through(o)]
    ctx.extra.setdefault("observables_let_through_by_the_code", sorted({o._base_tag for _, o, _ in through}))
    ctx.extra.setdefault("observables_not_constructed", skipped)
    data = make_data(n, scn["omega_rows"], [[0.0] * n for _ in scn["omega_rows"]], scn["phi_rows"],
                     [[0.0] * n for _ in range(n)])
    vals = {}
    for mode in (True, False):
        cfg = make_config([o for _, o, _ in through], optimize_qubit_ordering=mode)
        if mode and not cfg.optimize_qubit_ordering:
            return "the set of individually accepted observables switches reordering off"
        with Forced(sc["perm"]):
            res = MPSBackend._run_from_sequence_data(data, cfg)
        tagged = res.get_tagged_results()
        vals[mode] = {o.tag: canon_value(tagged[o.tag][-1], sc, info) for _, o, _ in through if o.tag in tagged}
    # observables the code does NOT let through: the code itself switches reordering off; one run, analytic check
    # (also validates this harness's closed forms for Fidelity / Expectation / StateResult on unchanged code)
    rest = [(nm, o, ana) for nm, o, ana in zoo if not any(o is t for _, t, _ in through)]
    if rest:
        cfg = make_config([o for _, o, _ in rest], optimize_qubit_ordering=True)
        with Forced(sc["perm"]):
            res = MPSBackend._run_from_sequence_data(data, cfg)
        tagged = res.get_tagged_results()
        for nm, o, ana in rest:
            hist[f"values-reordering-refused/{o._base_tag}"] = hist.get(f"values-reordering-refused/{o._base_tag}", 0) + 1
            got = canon_value(tagged[o.tag][-1], sc, info)
            want = None if ana is None else [round(float(ana), 6), 0.0]
            if got[0] == "state-fidelity":
                want = ["state-fidelity", round(info["fidelity"], 6)]
            if want is not None and not num_close(got, want):
                ctx.violation(f"observable '{o.tag}' reports {got}, analytic register-order value {want}",
                              {"scenario": sc, "mode": "values", "stage": "values", "tag": o.tag, "base_tag": o._base_tag,
                               "with_reordering": got, "analytic": want, "info": info,
                               "finding_key": "reordering-changes-reported-value"})
    for nm, o, ana in through:
        hist[f"values/{o._base_tag}"] = hist.get(f"values/{o._base_tag}", 0) + 1
        on, off = vals[True].get(o.tag), vals[False].get(o.tag)
        if on is None or off is None or (on and on[0] in ("untracked", "untracked-dict")):
            continue
        bad = None
        if not num_close(on, off):
            bad = f"value with optimize_qubit_ordering=True {on} differs from the value with it off {off}"
        elif ana is not None and not num_close(on, [round(float(ana), 6), 0.0]):
            bad = f"value {on} differs from the analytic value {ana}"
        elif on[0] == "state-fidelity" and not num_close(on, ["state-fidelity", round(info["fidelity"], 6)]):
            bad = f"the reported state has overlap {on[1]} with the register-order product target, analytic {info['fidelity']}"
        if bad:
            ctx.violation(f"the qubit reordering changes the reported value of observable '{o.tag}': {bad}",
                          {"scenario": sc, "mode": "values", "stage": "values", "tag": o.tag, "base_tag": o._base_tag,
                           "with_reordering": on, "without_reordering": off, "analytic": ana, "info": info,
                           "finding_key": "reordering-changes-reported-value"})
    return None


# ---- F. time-dependent interactions (SLM-like switch): reordering on vs off vs dense reference -------------
# A forced (deliberately bad) chain order has its own TDVP splitting error (measured on the unchanged code: up to
# 3e-3 for some permutations, < 1e-5 for most).  It is measured per case with the SAME drives and a time-independent
# interaction matrix (a run the defect class "stale/time-dependent matrix" cannot affect); only well-conditioned
# cases are judged, with a tolerance 20x above the conditioning bound and ~15x below the smallest effect seen.
SWITCH_COND = 5e-4
SWITCH_TOL = 1e-2


def gen_switch_case(rng, nmax):
    n = rng.randint(3, nmax)
    perm = list(range(n))
    if rng.random() < 0.4:  # a 3-cycle on three random sites
        a, b, c = rng.sample(range(n), 3)
        perm[a], perm[b], perm[c] = perm[b], perm[c], perm[a]
    else:
        while perm == list(range(n)):
            rng.shuffle(perm)
    steps = 30
    return {"n": n, "perm": perm, "steps": steps, "spacing": rng.choice([7.0, 8.0]), "t_switch": rng.choice([50.0, 100.0, 150.0]),
            "mask_atoms": rng.sample(range(n), rng.randint(1, n - 2)),
            "omega": [round(2 * math.pi * rng.uniform(0.7, 1.1), 6) for _ in range(n)],
            "delta": [round(rng.uniform(0.0, 3.0), 6) for _ in range(n)]}


def run_switch_case(c):
    """atoms on a line in register order (so reordering off is the well-conditioned chain order), interactions
    C6/r^6, masked atoms non-interacting before t_switch; occupation/correlation/energy at the end (after the switch)"""
    import logging
    import numpy as np
    import torch
    from emu_mps import MPSBackend, MPSConfig
    from pulser.backend import Occupation, CorrelationMatrix, Energy
    from props import _dense_ref as D

    n, steps = c["n"], c["steps"]
    U = [[0.0 if i == j else 5420158.53 / (c["spacing"] * abs(i - j)) ** 6 for j in range(n)] for i in range(n)]
    U1 = masked(U, c["mask_atoms"])
    out = {}
    for label, switch in (("", (U1, c["t_switch"])), ("const_", None)):
        data = make_data(n, [c["omega"]] * steps, [c["delta"]] * steps, [[0.0] * n] * steps, U, switch=switch)
        for mode in (False, True):
            cfg = MPSConfig(observables=[Occupation(evaluation_times=[1.0]), CorrelationMatrix(evaluation_times=[1.0]),
                                         Energy(evaluation_times=[1.0])],
                            dt=10, precision=1e-9, log_level=logging.ERROR, optimize_qubit_ordering=mode)
            with Forced(c["perm"]):
                r = MPSBackend._run_from_sequence_data(data, cfg)
            out[label + ("on" if mode else "off")] = {
                "atom_order": list(r.atom_order),
                "occupation": [float(x) for x in torch.as_tensor(r.occupation[-1]).real.flatten()],
                "corr": [float(x) for x in torch.as_tensor(r.correlation_matrix[-1]).real.flatten()],
                "energy": float(torch.as_tensor(r.energy[-1]).real)}
    times = [10.0 * k for k in range(steps + 1)]
    sts, Hs = D.evolve(np.array([c["omega"]] * steps), np.array([c["delta"]] * steps), np.zeros((steps, n)),
                       lambda t: np.array(U1 if t < c["t_switch"] else U), times, u_query="mid")
    out["dense"] = {"occupation": [float(x) for x in D.occupation(sts[-1], n)],
                    "corr": [float(x) for x in D.correlation(sts[-1], n).flatten()]}
    return out


def judge_switch(ctx, c, out):
    """returns (error text or None, judged?)"""
    def dmax(a, b):
        return max(abs(x - y) for x, y in zip(a, b))

    def dev(a, b):
        return max(dmax(a["occupation"], b["occupation"]), dmax(a["corr"], b["corr"]),
                   abs(a["energy"] - b["energy"]) / max(1.0, abs(b["energy"])) if "energy" in a and "energy" in b else 0.0)

    cond = dev(out["const_on"], out["const_off"])     # splitting error of this forced chain order (constant matrix)
    off_dev = dev(out["off"], out["dense"])            # reference run against the dense evolution
    if off_dev > SWITCH_COND:
        return f"reference run (reordering off) deviates from the dense reference by {off_dev:.2e}: case={c}", False
    if cond > SWITCH_COND:
        return None, False  # ill-conditioned chain order: not judged
    devs = {"on-vs-off": dev(out["on"], out["off"]), "on-vs-dense": dev(out["on"], out["dense"])}
    if max(devs.values()) > SWITCH_TOL:
        ctx.violation("with a time-dependent interaction matrix (SLM-like switch mid-run) the qubit reordering changes the "
                      f"reported values: {({k: round(v, 4) for k, v in devs.items()})} (occupation {out['on']['occupation']} vs "
                      f"{out['off']['occupation']}); with a constant matrix the same chain order agrees to {cond:.1e}, "
                      f"reordering off agrees with the dense reference to {off_dev:.1e}",
                      {"case": c, "stage": "switch", "observed": out, "deviations": devs, "conditioning": cond,
                       "finding_key": "reordering-changes-value-after-interaction-switch"})
    return None, True

# ---- G. couplings of BOTH signs, chain order chosen by the REAL optimiser, through the real pulser adapter ----------
# Stages A-F force the permutation (the optimiser itself is replaced) and use non-negative couplings.  Here nothing is
# replaced: a pulser Sequence goes through PulserData -> SequenceData -> MPSBackendImpl with optimize_qubit_ordering on
# and off, the interaction matrix has entries of both signs (user matrices for Rydberg and XY; XY register couplings
# C3 (1 - 3 cos^2 theta) / r^3 with an in-plane magnetic field), optionally an SLM mask.
#   exact:   every matrix make_H receives with reordering on == the matrix it receives with reordering off, conjugated by
#            the permutation the optimiser chose (bit-identical, signs included);
#   numeric: occupation / correlations / energy on == off, and both == the independent dense evolution built from the
#            prescribed couplings (the reference run is validated against it; tolerance as in stage F).
SIGNED_COND = 5e-4
SIGNED_TOL = 1e-2


def gen_signed_case(rng, nmax):
    kind = rng.choice(["user-rydberg", "user-rydberg", "user-xy", "register-xy"])
    n = rng.randint(3, nmax)
    c = {"kind": kind, "n": n, "slm": [], "field": None, "matrix": None, "cutoff": 0.0}
    order = list(range(n))
    rng.shuffle(order)
    if kind == "register-xy":
        # a 2 x k ladder (or a line) filled in a shuffled insertion order; field with an in-plane component so that
        # 1 - 3 cos^2 changes sign between the pair directions
        sx, sy = rng.choice([18.0, 20.0, 22.0]), rng.choice([18.0, 20.0, 22.0])  # C3 / r^3 of a few rad/us
        cells = [(sx * (k // 2), sy * (k % 2)) for k in range(n)] if rng.random() < 0.7 else [(sx * k, 0.0) for k in range(n)]
        c["positions"] = [list(cells[order[a]]) for a in range(n)]
        c["field"] = [round(rng.uniform(0.5, 1.0), 3) * rng.choice([1, -1]), round(rng.uniform(-0.5, 0.5), 3), round(rng.uniform(0.0, 0.6), 3)]
        if rng.random() < 0.4:
            c["slm"] = sorted(rng.sample(range(n), 1))
    else:
        c["positions"] = [[8.0 * a, 0.0] for a in range(n)]
        # strong couplings of random sign along a shuffled path, weaker ones (random sign, some absent) elsewhere
        m = [[0.0] * n for _ in range(n)]
        for i in range(n):
            for j in range(i):
                if rng.random() < 0.6:
                    m[i][j] = m[j][i] = round(rng.uniform(0.2, 1.5), 3) * rng.choice([1, -1])
        for k in range(n - 1):
            v = round(rng.uniform(3.0, 8.0), 3) * rng.choice([1, -1])
            m[order[k]][order[k + 1]] = m[order[k + 1]][order[k]] = v
        flat = [m[i][j] for i in range(n) for j in range(i)]
        if not any(x < 0 for x in flat):
            a, b = order[0], order[1]
            m[a][b] = m[b][a] = -abs(m[a][b])
        c["matrix"] = m
        c["cutoff"] = rng.choice([0.0, 0.1])  # every non-zero entry has magnitude >= 0.2: no entry sits at the cutoff
    xy = kind.endswith("xy")
    c["pulses"] = [[150, round(2 * math.pi * rng.uniform(0.6, 1.0), 6), 0.0 if xy else round(rng.uniform(0.0, 3.0), 6), 0.0],
                   [100, round(math.pi * rng.uniform(0.6, 1.0), 6), 0.0 if xy else round(rng.uniform(-4.0, 0.0), 6), 0.0]]
    return c


def signed_prescription(c, c3):
    """(full matrix, matrix while the SLM mask is on) from the case and the device constant C3 -- independent of /repo"""
    n = c["n"]
    if c["matrix"] is not None:
        full = [[0.0 if abs(x) < c["cutoff"] else x for x in row] for row in c["matrix"]]
    else:
        b = c["field"] + [0.0] * (3 - len(c["field"]))
        bn = math.sqrt(sum(x * x for x in b))
        full = [[0.0] * n for _ in range(n)]
        for i in range(n):
            for j in range(n):
                if i != j:
                    d = [c["positions"][i][0] - c["positions"][j][0], c["positions"][i][1] - c["positions"][j][1], 0.0]
                    r = math.sqrt(sum(x * x for x in d))
                    cos = sum(x * y for x, y in zip(d, b)) / (r * bn)
                    full[i][j] = c3 * (1 - 3 * cos * cos) / r ** 3
    return full, masked(full, c["slm"])


def build_signed(c, optimize):
    """(SequenceData, MPSConfig) through the real pulser adapter"""
    import logging
    import pulser
    import torch
    from emu_base import PulserData
    from emu_mps import MPSConfig
    from pulser.backend import Occupation, CorrelationMatrix, Energy

    n, xy = c["n"], c["kind"].endswith("xy")
    reg = pulser.Register({f"q{a}": tuple(c["positions"][a]) for a in range(n)})
    seq = pulser.Sequence(reg, pulser.MockDevice)
    seq.declare_channel("ch0", "mw_global" if xy else "rydberg_global")
    if c["field"] is not None:
        seq.set_magnetic_field(*c["field"])
    if c["slm"]:
        seq.config_slm_mask([f"q{a}" for a in c["slm"]])
    for dur, amp, det, ph in c["pulses"]:
        seq.add(pulser.Pulse.ConstantPulse(dur, amp, det, ph), "ch0")
    kw = {}
    if c["matrix"] is not None:
        kw = {"interaction_matrix": torch.tensor(c["matrix"], dtype=torch.float64), "interaction_cutoff": c["cutoff"]}
    cfg = MPSConfig(observables=[Occupation(evaluation_times=[1.0]), CorrelationMatrix(evaluation_times=[1.0]),
                                 Energy(evaluation_times=[1.0])],
                    dt=10, precision=1e-9, log_level=logging.ERROR, optimize_qubit_ordering=optimize, **kw)
    return next(iter(PulserData(sequence=seq, config=cfg, dt=10).get_sequences())), cfg


def run_signed_case(c):
    import contextlib
    import io
    import numpy as np
    import pulser
    import torch
    from emu_mps import MPSBackend
    from props import _dense_ref as D

    n = c["n"]
    out = {"c3": float(pulser.MockDevice.interaction_coeff_xy)}
    arrays = None
    for mode in (True, False):
        data, cfg = build_signed(c, mode)
        arrays = (data.omega.numpy().copy(), data.delta.numpy().copy(), data.phi.numpy().copy(), list(data.target_times))
        with Forced(None) as f, contextlib.redirect_stdout(io.StringIO()):  # emu-mps prints when it builds an XY MPO
            r = MPSBackend._run_from_sequence_data(data, cfg)
        out["on" if mode else "off"] = {
            "perm": None if f.chosen is None else [int(x) for x in f.chosen],
            "make_H": [m.tolist() for m in f.make_H],
            "atom_order": list(r.atom_order),
            "occupation": [float(x) for x in torch.as_tensor(r.occupation[-1]).real.flatten()],
            "corr": [float(x) for x in torch.as_tensor(r.correlation_matrix[-1]).real.flatten()],
            "energy": float(torch.as_tensor(r.energy[-1]).real)}
    full, msk = signed_prescription(c, out["c3"])
    om, de, ph, times = arrays
    t_slm = float(c["pulses"][0][0]) if c["slm"] else -1.0
    sts, _ = D.evolve(om, de, ph, lambda t: np.array(msk if t < t_slm else full), times, xy=c["kind"].endswith("xy"),
                      u_query="mid")
    out["dense"] = {"occupation": [float(x) for x in D.occupation(sts[-1], n)],
                    "corr": [float(x) for x in D.correlation(sts[-1], n).flatten()]}
    out["signs"] = {"negative": sum(1 for i in range(n) for j in range(i) if full[i][j] < 0),
                    "positive": sum(1 for i in range(n) for j in range(i) if full[i][j] > 0)}
    return out


def judge_signed(ctx, c, out):
    """returns (error text or None, judged numerically?)"""
    def dmax(a, b):
        return max(abs(x - y) for x, y in zip(a, b)) if len(a) == len(b) else float("inf")

    def dev(a, b):
        return max(dmax(a["occupation"], b["occupation"]), dmax(a["corr"], b["corr"]),
                   abs(a["energy"] - b["energy"]) / max(1.0, abs(b["energy"])) if "energy" in a and "energy" in b else 0.0)

    on, off, n = out["on"], out["off"], c["n"]
    if on["perm"] is None or off["perm"] is not None or sorted(on["perm"]) != list(range(n)):
        return f"the optimiser was expected to run exactly in the reordering-on run: on={on['perm']} off={off['perm']}", False
    if not on["make_H"] or len(on["make_H"]) != len(off["make_H"]):
        return f"make_H called {len(on['make_H'])} times with reordering on, {len(off['make_H'])} times with it off: case={c}", False
    p = on["perm"]
    rp = {"case": c, "stage": "signed", "permutation_chosen": p, "signs": out["signs"]}
    for k, (a, b) in enumerate(zip(on["make_H"], off["make_H"])):
        want = [[b[p[i]][p[j]] for j in range(len(p))] for i in range(len(p))]
        if [[x.hex() for x in row] for row in a] != [[x.hex() for x in row] for row in want]:
            flipped = sum(1 for ra, rw in zip(a, want) for x, y in zip(ra, rw) if x == -y and x != 0)
            ctx.violation("with optimize_qubit_ordering on the Hamiltonian is built from a different interaction matrix than "
                          f"with it off (make_H call {k}: not the reordering-off matrix conjugated by the chosen permutation; "
                          f"{flipped} entries have the opposite sign): the qubit-order optimisation changes the physics",
                          dict(rp, make_H_call=k, matrix_with_reordering=a, reordering_off_matrix_permuted=want,
                               finding_key="reordering-changes-interaction-matrix"))
            break
    if on["atom_order"] != off["atom_order"]:
        ctx.violation("atom_order differs between reordering on and off", dict(rp, observed=out, finding_key="atom-order-not-register-order"))
    off_dev = max(dmax(off["occupation"], out["dense"]["occupation"]), dmax(off["corr"], out["dense"]["corr"]))
    if off_dev > SIGNED_COND:
        return None, False  # reference run not within the conditioning bound of the dense evolution: not judged numerically
    devs = {"on-vs-off": dev(on, off), "on-vs-dense": dev(on, out["dense"])}
    if max(devs.values()) > SIGNED_TOL:
        ctx.violation("with couplings of both signs the qubit reordering (real optimiser) changes the reported values: "
                      f"{({k: round(v, 4) for k, v in devs.items()})}; occupation {[round(x, 4) for x in on['occupation']]} vs "
                      f"{[round(x, 4) for x in off['occupation']]}, energy {on['energy']:.4f} vs {off['energy']:.4f}; reordering "
                      f"off agrees with the dense reference to {off_dev:.1e}",
                      dict(rp, observed={k: {q: v[q] for q in v if q != "make_H"} for k, v in out.items() if k in ("on", "off", "dense")},
                           deviations=devs, finding_key="reordering-changes-value-with-signed-couplings"))
    return None, True


# ---- D. whitelist --------------------------------------------------------------------------------
def whitelist_table():
    import pulser.backend as pb
    from emu_mps import MPSConfig
    import logging

    rows = []
    cands = {"BitStrings": {}, "Occupation": {}, "CorrelationMatrix": {}, "Energy": {}, "EnergyVariance": {},
             "EnergySecondMoment": {}, "StateResult": {}}
    for name, kw in cands.items():
        cls = getattr(pb, name, None)
        if cls is None:
            continue
        o = cls(evaluation_times=[1.0], **kw)
        cfg = MPSConfig(observables=[o], optimize_qubit_ordering=True, log_level=logging.CRITICAL)
        rows.append((o._base_tag, bool(cfg.optimize_qubit_ordering)))
    # observable types unknown to emu-mps whose base tag merely starts with / resembles a per-atom tag: the prefix
    # rule of _tags_with_base would re-order them, so the whitelist must switch reordering off
    for base in CUSTOM_BASES:
        o = custom_observable(base, [1.0], None)
        cfg = MPSConfig(observables=[o], optimize_qubit_ordering=True, log_level=logging.CRITICAL)
        rows.append((base, bool(cfg.optimize_qubit_ordering)))
    try:
        import torch
        ops = {"r": 1.0}
        from emu_mps import MPS
        st = MPS.from_state_amplitudes(eigenstates=("r", "g"), amplitudes={"rr": 1.0})
        o = pb.Fidelity(evaluation_times=[1.0], state=st)
        cfg = MPSConfig(observables=[o], optimize_qubit_ordering=True, log_level=logging.CRITICAL)
        rows.append((o._base_tag, bool(cfg.optimize_qubit_ordering)))
    except Exception:  # noqa: BLE001  (optional row)
        pass
    return rows


def run(ctx):
    from vlib.coqparse import parse
    import torch

    torch.set_num_threads(1)
    rc, out = common.coq_make(["Model/Permutations.vo", "Model/Optimiser.vo", "Model/QubitOrder.vo"])
    ctx.obligation("build:models", rc == 0, out, kind="build")
    common.standard_proof_stage(ctx, "C03", ["Properties/C03.vo"])

    corpus = []
    cp = common.VERIF / "corpus" / "C03.json"
    if cp.exists():
        corpus = json.loads(cp.read_text())

    ev = common.CoqEval("C03", HEADER)
    flags = {"routing": None}
    hist = {}

    # A. routing
    rcases = [gen_routing_case(ctx.rng, False) for _ in range(ctx.n(8, 120))]
    rcases += [gen_routing_case(ctx.rng, True) for _ in range(ctx.n(5, 80))]
    rreal, ridx, rerr = [], [], ""
    for c in rcases:
        try:
            rreal.append(real_routing(c))
        except Exception as ex:  # noqa: BLE001
            rreal.append(None)
            # known: the backend refuses < 2 well-prepared atoms etc.; not a routing observation
            c["raised"] = f"{type(ex).__name__}: {ex}"[:200]
        ridx.append(ev.add(routing_expr(c)))

    # B. permute_results on real Results
    pcases = [gen_results_case(ctx.rng) for _ in range(ctx.n(40, 400))]
    preal = [real_permute_results(c) for c in pcases]
    pidx = [(ev.add(results_expr(c, "legacy")), ev.add(results_expr(c, "fixed"))) for c in pcases]

    # D. whitelist
    wl = whitelist_table()
    widx = [ev.add(f'config_keeps_reordering ["{b}"%string]') for b, _ in wl]

    derr = {"routing": "", "results": "", "whitelist": ""}
    tags_variants = {False, True}
    try:
        outs = ev.run()
        for c, r, i in zip(rcases, rreal, ridx):
            ctx.count_case({"stage": "routing", **{k: c[k] for k in ("n", "perm", "bad")}}, c["perm"] != sorted(c["perm"]))
            hist["routing/" + ("bad" if c["with_bad"] else "plain")] = hist.get("routing/" + ("bad" if c["with_bad"] else "plain"), 0) + 1
            if r is None:
                hist["routing/raised"] = hist.get("routing/raised", 0) + 1
                derr["routing"] = derr["routing"] or f"the backend raised while being set up for a routing case: {c}"
                continue
            e = routing_compare(c, r, parse(outs[i]), flags)
            if e and not derr["routing"]:
                derr["routing"] = e
        for c, r, (il, if_) in zip(pcases, preal, pidx):
            ctx.count_case({"stage": "results", "n": c["n"], "perm": c["perm"],
                            "tags": [(e["base"], e["suffix"]) for e in c["entries"]]}, True)
            hist["results"] = hist.get("results", 0) + 1
            match = {tv for tv, i in ((False, il), (True, if_)) if decode_results(parse(outs[i])) == _canon(r)}
            tags_variants &= match
            if not tags_variants and not derr["results"]:
                derr["results"] = (f"no variant reproduces permute_results: case={c} real={r} "
                                   f"legacy={outs[il][:300]} fixed={outs[if_][:300]}")
        for (b, keeps), i in zip(wl, widx):
            ctx.count_case({"stage": "whitelist", "base": b}, False)
            if parse(outs[i]) is not keeps and not derr["whitelist"]:
                derr["whitelist"] = f"base tag {b}: code keeps reordering={keeps}, model={outs[i]}"
    except (common.CoqEvalError, ValueError, IndexError, KeyError) as ex:
        for k in derr:
            derr[k] = derr[k] or f"{type(ex).__name__}: {ex}"
    ctx.obligation("correspondence:routing (make_H/update_H arguments, dark-qubit filter)==Model.QubitOrder for one "
                   "consistent variant", not derr["routing"], derr["routing"], kind="correspondence")
    ctx.obligation("correspondence:MPSBackendImpl.permute_results on real Results==Model.QubitOrder.permute_results "
                   "for one consistent variant", not derr["results"], derr["results"], kind="correspondence")
    ctx.obligation("correspondence:MPSConfig.check_permutable_observables==config_keeps_reordering",
                   not derr["whitelist"] and len(wl) >= 7, derr["whitelist"] or f"rows={wl}", kind="correspondence")

    # C. end-to-end scenarios (always the corpus witnesses first)
    scs = [c["scenario"] for c in corpus if c.get("stage") == "scenario"]
    PH = [0.0, math.pi, math.pi / 3, 2 * math.pi / 3, math.pi / 2, 1.0, 2.5, 0.4]
    for k in range(ctx.n(3, 60)):
        n = ctx.rng.randint(3, ctx.n(5, 8))
        perm = list(range(n))
        while perm == list(range(n)):
            ctx.rng.shuffle(perm)
        if k % 2 == 0:  # per-atom, time-varying phases
            scs.append(ramsey_scenario(n, perm, ctx.rng.sample(PH, n)))
        else:
            a, b = ctx.rng.sample(range(n), 2)
            scs.append(scenario(n, perm, a, b))
    # identity: must hold in every variant (also validates the closed forms on the real code)
    scs.append(scenario(3, [0, 1, 2], 1, 2))
    scs.append(ramsey_scenario(4, [0, 1, 2, 3], [0.0, math.pi, math.pi / 3, 1.0]))
    resume_differs = None
    for k, sc in enumerate(scs):
        s = run_scenario(sc, "run")
        judge_scenario(ctx, sc, "run", s)
        ctx.count_case({"stage": "scenario", **sc}, sc["perm"] != sorted(sc["perm"]))
        kind = sc.get("kind", "pulse")
        hist[f"scenario/run/{kind}"] = hist.get(f"scenario/run/{kind}", 0) + 1
        if k < ctx.n(3, 10) and sc["perm"] != sorted(sc["perm"]):
            s2 = run_scenario(sc, "resume")
            n_before = len(ctx.violations) + len(ctx.known_lines)
            judge_scenario(ctx, sc, "resume", s2, run_summary=s)
            differs = (len(ctx.violations) + len(ctx.known_lines)) > n_before or \
                s2["atom_order"] != s["atom_order"] or not close(s2["occupation"], s["occupation"])
            resume_differs = differs if resume_differs is None else (resume_differs or differs)
            hist[f"scenario/resume/{kind}"] = hist.get(f"scenario/resume/{kind}", 0) + 1

    # E. every observable the running code lets through with reordering on: reported values on vs off
    verr = ""
    vscs = [c["scenario"] for c in corpus if c.get("stage") == "values"]
    vscs += [sc for sc in scs if sc["perm"] != sorted(sc["perm"])][: ctx.n(2, 12)]
    for sc in vscs:
        try:
            e = value_search(ctx, sc, hist)
        except Exception as ex:  # noqa: BLE001
            e = f"{type(ex).__name__}: {ex}"[:400]
        ctx.count_case({"stage": "values", **sc}, True)
        verr = verr or (e or "")
    ctx.obligation("falsifier:reported values with reordering on == off for every observable the code lets through "
                   "(ran on the real backend)", not verr, verr, kind="falsifier")

    # F. time-dependent interaction matrix: reordering on vs off vs dense reference
    serr = ""
    swcases = [c["case"] for c in corpus if c.get("stage") == "switch"]
    want, judged, tries = ctx.n(2, 14), 0, 0
    while judged < want + len([c for c in corpus if c.get("stage") == "switch"]) and tries < 3 * want + 4:
        c = swcases[tries] if tries < len(swcases) else gen_switch_case(ctx.rng, ctx.n(4, 5))
        tries += 1
        try:
            e, was_judged = judge_switch(ctx, c, run_switch_case(c))
        except Exception as ex:  # noqa: BLE001
            e, was_judged = f"{type(ex).__name__}: {ex}"[:400], False
        judged += 1 if was_judged else 0
        ctx.count_case({"stage": "switch", **c}, was_judged)
        hist["switch/judged" if was_judged else "switch/ill-conditioned-skipped"] = \
            hist.get("switch/judged" if was_judged else "switch/ill-conditioned-skipped", 0) + 1
        serr = serr or (e or "")
    if judged < max(1, want // 2):
        serr = serr or f"only {judged} well-conditioned switch cases out of {tries}"
    ctx.obligation("falsifier:time-dependent interactions, reordering on == off == dense reference (ran on the real "
                   "backend; reference run validated against the dense evolution)", not serr, serr, kind="falsifier")

    # G. couplings of both signs, the REAL optimiser chooses the order, through the real pulser adapter
    gerr = ""
    gcorpus = [c["case"] for c in corpus if c.get("stage") == "signed"]
    want, judged, tries, n_neg = ctx.n(4, 40) + len(gcorpus), 0, 0, 0
    while judged < want and tries < 2 * want + 2:
        c = gcorpus[tries] if tries < len(gcorpus) else gen_signed_case(ctx.rng, ctx.n(5, 6))
        tries += 1
        out = None
        try:
            out = run_signed_case(c)
            e, was_judged = judge_signed(ctx, c, out)
        except Exception as ex:  # noqa: BLE001
            e, was_judged = f"{type(ex).__name__}: {ex} case={c}"[:600], False
        judged += 1 if was_judged else 0
        moved = bool(out and out["on"]["perm"] not in (None, sorted(out["on"]["perm"])))
        n_neg += 1 if (out and out["signs"]["negative"] > 0) else 0
        ctx.count_case({"stage": "signed", **c}, was_judged and moved)
        key = f"signed/{c['kind']}" + ("/slm" if c["slm"] else "") + ("" if was_judged else "/exact-only")
        hist[key] = hist.get(key, 0) + 1
        gerr = gerr or (e or "")
    if judged < max(1, want // 2) or n_neg < max(1, want // 2):
        gerr = gerr or f"only {judged} numerically judged cases / {n_neg} cases with negative couplings out of {tries}"
    ctx.obligation("falsifier:couplings of both signs (user matrices, XY register couplings with an in-plane field, SLM), order "
                   "chosen by the real optimiser: make_H matrix on == permuted make_H matrix off (bit-exact), reported values "
                   "on == off == dense reference (ran on the real backend through the real pulser adapter)",
                   not gerr, gerr, kind="falsifier")

    # which variant does the code follow?
    rv = sorted(flags["routing"] or [])
    variant = {"v_drives": [d for d, _ in rv], "v_mask": [m for _, m in rv], "v_tags": sorted(tags_variants),
               "v_resume": None if resume_differs is None else (not resume_differs)}
    ctx.extra["variant_followed_by_the_code"] = variant
    ctx.extra["input_distribution"] = dict(sorted(hist.items()))
    ctx.log(f"variant followed by the code: {variant}")
    is_fixed = (rv == [(True, True)] and tags_variants == {True} and resume_differs is False)
    # identity permutations cannot distinguish variants; require a unique determination
    determined = len(rv) == 1 and len(tags_variants) == 1 and resume_differs is not None
    ctx.obligation("variant-uniquely-determined-by-observation", determined, json.dumps(variant), kind="correspondence")
    if determined and not is_fixed and not ctx.violations and not ctx.known_lines:
        ctx.violation("the code follows a variant for which C03 is refuted (see C03_legacy_*_refuted) but no end-to-end "
                      "witness was produced", {"variant": variant, "finding_key": "variant-not-fixed"}, found_input=False)
    ctx.rule = ("routing: forced random permutations n=2..6; every row (3 time steps) of omega, delta and phi with pairwise "
                "distinct per-atom values and distinct interaction entries, with and without bad atoms; results: random Results objects (bare and suffixed tags, 1-3 times); "
                "whitelist: every pulser observable class; scenarios: pi / pi-half pulses on single atoms and Ramsey "
                "sequences with per-atom time-varying phases, closed-form expectation, run and resume; signed: pulser sequences of "
                "3-6 atoms through PulserData with user interaction matrices of both signs (Rydberg and XY, with/without cutoff) "
                "and XY register couplings under an in-plane magnetic field (both signs of 1-3cos^2, optional SLM mask), "
                "permutation chosen by the unmodified optimiser, reordering on vs off vs dense reference; "
                "non-trivial = non-identity permutation")
    ctx.trusted_base += ["hand model Model/QubitOrder.v (validated by the correspondences of this run)",
                         "observation points: arguments of make_H/update_H, well_prepared_qubits_filter, Results returned"]
    ctx.assumptions += [f"switch scenarios: 3-5 atoms on a 7-8 um line in register order; a case is judged only if the same forced "
                        f"chain order with a constant matrix agrees on/off to {SWITCH_COND} and the reordering-off run matches the "
                        f"dense reference to {SWITCH_COND}; tolerance {SWITCH_TOL}",
                        f"signed-coupling cases: the make_H comparison is bit-exact; reported values are judged only if the "
                        f"reordering-off run matches the dense reference to {SIGNED_COND}, tolerance {SIGNED_TOL} (observed on the "
                        f"unchanged code: <= 3e-4)",
                        "end-to-end scenarios use non-interacting atoms with exact pi / pi-half pulses (tolerance 1e-4, "
                        "config precision 1e-9); interaction routing is checked exactly at make_H",
                        "relabelling covariance of the dynamics itself (ext theorem relabel_covariance) is not proved here"]


def _canon(r):
    return {"atom_order": r["atom_order"], "entries": [[(k, v) for k, v in e] for e in r["entries"]]}


def replay(ctx, path):
    import torch

    torch.set_num_threads(1)
    rp = json.loads(open(path).read())
    sc = rp.get("scenario")
    if rp.get("stage") == "switch":
        out = run_switch_case(rp["case"])
        print("replay switch:", {k: [round(x, 4) for x in v["occupation"]] for k, v in out.items()})
        print("judged:", judge_switch(ctx, rp["case"], out))
        return
    if rp.get("stage") == "values":
        print("replay values:", value_search(ctx, sc, {}))
        return
    if rp.get("stage") == "signed":
        out = run_signed_case(rp["case"])
        print("replay signed: permutation chosen", out["on"]["perm"], "signs", out["signs"])
        for k in ("on", "off", "dense"):
            print(f"  {k:5s} occupation", [round(x, 4) for x in out[k]["occupation"]], "energy", out[k].get("energy"))
        print("  make_H (reordering on), first call:", out["on"]["make_H"][0])
        print("  make_H (reordering off), first call:", out["off"]["make_H"][0])
        print("judged:", judge_signed(ctx, rp["case"], out))
        return
    s = run_scenario(sc, "run")
    print("replay run:", s)
    judge_scenario(ctx, sc, "run", s)
    if rp.get("mode") == "resume":
        s2 = run_scenario(sc, "resume")
        print("replay resume:", s2)
        judge_scenario(ctx, sc, "resume", s2, run_summary=s)


META = {
    "category": "proof",
    "technique": "Coq proof over a hand model of the reordering bookkeeping (variant switches) + exact correspondence "
                 "with the real backend under forced permutations + analytic end-to-end falsifier",
    "text": ("Proved for every permutation, size and set of stored results: if drives and bad-atom mask are permuted "
             "like the interaction matrix every chain site gets all its inputs from one atom; if results are selected "
             "by base tag, permute_results returns every per-atom result and atom_order in register order; every exit "
             "(run, resume) un-permutes once; every whitelisted tag is covered. Refuted (machine-checked witnesses) for "
             "the legacy switches: F-03 drives/mask, F-04 suffixed tags, F-10 resume. Validated only: which variant the "
             "real code follows (exact correspondence), end-to-end numbers on small analytic scenarios; that choosing the "
             "order has no other effect than the permutation -- with the unmodified optimiser and interaction matrices "
             "with entries of both signs (user matrices, XY register couplings under an in-plane field, SLM) the matrix "
             "every make_H call receives with reordering on is bit-identical to the permuted reordering-off matrix, and "
             "occupation / correlations / energy agree on vs off vs an independent dense evolution."),
    "note": "Trusted: Coq kernel+VM, hand model (validated every run), pulser Results API; dynamics themselves are C02's.",
}
