"""C13 — every reported observable equals its definition on the current state (DESIGN.md C13).

Proof: coq/Properties/C13.v (all N / all masks / every commutative ring with involution; ranges over C).
Tie: the Gallina models coq/Model/SvObs.v (emu_sv/custom_callback_implementations.py), coq/Model/MpsPad.v
(emu_mps/utils.py padding functions) and coq/Model/MpsObs.v (MPS.expect_batch, qubit_occupation_mps_impl; torch.linalg.qr
interposed by integer oracles), executed at the dyadic Gaussian rationals / Gaussian integers, are compared
EXACTLY with the real torch code on Gaussian-integer data.
Falsifier: every built-in observable of both backends on random (unnormalised, non-canonical) complex states of
1-8 atoms against dense formulas, incl. the dark-atom padding path of MPSBackendImpl.fill_results.
"""
import itertools
import json
import math

from vlib import common
from props.c06 import dy, dyl, cplx, _gi, TOL
from props.c11 import raws, chain, natlist, dense as dense_chain, as3, rand_gi_chain, abs_bound, rand_gi_tensor

HEADER_SV = """From Coq Require Import ZArith List Bool.
Import ListNotations.
From EV Require Import Model.SvBase Model.SvHam Model.SvState Model.SvObs.
Open Scope Z_scope."""

HEADER_MPS = """From Coq Require Import ZArith List Bool.
Import ListNotations.
From EV Require Import Model.TransferMat Model.MPSAlg Model.MpsPad.
Open Scope Z_scope."""

# Two models of the padding exist in Model/MpsPad.v: extended_*_factors (physical dimension 2 whatever the state's
# dimension: the code as found, finding F-14) and extended_*_factors_v2 (dimension of the given factors: the code after
# proposed_fixes/qutrit-dark-atom-padding.diff).  Which one the tie compares with is decided by a behavioural probe of
# the real function (probe_padding_variant: pad a one-site qutrit chain and look at the inserted factor); every case is
# then compared exactly with that model.  Both are covered by C13_padding_amp_generic; the property-level oracle
# (inserted factors must have the state's dimension) does not depend on the variant.
PAD_V2 = False


def probe_padding_variant():
    import torch
    from emu_mps.utils import extended_mps_factors
    out = extended_mps_factors([torch.zeros(1, 3, 1, dtype=torch.complex128)], torch.tensor([True, False]))
    return out[1].shape[1] == 3


# <H^2> through MPO @ MPO: zip_right compresses H^2 with the library defaults (absolute singular-value threshold
# DEFAULT_PRECISION = 1e-5 per bond, independent of the state).  The Frobenius (hence operator-norm) error of H^2 is at most
# 1e-5 per bond, so |<psi|H^2|psi> - reported| <= (sites - 1) * 1e-5 * |psi|^2; measured: <= 2e-7 (padded qutrit MPO), usually
# ~1e-13.  Tolerance: rounding part 1e-9 * ||H||^2 plus 3x that bound.  Nothing in an observable may depend on the STATE's
# truncation settings (precision / max_bond_dim): a truncation of H|psi> at max_bond_dim <= 6 or precision >= 1e-3 on a
# saturated state shows as an error >= 1e-3, far above this tolerance.
TOL_MPO2 = 3e-5


def _tol_m2(sites, n2, hs):
    return TOL * max(1.0, hs * hs * n2) + TOL_MPO2 * sites * n2


def _near(a, b, tol):
    return abs(a - b) <= tol


def _nat(n):
    return f"{int(n)}%nat"


def _mask(m):
    return "[" + "; ".join("true" if x else "false" for x in m) + "]"


def _strs(bs):
    return "[" + ";".join(natlist(b) for b in bs) + "]"


def _gi_vec(rng, n, m=3, density=1.0):
    return [_gi(rng, m) if rng.random() < density else [0, 0] for _ in range(n)]


def _herm(rng, D, m=2):
    A = [[_gi(rng, m) for _ in range(D)] for _ in range(D)]
    H = [[None] * D for _ in range(D)]
    for i in range(D):
        for j in range(D):
            a, b = cplx(A[i][j]), cplx(A[j][i])
            z = a + b.conjugate()
            H[i][j] = [int(z.real), int(z.imag)]
    return H


# ------------------------------------------------------------------------------------------------
# interposition: `torch.linalg.vector_norm(x) ** 2` -> exact sum of squared moduli (no sqrt), so that the
# index logic of the sliced views is compared exactly
class _Sq:
    def __init__(self, v):
        self.v = v

    def __pow__(self, p):
        assert p == 2
        return self.v


class _Lin:
    def __init__(self, real):
        self._real = real

    def vector_norm(self, x):
        return _Sq((x.real ** 2 + x.imag ** 2).sum())

    def __getattr__(self, n):
        return getattr(self._real.linalg, n)


class _TorchProxy:
    def __init__(self, real):
        self._real = real
        self.linalg = _Lin(real)

    def __getattr__(self, n):
        return getattr(self._real, n)


class exact_norms:
    def __enter__(self):
        import torch
        import emu_sv.custom_callback_implementations as cci
        self.m, self.saved = cci, cci.torch
        cci.torch = _TorchProxy(torch)

    def __exit__(self, *a):
        self.m.torch = self.saved


class _StubH:
    """duck-typed Hamiltonian: `hamiltonian * vec` applies a given matrix (what it is, is C06's subject)"""

    def __init__(self, M):
        self.M = M

    def __mul__(self, vec):
        return self.M @ vec


def _stub_lindbladian(M):
    from emu_sv.lindblad_operator import RydbergLindbladian

    class StubL(RydbergLindbladian):
        def __init__(self, M):
            self.M = M

        def h_eff(self, density_matrix, lindblad_ops=None):
            return self.M @ density_matrix

    return StubL(M)  # the real RydbergLindbladian.expect is inherited


def _t(zs):
    import torch
    return torch.tensor([cplx(z) for z in zs], dtype=torch.complex128)


def _tl(t):
    return [complex(x) for x in t.reshape(-1).tolist()]


# ------------------------------------------------------------------------------------------------
# exact cases, state vector / density matrix
def gen_sv_exact(rng, N, kind):
    D = 2 ** N
    c = {"kind": kind, "N": N}
    if kind == "sv_occ":
        c["psi"] = _gi_vec(rng, D, 3, rng.choice([1.0, 0.6]))
    elif kind == "dm_occ":
        c["rho"] = _gi_vec(rng, D * D, 3, rng.choice([1.0, 0.7]))
    elif kind == "sv_energy":
        c["hermitian"] = rng.random() < 0.7
        c["H"] = _herm(rng, D) if c["hermitian"] else [[_gi(rng, 2) for _ in range(D)] for _ in range(D)]
        c["psi"] = _gi_vec(rng, D, 2)
    elif kind == "dm_energy":
        c["hermitian"] = rng.random() < 0.8
        c["H"] = _herm(rng, D) if c["hermitian"] else [[_gi(rng, 2) for _ in range(D)] for _ in range(D)]
        rho = _herm(rng, D) if c["hermitian"] else [[_gi(rng, 2) for _ in range(D)] for _ in range(D)]
        c["rho"] = [x for row in rho for x in row]
    return c


def impl_sv_exact(c):
    """Runs the REAL callbacks; returns dict name -> list of complex / None when the code raised."""
    import torch
    import emu_sv.custom_callback_implementations as cci
    from emu_sv.state_vector import StateVector
    from emu_sv.density_matrix_state import DensityMatrix
    from emu_sv.hamiltonian import RydbergHamiltonian

    N, D = c["N"], 2 ** c["N"]
    kw = dict(config=None)
    if c["kind"] == "sv_occ":
        st = StateVector(_t(c["psi"]), gpu=False)
        with exact_norms():
            occ = cci.qubit_occupation_sv_impl(None, state=st, hamiltonian=None, **kw)
            cor = cci.correlation_matrix_sv_impl(None, state=st, hamiltonian=None, **kw)
        occ_f = cci.qubit_occupation_sv_impl(None, state=st, hamiltonian=None, **kw)
        cor_f = cci.correlation_matrix_sv_impl(None, state=st, hamiltonian=None, **kw)
        return {"occ": _tl(occ), "corr": _tl(cor), "occ_float": _tl(occ_f), "corr_float": _tl(cor_f)}
    if c["kind"] == "dm_occ":
        st = DensityMatrix(_t(c["rho"]).reshape(D, D), gpu=False)
        occ = cci.qubit_occupation_sv_den_mat_impl(None, state=st, hamiltonian=None, **kw)
        cor = cci.correlation_matrix_sv_den_mat_impl(None, state=st, hamiltonian=None, **kw)
        return {"occ": _tl(occ), "corr": _tl(cor)}
    M = _t([x for row in c["H"] for x in row]).reshape(D, D)
    if c["kind"] == "sv_energy":
        st = StateVector(_t(c["psi"]), gpu=False)
        h = _StubH(M)
        out = {"var": _tl(cci.energy_variance_sv_impl(None, state=st, hamiltonian=h, **kw)),
               "m2": _tl(cci.energy_second_moment_sv_impl(None, state=st, hamiltonian=h, **kw))}
        try:
            out["energy"] = _tl(RydbergHamiltonian.expect(h, st))
        except AssertionError:  # the imaginary-part assert (non-Hermitian H)
            out["energy"] = None
        return out
    if c["kind"] == "dm_energy":
        st = DensityMatrix(_t(c["rho"]).reshape(D, D), gpu=False)
        h = _stub_lindbladian(M)
        out = {}
        for name, f in (("var", cci.energy_variance_sv_den_mat_impl), ("m2", cci.energy_second_moment_den_mat_impl)):
            try:
                out[name] = _tl(f(None, state=st, hamiltonian=h, **kw))
            except AssertionError:
                out[name] = None
        try:
            out["energy"] = _tl(h.expect(st))
        except AssertionError:
            out["energy"] = None
        return out
    raise ValueError(c["kind"])


def _flat_lit(H):
    return dyl([cplx(x) for row in H for x in row])


def exprs_sv_exact(c, r):
    """[(name, gallina expr, wanted parsed value)]"""
    N, D = _nat(c["N"]), _nat(2 ** c["N"])

    def diff(e, want):
        return f"dy_first_diff 0 ({e}) {dyl(want)}", -1

    def scal(e, want):
        return f"dy_eqb ({e}) {dy(want[0])}", True

    out = []
    if c["kind"] == "sv_occ":
        psi = dyl([cplx(z) for z in c["psi"]])
        out.append(("sv_occupation",) + diff(f"sv_occupation DyK {N} {psi}", r["occ"]))
        out.append(("sv_correlation",) + diff(f"sv_correlation DyK {N} {psi}", r["corr"]))
    elif c["kind"] == "dm_occ":
        rho = dyl([cplx(z) for z in c["rho"]])
        out.append(("dm_occupation",) + diff(f"dm_occupation DyK {N} {rho}", r["occ"]))
        out.append(("dm_correlation",) + diff(f"dm_correlation DyK {N} {rho}", r["corr"]))
    elif c["kind"] == "sv_energy":
        H = f"(of_flat DyK {D} {_flat_lit(c['H'])})"
        psi = dyl([cplx(z) for z in c["psi"]])
        out.append(("sv_variance",) + scal(f"sv_variance DyK {D} {H} {psi}", r["var"]))
        out.append(("sv_second_moment",) + scal(f"sv_second_moment DyK {D} {H} {psi}", r["m2"]))
        if r["energy"] is not None:
            out.append(("sv_energy",) + scal(f"sv_energy DyK {D} {H} {psi}", r["energy"]))
    elif c["kind"] == "dm_energy":
        H = f"(of_flat DyK {D} {_flat_lit(c['H'])})"
        rho = dyl([cplx(z) for z in c["rho"]])
        for name, key in (("dm_variance", "var"), ("dm_second_moment", "m2"), ("dm_energy", "energy")):
            if r[key] is not None:
                out.append((name,) + scal(f"{name} DyK {D} {H} {rho}", r[key]))
    return out


def oracle_sv_exact(ctx, c, r):
    """independent exact definitions (Python integers) on the same data"""
    N, D = c["N"], 2 ** c["N"]

    def bad(what, key):
        ctx.violation(what, {"case": c, "finding_key": key})
        return False

    bit = lambda k, q: (k >> (N - 1 - q)) & 1  # noqa: E731
    ok = True
    if c["kind"] in ("sv_occ", "dm_occ"):
        if c["kind"] == "sv_occ":
            w = [abs(cplx(z)) ** 2 for z in c["psi"]]
            w = [float(round(x)) for x in w]
        else:
            w = [cplx(c["rho"][k * D + k]).real for k in range(D)]
        occ = [sum(w[k] for k in range(D) if bit(k, i)) for i in range(N)]
        cor = [sum(w[k] for k in range(D) if bit(k, i) and bit(k, j)) for i in range(N) for j in range(N)]
        ok &= [x.real for x in r["occ"]] == occ or bad(f"{c['kind']}: occupation differs from the Born sum", c["kind"] + "-occupation")
        ok &= [x.real for x in r["corr"]] == cor or bad(f"{c['kind']}: correlation differs from its definition", c["kind"] + "-correlation")
        if c["kind"] == "sv_occ":
            s = max(1.0, sum(w))
            ok &= all(abs(a - b) <= TOL * s for a, b in zip([x.real for x in r["occ_float"]], occ)) or \
                bad("sv occupation (vector_norm**2) differs from the Born sum", "sv_occ-occupation")
            ok &= all(abs(a - b) <= TOL * s for a, b in zip([x.real for x in r["corr_float"]], cor)) or \
                bad("sv correlation (vector_norm**2) differs from its definition", "sv_occ-correlation")
    return ok


# ------------------------------------------------------------------------------------------------
# exact cases, padding
def gen_pad_case(rng, mpo):
    import torch

    n_good = rng.choice([0, 1, 2, 2, 3, 3, 4, 5])
    n_dark = rng.choice([0, 1, 1, 2, 2, 3])
    mask = [True] * n_good + [False] * n_dark
    rng.shuffle(mask)
    style = rng.choice(["random", "random", "leading", "trailing", "adjacent"])
    if style == "leading" and n_dark:
        mask = [False] * n_dark + [True] * n_good
    elif style == "trailing" and n_dark:
        mask = [True] * n_good + [False] * n_dark
    elif style == "adjacent" and n_dark >= 2 and n_good >= 2:
        mask = [True] + [False] * n_dark + [True] * (n_good - 1)
    d = rng.choice([2, 2, 2, 3]) if (not mpo or PAD_V2) else 2
    malformed = rng.random() < 0.15
    n_f = n_good + (rng.choice([-1, 1]) if malformed else 0)
    n_f = max(0, n_f)
    if n_f >= 2:
        fs = rand_gi_chain(rng, n_f, d, rng.randint(1, 3), mpo)
    elif n_f == 1:
        shape = (1, d, d, 1) if mpo else (1, d, 1)
        fs = [torch.tensor([complex(*_gi(rng, 3)) for _ in range(math.prod(shape))], dtype=torch.complex128).reshape(shape)]
    else:
        fs = []
    return {"kind": "pad_mpo" if mpo else "pad_mps", "mask": mask, "d": d, "style": style,
            "n_factors": n_f, "factors": [[list(t.shape), [[z.real, z.imag] for z in _tl(t)]] for t in fs]}


def _factors_of(c):
    import torch
    return [torch.tensor([complex(a, b) for a, b in data], dtype=torch.complex128).reshape(shape)
            for shape, data in c["factors"]]


def impl_pad(c):
    import torch
    from emu_mps.utils import extended_mps_factors, extended_mpo_factors

    fs = _factors_of(c)
    f = extended_mpo_factors if c["kind"] == "pad_mpo" else extended_mps_factors
    try:
        out = f([t.clone() for t in fs], torch.tensor(c["mask"], dtype=torch.bool))
    except AssertionError:
        return None
    return out


def exprs_pad(ctx, c, out):
    fs = _factors_of(c)
    fn = "extended_mpo_factors" if c["kind"] == "pad_mpo" else "extended_mps_factors"
    if PAD_V2:
        fn = f"extended_mpo_factors_v2 {_nat(c['d'] if fs else 2)}" if c["kind"] == "pad_mpo" else "extended_mps_factors_v2"
    fn = fn.replace(" ", " gi_ops ", 1) if " " in fn else fn + " gi_ops"
    ch = chain(fs) if fs else "[]"
    if out is None:
        return f"(opad_eqb ({fn} {ch} {_mask(c['mask'])}) [], @nil (option GI))", (None, [])
    dims = [as3(t).shape[1] for t in out]
    total = math.prod(dims)
    if total <= 64:
        bs = [list(b) for b in itertools.product(*[range(x) for x in dims])]
    else:
        bs = [[ctx.rng.randrange(x) for x in dims] for _ in range(24)] + [[0] * len(dims)]
    if not out:
        bs = []
    D = dense_chain(out) if out else None
    want = [("Some", (int(complex(D[tuple(b)]).real), int(complex(D[tuple(b)]).imag))) for b in bs] if out else []
    e = (f"let A := {ch} in (opad_eqb ({fn} A {_mask(c['mask'])}) {raws(out)}, "
         f"match {fn} A {_mask(c['mask'])} with Some C => amps C {_strs(bs)} | None => [] end)")
    return e, (("Some", True), want)


def oracle_pad(ctx, c, out):
    """definition of the padded object on the real result: psi (x) |0..0>  /  O (x) identity, entry by entry"""
    import torch

    fs = _factors_of(c)
    mask = c["mask"]
    if out is None:
        if len(fs) == sum(mask):
            ctx.violation("padding raised although there is one factor per well-prepared atom",
                          {"case": c, "finding_key": "pad-raises"})
        return
    if len(fs) != sum(mask):
        ctx.violation("padding accepted a factor list of the wrong length", {"case": c, "finding_key": "pad-accepts"})
        return
    if not fs or len(out) != len(mask):
        if len(out) != len(mask):
            ctx.violation("padded chain has the wrong number of sites", {"case": c, "finding_key": "pad-length"})
        if not fs:
            return
    Dp = dense_chain(out)
    Du = dense_chain(fs)
    d = c["d"]
    pd = d * d if c["kind"] == "pad_mpo" else d
    keep = (lambda s: s // d == s % d) if c["kind"] == "pad_mpo" else (lambda s: s == 0)
    dims = [as3(t).shape[1] for t in out]
    if any(dims[q] != pd for q in range(len(mask)) if not mask[q]):
        ctx.violation(f"padding factor has physical dimension {[dims[q] for q in range(len(mask)) if not mask[q]][0]}, "
                      f"the state has {pd} (mask={mask})",
                      {"case": c, "finding_key": "qutrit-dark-atom-padding" if d == 3 else "pad-dim"})
        return
    for b in itertools.islice(itertools.product(*[range(x) for x in dims]), 4096):
        good = tuple(b[q] for q in range(len(mask)) if mask[q])
        ok_dark = all(keep(b[q]) for q in range(len(mask)) if not mask[q])
        want = complex(Du[good]) if ok_dark else 0j
        if complex(Dp[tuple(b)]) != want:
            ctx.violation(f"padded amplitude/element at {b} is {complex(Dp[tuple(b)])}, definition gives {want}",
                          {"case": c, "finding_key": "pad-amplitude"})
            return


# ------------------------------------------------------------------------------------------------
# exact cases, MPS.expect_batch / qubit_occupation_mps_impl (Model/MpsObs.v).  torch.linalg.qr is an oracle of the
# model (only its R factor is used by the code); for the exact comparison the name `torch` of emu_mps.mps is rebound to
# a proxy whose linalg.qr returns (None, R) with R computed by the SAME integer oracle as in the model:
#   qr_id : R = M (a legitimate factorisation M = 1 * M: Gram-preserving, the premise of the C13 theorems)
#   qr_mix: a deliberately wrong R of the reduced shape; model and code must still agree on whatever comes out
HEADER_OBS = """From Coq Require Import ZArith List Bool.
Import ListNotations.
From EV Require Import Model.TransferMat Model.MPSAlg Model.MpsObs.
Open Scope Z_scope."""


def _qr_id(M):
    return M.clone()


def _qr_mix(M):
    import torch
    m, n = M.shape
    k = min(m, n)
    return torch.stack([(i + 1) * M[m - 1 - i] + 1j * M[i] for i in range(k)])


def _qr_mix_abs(M):
    import torch
    m, n = M.shape
    return torch.stack([(i + 1) * M[m - 1 - i] + M[i] for i in range(min(m, n))])


QR_ORACLES = {"qr_id": _qr_id, "qr_mix": _qr_mix, "abs:qr_id": _qr_id, "abs:qr_mix": _qr_mix_abs}


def _obs_magnitude(fs, d, c, oracle):
    """bound on the modulus of every intermediate of expect_batch on this chain: the same sweep on the entrywise
    |re|+|im| data (all terms non-negative) with the operator 4 * ones; must stay far below 2**53 for float64 exactness"""
    import torch
    from emu_mps.mps import MPS
    afs = [(t.real.abs() + t.imag.abs()).to(torch.complex128) for t in fs]
    st = MPS(afs, orthogonality_center=c, num_gpus_to_use=0, eigenstates=_eig(d))
    with qr_oracle("abs:" + oracle):
        T = st.expect_batch(4 * torch.ones(1, d, d, dtype=torch.complex128))
    return float(T.real.max())


class _LinQR:
    def __init__(self, real, oracle, log):
        self._real, self._oracle, self._log = real, oracle, log

    def qr(self, M, *a, **k):
        assert not a and not k and M.ndim == 2
        self._log.append(list(M.shape))
        return None, self._oracle(M)

    def __getattr__(self, n):
        return getattr(self._real.linalg, n)


class _TorchQR:
    def __init__(self, real, oracle, log):
        self._real = real
        self.linalg = _LinQR(real, oracle, log)

    def __getattr__(self, n):
        return getattr(self._real, n)


class qr_oracle:
    """inside: emu_mps.mps sees torch.linalg.qr = the integer oracle; self.calls = shapes of the matrices factorised"""

    def __init__(self, name):
        self.oracle, self.calls = QR_ORACLES[name], []

    def __enter__(self):
        import torch
        import emu_mps.mps as m
        self.m, self.saved = m, m.torch
        m.torch = _TorchQR(torch, self.oracle, self.calls)
        return self

    def __exit__(self, *a):
        self.m.torch = self.saved


def _unit(rng):
    return rng.choice([1, -1, 1j, -1j])


def _iso(rng, rows, cols):
    """rows x cols Gaussian-integer matrix with orthonormal columns (cols <= rows): unit phases on distinct rows"""
    import torch
    M = torch.zeros(rows, cols, dtype=torch.complex128)
    for j, i in enumerate(rng.sample(range(rows), cols)):
        M[i, j] = _unit(rng)
    return M


def gen_obs_case(rng, canonical):
    import torch
    d = rng.choice([2, 2, 3])
    n = rng.randint(2, 5 if d == 2 else 4)
    c = rng.randrange(n)
    if canonical:  # the declared centre is truthful: isometries left and right of it, anything at the centre
        bonds = [1] * (n + 1)
        for i in range(1, c + 1):
            bonds[i] = rng.randint(1, min(3, bonds[i - 1] * d))
        for i in range(n - 1, c, -1):
            bonds[i] = rng.randint(1, min(3, bonds[i + 1] * d))
        fs = []
        for i in range(n):
            l, r = bonds[i], bonds[i + 1]
            if i < c:
                fs.append(_iso(rng, l * d, r).reshape(l, d, r))
            elif i > c:
                fs.append(_iso(rng, d * r, l).T.reshape(l, d, r).contiguous())
            else:
                fs.append(rand_gi_tensor(rng, (l, d, r), 0.8, amp=3))
        oracle = "qr_id"
    else:
        density = rng.choice([1.0, 0.7, 0.5])
        oracle = rng.choice(["qr_id", "qr_mix", "qr_mix"])
        while True:
            bonds = [1] + [rng.randint(1, 3) for _ in range(n - 1)] + [1]
            fs = [rand_gi_tensor(rng, (bonds[i], d, bonds[i + 1]), density, amp=rng.choice([1, 1, 2])) for i in range(n)]
            if abs_bound(fs) < 2.0 ** 10 and _obs_magnitude(fs, d, c, oracle) < 2.0 ** 46:
                break
            density *= 0.7
    nops = rng.randint(1, 3)
    ops = [[[_gi(rng, 2) for _ in range(d)] for _ in range(d)] for _ in range(nops)]
    return {"kind": "mps_expect", "d": d, "n": n, "center": c, "canonical": canonical, "oracle": oracle, "ops": ops,
            "factors": [[list(t.shape), [[z.real, z.imag] for z in _tl(t)]] for t in fs]}


def impl_obs(c):
    """REAL MPS.expect_batch and qubit_occupation_mps_impl under the integer QR oracle"""
    import torch
    import emu_mps.custom_callback_implementations as mci
    from emu_mps.mps import MPS

    fs = _factors_of(c)
    ops = torch.tensor([[[complex(*z) for z in row] for row in op] for op in c["ops"]], dtype=torch.complex128)
    st = MPS([t.clone() for t in fs], orthogonality_center=c["center"], num_gpus_to_use=0, eigenstates=_eig(c["d"]))
    with qr_oracle(c["oracle"]) as q:
        res = st.expect_batch(ops)
        n1 = len(q.calls)
        occ = mci.qubit_occupation_mps_impl(None, config=None, state=st, hamiltonian=None)
    same = all(torch.equal(a, b) for a, b in zip(st.factors, fs)) and st.orthogonality_center == c["center"]
    return {"T": [[complex(x) for x in row] for row in res.tolist()], "occ": [float(x) for x in occ.tolist()],
            "qr_calls": n1, "state_unchanged": same, "dtype": str(res.dtype)}


def exprs_obs(c, r):
    fs = _factors_of(c)
    ops = "[" + ";".join("[" + ";".join("[" + ";".join(f"({a},{b})" for a, b in row) + "]" for row in op) + "]"
                         for op in c["ops"]) + "]"
    ch = f"(t3s_of_raw {raws(fs)})"
    e = (f"let A := {ch} in (expect_batch gi_ops {c['oracle']} {_nat(c['center'])} A (ops_of_raw {ops}), "
         f"occupation gi_ops {c['oracle']} {_nat(c['center'])} A)")
    wantT = ("Some", [[(int(z.real), int(z.imag)) for z in row] for row in r["T"]])
    return e, wantT


def oracle_obs(ctx, c, r):
    """definition on the same data (exact integers): for a truthful centre and a Gram-preserving R the table is
    <psi|O_q|psi>; whatever the chain, expect_batch must not modify the state and calls qr once per non-centre site"""
    import torch
    from props.c11 import site_op

    def bad(what, key):
        ctx.violation(what, {"case": c, "finding_key": key})

    if r["dtype"] != "torch.complex128":
        bad(f"expect_batch returns {r['dtype']}", "observable-dtype")
    if not r["state_unchanged"]:
        bad("expect_batch changed the factors or the declared orthogonality centre", "mps-state-changed")
    if r["qr_calls"] != c["n"] - 1:
        bad(f"expect_batch factorised {r['qr_calls']} matrices on {c['n']} sites", "expect-batch-sweep")
    if c["canonical"]:
        psi = dense_chain(_factors_of(c))
        for q in range(c["n"]):
            for i, op in enumerate(c["ops"]):
                O = torch.tensor([[complex(*z) for z in row] for row in op], dtype=torch.complex128)
                want = complex((psi.conj() * site_op(psi, O, q)).sum())
                if r["T"][q][i] != want:
                    bad(f"expect_batch[{q}][{i}] = {r['T'][q][i]} on a canonical chain (centre {c['center']}), "
                        f"<psi|O_q|psi> = {want}", "mps-occupation")
                    return
        p = (psi.real ** 2 + psi.imag ** 2)
        for q in range(c["n"]):
            want = float(p.movedim(q, 0)[1].sum())
            if r["occ"][q] != want:
                bad(f"mps occupation of site {q} is {r['occ'][q]}, Born sum {want}", "mps-occupation")
                return


def ext_index_check(ctx, L):
    """get_extended_site_index on every mask of length L and every desired index 0..L (and None)."""
    import torch
    from emu_mps.utils import get_extended_site_index

    rows = []
    for mask in itertools.product([False, True], repeat=L):
        t = torch.tensor(mask, dtype=torch.bool) if L else torch.zeros(0, dtype=torch.bool)
        row = []
        for k in range(L + 1):
            try:
                e = get_extended_site_index(t, k)
            except ValueError:
                e = None
            pos = [q for q in range(L) if mask[q]]
            want = pos[k] if k < len(pos) else None
            if e != want:
                ctx.violation(f"get_extended_site_index({list(mask)}, {k}) = {e}, the {k}-th True is at {want}",
                              {"case": {"kind": "ext_index", "mask": list(mask), "k": k}, "finding_key": "extended-index"})
            row.append(e)
        if get_extended_site_index(t, None) is not None:
            ctx.violation("get_extended_site_index(mask, None) is not None",
                          {"case": {"kind": "ext_index", "mask": list(mask), "k": None}, "finding_key": "extended-index"})
        rows.append((list(mask), row))
    return rows


# ------------------------------------------------------------------------------------------------
# falsifier on floating-point states
def _seed_torch(rng):
    import torch
    g = torch.Generator()
    g.manual_seed(rng.getrandbits(48))
    return g


def _close(a, b, scale, tol=TOL):
    import numpy as np
    a, b = np.asarray(a, dtype=complex).reshape(-1), np.asarray(b, dtype=complex).reshape(-1)
    return a.shape == b.shape and bool(np.all(np.abs(a - b) <= tol * max(1.0, scale)))


def fals_sv(ctx, case):
    """real callbacks + real RydbergHamiltonian / RydbergLindbladian vs dense formulas."""
    import numpy as np
    import torch
    import emu_sv.custom_callback_implementations as cci
    from emu_sv.state_vector import StateVector
    from emu_sv.density_matrix_state import DensityMatrix
    from emu_sv.hamiltonian import RydbergHamiltonian
    from emu_sv.lindblad_operator import RydbergLindbladian
    from props import _dense_ref as ref

    N, D = case["N"], 2 ** case["N"]
    g = torch.Generator()
    g.manual_seed(case["seed"])
    kw = dict(config=None)
    om = torch.rand(N, generator=g, dtype=torch.float64) * 6
    de = (torch.rand(N, generator=g, dtype=torch.float64) - 0.5) * 10
    ph = (torch.rand(N, generator=g, dtype=torch.float64) - 0.5) * 4 if case["phases"] else torch.zeros(N, dtype=torch.float64)
    U = torch.rand(N, N, generator=g, dtype=torch.float64) * 3
    U = torch.triu(U, 1) + torch.triu(U, 1).T
    Hd = ref.dense_H(om.numpy(), de.numpy(), ph.numpy(), U.numpy())
    hs = float(np.abs(Hd).sum(axis=1).max())

    def bad(what, key, **kv):
        ctx.violation(what, {"case": case, "finding_key": key, **kv})

    if case["kind"] == "fals_sv":
        psi = torch.randn(D, generator=g, dtype=torch.complex128) * case["scale"]
        if case["normalise"]:
            psi = psi / torch.linalg.vector_norm(psi)
        st = StateVector(psi.clone(), gpu=False)
        v = psi.numpy()
        n2 = float(np.vdot(v, v).real)
        occ = cci.qubit_occupation_sv_impl(None, state=st, hamiltonian=None, **kw).numpy()
        cor = cci.correlation_matrix_sv_impl(None, state=st, hamiltonian=None, **kw).numpy()
        if not _close(occ, ref.occupation(v, N), n2):
            bad("sv occupation differs from sum_{k: bit_i=1} |psi_k|^2", "sv-occupation")
        if not _close(cor, ref.correlation(v, N), n2):
            bad("sv correlation matrix differs from its definition", "sv-correlation")
        H = RydbergHamiltonian(om, de, ph, U, torch.device("cpu"))
        hv = Hd @ v
        e = float(np.vdot(v, hv).real)
        m2 = float(np.vdot(hv, hv).real)
        got_e = float(H.expect(st))
        got_m2 = float(cci.energy_second_moment_sv_impl(None, state=st, hamiltonian=H, **kw))
        got_var = float(cci.energy_variance_sv_impl(None, state=st, hamiltonian=H, **kw))
        if not _close([got_e], [e], hs * n2):
            bad(f"sv energy {got_e} differs from <psi|H|psi> = {e}", "sv-energy")
        if not _close([got_m2], [m2], hs * hs * n2):
            bad(f"sv energy second moment {got_m2} differs from <psi|H^2|psi> = {m2}", "sv-second-moment")
        if not _close([got_var], [m2 - e * e], hs * hs * max(n2, n2 * n2)):
            bad(f"sv energy variance {got_var} differs from <H^2>-<H>^2 = {m2 - e * e}", "sv-variance")
        if case["normalise"]:
            if occ.min() < -TOL or occ.max() > 1 + TOL or cor.min() < -TOL or cor.max() > 1 + TOL:
                bad("sv occupation/correlation of a normalised state outside [0,1]", "sv-range")
            if got_var < -TOL * hs * hs:
                bad("sv energy variance of a normalised state is negative", "sv-variance-range")
        return {"n2": n2}
    # density matrix: random (unnormalised) mixture of random vectors
    r = case["rank"]
    V = torch.randn(D, r, generator=g, dtype=torch.complex128) * case["scale"]
    rho = V @ V.conj().T
    if case["normalise"]:
        rho = rho / rho.diagonal().sum().real
    st = DensityMatrix(rho.clone(), gpu=False)
    R = rho.numpy()
    p = np.real(np.diag(R))
    tr = float(p.sum())
    bit = lambda k, q: (k >> (N - 1 - q)) & 1  # noqa: E731
    occ_ref = [sum(p[k] for k in range(D) if bit(k, i)) for i in range(N)]
    cor_ref = [[sum(p[k] for k in range(D) if bit(k, i) and bit(k, j)) for j in range(N)] for i in range(N)]
    occ = cci.qubit_occupation_sv_den_mat_impl(None, state=st, hamiltonian=None, **kw).numpy()
    cor = cci.correlation_matrix_sv_den_mat_impl(None, state=st, hamiltonian=None, **kw).numpy()
    if not _close(occ, occ_ref, tr):
        bad("density-matrix occupation differs from sum_{k: bit_i=1} rho_kk", "dm-occupation")
    if not _close(cor, cor_ref, tr):
        bad("density-matrix correlation differs from its definition", "dm-correlation")
    L = RydbergLindbladian(om, de, ph, [], U, torch.device("cpu"))
    e = float(np.trace(Hd @ R).real)
    m2 = float(np.trace(Hd @ Hd @ R).real)
    got_e = float(L.expect(st))
    got_m2 = float(cci.energy_second_moment_den_mat_impl(None, state=st, hamiltonian=L, **kw))
    got_var = float(cci.energy_variance_sv_den_mat_impl(None, state=st, hamiltonian=L, **kw))
    if not _close([got_e], [e], hs * tr):
        bad(f"density-matrix energy {got_e} differs from tr(H rho) = {e}", "dm-energy")
    if not _close([got_m2], [m2], hs * hs * tr):
        bad(f"density-matrix second moment {got_m2} differs from tr(rho H^2) = {m2}", "dm-second-moment")
    if not _close([got_var], [m2 - e * e], hs * hs * max(tr, tr * tr)):
        bad(f"density-matrix variance {got_var} differs from tr(rho H^2)-tr(rho H)^2 = {m2 - e * e}", "dm-variance")
    if case["normalise"]:
        if occ.min() < -TOL or occ.max() > 1 + TOL or cor.min() < -TOL or cor.max() > 1 + TOL:
            bad("density-matrix occupation/correlation outside [0,1] at unit trace", "dm-range")
        if got_var < -TOL * hs * hs:
            bad("density-matrix energy variance negative at unit trace", "dm-variance-range")
    return {"n2": tr}


def _dense_state(fs):
    import torch
    cur = fs[0][0]
    for t in fs[1:]:
        cur = torch.tensordot(cur, t, dims=1)
    return cur[..., 0]


def _dense_mpo(fs):
    """matrix <out|O|in> with composite row index (out_0..out_{n-1}) and column index (in_0..in_{n-1})"""
    import torch
    cur = fs[0][0]  # (o, i, r)
    n = len(fs)
    for t in fs[1:]:
        cur = torch.tensordot(cur, t, dims=1)
    cur = cur[..., 0]  # (o0,i0,o1,i1,...)
    perm = [2 * q for q in range(n)] + [2 * q + 1 for q in range(n)]
    d = fs[0].shape[1]
    return cur.permute(perm).reshape(d ** n, d ** n)


def _eig(d):
    return ("r", "g") if d == 2 else ("g", "r", "x")


def _trunc(case):
    """truncation settings carried by the state (None = library defaults 1e-5 / 1024)"""
    t = case.get("trunc")
    return {} if not t else {"precision": t["precision"], "max_bond_dim": t["max_bond_dim"]}


def _sat_bonds(n, d, cap):
    """bond dimensions of an entangled state saturating the cap"""
    return [1] + [min(cap, d ** min(i, n - i)) for i in range(1, n)] + [1]


def _rand_mps(g, rng_bonds, d, scale):
    import torch
    n = len(rng_bonds) - 1
    fs = [torch.randn(rng_bonds[i], d, rng_bonds[i + 1], generator=g, dtype=torch.complex128) for i in range(n)]
    nrm = float(torch.linalg.vector_norm(_dense_state(fs)))
    k = int(torch.randint(0, n, (1,), generator=g))
    fs[k] = fs[k] * (scale / nrm)  # the whole state has norm `scale` (not canonical, not normalised)
    return fs


def _make_mpo(g, n, d, phases=True):
    import torch
    from emu_mps.hamiltonian import make_H, update_H
    from emu_base.pulser_adapter import HamiltonianType

    U = torch.rand(n, n, generator=g, dtype=torch.float64) * 3
    U = torch.triu(U, 1) + torch.triu(U, 1).T
    H = make_H(interaction_matrix=U, hamiltonian_type=HamiltonianType.Rydberg, dim=d, num_gpus_to_use=0)
    c = lambda x: x.to(torch.complex128)  # noqa: E731
    update_H(hamiltonian=H, omega=c(torch.rand(n, generator=g, dtype=torch.float64) * 6),
             delta=c((torch.rand(n, generator=g, dtype=torch.float64) - 0.5) * 10),
             phi=c((torch.rand(n, generator=g, dtype=torch.float64) - 0.5) * 4 if phases else torch.zeros(n, dtype=torch.float64)),
             noise=torch.zeros(d, d, dtype=torch.complex128))
    return H


def _mps_refs(psi, Hd, n, d):
    """dense definitions: occupation / correlation of level 1 ('r'), energy moments"""
    import numpy as np
    v = np.asarray(psi).reshape(-1)
    p = np.abs(v) ** 2
    digs = np.array(list(itertools.product(range(d), repeat=n)))
    occ = np.array([p[digs[:, i] == 1].sum() for i in range(n)])
    cor = np.array([[p[(digs[:, i] == 1) & (digs[:, j] == 1)].sum() for j in range(n)] for i in range(n)])
    hv = Hd @ v
    return occ, cor, float(np.vdot(v, hv).real), float(np.vdot(hv, hv).real), float(np.vdot(v, v).real)


def fals_mps(ctx, case):
    import numpy as np
    import torch
    import emu_mps.custom_callback_implementations as mci
    from emu_mps.mps import MPS
    from emu_mps.observables import EntanglementEntropy

    n, d = case["n"], case["d"]
    g = torch.Generator()
    g.manual_seed(case["seed"])
    fs = _rand_mps(g, case["bonds"], d, case["scale"])
    psi = _dense_state(fs).numpy().copy()
    H = _make_mpo(g, n, d, case["phases"])
    Hd = _dense_mpo(H.factors).numpy()
    hs = float(np.abs(Hd).sum(axis=1).max())
    occ_r, cor_r, e_r, m2_r, n2 = _mps_refs(psi, Hd, n, d)
    st = MPS([t.clone() for t in fs], num_gpus_to_use=0, eigenstates=_eig(d), **_trunc(case))
    if case["center"] is not None:
        st.orthogonalize(case["center"])
    kw = dict(config=None)
    sfx = "-truncated" if case.get("trunc") else ""

    def bad(what, key):
        ctx.violation(what + (f" (state carries {case['trunc']})" if case.get("trunc") else ""),
                      {"case": case, "finding_key": key})

    occ = mci.qubit_occupation_mps_impl(None, state=st, hamiltonian=H, **kw).numpy()
    if not _close(occ, occ_r, n2):
        bad("mps occupation differs from sum_{b: b_i=1} |amp b|^2", "mps-occupation" + sfx)
    cor = mci.correlation_matrix_mps_impl(None, state=st, hamiltonian=H, **kw).numpy()
    if not _close(cor, cor_r, n2):
        bad("mps correlation matrix differs from its definition", "mps-correlation" + sfx)
    if st.orthogonality_center != 0:
        st.orthogonalize(case["center"] or 0)
    e = float(mci.energy_mps_impl(None, state=st, hamiltonian=H, **kw))
    m2 = float(mci.energy_second_moment_mps_impl(None, state=st, hamiltonian=H, **kw))
    var = float(mci.energy_variance_mps_impl(None, state=st, hamiltonian=H, **kw))
    if not _close([e], [e_r], hs * n2):
        bad(f"mps energy {e} differs from <psi|H|psi> = {e_r}", "mps-energy" + sfx)
    if not _near(m2, m2_r, _tol_m2(n, n2, hs)):
        bad(f"mps energy second moment {m2} differs from <psi|H^2|psi> = {m2_r} on the same state", "mps-second-moment" + sfx)
    if not _near(var, m2_r - e_r * e_r, _tol_m2(n, max(n2, n2 * n2), hs)):
        bad(f"mps energy variance {var} differs from <H^2>-<H>^2 = {m2_r - e_r * e_r} on the same state", "mps-variance" + sfx)
    if abs(n2 - 1.0) < 1e-9 and var < -1e-12 * max(1.0, m2_r) - (0 if sfx else _tol_m2(n, 1.0, 0.0)):
        bad(f"mps energy variance of a normalised state is negative: {var}", "mps-variance-range" + sfx)
    # the state must still be the same state (observables must not change it)
    after = _dense_state(st.factors).numpy()
    if not _close(after, psi, math.sqrt(n2)):
        bad("computing observables changed the state", "mps-state-changed")
    # entanglement entropy of the normalised state, every bond, against the dense SVD; range [0, log d^k]
    stn = (1 / st.norm()) * st
    if (stn.precision, stn.max_bond_dim) != (st.precision, st.max_bond_dim):
        bad("scaling a state changed its truncation settings", "mps-settings-lost")
    v = psi / math.sqrt(n2)
    for site in range(n - 1):
        s = np.linalg.svd(v.reshape(d ** (site + 1), -1), compute_uv=False)
        s2 = s[s > 1e-300] ** 2
        S_ref = float(-(s2 * np.log(s2)).sum())
        S = float(EntanglementEntropy(site).apply(state=stn))
        if abs(S - S_ref) > 1e-7:
            bad(f"entanglement entropy at bond {site}: {S} vs dense {S_ref}", "mps-entropy")
        kk = min(site + 1, n - site - 1)
        if S < -1e-9 or S > kk * math.log(d) + 1e-7:
            bad(f"entanglement entropy {S} outside [0, log d^{kk}]", "mps-entropy-range")
    return {"n2": n2}


def fals_fill(ctx, case):
    """MPSBackendImpl.fill_results (normalisation + dark-atom padding) with the real pulser observables, patched by
    MPSConfig.monkeypatch_observables, against dense formulas on psi/|psi| (x) |g..g>."""
    import types
    import numpy as np
    import torch
    from emu_mps.mps import MPS
    from emu_mps.mps_config import MPSConfig
    from emu_mps.mps_backend_impl import MPSBackendImpl
    from pulser.backend import (Occupation, CorrelationMatrix, Energy, EnergyVariance, EnergySecondMoment, Results)

    mask, d = case["mask"], case["d"]
    n = sum(mask)
    g = torch.Generator()
    g.manual_seed(case["seed"])
    fs = _rand_mps(g, case["bonds"], d, case["scale"])
    psi = _dense_state(fs).numpy().copy()
    H = _make_mpo(g, n, d, True)
    Hd = _dense_mpo(H.factors).numpy()
    hs = float(np.abs(Hd).sum(axis=1).max())
    n2 = float(np.vdot(psi.reshape(-1), psi.reshape(-1)).real)
    occ_r, cor_r, e_r, m2_r, _ = _mps_refs(psi / math.sqrt(n2), Hd, n, d)
    good = [q for q in range(len(mask)) if mask[q]]
    full_occ = np.zeros(len(mask))
    full_cor = np.zeros((len(mask), len(mask)))
    for a, qa in enumerate(good):
        full_occ[qa] = occ_r[a]
        for b, qb in enumerate(good):
            full_cor[qa, qb] = cor_r[a, b]

    from pulser.backend.observable import Observable
    from emu_base.utils import observable_aggregation_kwargs
    from emu_mps.mps_backend_impl import NoisyMPSBackendImpl

    seen = []

    class StateProbe(Observable):
        """records what the callbacks are handed: the dense state (its norm must be 1) and the operator's size"""

        def __init__(self):
            super().__init__(evaluation_times=[1.0], **observable_aggregation_kwargs("MEAN"))

        @property
        def _base_tag(self):
            return "c13_state_probe"

        def apply(self, *, config, state, hamiltonian, **kw):
            dense = _dense_state(state.factors)
            seen.append({"norm_dense": float(torch.linalg.vector_norm(dense)), "norm_method": float(state.norm()),
                         "sites": len(state.factors), "h_sites": len(hamiltonian.factors),
                         "dims": sorted({int(f.shape[1]) for f in state.factors}),
                         "center": state.orthogonality_center, "dense": dense.numpy().copy()})
            return torch.tensor(seen[-1]["norm_dense"])

    obs = [Occupation(evaluation_times=[1.0]), CorrelationMatrix(evaluation_times=[1.0]),
           Energy(evaluation_times=[1.0]), EnergyVariance(evaluation_times=[1.0]),
           EnergySecondMoment(evaluation_times=[1.0]), StateProbe()]
    cfg = MPSConfig(observables=obs, log_level=1000)
    impl_cls = NoisyMPSBackendImpl if case.get("impl") == "noisy" else MPSBackendImpl
    st = MPS([t.clone() for t in fs], num_gpus_to_use=0, eigenstates=_eig(d), **_trunc(case))
    sfx = "-truncated" if case.get("trunc") else ""
    if case["center"] is not None:
        st.orthogonalize(case["center"])
    fake = types.SimpleNamespace(
        state=st, hamiltonian=H, current_time=100.0, target_times=[0.0, 100.0], config=cfg,
        _is_evaluation_time=lambda cb, t, tolerance=1e-10: True,
        well_prepared_qubits_filter=None if all(mask) and not case["force_filter"] else torch.tensor(mask, dtype=torch.bool),
        results=Results(atom_order=tuple(f"q{i}" for i in range(len(mask))), total_duration=100))

    def bad(what, key, **kv):
        ctx.violation(what, {"case": case, "finding_key": key, **kv})

    try:
        impl_cls.fill_results(fake)
    except Exception as ex:  # noqa: BLE001 - any exception on a valid state/mask is a defect
        key = "qutrit-dark-atom-padding" if (d == 3 and not all(mask)) else "fill-results-raises"
        bad(f"fill_results raised {type(ex).__name__}: {str(ex)[:160]} (dim={d}, mask={mask})", key)
        return {"raised": type(ex).__name__}
    res = {}
    for o in cfg.observables:
        res[o.tag] = fake.results.get_result(o, 1.0)
    # the state object handed to the callbacks: norm 1, one site per atom, the normalised state (x) |g> on dark atoms
    if len(seen) != 1:
        bad(f"the probe observable was called {len(seen)} times", "fill-probe")
    else:
        pr = seen[0]
        if abs(pr["norm_dense"] - 1.0) > TOL or abs(pr["norm_method"] - 1.0) > TOL:
            bad(f"the state handed to the observable callbacks has norm {pr['norm_dense']} (state.norm() = "
                f"{pr['norm_method']}); internal state norm {math.sqrt(n2)}, mask={mask}", "fill-state-not-normalised")
        if pr["sites"] != len(mask) or pr["h_sites"] != len(mask) or pr["dims"] != [d]:
            bad(f"callbacks got {pr['sites']} state sites / {pr['h_sites']} operator sites of dims {pr['dims']} for "
                f"{len(mask)} atoms of dimension {d}", "fill-register-size")
        want = np.zeros([d] * len(mask), dtype=complex)
        idx = tuple(slice(None) if m else 0 for m in mask)
        want[idx] = psi / math.sqrt(n2)
        if not _close(pr["dense"], want, 1.0):
            bad("the state handed to the callbacks is not psi/|psi| (x) |g..g> on the dark atoms", "fill-padded-state")
    occ = np.asarray(res["occupation"])
    cor = np.asarray(res["correlation_matrix"])
    if not _close(occ, full_occ, 1.0):
        bad("reported occupation differs from the definition on psi/|psi| (x) |g> on dark atoms", "fill-occupation")
    if not _close(cor, full_cor, 1.0):
        bad("reported correlation differs from the definition on the padded normalised state", "fill-correlation")
    if not _close([float(res["energy"])], [e_r], hs):
        bad(f"reported energy {float(res['energy'])} differs from <H> = {e_r} on the normalised state", "fill-energy")
    if not _near(float(res["energy_second_moment"]), m2_r, _tol_m2(len(mask), 1.0, hs)):
        bad(f"reported energy second moment {float(res['energy_second_moment'])} differs from <H^2> = {m2_r} on the "
            f"normalised state (state carries {case.get('trunc')})", "fill-second-moment" + sfx)
    if not _near(float(res["energy_variance"]), m2_r - e_r * e_r, _tol_m2(len(mask), 1.0, hs)):
        bad(f"reported energy variance {float(res['energy_variance'])} differs from <H^2>-<H>^2 = {m2_r - e_r * e_r} on "
            f"the normalised state (state carries {case.get('trunc')})", "fill-variance" + sfx)
    if occ.min() < -TOL or occ.max() > 1 + TOL or cor.real.min() < -TOL or cor.real.max() > 1 + TOL:
        bad("reported occupation/correlation outside [0,1]", "fill-range")
    if float(res["energy_variance"]) < -1e-12 * max(1.0, m2_r) - _tol_m2(len(mask), 1.0, 0.0):
        bad(f"reported energy variance is negative: {float(res['energy_variance'])}", "fill-variance-range" + sfx)
    return {"n2": n2}


def fals_backend(ctx, case):
    """A full MPSBackend run whose config carries tight truncation settings; every stored observable is compared with
    the dense definition evaluated, by a probe observable, on the very (state, hamiltonian) pair handed to the callbacks."""
    import logging
    import random as pyrandom
    import warnings
    import numpy as np
    import torch
    import emu_mps
    from pulser.backend import Occupation, CorrelationMatrix, Energy, EnergyVariance, EnergySecondMoment
    from pulser.backend.observable import Observable
    from emu_base.utils import observable_aggregation_kwargs
    from emu_mps.observables import EntanglementEntropy
    from props import _dense_ref as ref

    n, steps = case["n"], case["steps"]
    prob = ref.random_problem(pyrandom.Random(case["seed"]), n, steps, dt=case["dt"], local=case["local"], scale=case["drive"])
    if case.get("chain"):  # a blockaded chain under a constant global drive: early times have numerically-zero Schmidt values
        ch = case["chain"]
        pos = np.arange(n) * ch["spacing"]
        dist = np.abs(pos[:, None] - pos[None, :]) + np.eye(n)
        prob = dict(n=n, steps=steps, times=[k * case["dt"] for k in range(steps + 1)],
                    omega=np.full((steps, n), ch["omega"]), delta=np.full((steps, n), ch["delta"]),
                    phi=np.full((steps, n), ch["phi"]), U=(5420158.53 / dist ** 6) * (1 - np.eye(n)), xy=False)
    et = [k / steps for k in range(1, steps + 1)]
    seen = {}

    class DenseProbe(Observable):
        def __init__(self):
            super().__init__(evaluation_times=et, **observable_aggregation_kwargs("MEAN"))

        @property
        def _base_tag(self):
            return "c13_dense_probe"

        def apply(self, *, config, state, hamiltonian, **kw):
            psi = _dense_state(state.factors).numpy().copy()
            Hd = _dense_mpo(hamiltonian.factors).numpy()
            occ, cor, e, m2, n2 = _mps_refs(psi, Hd, len(state.factors), state.factors[0].shape[1])
            seen[len(seen)] = dict(occ=occ, cor=cor, e=e, m2=m2, n2=n2, hs=float(np.abs(Hd).sum(axis=1).max()),
                                   psi=psi.reshape(-1),
                                   chi=max(f.shape[2] for f in state.factors),
                                   settings=(state.precision, state.max_bond_dim))
            return torch.tensor(float(len(seen) - 1))

    with warnings.catch_warnings():
        warnings.simplefilter("ignore")
        others = [Occupation(evaluation_times=et), CorrelationMatrix(evaluation_times=et),
                  Energy(evaluation_times=et), EnergyVariance(evaluation_times=et), EnergySecondMoment(evaluation_times=et)]
        entropies = [EntanglementEntropy(q, evaluation_times=et, tag_suffix=f"cut{q}") for q in range(n - 1)]
        # all callbacks of a time step share one state object and every observable re-orthogonalises it: the order of
        # the observables decides in which gauge each one finds the state
        order = case.get("order", "entropy-last")
        obs_list = {"entropy-last": others + [DenseProbe()] + entropies,
                    "entropy-first": [DenseProbe()] + entropies + others,
                    "entropy-only": [DenseProbe()] + entropies}[order]
        cfg = emu_mps.MPSConfig(observables=obs_list,
                                log_level=logging.CRITICAL, optimize_qubit_ordering=False, num_gpus_to_use=0,
                                **_trunc(case))
        res = emu_mps.MPSBackend._run_from_sequence_data(ref.to_sequence_data(prob), cfg)
    sfx = "-truncated" if case.get("trunc") and case["trunc"]["max_bond_dim"] < 1024 else ""

    def bad(what, key):
        ctx.violation(f"backend run ({case.get('trunc')}): " + what, {"case": case, "finding_key": key})

    chis = []
    for t in et:
        pr = seen[int(float(res.get_result("c13_dense_probe", t)))]
        chis.append(pr["chi"])
        hs, n2 = pr["hs"], pr["n2"]
        if abs(n2 - 1.0) > TOL:
            bad(f"callbacks got a state of squared norm {n2} at t={t}", "backend-state-not-normalised")
        if order == "entropy-only":
            others_ok = False
        else:
            others_ok = True
        if others_ok and not _close(np.asarray(res.get_result("occupation", t)), pr["occ"], n2):
            bad(f"occupation at t={t} differs from its definition on the state handed to the callbacks", "backend-occupation" + sfx)
        if others_ok and not _close(np.asarray(res.get_result("correlation_matrix", t)), pr["cor"], n2):
            bad(f"correlation matrix at t={t} differs from its definition", "backend-correlation" + sfx)
        e, m2, var = ((float(res.get_result(k, t)) for k in ("energy", "energy_second_moment", "energy_variance"))
                      if others_ok else (pr["e"], pr["m2"], pr["m2"] - pr["e"] ** 2))
        if not _close([e], [pr["e"]], hs * n2):
            bad(f"energy at t={t}: {e} vs <psi|H|psi> = {pr['e']}", "backend-energy" + sfx)
        if not _near(m2, pr["m2"], _tol_m2(n, n2, hs)):
            bad(f"energy second moment at t={t}: {m2} vs <psi|H^2|psi> = {pr['m2']} on the same state", "mps-second-moment" + sfx)
        if not _near(var, pr["m2"] - pr["e"] ** 2, _tol_m2(n, n2, hs)):
            bad(f"energy variance at t={t}: {var} vs {pr['m2'] - pr['e'] ** 2} on the same state", "mps-variance" + sfx)
        if var < -1e-12 * max(1.0, pr["m2"]) - _tol_m2(n, 1.0, 0.0):
            bad(f"energy variance at t={t} is negative: {var}", "mps-variance-range" + sfx)
        for q in range(n - 1):
            S = float(res.get_result(f"entanglement_entropy_cut{q}", t))
            S_ref = _schmidt_entropy(pr["psi"] / math.sqrt(n2), n, 2, q)
            kk = min(q + 1, n - q - 1)
            # the Schmidt values themselves carry the run's truncation noise only through the state, which is the same
            if not (math.isfinite(S) and abs(S - S_ref) <= 1e-7 * max(1.0, S_ref)):
                bad(f"entanglement entropy at cut {q} and t={t}: reported {S}, Schmidt spectrum of the state handed to "
                    f"the callbacks gives {S_ref}", "entropy-not-definition")
            if not (math.isfinite(S) and -1e-9 <= S <= kk * math.log(2) + 1e-7):
                bad(f"entanglement entropy at cut {q} and t={t} is {S}, outside [0, log 2^{kk}]", "entropy-out-of-range")
    return {"max_chi": max(chis), "settings": list(seen[0]["settings"]) if seen else None}


def gen_backend_case(rng, tight):
    c = {"kind": "fals_backend", "n": rng.randint(5, 6), "steps": rng.choice([2, 3]), "dt": rng.choice([10.0, 20.0]),
         "seed": rng.getrandbits(40), "local": rng.random() < 0.5, "drive": rng.choice([1.0, 2.0])}
    c["steps"] = rng.choice([2, 3, 4])  # >= 2 evaluation times with different drives on the SAME Hamiltonian object
    c["order"] = rng.choice(["entropy-last", "entropy-first", "entropy-first", "entropy-only"])
    if tight:
        c["trunc"] = {"max_bond_dim": rng.choice([2, 2, 3, 4]), "precision": rng.choice([1e-5, 1e-2, 1e-1])}
    elif rng.random() < 0.7:  # very fine precision: numerically-zero Schmidt values are kept in the state
        c["trunc"] = {"max_bond_dim": 1024, "precision": rng.choice([1e-8, 1e-9, 1e-10])}
        if rng.random() < 0.6:
            c.update(steps=rng.choice([5, 6, 8]), dt=10.0, n=rng.choice([5, 6]),
                     chain={"spacing": rng.choice([6.0, 7.0, 8.0]), "omega": round(rng.uniform(3.0, 9.0), 3),
                            "delta": round(rng.uniform(-2.0, 2.0), 3), "phi": rng.choice([0.0, 0.3, 1.0])})
    return c

# ------------------------------------------------------------------------------------------------
# precision stream: generic (non-dyadic) complex128 data through every observable implementation of both backends,
# against an independent numpy complex128 reference at 1e-11 relative to the natural scale, plus a dtype oracle.  A detour
# through float32 / complex64 anywhere on the way costs >= 1e-8 relative and is invisible to the exact Gaussian-integer
# correspondences (small integers are exact in float32 too) and to the 1e-9 falsifier only marginally visible.
PREC = 1e-11


def _np_op(ops, n):
    """independent dense matrix of an operator representation over (g, r): basis index 0 = g, 1 = r"""
    import numpy as np
    E = {"gg": (0, 0), "gr": (0, 1), "rg": (1, 0), "rr": (1, 1)}
    acc = np.zeros((2 ** n, 2 ** n), dtype=complex)
    for coeff, tensor in ops:
        gates = [np.eye(2, dtype=complex) for _ in range(n)]
        for q, targets in tensor:
            m = np.zeros((2, 2), dtype=complex)
            for k, v in q.items():
                m[E[k]] += v
            for t in targets:
                gates[t] = m
        full = np.ones((1, 1), dtype=complex)
        for gt in gates:
            full = np.kron(full, gt)
        acc = acc + coeff * full
    return acc


def _rand_ops(g, n):
    import torch
    r = lambda: complex(torch.randn(1, generator=g, dtype=torch.float64).item(),  # noqa: E731
                        torch.randn(1, generator=g, dtype=torch.float64).item())
    ops = []
    for q in range(n):
        ops.append((r(), [({"gr": r(), "rg": r(), "rr": r().real}, [q])]))
    for q in range(n - 1):
        ops.append((r().real, [({"rr": 1.0, "gg": r()}, [q]), ({"gr": r(), "rg": 1.0}, [q + 1])]))
    return ops


def _schmidt_gap_ok(M, n, d):
    """every operator-Schmidt value of M across every cut is either numerically zero or far above the library's
    compression threshold 1e-5 (so that MPO @ MPO is lossless whatever the gauge)"""
    import numpy as np
    for q in range(1, n):
        dl, dr = d ** q, d ** (n - q)
        sv = np.linalg.svd(M.reshape(dl, dr, dl, dr).transpose(0, 2, 1, 3).reshape(dl * dl, dr * dr), compute_uv=False)
        if any(1e-9 * sv[0] < x < 1e-3 for x in sv):
            return False
    return True


def fals_precision(ctx, case):
    import numpy as np
    import torch
    from pulser.backend import Fidelity, Expectation
    from props import _dense_ref as ref

    g = torch.Generator()
    g.manual_seed(case["seed"])
    rep, n = case["rep"], case["n"]
    D = 2 ** n
    kw = dict(config=None)

    def bad(what, name):
        ctx.violation(f"precision stream ({rep}, {n} atoms): {what}", {"case": case, "observable": name,
                                                                        "finding_key": "observable-lost-precision"})

    def cmp(name, got, want, scale):
        t = got if isinstance(got, torch.Tensor) else torch.as_tensor(got)
        if t.dtype not in (torch.float64, torch.complex128):
            ctx.violation(f"precision stream ({rep}): {name} is returned as {t.dtype}",
                          {"case": case, "observable": name, "finding_key": "observable-dtype"})
        a = np.asarray(t.detach().cpu().numpy(), dtype=complex).reshape(-1)
        b = np.asarray(want, dtype=complex).reshape(-1)
        err = float(np.abs(a - b).max()) if a.shape == b.shape else float("inf")
        if not err <= PREC * max(1.0, scale):
            bad(f"{name} deviates by {err:.3g} from the complex128 reference (scale {scale:.3g}, allowed "
                f"{PREC * max(1.0, scale):.3g})", name)
        return err / max(1.0, scale)

    worst = 0.0
    if rep in ("sv", "dm"):
        import emu_sv.custom_callback_implementations as cci
        from emu_sv.state_vector import StateVector
        from emu_sv.density_matrix_state import DensityMatrix
        from emu_sv.dense_operator import DenseOperator
        from emu_sv.hamiltonian import RydbergHamiltonian
        from emu_sv.lindblad_operator import RydbergLindbladian
        om = torch.rand(n, generator=g, dtype=torch.float64) * 6
        de = (torch.rand(n, generator=g, dtype=torch.float64) - 0.5) * 10
        ph = (torch.rand(n, generator=g, dtype=torch.float64) - 0.5) * 4 if case["phases"] else torch.zeros(n, dtype=torch.float64)
        U = torch.rand(n, n, generator=g, dtype=torch.float64) * 3
        U = torch.triu(U, 1) + torch.triu(U, 1).T
        Hd = ref.dense_H(om.numpy(), de.numpy(), ph.numpy(), U.numpy())
        hs = float(np.abs(Hd).sum(axis=1).max())
        psi = torch.randn(D, generator=g, dtype=torch.complex128)
        psi = psi / torch.linalg.vector_norm(psi)
        oth = torch.randn(D, generator=g, dtype=torch.complex128)
        oth = oth / torch.linalg.vector_norm(oth)
        v, w = psi.numpy().copy(), oth.numpy().copy()
        bit = lambda k, q: (k >> (n - 1 - q)) & 1  # noqa: E731
        if rep == "sv":
            st, other = StateVector(psi.clone(), gpu=False), StateVector(oth.clone(), gpu=False)
            H = RydbergHamiltonian(om, de, ph, U, torch.device("cpu"))
            hv = Hd @ v
            e, m2 = float(np.vdot(v, hv).real), float(np.vdot(hv, hv).real)
            res = [("occupation", cci.qubit_occupation_sv_impl(None, state=st, hamiltonian=H, **kw), ref.occupation(v, n), 1.0),
                   ("correlation_matrix", cci.correlation_matrix_sv_impl(None, state=st, hamiltonian=H, **kw), ref.correlation(v, n), 1.0),
                   ("energy", H.expect(st), e, hs),
                   ("energy_second_moment", cci.energy_second_moment_sv_impl(None, state=st, hamiltonian=H, **kw), m2, hs * hs),
                   ("energy_variance", cci.energy_variance_sv_impl(None, state=st, hamiltonian=H, **kw), m2 - e * e, hs * hs),
                   ("fidelity", Fidelity(other, evaluation_times=[1.0]).apply(state=st, hamiltonian=H, **kw),
                    abs(np.vdot(w, v)) ** 2, 1.0)]
            ops = _rand_ops(g, n)
            O = _np_op(ops, n)
            op = DenseOperator.from_operator_repr(eigenstates=("r", "g"), n_qudits=n, operations=ops)
            res.append(("expectation", Expectation(op, evaluation_times=[1.0]).apply(state=st, hamiltonian=H, **kw),
                        np.vdot(v, O @ v), float(np.abs(O).sum(axis=1).max())))
            if st.data.dtype != torch.complex128:
                bad(f"state data became {st.data.dtype}", "state")
        else:
            p1 = 0.25 + 0.5 * torch.rand(1, generator=g, dtype=torch.float64).item()
            R = p1 * np.outer(v, v.conj()) + (1 - p1) * np.outer(w, w.conj())
            S = np.outer(w, w.conj())
            st = DensityMatrix(torch.tensor(R, dtype=torch.complex128), gpu=False)
            other = DensityMatrix(torch.tensor(S, dtype=torch.complex128), gpu=False)
            L = RydbergLindbladian(om, de, ph, [], U, torch.device("cpu"))
            p = np.real(np.diag(R))
            occ = [sum(p[k] for k in range(D) if bit(k, i)) for i in range(n)]
            cor = [[sum(p[k] for k in range(D) if bit(k, i) and bit(k, j)) for j in range(n)] for i in range(n)]
            e, m2 = float(np.trace(Hd @ R).real), float(np.trace(Hd @ Hd @ R).real)
            res = [("occupation", cci.qubit_occupation_sv_den_mat_impl(None, state=st, hamiltonian=L, **kw), occ, 1.0),
                   ("correlation_matrix", cci.correlation_matrix_sv_den_mat_impl(None, state=st, hamiltonian=L, **kw), cor, 1.0),
                   ("energy", L.expect(st), e, hs),
                   ("energy_second_moment", cci.energy_second_moment_den_mat_impl(None, state=st, hamiltonian=L, **kw), m2, hs * hs),
                   ("energy_variance", cci.energy_variance_sv_den_mat_impl(None, state=st, hamiltonian=L, **kw), m2 - e * e, hs * hs),
                   ("fidelity", Fidelity(other, evaluation_times=[1.0]).apply(state=st, hamiltonian=L, **kw),
                    np.trace(S.conj().T @ R), 1.0)]
        for name, got, want, scale in res:
            worst = max(worst, cmp(name, got, want, scale))
        return {"worst_rel": worst}
    # ---- MPS, truncation off (settings far from binding: the state is never truncated by an observable)
    import emu_mps.custom_callback_implementations as mci
    from emu_mps.mps import MPS
    from emu_mps.mpo import MPO
    d = case["d"]
    for _ in range(20):
        H = _make_mpo(g, n, d, case["phases"])
        Hd = _dense_mpo(H.factors).numpy()
        if _schmidt_gap_ok(Hd @ Hd, n, d):
            break
    else:
        return {"skipped": "no well-separated Hamiltonian found"}
    hs = float(np.abs(Hd).sum(axis=1).max())
    bonds = case["bonds"]
    fs = _rand_mps(g, bonds, d, 1.0)
    gs = _rand_mps(g, bonds, d, 1.0)
    psi = _dense_state(fs).numpy().copy()
    w = _dense_state(gs).numpy().copy().reshape(-1)
    occ_r, cor_r, e_r, m2_r, n2 = _mps_refs(psi, Hd, n, d)
    settings = dict(precision=1e-14, max_bond_dim=4096)
    st = MPS([t.clone() for t in fs], num_gpus_to_use=0, eigenstates=_eig(d), **settings)
    other = MPS([t.clone() for t in gs], num_gpus_to_use=0, eigenstates=_eig(d), **settings)
    if case["center"] is not None:
        st.orthogonalize(case["center"])
    res = [("occupation", mci.qubit_occupation_mps_impl(None, state=st, hamiltonian=H, **kw), occ_r, 1.0),
           ("correlation_matrix", mci.correlation_matrix_mps_impl(None, state=st, hamiltonian=H, **kw), cor_r, 1.0),
           ("energy", mci.energy_mps_impl(None, state=st, hamiltonian=H, **kw), e_r, hs),
           ("energy_second_moment", mci.energy_second_moment_mps_impl(None, state=st, hamiltonian=H, **kw), m2_r, hs * hs),
           ("energy_variance", mci.energy_variance_mps_impl(None, state=st, hamiltonian=H, **kw), m2_r - e_r * e_r, hs * hs),
           ("fidelity", Fidelity(other, evaluation_times=[1.0]).apply(state=st, hamiltonian=H, **kw),
            abs(np.vdot(w, psi.reshape(-1))) ** 2, 1.0)]
    if d == 2:
        ops = _rand_ops(g, n)
        # MPS basis order is (g, r) = (0, 1) as in _np_op
        O = _np_op(ops, n)
        op = MPO.from_operator_repr(eigenstates=("r", "g"), n_qudits=n, operations=ops)
        res.append(("expectation", Expectation(op, evaluation_times=[1.0]).apply(state=st, hamiltonian=H, **kw),
                    np.vdot(psi.reshape(-1), O @ psi.reshape(-1)), float(np.abs(O).sum(axis=1).max())))
    for name, got, want, scale in res:
        worst = max(worst, cmp(name, got, want, scale))
    if any(f.dtype != torch.complex128 for f in st.factors):
        bad("an MPS factor is no longer complex128", "state")
    # the same Hamiltonian OBJECT after its drives were rewritten in place (update_H), as the backend does between steps
    from emu_mps.hamiltonian import update_H
    c = lambda x: x.to(torch.complex128)  # noqa: E731
    update_H(hamiltonian=H, omega=c(torch.rand(n, generator=g, dtype=torch.float64) * 6),
             delta=c((torch.rand(n, generator=g, dtype=torch.float64) - 0.5) * 10),
             phi=c((torch.rand(n, generator=g, dtype=torch.float64) - 0.5) * 4), noise=torch.zeros(d, d, dtype=torch.complex128))
    Hd2 = _dense_mpo(H.factors).numpy()
    hs2 = float(np.abs(Hd2).sum(axis=1).max())
    _, _, e2, m22, _ = _mps_refs(psi, Hd2, n, d)
    got_m2 = float(mci.energy_second_moment_mps_impl(None, state=st, hamiltonian=H, **kw))
    got_var = float(mci.energy_variance_mps_impl(None, state=st, hamiltonian=H, **kw))
    got_e = float(mci.energy_mps_impl(None, state=st, hamiltonian=H, **kw))
    tol = _tol_m2(n, 1.0, hs2)
    if abs(got_e - e2) > TOL * max(1.0, hs2) or abs(got_m2 - m22) > tol or abs(got_var - (m22 - e2 * e2)) > tol:
        ctx.violation(f"after update_H on the same Hamiltonian object: energy {got_e} / second moment {got_m2} / variance "
                      f"{got_var} vs definitions {e2} / {m22} / {m22 - e2 * e2} with the Hamiltonian of that time",
                      {"case": case, "finding_key": "mps-moments-stale-hamiltonian"})
    return {"worst_rel": worst}


def gen_precision_case(rng, rep):
    c = {"kind": "fals_precision", "rep": rep, "seed": rng.getrandbits(40), "phases": rng.random() < 0.7}
    if rep == "sv":
        c["n"] = rng.randint(2, 7)
    elif rep == "dm":
        c["n"] = rng.randint(2, 5)
    else:
        c["d"] = d = rng.choice([2, 2, 3])
        c["n"] = n = rng.randint(2, 6) if d == 2 else rng.randint(2, 4)
        chi = rng.randint(2, 5)
        c["bonds"] = [1] + [min(chi, d ** min(i, n - i)) for i in range(1, n)] + [1]
        c["center"] = rng.choice([None] + list(range(n)))
    return c

# ------------------------------------------------------------------------------------------------
# entanglement entropy on FRESH states whose bond dimension exceeds the Schmidt rank (the other observables of
# fals_mps orthogonalise the state back and forth first, which removes every redundant bond direction)
def _schmidt_entropy(v, n, d, cut):
    """definition: -sum p log p over the squared Schmidt values of the normalised dense state across cut|cut+1"""
    import numpy as np
    s = np.linalg.svd(np.asarray(v).reshape(d ** (cut + 1), -1), compute_uv=False)
    p = s ** 2
    p = p / p.sum()
    p = p[p > 1e-300]
    return float(-(p * np.log(p)).sum())


def _entropy_state(case):
    """factors of the (unnormalised, non-canonical) state described by the case"""
    import torch
    from emu_mps.algebra import add_factors

    g = torch.Generator()
    g.manual_seed(case["seed"])
    n, d, kind = case["n"], case["d"], case["state"]
    rnd = lambda *shape: torch.randn(*shape, generator=g, dtype=torch.complex128)  # noqa: E731

    def pad(fs, k):
        out = []
        for i, f in enumerate(fs):
            l, _, r = f.shape
            L, R = (l if i == 0 else l + k), (r if i == len(fs) - 1 else r + k)
            t = torch.zeros(L, d, R, dtype=torch.complex128)
            t[:l, :, :r] = f
            out.append(t)
        return out

    def gauge(fs):
        out = [f.clone() for f in fs]
        for i in range(len(out) - 1):
            chi = out[i].shape[2]
            G = rnd(chi, chi) + 2.0 * torch.eye(chi, dtype=torch.complex128)
            out[i] = torch.tensordot(out[i], G, dims=1)
            out[i + 1] = torch.tensordot(torch.linalg.inv(G), out[i + 1], dims=1)
        return out

    base_bonds = [1] + [min(case["chi"], d ** min(i, n - i)) for i in range(1, n)] + [1]
    if kind == "fat":  # uniform bond dimension chi, larger than the Schmidt rank near the ends
        bonds = [1] + [case["chi"]] * (n - 1) + [1]
        fs = [rnd(bonds[i], d, bonds[i + 1]) for i in range(n)]
    elif kind == "zero-padded":
        fs = pad([rnd(base_bonds[i], d, base_bonds[i + 1]) for i in range(n)], case["pad"])
    elif kind == "padded-gauged":
        fs = gauge(pad([rnd(base_bonds[i], d, base_bonds[i + 1]) for i in range(n)], case["pad"]))
    elif kind == "rank-deficient":  # every bond matrix is a product through a smaller dimension
        fs = []
        for i in range(n):
            l, r = (1 if i == 0 else case["chi"]), (1 if i == n - 1 else case["chi"])
            f = rnd(l, d, r)
            if i < n - 1:
                f = torch.tensordot(f, rnd(r, 1) @ rnd(1, r) + (rnd(r, 1) @ rnd(1, r) if case["chi"] > 2 else 0), dims=1)
            fs.append(f)
    elif kind == "sum-identical":  # psi + psi through add_factors, no truncation: bonds double, ranks do not
        one = [rnd(base_bonds[i], d, base_bonds[i + 1]) for i in range(n)]
        fs = add_factors(one, [f.clone() for f in one])
    elif kind in ("ghz-inflated", "product-inflated"):
        fs = []
        for i in range(n):
            l, r = (1 if i == 0 else 2), (1 if i == n - 1 else 2)
            f = torch.zeros(l, d, r, dtype=torch.complex128)
            if kind == "ghz-inflated":
                for a in range(2):
                    f[min(a, l - 1), a, min(a, r - 1)] = 1.0
            else:
                f[0, :, 0] = rnd(d)
            fs.append(f)
        fs = gauge(pad(fs, case["pad"]))
    else:
        raise ValueError(kind)
    return fs


def fals_entropy(ctx, case):
    import numpy as np
    import torch
    from emu_mps.mps import MPS
    from emu_mps.observables import EntanglementEntropy

    n, d = case["n"], case["d"]
    fs = _entropy_state(case)
    if case.get("apply") is not None:  # a single-qubit operator applied through MPS.apply (no truncation)
        g = torch.Generator()
        g.manual_seed(case["seed"] + 1)
        tmp = MPS([f.clone() for f in fs], num_gpus_to_use=0, eigenstates=_eig(d))
        tmp.apply(case["apply"], torch.randn(d, d, generator=g, dtype=torch.complex128))
        fs = tmp.factors
    psi = _dense_state(fs).numpy().copy()
    nrm = float(np.linalg.norm(psi.reshape(-1)))
    if not nrm > 1e-8:
        return {"skipped": "zero state"}
    fs = [f.clone() for f in fs]
    k0 = case["apply"] if case.get("apply") is not None else 0
    fs[k0] = fs[k0] / nrm  # scaling the orthogonality centre keeps the declared centre honest
    v = psi.reshape(-1) / nrm

    def make():
        st = MPS([f.clone() for f in fs], num_gpus_to_use=0, eigenstates=_eig(d),
                 orthogonality_center=None if case.get("apply") is None else case["apply"])
        if case.get("pre_center") is not None:
            st.orthogonalize(case["pre_center"])
        return st

    shared = make()
    worst = 0.0
    for cut in range(n - 1):
        S_ref = _schmidt_entropy(v, n, d, cut)
        kk = min(cut + 1, n - cut - 1)
        for how, st in (("fresh", make()), ("same-object", shared)):
            S = float(EntanglementEntropy(cut).apply(state=st))
            if not (math.isfinite(S) and abs(S - S_ref) <= 1e-8 * max(1.0, S_ref)):
                ctx.violation(f"entanglement entropy at cut {cut}|{cut + 1} ({how}, {case['state']} state, bonds "
                              f"{[f.shape[2] for f in fs[:-1]]}): reported {S}, Schmidt spectrum of the contracted state gives {S_ref}",
                              {"case": case, "cut": cut, "finding_key": "entropy-not-definition"})
            if not (math.isfinite(S) and -1e-9 <= S <= kk * math.log(d) + 1e-8):
                ctx.violation(f"entanglement entropy at cut {cut}|{cut + 1} ({how}, {case['state']} state) is {S}, outside "
                              f"[0, log {d}^{kk}]", {"case": case, "cut": cut, "finding_key": "entropy-out-of-range"})
            if math.isfinite(S):
                worst = max(worst, abs(S - S_ref))
        after = _dense_state(shared.factors).numpy().reshape(-1)
        if not _close(after, v, 1.0):
            ctx.violation("computing the entanglement entropy changed the state", {"case": case, "finding_key": "mps-state-changed"})
    return {"worst_abs": worst}


ENTROPY_STATES = ["fat", "zero-padded", "padded-gauged", "rank-deficient", "sum-identical", "ghz-inflated", "product-inflated"]


def gen_entropy_case(rng, state=None, d=None):
    d = d or rng.choice([2, 2, 3])
    n = rng.randint(3, 6) if d == 2 else rng.randint(3, 4)
    c = {"kind": "fals_entropy", "state": state or rng.choice(ENTROPY_STATES), "d": d, "n": n, "seed": rng.getrandbits(40),
         "chi": rng.choice([2, 3, 4, 6]), "pad": rng.choice([1, 2, 3]),
         "pre_center": rng.choice([None, None, None] + list(range(n))), "apply": None}
    if rng.random() < 0.2:
        c["apply"], c["pre_center"] = rng.randrange(n), None
    return c


def entropy_sweep(rng):
    """always run: every kind of redundant state, qubit and qutrit (the demo's n=5, chi in {4, 6} included)"""
    out = [dict(gen_entropy_case(rng, st, d), pre_center=None, apply=None, sweep=True) for st in ENTROPY_STATES for d in (2, 3)]
    for chi in (4, 6):
        out.append({"kind": "fals_entropy", "state": "fat", "d": 2, "n": 5, "seed": rng.getrandbits(40), "chi": chi, "pad": 1,
                    "pre_center": None, "apply": None, "sweep": True})
    return out


def gen_fals_case(rng, kind):
    seed = rng.getrandbits(40)
    scale = rng.choice([1.0, 1.0, 0.3, 7.0])
    if kind in ("fals_sv", "fals_dm"):
        N = rng.randint(1, 8) if kind == "fals_sv" else rng.randint(1, 5)
        return {"kind": kind, "N": N, "seed": seed, "scale": scale, "normalise": rng.random() < 0.5,
                "phases": rng.random() < 0.6, "rank": rng.randint(1, 3)}
    d = rng.choice([2, 2, 3])
    if kind == "fals_mps":
        n = rng.randint(2, 8 if d == 2 else 5)
        chi = rng.randint(1, 4)
        bonds = [1] + [rng.randint(1, chi) for _ in range(n - 1)] + [1]
        c = {"kind": kind, "n": n, "d": d, "bonds": bonds, "seed": seed, "scale": scale,
             "center": rng.choice([None, None] + list(range(n))), "phases": rng.random() < 0.6}
        if rng.random() < 0.5:  # the state carries tight truncation settings and saturates its cap
            cap = rng.choice([2, 3, 4, 6])
            c["n"] = n = rng.randint(5, 7) if d == 2 else rng.randint(4, 5)
            c["bonds"] = _sat_bonds(n, d, cap)
            c["trunc"] = {"max_bond_dim": cap, "precision": rng.choice([1e-5, 1e-1, 1e-2, 1e-3, 0.2])}
            c["center"] = rng.choice([None] + list(range(n)))
            c["scale"] = rng.choice([1.0, 1.0, 0.3, 1.5])
        return c
    # fill_results
    n_good = rng.randint(2, 6 if d == 2 else 4)
    n_dark = rng.choice([0, 1, 1, 2, 3])
    mask = [True] * n_good + [False] * n_dark
    rng.shuffle(mask)
    style = rng.choice(["random", "random", "leading", "trailing", "adjacent"])
    if style == "leading":
        mask = sorted(mask)
    elif style == "trailing":
        mask = sorted(mask, reverse=True)
    elif style == "adjacent" and n_dark >= 2:
        mask = [True] + [False] * n_dark + [True] * (n_good - 1)
    chi = rng.randint(1, 4)
    bonds = [1] + [rng.randint(1, chi) for _ in range(n_good - 1)] + [1]
    scale = rng.choice([1.0, 0.3, 1.5, round(rng.uniform(0.3, 1.5), 3), round(rng.uniform(0.3, 1.5), 3), 7.0])
    c = {"kind": "fals_fill", "mask": mask, "d": d, "bonds": bonds, "seed": seed, "scale": scale,
         "center": rng.choice([None] + list(range(n_good))), "force_filter": rng.random() < 0.3, "style": style,
         "impl": rng.choice(["plain", "noisy"])}
    if rng.random() < 0.4:
        cap = rng.choice([2, 3, 4])
        c["bonds"] = _sat_bonds(n_good, d, cap)
        c["trunc"] = {"max_bond_dim": cap, "precision": rng.choice([1e-5, 1e-1, 1e-3])}
    return c


def trunc_sweep(rng):
    """deterministic part, always run: entangled states of 5-7 atoms saturating a small max_bond_dim / carrying a coarse
    precision, through the observables' apply (fals_mps) and through fill_results without dark atoms (fals_fill)"""
    out = []
    for n, cap, prec in ((6, 4, 1e-5), (6, 2, 1e-5), (5, 3, 1e-3), (7, 6, 1e-1), (6, 4, 0.2), (5, 2, 1e-2)):
        base = {"d": 2, "bonds": _sat_bonds(n, 2, cap if prec < 0.1 or cap < 6 else 4), "seed": rng.getrandbits(40),
                "trunc": {"max_bond_dim": cap, "precision": prec}, "sweep": True}
        out.append(dict(base, kind="fals_mps", n=n, scale=1.0, center=0, phases=True))
        out.append(dict(base, kind="fals_fill", mask=[True] * n, scale=rng.choice([0.7, 1.0]), center=0,
                        force_filter=False, style="none", impl=rng.choice(["plain", "noisy"])))
    out.append({"kind": "fals_mps", "d": 3, "n": 4, "bonds": _sat_bonds(4, 3, 3), "seed": rng.getrandbits(40), "scale": 1.0,
                "center": 0, "phases": True, "trunc": {"max_bond_dim": 3, "precision": 1e-5}, "sweep": True})
    return out


def fill_sweep(rng):
    """deterministic part, always run: every mask kind x dimension x backend class x internal-state norm
    (Lindbladian noise between quantum jumps leaves the trajectory state with norm < 1)"""
    masks = {"none": [True, True, True], "leading": [False, True, True, True], "trailing": [True, True, False],
             "adjacent": [True, False, False, True], "middle": [True, False, True], "both-ends": [False, True, True, False]}
    out = []
    for d in (2, 3):
        for style, mask in masks.items():
            for impl in ("plain", "noisy"):
                for scale in (0.3, 0.8, 1.0, 1.5):
                    n = sum(mask)
                    bonds = [1] + [2] * (n - 1) + [1]
                    out.append({"kind": "fals_fill", "mask": mask, "d": d, "bonds": bonds, "seed": rng.getrandbits(40),
                                "scale": scale, "center": rng.choice([None] + list(range(n))),
                                "force_filter": style == "none" and impl == "noisy", "style": style, "impl": impl,
                                "sweep": True})
    return out


FALS = {"fals_sv": fals_sv, "fals_dm": fals_sv, "fals_mps": fals_mps, "fals_fill": fals_fill,
        "fals_backend": fals_backend, "fals_precision": fals_precision, "fals_entropy": fals_entropy}


def corpus_cases():
    p = common.VERIF / "corpus" / "C13.json"
    return json.loads(p.read_text()) if p.exists() else []


# ------------------------------------------------------------------------------------------------
def run(ctx):
    from vlib.coqparse import parse

    rc, out = common.coq_make(["Model/SvObs.vo", "Model/MpsPad.vo", "Model/MpsObs.vo"])
    ctx.obligation("build:Model/SvObs.vo Model/MpsPad.vo Model/MpsObs.vo", rc == 0, out, kind="build")
    model_ok = rc == 0
    common.standard_proof_stage(ctx, "C13", ["Properties/C13.vo"])

    global PAD_V2
    PAD_V2 = probe_padding_variant()
    ctx.extra["padding_variant"] = "dimension of the given factors (v2)" if PAD_V2 else "physical dimension 2 (as found, F-14)"
    rng, th = ctx.rng, ctx.thorough()
    hist = {}

    def h(key):
        hist[key] = hist.get(key, 0) + 1

    # ---- corpus + falsifier on the real code ----------------------------------------------------
    fcases = [dict(c, corpus=True) for c in corpus_cases()]
    fcases += fill_sweep(rng)
    fcases += trunc_sweep(rng)
    fcases += [gen_backend_case(rng, tight=(i % 3 != 2)) for i in range(ctx.n(3, 15))]
    fcases += entropy_sweep(rng)
    fcases += [gen_entropy_case(rng) for _ in range(ctx.n(20, 250))]
    for rep, nq, nt in (("sv", 10, 100), ("dm", 6, 60), ("mps", 10, 100)):
        fcases += [gen_precision_case(rng, rep) for _ in range(ctx.n(nq, nt))]
    for kind, nq, nt in (("fals_sv", 40, 400), ("fals_dm", 20, 200), ("fals_mps", 30, 250), ("fals_fill", 30, 250)):
        fcases += [gen_fals_case(rng, kind) for _ in range(ctx.n(nq, nt))]
    prec_worst = [0.0]
    for c in fcases:
        info = FALS[c["kind"]](ctx, c)
        size = c.get("N") or c.get("n") or len(c.get("mask", []))
        if c["kind"] == "fals_entropy":
            h(f"entropy/{c['state']}/d={c['d']}")
        if c["kind"] == "fals_precision":
            h(f"precision/{c['rep']}")
            prec_worst[0] = max(prec_worst[0], (info or {}).get("worst_rel", 0.0))
        h(f"{c['kind']}/d={c.get('d', 2)}/size={size}")
        if c["kind"] in ("fals_mps", "fals_fill", "fals_backend"):
            h(f"{c['kind']}/settings={'tight' if c.get('trunc') else 'default'}")
        if c["kind"] == "fals_fill":
            h(f"fill/dark={len(c['mask']) - sum(c['mask'])}/{c['style']}")
            h(f"fill/impl={c.get('impl', 'plain')}/norm={'1' if c['scale'] == 1.0 else ('<1' if c['scale'] < 1 else '>1')}")
        ctx.count_case({k: v for k, v in c.items()} | {"info": info}, size >= 2)

    # ---- exact correspondence model <-> real code -------------------------------------------------
    ev_sv = common.CoqEval("C13sv", HEADER_SV)
    ev_mps = common.CoqEval("C13mps", HEADER_MPS)
    pend_sv, pend_mps = [], []
    ecases = []
    limits = {"sv_occ": (5, 6), "dm_occ": (4, 5), "sv_energy": (3, 3), "dm_energy": (2, 3)}
    for kind, nq, nt in (("sv_occ", 14, 120), ("dm_occ", 10, 80), ("sv_energy", 10, 80), ("dm_energy", 8, 60)):
        nmax = limits[kind][1 if th else 0]
        for i in range(ctx.n(nq, nt)):
            ecases.append(gen_sv_exact(rng, 1 + i % nmax, kind))
    for c in ecases:
        r = impl_sv_exact(c)
        ok = oracle_sv_exact(ctx, c, r)
        h(f"{c['kind']}/N={c['N']}")
        ctx.count_case({"kind": c["kind"], "N": c["N"], "hermitian": c.get("hermitian"), "oracle_ok": ok,
                        "data": c.get("psi") or c.get("rho")}, c["N"] >= 2)
        if model_ok:
            for name, e, want in exprs_sv_exact(c, r):
                pend_sv.append((c, name, ev_sv.add(e), want))
    pcases = [gen_pad_case(rng, mpo) for mpo in (False, True) for _ in range(ctx.n(30, 250) if not mpo else ctx.n(15, 120))]
    for c in pcases:
        out = impl_pad(c)
        oracle_pad(ctx, c, out)
        h(f"{c['kind']}/{c['style']}/dark={len(c['mask']) - sum(c['mask'])}/d={c['d']}")
        ctx.count_case({k: c[k] for k in ("kind", "mask", "d", "style", "n_factors")} | {"raised": out is None,
                       "f0": c["factors"][:1]}, out is not None and not all(c["mask"]))
        if model_ok:
            e, want = exprs_pad(ctx, c, out)
            pend_mps.append((c, c["kind"], ev_mps.add(e), want))
    idx_rows = {}
    for L in range(0, (8 if th else 6) + 1):
        rows = ext_index_check(ctx, L)
        ctx.count_case({"kind": "ext_index", "L": L, "masks": 2 ** L}, L >= 2)
        h(f"ext_index/L={L}")
        if model_ok:
            masks = "[" + "; ".join(_mask(m) for m, _ in rows) + "]"
            i = ev_mps.add(f"map (fun m => map (ext_index m) (seq 0 {_nat(L + 1)})) {masks}")
            idx_rows[i] = (L, [[("Some", e) if e is not None else None for e in row] for _, row in rows])
    i_none = ev_mps.add("get_extended_site_index [true; false] None") if model_ok else None
    # MPS.expect_batch / qubit_occupation_mps_impl under integer QR oracles (Model/MpsObs.v)
    ev_obs = common.CoqEval("C13obs", HEADER_OBS)
    pend_obs = []
    for i in range(ctx.n(36, 300)):
        c = gen_obs_case(rng, canonical=(i % 3 == 0))
        r = impl_obs(c)
        oracle_obs(ctx, c, r)
        h(f"mps_expect/{'canonical' if c['canonical'] else 'non-canonical'}/{c['oracle']}/d={c['d']}")
        h(f"mps_expect/n={c['n']}/centre={c['center']}")
        ctx.count_case({k: c[k] for k in ("kind", "d", "n", "center", "canonical", "oracle", "ops")} |
                       {"f": c["factors"][:2]}, True)
        if model_ok:
            e, want = exprs_obs(c, r)
            pend_obs.append((c, r, ev_obs.add(e), want))

    corr_ok, detail = model_ok, "" if model_ok else "model does not build"
    n_cmp = 0
    if model_ok:
        try:
            outs = ev_sv.run(shard=30, jobs=12)
            for c, name, idx, want in pend_sv:
                v = parse(outs[idx])
                n_cmp += 1
                if v != want and corr_ok:
                    corr_ok = False
                    detail = f"{name}: model/impl differ ({v}); case={json.dumps(c)[:900]}"
                    ctx.extra["first_disagreement"] = {"case": c, "what": name, "result": str(v)}
            outs = ev_mps.run(shard=30, jobs=12)
            for c, name, idx, want in pend_mps:
                v = _norm(parse(outs[idx]))
                n_cmp += 1
                if v != _norm(want) and corr_ok:
                    corr_ok = False
                    detail = f"{name}: model {str(v)[:300]} real {str(want)[:300]}; case={json.dumps(c)[:900]}"
                    ctx.extra["first_disagreement"] = {"case": c, "what": name, "model": str(v)[:2000], "real": str(want)[:2000]}
            for i, (L, want) in idx_rows.items():
                v = _norm(parse(outs[i]))
                n_cmp += 1
                if v != _norm(want) and corr_ok:
                    corr_ok, detail = False, f"ext_index differs from get_extended_site_index at mask length {L}"
            v = _norm(parse(outs[i_none]))
            if v != _norm(("Some", None)) and corr_ok:
                corr_ok, detail = False, f"get_extended_site_index None case: model {v}"
        except (common.CoqEvalError, ValueError) as ex:
            corr_ok, detail = False, str(ex)
    obs_ok, obs_detail, n_obs = model_ok, "" if model_ok else "model does not build", 0
    if model_ok:
        try:
            outs = ev_obs.run(shard=25 if th else 9, jobs=12)
            for c, r, idx, want in pend_obs:
                v = _norm(parse(outs[idx]))
                n_obs += 1
                got_T, got_occ = v[0], v[1]
                occ_model = [float(z[0]) for z in got_occ[1]] if isinstance(got_occ, list) and got_occ[0] == "Some" else None
                if (got_T != _norm(want) or occ_model != r["occ"]) and obs_ok:
                    obs_ok = False
                    obs_detail = (f"expect_batch/occupation: model {str(v)[:400]} real {str(want)[:300]} occ {r['occ']}; "
                                  f"case={json.dumps(c)[:900]}")
                    ctx.extra["first_disagreement_obs"] = {"case": c, "model": str(v)[:2000], "real": str(want)[:2000]}
        except (common.CoqEvalError, ValueError) as ex:
            obs_ok, obs_detail = False, str(ex)
    ctx.obligation("correspondence:Model.MpsObs.expect_batch/occupation==MPS.expect_batch/qubit_occupation_mps_impl "
                   "(exact on Gaussian integers, torch.linalg.qr interposed by the integer oracles qr_id / qr_mix; canonical "
                   "and non-canonical chains, every centre)", obs_ok, obs_detail, kind="correspondence")
    ctx.extra["tie_mps_obs"] = {"exact_comparisons": n_obs}
    ctx.extra["tie"] = {"exact_comparisons": n_cmp}
    ctx.extra["precision_stream"] = {"tolerance_rel": PREC, "worst_rel_error": prec_worst[0]}
    ctx.extra["input_distribution"] = dict(sorted(hist.items()))
    ctx.obligation("correspondence:Model.SvObs==emu_sv callbacks; Model.MpsPad==extended_mps_factors/"
                   "extended_mpo_factors/get_extended_site_index (exact on Gaussian integers)", corr_ok, detail,
                   kind="correspondence")
    ctx.rule = ("exact: Gaussian-integer state vectors N<=5 (6), density matrices N<=4 (5), Hermitian and "
                "non-Hermitian integer matrices as Hamiltonian (D<=8), Gaussian-integer MPS/MPO chains with 0-5 good and "
                "0-3 dark atoms (random / leading / trailing / adjacent masks, 15% wrong factor counts), every mask "
                "of length <= 6 (8) for the site index; MPS.expect_batch / qubit_occupation_mps_impl on Gaussian-integer "
                "chains of 2-5 qubits / 2-4 qutrits, bonds 1-3, every declared centre, 1-3 random operators, "
                "torch.linalg.qr replaced by the integer oracles R = M (Gram-preserving) and a deliberately wrong R; one "
                "third canonical chains (unit-phase isometries around a random centre) on which the table must equal the "
                "dense <psi|O_q|psi> exactly; falsifier: random complex unnormalised/normalised state "
                "vectors (N 1-8), density matrices (N 1-5), non-canonical MPS (qubit 2-8, qutrit 2-5 atoms, random "
                "bonds 1-4, orthogonality centre None or any site) with the real Hamiltonian objects, and "
                "entanglement entropy at every cut of fresh states with redundant bonds (fat / zero-padded / gauged / "
                "rank-deficient / psi+psi / inflated GHZ and product states, qubit and qutrit, also after MPS.apply) and in "
                "MPSBackend runs at precision 1e-8..1e-10; precision stream (generic complex128 state vectors 2-7, density matrices 2-5, MPS 2-6 atoms with truncation "
                "off, every observable incl. fidelity and expectation, numpy complex128 reference at 1e-11 * scale, dtype "
                "oracle; MPS moments re-evaluated on the same Hamiltonian object after update_H); MPSBackend runs with 2-4 "
                "evaluation times under time-dependent drives; "
                "fill_results (MPSBackendImpl and NoisyMPSBackendImpl) with dark-atom masks and internal states of norm 0.3-1.5 "
                "(always: the sweep 2 dims x 6 mask kinds x 2 classes x 4 norms; a probe observable records the state "
                "object handed to the callbacks); non-trivial = at least 2 atoms (padding: at least one dark atom); "
                "distinct by input hash")
    ctx.trusted_base += ["hand-written Gallina models coq/Model/SvObs.v, coq/Model/MpsPad.v, coq/Model/MpsObs.v (F2/F3 "
                         "semantics of torch views and contractions), validated by the exact correspondence on every run",
                         "numpy / torch dense linear algebra for the falsifier references (tools/props/_dense_ref.py)"]
    ctx.assumptions += ["`torch.linalg.vector_norm(x) ** 2` is modelled as sum |x_k|^2: for the exact comparison the "
                        "module's name `torch` is rebound to a proxy returning the exact sum of squares; the unmodified "
                        "functions are compared with tolerance 1e-9 (relative to |psi|^2)",
                        "the Hamiltonian object is an arbitrary matrix in the energy theorems (duck-typed stub in the "
                        "exact tie; real RydbergHamiltonian / RydbergLindbladian / MPO objects in the falsifier)",
                        "torch.linalg.qr inside MPS.expect_batch is an oracle of the model (only R is used): proved is that "
                        "the table depends on R only through R^dagger R (any Gram-preserving QR gives the table of R = M); "
                        "for the exact tie emu_mps.mps.torch is rebound to a proxy whose linalg.qr returns the integer "
                        "oracle's R; the orthogonality_center=None branch (orthogonalize(0) first) is not modelled",
                        "that the table equals <psi|O_q|psi> when the declared centre is truthful is checked exactly on "
                        "Gaussian-integer canonical chains and at 1e-9 by the falsifier, not proved; "
                        "correlation matrix (QR inside) and entanglement entropy (SVD) are "
                        "validated, not proved: tolerance 1e-9 * scale; H^2 through MPO @ MPO truncates at 1e-5, "
                        f"tolerance 1e-9 * ||H||^2 + {TOL_MPO2} * sites (absolute, normalised state)",
                        "states with a declared orthogonality centre are produced by MPS.orthogonalize (a false "
                        "declaration is outside the property)"]


def _norm(v):
    if isinstance(v, (list, tuple)):
        return [_norm(x) for x in v]
    return v


def replay(ctx, path):
    rp = json.loads(open(path).read())
    c = rp["case"]
    k = c["kind"]
    if k in FALS:
        print("replay:", k, FALS[k](ctx, c))
    elif k in ("pad_mps", "pad_mpo"):
        oracle_pad(ctx, c, impl_pad(c))
    elif k == "ext_index":
        ext_index_check(ctx, len(c["mask"]))
    else:
        print("replay: oracle", oracle_sv_exact(ctx, c, impl_sv_exact(c)))


META = {
    "category": "proof",
    "technique": "Coq proofs over arbitrary commutative rings with involution (all N, all masks, all chains; ranges over C; "
                 "QR as a Gram-preserving oracle) + exact dyadic/Gaussian-integer correspondence of the Gallina models with "
                 "the torch code (torch.linalg.qr interposed by integer oracles) + dense falsifier",
    "text": ("Proved for every N: state-vector and density-matrix occupation / correlation callbacks compute the Born "
             "sums over the basis states with the selected bits set (symmetric, diagonal = occupation, = <n_i>), in "
             "[0,1] for normalised states; energy second moment / variance equal <H^2>, <H^2>-<H>^2 for Hermitian H, "
             "variance = ||(H-<H>)psi||^2 >= 0; tr(H(H rho)) = tr(rho H^2). Proved for every mask and chain: the "
             "dark-atom padding of MPS and MPO gives psi (x) |g..g> resp. O (x) 1 amplitude by amplitude, and the "
             "extended site index is the position of the k-th True. Proved for every chain with fitting bonds, every "
             "declared centre and every batch of one-site operators (C13_mps_expect_batch_gauge, C13_mps_qr_step_gram; "
             "non-vacuity C13_mps_expect_batch_gauge_nonvacuous): the table of MPS.expect_batch (Model/MpsObs.v, both "
             "sweeps, torch.linalg.qr an oracle) depends on the R factors only through R^dagger R, so every "
             "Gram-preserving QR gives the table of R = M (no factorisation). Tied exactly: expect_batch and "
             "qubit_occupation_mps_impl under integer QR oracles on canonical and non-canonical Gaussian-integer chains; "
             "on the canonical ones the table equals the dense <psi|O_q|psi> exactly (oracle, not proved). Validated, not "
             "proved: equality of MPS expectation values with the dense formula under the canonical-form premise, "
             "correlation matrix, MPO.expect, entropy (QR/SVD) against dense formulas; that the models are the torch code."),
    "note": ("Trusted: Coq kernel+VM, stdlib real-number axioms (ranges only), the hand-written models (tied exactly on "
             "every run), exactness of float64 on small Gaussian integers, numpy references; that LAPACK's QR preserves "
             "the Gram matrix up to rounding (hypothesis qr_gram_ok of the expect_batch theorems)."),
}
